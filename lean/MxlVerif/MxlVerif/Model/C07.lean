/-
C07 — executable model of `mxlpy/meta/codegen_model.py::_generate_model_code` (lines 35-133,
after the `fix:` commits recorded in known_findings.d/C07.json) as a generator of
straight-line programs, and the sequential semantics of those programs.

A generated program is not text here but its structure: how the state vector is unpacked,
the assignments in emission order (target name, right-hand side) and the returned names.
The pieces that depend on the language template (`assignment_template`, `variables_template`,
`return_template`, `sized`) are computed from the tokens in `Generated/C07Templates.lean`.

Right-hand sides: the Python functions of derived quantities / reactions are opaque
`List Rat → Rat` applied to the values of their model arguments (ASSUMPTION, C06's subject:
`fn_to_sympy(fn, model_args)` followed by the sympy code printer denotes exactly that);
a differential equation is the sum `Σ coefficient × rate` that `stoichiometries_to_sympy` builds.
-/
import MxlVerif.Model.Core
import MxlVerif.Generated.C07Templates
namespace Mxl.C07

def templateOf : Lang → Template
  | .py => Gen.pyT
  | .ts => Gen.tsT
  | .rs => Gen.rsT
  | .jl => Gen.jlT

inductive Rhs where
  | const (q : Rat)
  | app (f : Fn)
  | lin (terms : List (Name × Coef))   -- (reaction name, coefficient) in `diff_eqs[var]` order
deriving Inhabited

structure SLP where
  lang : Lang
  unpack : Unpack
  inputs : List Name              -- names the state vector is destructured into
  extra : List Name               -- free parameters: further function arguments
  assigns : List (Name × Rhs)
  ret : List Name
  retUnit : Bool                  -- the return line was instantiated with `()`
  retBracket : Bool
  retLen : Option Nat             -- length fixed by the function header (Rust)
deriving Inhabited

/-! ### sequential semantics -/

def evalCoef (env : Env) : Coef → Except Err Rat
  | .num c => pure c
  | .dyn f => f.calc env

def evalLin (env : Env) : List (Name × Coef) → Rat → Except Err Rat
  | [], acc => pure acc
  | (r, cf) :: rest, acc => do
    let n ← evalCoef env cf
    let v ← env.get r
    evalLin env rest (acc + n * v)

def evalRhs (env : Env) : Rhs → Except Err Rat
  | .const q => pure q
  | .app f => f.calc env
  | .lin ts => evalLin env ts 0

def runAssigns : List (Name × Rhs) → Env → Except Err Env
  | [], env => pure env
  | (k, r) :: rest, env => do
    let v ← evalRhs env r
    runAssigns rest (env.set k v)

def zipBind (names : List Name) (xs : List Rat) (env : Env) : Except Err Env :=
  if names.length == xs.length then pure (env.setMany (names.zip xs))
  else .error (.valueError "unpack")

/-- the line produced by `variables_template` (absent when there are no variables) -/
def bindInputs (u : Unpack) (names : List Name) (xs : List Rat) (env : Env) : Except Err Env :=
  if names.isEmpty then pure env
  else match u with
    | .invalid => .error (.other "SyntaxError")
    | .bare => if names.length == 1 then .error (.other "TypeError") else zipBind names xs env
    | .bracket => zipBind names xs env

/-- what a parser / compiler of the target language rejects before anything runs -/
def SLP.static (p : SLP) : Except Err Unit :=
  if !p.inputs.isEmpty && p.unpack == .invalid then .error (.other "SyntaxError")
  else if p.retUnit && p.retBracket && p.lang == .ts then .error (.other "SyntaxError")
  else pure ()

def checkRet (p : SLP) (out : List Rat) : Except Err (List Rat) :=
  match p.retLen with
  | some n => if p.retUnit || out.length != n then .error (.other "ReturnTypeMismatch") else pure out
  | none =>
    -- `return [()]`: a list holding an empty tuple, not a sequence of numbers (Python; TypeScript rejects the
    -- text before, see `SLP.static`); Julia's `return ()` is the empty tuple
    if p.retUnit && p.retBracket then .error (.other "ReturnNotNumeric") else pure out

/-- `model(time, variables, *free)` -/
def runSLP (p : SLP) (t : Rat) (xs ps : List Rat) : Except Err (List Rat) := do
  p.static
  if ps.length != p.extra.length then .error (.other "TypeError")
  else
    let env1 := Env.setMany [("time", t)] (p.extra.zip ps)
    let env2 ← bindInputs p.unpack p.inputs xs env1
    let env3 ← runAssigns p.assigns env2
    let out ← p.ret.mapM env3.get
    checkRet p out

/-! ### the generator -/

/-- `for key in free_parameters: parameters.pop(key)` -/
def popAll (m : List (Name × Rat)) : List Name → Except Err (List (Name × Rat))
  | [] => pure m
  | k :: ks => if (omKeys m).contains k then popAll (omErase m k) ks else .error (.keyError k)

/-- derived quantities and reactions in the model's dependency order; `bad` = components whose
    function `fn_to_sympy` cannot translate (`ValueError("Unable to parse fn ...")`) -/
def emitBody (bad : List Name) (c : Content) : List Name → Except Err (List (Name × Rhs))
  | [] => pure []
  | n :: ns =>
    match c.derived.lookup n with
    | some f =>
      if bad.contains n then .error (.valueError n)
      else do pure ((n, Rhs.app f) :: (← emitBody bad c ns))
    | none =>
      match c.rxns.lookup n with
      | some r =>
        if bad.contains n then .error (.valueError n)
        else do pure ((n, Rhs.app r.rate) :: (← emitBody bad c ns))
      | none => emitBody bad c ns

/-- `diff_eqs.setdefault(var_name, {})[rxn_name] = factor` over all reactions -/
def diffEqs (rxns : List (Name × Rxn)) : List (Name × List (Name × Coef)) :=
  rxns.foldl (fun acc kv => kv.2.stoich.foldl (fun acc vf => setNested acc vf.1 kv.1 vf.2) acc) []

def dName (v : Name) : Name := "d" ++ v ++ "dt"

def noIA (m : List (Name × Val)) : Bool :=
  m.all fun kv => match kv.2 with | .plain _ => true | .ia _ => false

/-- the parameters written as constants: `cache.all_parameter_values` without the derived parameters, i.e. the
    plain parameters and, with the value the model resolved for them, those defined by an initial assignment
    (after `fix: generated model code assigns parameters that are defined by an initial assignment`) -/
def emittedPars (c : Content) (cache : Cache) : List (Name × Rat) :=
  cache.allPars.filter fun kv => !(omKeys c.derived).contains kv.1

/-- variables that no reaction changes: they get the assignment `d<x>dt = 0`, written only when there is any
    equation at all (after `fix: a variable that no reaction changes gets the derivative zero in generated model
    code`) -/
def zeroVars (variables : List Name) (de : List (Name × List (Name × Coef))) : List Name :=
  if de.isEmpty then [] else variables.filter fun v => !(omKeys de).contains v

/-- `ret_order = list(variables)`; `ret = ", ".join(d<i>dt …) if len(diff_eqs) > 0 else "()"` -/
def retNames (variables : List Name) (de : List (Name × List (Name × Coef))) : List Name :=
  if de.isEmpty then [] else variables.map dName

/-- a component (or `time`) is called like the generated derivative name `d<x>dt` of a variable: refused (after `fix:
    refuse to generate model code when a component is called like a generated derivative name`) -/
def derivativeNameTaken (c : Content) (variables : List Name) : Bool :=
  variables.any fun v =>
    ("time" :: (omKeys c.vars ++ omKeys c.pars ++ omKeys c.derived ++ omKeys c.rxns)).contains (dName v)

def genModel (bad : List Name) (c : Content) (L : Lang) (free : List Name) : Except Err SLP := do
  let cache ← createCache c                         -- get_initial_conditions / _create_cache
  let variables := omKeys cache.init
  -- resolved values are only valid for the model's own parameter values
  if !free.isEmpty && !noIA c.pars then throw (.other "NotImplementedError")
  let parameters ← popAll (emittedPars c cache) free
  let body ← emitBody bad c cache.order
  let de := diffEqs c.rxns
  if derivativeNameTaken c variables then throw (.valueError "derivative name")
  let T := templateOf L
  pure { lang := L
         unpack := T.unpack L
         inputs := variables
         extra := free
         assigns := (parameters.map fun kv => (T.target kv.1, Rhs.const kv.2))
                    ++ (body.map fun kr => (T.target kr.1, kr.2))
                    ++ (de.map fun vs => (T.target (dName vs.1), Rhs.lin vs.2))
                    ++ ((zeroVars variables de).map fun v => (T.target (dName v), Rhs.const 0))
         ret := retNames variables de
         retUnit := de.isEmpty
         retBracket := T.retBracket
         retLen := if T.sizedRet then some variables.length else none }

/-- generate and run: what executing the emitted text at `(t, xs)` gives -/
def genRun (bad : List Name) (c : Content) (L : Lang) (free : List Name) (t : Rat)
    (xs ps : List Rat) : Except Err (List Rat) := do
  let p ← genModel bad c L free
  runSLP p t xs ps

/-- the model with the free parameters set to the supplied values (`update_parameters`) -/
def setPars (c : Content) (free : List Name) (ps : List Rat) : Content :=
  { c with pars := (free.zip ps).foldl (fun m kv => omInsert m kv.1 (Val.plain kv.2)) c.pars }

/-- Bool-valued comparison of results (for `decide` on closed witnesses) -/
def resEq : Except Err (List Rat) → Except Err (List Rat) → Bool
  | .ok a, .ok b => a == b
  | .error a, .error b => a == b
  | _, _ => false

/-! ### hypotheses of the partial theorem (all decidable) -/

def numCoefs (c : Content) : Bool :=
  c.rxns.all fun kv => kv.2.stoich.all fun vc => match vc.2 with | .num _ => true | .dyn _ => false

/-- every variable occurs in some reaction's stoichiometry, and only variables do -/
def allVarsHaveEq (c : Content) : Bool :=
  (omKeys c.vars).all fun v => (omKeys (diffEqs c.rxns)).contains v
/-- there is at least one differential equation (otherwise the return line is `()` / `[()]`, F-C07-3) -/
def hasEq (c : Content) : Bool := !(diffEqs c.rxns).isEmpty
def stoichOnVars (c : Content) : Bool :=
  (omKeys (diffEqs c.rxns)).all fun v => (omKeys c.vars).contains v

def nodupB : List Name → Bool
  | [] => true
  | a :: as => !as.contains a && nodupB as

/-- what `Model._insert_id` guarantees (one namespace for all components, `time` reserved) plus: no
    component is called like a generated derivative name `d<x>dt`, and a reaction's stoichiometry (a dict)
    has each compound once -/
def wellNamed (c : Content) : Bool :=
  nodupB ("time" :: (omKeys c.vars ++ omKeys c.pars ++ omKeys c.derived ++ omKeys c.rxns
            ++ (omKeys c.vars).map dName))
  && c.rxns.all fun kv => nodupB (omKeys kv.2.stoich)

/-- the decidable hypothesis of `C07_equiv_partial`: no surrogates / data (variables and parameters may be
    initial assignments), numeric coefficients (a limit of the proof), well-formed names, at least one
    differential equation (F-C07-3; a variable that no reaction changes is allowed since `fix: a variable that no
    reaction changes gets the derivative zero …`), only variables have equations, at least one variable -/
def okC (c : Content) : Bool :=
  c.surs.isEmpty && c.data.isEmpty && numCoefs c && wellNamed c
    && hasEq c && stoichOnVars c && !c.vars.isEmpty

/-- the requested free parameters are distinct plain parameters and one value is supplied for each -/
def freeOkB (c : Content) (free : List Name) (ps : List Rat) : Bool :=
  nodupB free && free.all (fun k => (omKeys c.pars).contains k) && ps.length == free.length

def Rhs.reads : Rhs → List Name
  | .const _ => []
  | .app f => f.args
  | .lin ts => ts.flatMap fun rc => (match rc.2 with | .num _ => [] | .dyn f => f.args) ++ [rc.1]

end Mxl.C07
