/-
C09 — executable model of `parallel.py::parallelise`, line for line:

  * `if cache is not None:` the keys must be pairwise distinct (`ValueError`), the directory is created;
  * `worker = partial(_load_or_run, fn=fn, cache=cache)`: a stored result is LOADED (`fn` is not called), otherwise
    `fn` runs and its result is saved under the key's file name (`_pickle_name`: injective in the key);
  * `parallel`: `pebble.ProcessPool(max_workers).map(worker, inputs, timeout=timeout)`; the parent walks the
    iterator: a result is appended, a `TimeoutError` is SKIPPED (the row is dropped), any other exception propagates;
  * otherwise `list(map(worker, inputs))`.

The pool is the schedule model of `Model/C09.lean` (`schedMap`: task `i` runs in process `assign[i] % n`, results are
handed out by task index) plus the set of tasks that exceed the timeout.  The cache directory is a `Store`:
key ↦ stored result.  On top: the scan drivers with a cache (`scanPar`, `seqScanCache`).
-/
import MxlVerif.Model.C09
namespace Mxl.C09

/-- the cache directory: key (file name) ↦ unpickled content -/
abbrev Store (β : Type) := List (Label × β)

/-- how a task handed to the pool ends, as the parent's iterator reports it -/
inductive Outcome (β : Type) where
  | done (b : β)
  /-- `next(it)` raises `TimeoutError`: the task ran longer than `timeout` and was cancelled -/
  | timedOut
  /-- `next(it)` re-raises the task's exception -/
  | raised (e : Err)
deriving Inhabited

/-- `_load_or_run((k, v), fn, cache)`: the pair it returns, and the file it writes (if any) -/
def loadOrRun {α β : Type} (fn : α → Except Err β) (cache : Option (Store β)) (kv : Label × α) :
    Except Err (Label × β) × Option (Label × β) :=
  match cache with
  | none =>
    match fn kv.2 with
    | .ok r => (.ok (kv.1, r), none)
    | .error e => (.error e, none)
  | some st =>
    match st.lookup kv.1 with
    | some r => (.ok (kv.1, r), none)                     -- `file.exists()`: `cache.load_fn(file)`, `fn` is NOT called
    | none =>
      match fn kv.2 with
      | .ok r => (.ok (kv.1, r), some (kv.1, r))          -- `cache.save_fn(file, res)`
      | .error e => (.error e, none)

def addFile {β : Type} (st : Option (Store β)) (w : Option (Label × β)) : Option (Store β) :=
  match st, w with
  | some s, some e => some (s ++ [e])
  | s, _ => s

/-- `list(map(worker, inputs))`: one call after the other against the directory as the earlier calls left it;
    the first exception ends the loop (files written so far stay) -/
def seqMap {α β : Type} (fn : α → Except Err β) :
    Option (Store β) → List (Label × α) → Except Err (List (Label × β)) × Option (Store β)
  | st, [] => (.ok [], st)
  | st, kv :: rest =>
    match loadOrRun fn st kv with
    | (.error e, _) => (.error e, st)
    | (.ok r, w) =>
      match seqMap fn (addFile st w) rest with
      | (.error e, st') => (.error e, st')
      | (.ok rs, st') => (.ok (r :: rs), st')

/-- a schedule of the pool: who runs what, and which tasks exceed the timeout -/
structure Sched where
  assign : List Nat := []
  n : Nat := 1
  timedOut : List Nat := []
deriving Inhabited

/-- a finished `_load_or_run` as the iterator reports it -/
def asOutcome {β : Type} (lr : Except Err (Label × β) × Option (Label × β)) :
    Outcome (Label × β) × Option (Label × β) :=
  match lr with
  | (.ok r, w) => (Outcome.done r, w)
  | (.error e, _) => (Outcome.raised e, none)

/-- task `i` of the pool: cancelled when it exceeds the timeout, otherwise `_load_or_run` against the directory
    as it was before the call -/
def poolTask {α β : Type} (timedOut : List Nat) (fn : α → Except Err β) (st0 : Option (Store β)) (i : Nat)
    (kv : Label × α) : Outcome (Label × β) × Option (Label × β) :=
  if timedOut.contains i then (Outcome.timedOut, none) else asOutcome (loadOrRun fn st0 kv)

/-- what the pool's iterator yields, position by position.  Keys are pairwise distinct when there is a cache
    (checked before the pool starts), so a task can only meet its OWN file: the directory as it was before the call
    decides between loading and running. -/
def poolOutcomes {α β : Type} (s : Sched) (fn : α → Except Err β) (st0 : Option (Store β))
    (inputs : List (Label × α)) : List (Outcome (Label × β) × Option (Label × β)) :=
  schedMap s.assign s.n (fun (ikv : Nat × (Label × α)) => poolTask s.timedOut fn st0 ikv.1 ikv.2)
    ((List.range inputs.length).zip inputs)

/-- `while True: try: key, value = next(it); results.append((key, value))  except StopIteration: break
    except TimeoutError: pbar.update(1)` -/
def drain {γ : Type} : List (Outcome γ) → Except Err (List γ)
  | [] => .ok []
  | .done r :: rest =>
    match drain rest with
    | .ok rs => .ok (r :: rs)
    | .error e => .error e
  | .timedOut :: rest => drain rest
  | .raised e :: _ => .error e

def distinctKeys : List Label → Bool
  | [] => true
  | k :: rest => !rest.contains k && distinctKeys rest

/-- `parallelise(fn, inputs, cache=cache, parallel=parallel, max_workers=s.n, timeout=…)`: the list it returns (or the
    exception), and the cache directory afterwards -/
def parallelise {α β : Type} (fn : α → Except Err β) (inputs : List (Label × α)) (cache : Option (Store β))
    (parallel : Bool) (s : Sched) : Except Err (List (Label × β)) × Option (Store β) :=
  if cache.isSome && !distinctKeys (inputs.map (·.1)) then
    (.error (.valueError "Caching needs unique keys, but some keys occur more than once"), cache)
  else if parallel then
    let outs := poolOutcomes s fn cache inputs
    (drain (outs.map (·.1)), cache.map (· ++ outs.filterMap (·.2)))
  else seqMap fn cache inputs

/-! ### the scan drivers on top of `parallelise` -/

/-- the scan in pool mode: every task in a private process (`childTask`), results unpickled in the parent -/
def scanPar (copyFirst : Bool) (s : Sched) (w : Worker) (h : Heap) (cell : Nat) (rows : List (Label × Row))
    (cache : Option (Store Pickled)) : Except Err (Heap × List (Label × Sim)) × Option (Store Pickled) :=
  match h.read cell with
  | .error e => (.error e, cache)
  | .ok c =>
    match parallelise (childTask copyFirst w c) rows cache true s with
    | (.error e, st) => (.error e, st)
    | (.ok ps, st) => (.ok (placeAll h ps), st)

/-- what `pickle.dump` stores of a `Simulation` living in `h` -/
def pickleSim (h : Heap) (s : Sim) : Except Err Pickled :=
  match h.read s.cell with
  | .error e => .error e
  | .ok c => .ok { content := c, segs := s.segs, nan := s.nan }

/-- the scan in sequential mode with a cache, in the PARENT's heap: a stored row is unpickled into a fresh cell, any
    other row runs `rowTask` on the one model object and its result is pickled into the directory -/
def seqScanCache (copyFirst : Bool) (w : Worker) :
    Heap → Nat → Option (Store Pickled) → List (Label × Row) →
      Except Err (Heap × List (Label × Sim)) × Option (Store Pickled)
  | h, _, st, [] => (.ok (h, []), st)
  | h, cell, st, lr :: rest =>
    let step : Except Err (Heap × Sim) × Option (Store Pickled) :=
      match st.bind (·.lookup lr.1) with
      | some p => (.ok (h ++ [p.content], { cell := h.length, segs := p.segs, nan := p.nan }), st)
      | none =>
        match rowTask copyFirst w h cell lr.2 with
        | .error e => (.error e, st)
        | .ok (h1, s) =>
          match st with
          | none => (.ok (h1, s), none)
          | some store =>
            match pickleSim h1 s with
            | .error e => (.error e, st)
            | .ok p => (.ok (h1, s), some (store ++ [(lr.1, p)]))
    match step with
    | (.error e, st1) => (.error e, st1)
    | (.ok (h1, s), st1) =>
      match seqScanCache copyFirst w h1 cell st1 rest with
      | (.error e, st2) => (.error e, st2)
      | (.ok (h2, ss), st2) => (.ok (h2, (lr.1, s) :: ss), st2)

/-- `scan.*(…, parallel=…, cache=…)` -/
def scanWith (copyFirst : Bool) (parallel : Bool) (s : Sched) (w : Worker) (h : Heap) (cell : Nat)
    (rows : List (Label × Row)) (cache : Option (Store Pickled)) :
    Except Err (Heap × List (Label × Sim)) × Option (Store Pickled) :=
  if cache.isSome && !distinctKeys (rows.map (·.1)) then
    (.error (.valueError "Caching needs unique keys, but some keys occur more than once"), cache)
  else if parallel then scanPar copyFirst s w h cell rows cache
  else seqScanCache copyFirst w h cell cache rows

/-! ### `mc.scan_steady_state`: a sequential inner scan inside every pool task -/

/-- `mc.scan_steady_state`, one Monte-Carlo row in a pool process: the pickled `partial(..., model=model)` is unpickled
    into a private heap (`[c]`, cell 0); `_update_parameters_and_initial_conditions` copies the model (when the source
    says so), writes the sample in, and calls `_parameter_scan_worker`, i.e. `scan.steady_state(model, to_scan=inner,
    parallel=False, y0=None)`: a SEQUENTIAL inner scan on that one model object.  The answer — a `SteadyStateScan` whose
    results refer to model objects of this process — travels back as the process's heap and the result list. -/
def mcScanChild (copyFirst : Bool) (w : Worker) (inner : List (Label × Row)) (c : Content) (sample : Row) :
    Except Err (Heap × List (Label × Sim)) :=
  let h1 : Heap := if copyFirst then [c, c] else [c]
  let tgt : Nat := if copyFirst then 1 else 0
  match applyRow c sample with
  | .error e => .error e
  | .ok c1 => seqScanWith copyFirst w (h1.set tgt c1) tgt inner

/-- unpickling an object graph in the parent: the child's cells are appended, references shifted (sharing inside
    the graph is preserved) -/
def transplant (h : Heap) (child : Heap × List (Label × Sim)) : Heap × List (Label × Sim) :=
  (h ++ child.1, child.2.map fun ls => (ls.1, { ls.2 with cell := ls.2.cell + h.length }))

/-- the parent of `mc.scan_steady_state`: every Monte-Carlo row under the pool schedule, answers unpickled in input
    order, then `{k: v.variables.T for k, v in res}`: per answer the inner results' views are read in order -/
def mcScan (copyFirst : Bool) (assign : List Nat) (n : Nat) (w : Worker) (inner : List (Label × Row)) (c : Content)
    (samples : List (Label × Row)) : Except Err (List (Label × List (List Rat × View))) := do
  let answers := schedMap assign n (fun (lr : Label × Row) => (lr.1, mcScanChild copyFirst w inner c lr.2)) samples
  let per ← answers.mapM fun (la : Label × Except Err (Heap × List (Label × Sim))) => do
    let child ← la.2
    let (h, sims) := transplant [c] child
    let (_, memo) ← readViews (sims.map (·.2)) h [] (List.range sims.length)
    let e ← ssContainer inner sims
    pure (la.1, (List.range e.length).filterMap fun i =>
      match e[i]?, memo.lookup i with
      | some x, some v => some (x.1, v)
      | _, _ => none)
  pure (dictOf per)

end Mxl.C09
