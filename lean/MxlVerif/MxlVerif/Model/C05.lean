/-
Executable model of `mxlpy.label_map` (isotopomer expansion), line for line after
`label_map.py`: `_generate_binary_labels` (53-85), `_split_label_string` (88-131),
`_map_substrates_to_products` (134-160), `_unpack_stoichiometries` (163-187),
`_get_labels_per_variable` (190-211), `_repack_stoichiometries` (214-237),
`_assign_compound_labels` (240-264), `_get_external_labels` (267-290),
`_create_isotopomer_reactions` (293-385) and `LabelMapper.build_model` (525-613).

Label strings ("0"/"1" characters) are `List Bool`.  A generated name is kept
structurally as `LName base lab` and rendered by the driver as `base` (no
suffix) or `base ++ "__" ++ bits`; Python distinguishes "no suffix appended"
(`_assign_compound_labels` with an empty label, `_generate_binary_labels` with 0
labels) from "`__` plus an empty label" (rate names, initial-label placement),
hence `Option`.  Import-free apart from the shared basic types.
-/
import MxlVerif.Core.Basic
namespace Mxl.C05

abbrev Label := List Bool

/-- a name of the labelled model: `base` or `base__<bits>` -/
structure LName where
  base : Name
  lab : Option Label
deriving DecidableEq, Repr, Inhabited

/-- the exception classes the mapper can raise -/
inductive LErr where
  | valueError
  | indexError
  | keyError (k : Name)
  | typeError
  | notImplementedError
deriving DecidableEq, Repr, Inhabited

/-- an unsuffixed name (parameter, unlabelled variable, derived quantity) -/
def plain (k : Name) : LName := ⟨k, none⟩

/-- `it.product(("0", "1"), repeat=n)` in iteration order -/
def patterns : Nat → List Label
  | 0 => [[]]
  | n + 1 => (patterns n).map (false :: ·) ++ (patterns n).map (true :: ·)

/-- `_generate_binary_labels` -/
def binaryLabels (base : Name) (n : Nat) : List LName :=
  if n > 0 then (patterns n).map (fun w => ⟨base, some w⟩) else [⟨base, none⟩]

/-- `_split_label_string`: consecutive slices `label[cnt : cnt + n]` -/
def splitLabel (label : Label) : List Nat → List Label
  | [] => []
  | n :: ns => label.take n :: splitLabel (label.drop n) ns

/-- `rate_suffix[i]` (non-negative index; out of range raises `IndexError`) -/
def charAt (suffix : Label) (i : Nat) : Except LErr Bool :=
  match suffix[i]? with
  | some b => .ok b
  | none => .error .indexError

/-- `_map_substrates_to_products`: `[rate_suffix[i] for i in labelmap]` -/
def mapSubstratesToProducts (suffix : Label) (labelmap : List Nat) : Except LErr Label :=
  labelmap.mapM (charAt suffix)

/-- `_unpack_stoichiometries` (integer coefficients): `[k] * -v` / `[k] * v` -/
def unpackStoich : List (Name × Int) → List Name × List Name
  | [] => ([], [])
  | (k, v) :: rest =>
    let (s, p) := unpackStoich rest
    if v < 0 then (List.replicate (-v).toNat k ++ s, p)
    else (s, List.replicate v.toNat k ++ p)

/-- `label_variables.get(compound, 0)` -/
def labelsOf (lv : List (Name × Nat)) (c : Name) : Nat := (lv.lookup c).getD 0

/-- `_get_labels_per_variable` -/
def labelsPer (lv : List (Name × Nat)) (cs : List Name) : List Nat := cs.map (labelsOf lv)

/-- `d[k] += delta` on a `defaultdict(int)` (dict order = first touch) -/
def bump (m : List (LName × Int)) (k : LName) (delta : Int) : List (LName × Int) :=
  match m with
  | [] => [(k, delta)]
  | (k', v) :: rest => if k' = k then (k', v + delta) :: rest else (k', v) :: bump rest k delta

/-- `_repack_stoichiometries` -/
def repack (subs prods : List LName) : List (LName × Int) :=
  prods.foldl (fun m k => bump m k 1) (subs.foldl (fun m k => bump m k (-1)) [])

/-- one step of `_assign_compound_labels` -/
def assignLabel (c : Name) (s : Label) : LName :=
  if s ≠ [] then ⟨c, some s⟩ else ⟨c, none⟩

/-- `_assign_compound_labels` (both lists have the same length wherever it is called) -/
def assignLabels (cs : List Name) (ss : List Label) : List LName := List.zipWith assignLabel cs ss

/-- `_get_external_labels`: `"1" * max(0, total_product_labels - total_substrate_labels)` -/
def externalLabels (totalProduct totalSubstrate : Nat) : Label :=
  List.replicate (totalProduct - totalSubstrate) true

/-- a reaction of the base model (integer stoichiometry) -/
structure BRxn where
  name : Name
  fn : List Rat → Rat
  args : List Name
  stoich : List (Name × Int)
deriving Inhabited

/-- a reaction of the labelled model -/
structure LRxn where
  name : LName
  fn : List Rat → Rat
  args : List LName
  stoich : List (LName × Int)
deriving Inhabited

/-- `substrate_names[k]` (a `defaultdict(list)` filled from `zip(base_substrates, new_substrates,
    strict=True)`; both lists have the same length): the new names of the occurrences of `k` among
    the substrates, in order -/
def occurrencesOf : List Name → List LName → Name → List LName
  | s :: ss, n :: ns, k => if s = k then n :: occurrencesOf ss ns k else occurrencesOf ss ns k
  | _, _, _ => []

/-- `dict(zip(base_products, new_products, strict=True)).get(k, k)`: the last binding of a key wins -/
def productName (bp : List Name) (np : List LName) (k : Name) : LName :=
  match (bp.zip np).reverse.lookup k with
  | some n => n
  | none => plain k

/-- the `for k in args` loop (after repo commit "fix: isotopomer reactions of a compound that takes
    part more than once ..."): the j-th mention of a substrate compound reads its j-th occurrence,
    `occurrences[min(mentions[k], len(occurrences) - 1)]`; a name that is no substrate reads the
    products' dict.  `seen` lists the arguments already handled, so `mentions[k] = seen.count k`. -/
def replaceArgs (bs : List Name) (ns : List LName) (bp : List Name) (np : List LName) :
    List Name → List Name → List LName
  | _, [] => []
  | seen, k :: rest =>
    (match occurrencesOf bs ns k with
     | [] => productName bp np k
     | o :: os => (o :: os).getD (min (seen.count k) os.length) o)
      :: replaceArgs bs ns bp np (k :: seen) rest

/-- body of the `for rate_suffix in ...` loop of `_create_isotopomer_reactions` -/
def isoReaction (r : BRxn) (labelmap : List Nat) (bs bp : List Name) (ls lp : List Nat)
    (ext : Label) (w : Label) : Except LErr LRxn := do
  let suffix := w ++ ext
  let productSuffix ← mapSubstratesToProducts suffix labelmap
  let productLabels := splitLabel productSuffix lp
  let substrateLabels := splitLabel suffix ls
  let newSubstrates := assignLabels bs substrateLabels
  let newProducts := assignLabels bp productLabels
  pure { name := ⟨r.name, some suffix⟩
         fn := r.fn
         args := replaceArgs bs newSubstrates bp newProducts [] r.args
         stoich := repack newSubstrates newProducts }

/-- `_create_isotopomer_reactions`: the reactions it adds, in order -/
def isotopomerReactions (lv : List (Name × Nat)) (r : BRxn) (labelmap : List Nat) :
    Except LErr (List LRxn) :=
  let (bs, bp) := unpackStoich r.stoich
  let ls := labelsPer lv bs
  let lp := labelsPer lv bp
  if labelmap.length < ls.sum then .error .valueError
  else (patterns ls.sum).mapM (isoReaction r labelmap bs bp ls lp (externalLabels lp.sum ls.sum))

/-! ### `LabelMapper.build_model` -/

/-- a derived quantity (`Derived`) over names of type `ν` -/
structure DFn (ν : Type) where
  fn : List Rat → Rat
  args : List ν
deriving Inhabited

/-- the part of a base `Model` the mapper reads: `get_parameter_values()`,
    `get_initial_conditions()`, derived quantities, raw reactions -/
structure Base where
  pars : List (Name × Rat)
  vars : List (Name × Rat)
  derived : List (Name × DFn Name)
  rxns : List BRxn
deriving Inhabited

/-- the labelled model that `build_model` returns -/
structure LModel where
  pars : List (Name × Rat)
  vars : List (LName × Rat)
  totals : List (LName × List LName)
  derived : List (Name × DFn LName)
  rxns : List LRxn
deriving Inhabited

/-- `variables[k] = v`: in place if present, else appended -/
def setVar (m : List (LName × Rat)) (k : LName) (v : Rat) : List (LName × Rat) :=
  match m with
  | [] => [(k, v)]
  | (k', v') :: rest => if k' = k then (k', v) :: rest else (k', v') :: setVar rest k v

/-- `"".join("1" if idx in label_pos else "0" for idx in range(n))` -/
def initSuffix (n : Nat) (labelPos : List Nat) : Label :=
  (List.range n).map fun idx => labelPos.contains idx

/-- the `for k, v in get_initial_conditions().items()` loop body: variables contributed
    by base variable `k` (isotopomer names are fresh per base variable, so the updates are
    local to this block).  The labelled name is `_assign_compound_labels([k], [suffix])[0]`
    (after repo commit "fix: LabelMapper.build_model keeps a zero-label compound's ..."). -/
def initBlock (lv : List (Name × Nat)) (initLabels : List (Name × List Nat)) (k : Name) (v : Rat) :
    List (LName × Rat) :=
  match lv.lookup k with
  | none => [(plain k, v)]
  | some n =>
    let isos := binaryLabels k n
    let zeros := isos.map fun i => (i, (0 : Rat))
    match initLabels.lookup k with
    | none => setVar zeros (isos.headD (plain k)) v
    | some pos => setVar zeros (assignLabel k (initSuffix n pos)) v

def buildVars (lv : List (Name × Nat)) (initLabels : List (Name × List Nat))
    (vars : List (Name × Rat)) : List (LName × Rat) :=
  vars.flatMap fun kv => initBlock lv initLabels kv.1 kv.2

/-- `f"{i}__total" if i in isotopomers else i` -/
def totalName (lv : List (Name × Nat)) (k : Name) : LName :=
  match lv.lookup k with
  | some _ => plain (k ++ "__total")
  | none => plain k

/-- an unmapped reaction: labelled arguments read the totals, stoichiometry unchanged -/
def unmappedRxn (lv : List (Name × Nat)) (r : BRxn) : LRxn :=
  { name := plain r.name, fn := r.fn, args := r.args.map (totalName lv),
    stoich := r.stoich.map fun kv => (plain kv.1, kv.2) }

def buildRxn (lv : List (Name × Nat)) (maps : List (Name × List Nat)) (r : BRxn) :
    Except LErr (List LRxn) :=
  match maps.lookup r.name with
  | none => pure [unmappedRxn lv r]
  | some lm => isotopomerReactions lv r lm

/-- `LabelMapper.build_model(initial_labels)`.  Derived parameters keep their argument names and
    derived variables get labelled arguments renamed to totals; a derived parameter has no
    variable among its arguments, so renaming uniformly is the same thing. -/
def buildModel (b : Base) (lv : List (Name × Nat)) (maps : List (Name × List Nat))
    (initLabels : List (Name × List Nat)) : Except LErr LModel := do
  let rxns ← b.rxns.mapM (buildRxn lv maps)
  pure { pars := b.pars
         vars := buildVars lv initLabels b.vars
         totals := lv.map fun kn => (plain (kn.1 ++ "__total"), binaryLabels kn.1 kn.2)
         derived := b.derived.map fun kd => (kd.1, { fn := kd.2.fn, args := kd.2.args.map (totalName lv) })
         rxns := rxns.flatten }

/-! ### label maps as Python reads them: integer indices, a negative index counts from the end -/

/-- `seq[i]` on a sequence of length `len`: `0 ≤ i < len` reads position `i`, `-len ≤ i < 0` reads
    position `len + i`, anything else raises `IndexError` -/
def pyIndex (len : Nat) (i : Int) : Except LErr Nat :=
  if 0 ≤ i then (if i.toNat < len then .ok i.toNat else .error .indexError)
  else if (-i).toNat ≤ len then .ok (len - (-i).toNat) else .error .indexError

/-- `rate_suffix[i]` for any integer `i` -/
def charAtI (suffix : Label) (i : Int) : Except LErr Bool := do
  let j ← pyIndex suffix.length i
  charAt suffix j

/-- `_map_substrates_to_products` for any integer map -/
def mapSubstratesToProductsI (suffix : Label) (labelmap : List Int) : Except LErr Label :=
  labelmap.mapM (charAtI suffix)

/-- body of the `for rate_suffix in ...` loop of `_create_isotopomer_reactions`, integer map -/
def isoReactionI (r : BRxn) (labelmap : List Int) (bs bp : List Name) (ls lp : List Nat)
    (ext : Label) (w : Label) : Except LErr LRxn := do
  let suffix := w ++ ext
  let productSuffix ← mapSubstratesToProductsI suffix labelmap
  let productLabels := splitLabel productSuffix lp
  let substrateLabels := splitLabel suffix ls
  let newSubstrates := assignLabels bs substrateLabels
  let newProducts := assignLabels bp productLabels
  pure { name := ⟨r.name, some suffix⟩
         fn := r.fn
         args := replaceArgs bs newSubstrates bp newProducts [] r.args
         stoich := repack newSubstrates newProducts }

/-- `_create_isotopomer_reactions`, integer map (this is what the driver runs) -/
def isotopomerReactionsI (lv : List (Name × Nat)) (r : BRxn) (labelmap : List Int) :
    Except LErr (List LRxn) :=
  let (bs, bp) := unpackStoich r.stoich
  let ls := labelsPer lv bs
  let lp := labelsPer lv bp
  if labelmap.length < ls.sum then .error .valueError
  else (patterns ls.sum).mapM (isoReactionI r labelmap bs bp ls lp (externalLabels lp.sum ls.sum))

def buildRxnI (lv : List (Name × Nat)) (maps : List (Name × List Int)) (r : BRxn) :
    Except LErr (List LRxn) :=
  match maps.lookup r.name with
  | none => pure [unmappedRxn lv r]
  | some lm => isotopomerReactionsI lv r lm

/-- `LabelMapper.build_model(initial_labels)`, integer maps (this is what the driver runs) -/
def buildModelI (b : Base) (lv : List (Name × Nat)) (maps : List (Name × List Int))
    (initLabels : List (Name × List Nat)) : Except LErr LModel := do
  let rxns ← b.rxns.mapM (buildRxnI lv maps)
  pure { pars := b.pars
         vars := buildVars lv initLabels b.vars
         totals := lv.map fun kn => (plain (kn.1 ++ "__total"), binaryLabels kn.1 kn.2)
         derived := b.derived.map fun kd => (kd.1, { fn := kd.2.fn, args := kd.2.args.map (totalName lv) })
         rxns := rxns.flatten }

/-! ### stoichiometric coefficients as the base model stores them (`float | Derived`) -/

/-- a stoichiometric coefficient of a base reaction: a Python `int`, a `float`, or a `Derived` -/
inductive Coef where
  | int (v : Int)
  | float (q : Rat)
  | derived
deriving DecidableEq, Repr, Inhabited

/-- Python's `int(q)` for a float: truncation towards zero -/
def pyTrunc (q : Rat) : Int := if 0 ≤ q then q.floor else -((-q).floor)

/-- what `_unpack_stoichiometries` reads, entry by entry (after repo commit "fix: LabelMapper accepts
    whole-number float coefficients ..."): `n = int(v)` — a `Derived` is no number: `TypeError` —, then
    `n != v` — a float that is not a whole number: `ValueError` —, then `[k] * ±n` -/
def intCoefs : List (Name × Coef) → Except LErr (List (Name × Int))
  | [] => .ok []
  | (k, c) :: rest =>
    match c with
    | .derived => .error .typeError
    | .int v => do
      let r ← intCoefs rest
      pure ((k, v) :: r)
    | .float q =>
      if ((pyTrunc q : Int) : Rat) = q then do
        let r ← intCoefs rest
        pure ((k, pyTrunc q) :: r)
      else .error .valueError

/-- one base reaction of `build_model`'s loop when the raw coefficients of some mapped reactions are
    given in `raw` (reactions not listed there have the integer coefficients of their `BRxn`): a
    mapped reaction is unpacked first — `TypeError` for a `Derived`, `ValueError` for a fractional
    coefficient, whatever the map —,
    an unmapped reaction is passed through -/
def buildRxnP (lv : List (Name × Nat)) (maps : List (Name × List Int))
    (raw : List (Name × List (Name × Coef))) (r : BRxn) : Except LErr (List LRxn) :=
  match maps.lookup r.name with
  | none => pure [unmappedRxn lv r]
  | some lm =>
    match raw.lookup r.name with
    | none => isotopomerReactionsI lv r lm
    | some st => do
      let ist ← intCoefs st
      isotopomerReactionsI lv { r with stoich := ist } lm

/-- `LabelMapper.build_model` with raw coefficients (this is what the driver runs) -/
def buildModelP (b : Base) (lv : List (Name × Nat)) (maps : List (Name × List Int))
    (raw : List (Name × List (Name × Coef))) (initLabels : List (Name × List Nat)) :
    Except LErr LModel := do
  let rxns ← b.rxns.mapM (buildRxnP lv maps raw)
  pure { pars := b.pars
         vars := buildVars lv initLabels b.vars
         totals := lv.map fun kn => (plain (kn.1 ++ "__total"), binaryLabels kn.1 kn.2)
         derived := b.derived.map fun kd => (kd.1, { fn := kd.2.fn, args := kd.2.args.map (totalName lv) })
         rxns := rxns.flatten }

/-- the map with every index counted from the front (`len` = length of the rate suffix) -/
def normMap (len : Nat) (labelmap : List Int) : Except LErr (List Nat) := labelmap.mapM (pyIndex len)

/-! ### the public queries of `LabelMapper` -/

/-- `LabelMapper.get_isotopomers`: `{name: _generate_binary_labels(name, num) for name, num in
    label_variables.items()}` -/
def getIsotopomers (lv : List (Name × Nat)) : List (Name × List LName) :=
  lv.map fun kn => (kn.1, binaryLabels kn.1 kn.2)

/-- `self.label_variables[name]` -/
def labelCount (lv : List (Name × Nat)) (x : Name) : Except LErr Nat :=
  match lv.lookup x with
  | some n => .ok n
  | none => .error (.keyError x)

/-- `LabelMapper.get_isotopomer_of` -/
def getIsotopomerOf (lv : List (Name × Nat)) (x : Name) : Except LErr (List LName) := do
  let n ← labelCount lv x
  pure (binaryLabels x n)

/-- `LabelMapper.get_isotopomers_of_at_position` (positions as a list; non-negative indices):
    `label_positions[position] = "1"` raises `IndexError` beyond the compound's positions; the regex
    `name__<[01] or 1 per position>` is matched against the isotopomer names in their order (for a
    compound without positions the only name `name` does not match `name__`) -/
def isotopomersAtPosition (lv : List (Name × Nat)) (x : Name) (positions : List Nat) :
    Except LErr (List LName) := do
  let n ← labelCount lv x
  if positions.any (fun p => decide (n ≤ p)) then .error .indexError
  else if n = 0 then pure []
  else pure (((patterns n).filter fun u => positions.all fun p => u.getD p false).map
    fun u => ⟨x, some u⟩)

/-- `it.combinations(xs, k)` in iteration order -/
def combos : List Nat → Nat → List (List Nat)
  | _, 0 => [[]]
  | [], _ + 1 => []
  | x :: xs, k + 1 => (combos xs k).map (x :: ·) ++ combos xs (k + 1)

/-- `LabelMapper.get_isotopomers_of_with_n_labels`: one name `f"{name}__{pattern}"` per combination
    of `k` positions (so a compound without positions and `k = 0` yields `name__`) -/
def isotopomersWithNLabels (lv : List (Name × Nat)) (x : Name) (k : Nat) :
    Except LErr (List LName) := do
  let n ← labelCount lv x
  pure ((combos (List.range n) k).map fun ps => ⟨x, some (initSuffix n ps)⟩)

/-! ### numeric reading of a reaction list (what `get_right_hand_side` computes: the
    derivative of a variable is the sum over reactions of coefficient × rate) -/

def listProd (xs : List Rat) : Rat := xs.foldr (· * ·) 1

def LRxn.rate (σ : LName → Rat) (rx : LRxn) : Rat := rx.fn (rx.args.map σ)

/-- coefficient of `n` in a repacked stoichiometry (keys are unique; absent = 0) -/
def coefOf (st : List (LName × Int)) (n : LName) : Int := (st.lookup n).getD 0

def rhsOf (rxs : List LRxn) (σ : LName → Rat) (n : LName) : Rat :=
  (rxs.map fun rx => (coefOf rx.stoich n : Rat) * rx.rate σ).sum

def BRxn.rate (τ : Name → Rat) (r : BRxn) : Rat := r.fn (r.args.map τ)

/-- net base coefficient of compound `x` (a dict has each key once; written as a sum so
    that no uniqueness assumption is needed) -/
def netStoich (st : List (Name × Int)) (x : Name) : Int :=
  (st.map fun kv => if kv.1 = x then kv.2 else 0).sum

def baseRhsOf (rs : List BRxn) (τ : Name → Rat) (x : Name) : Rat :=
  (rs.map fun r => (netStoich r.stoich x : Rat) * r.rate τ).sum

def sumMap (l : List Label) (f : Label → Rat) : Rat := (l.map f).sum

/-- total amount of compound `x` with `n` label positions in state `σ` -/
def totalOf (σ : LName → Rat) (x : Name) (n : Nat) : Rat :=
  ((binaryLabels x n).map σ).sum

/-! ### vocabulary of the property statements (also evaluated by the driver) -/

/-- substrate occurrences, product occurrences and their label counts -/
def subsOf (r : BRxn) : List Name := (unpackStoich r.stoich).1
def prodsOf (r : BRxn) : List Name := (unpackStoich r.stoich).2
def nSub (lv : List (Name × Nat)) (r : BRxn) : Nat := (labelsPer lv (subsOf r)).sum
def nProd (lv : List (Name × Nat)) (r : BRxn) : Nat := (labelsPer lv (prodsOf r)).sum
def extOf (lv : List (Name × Nat)) (r : BRxn) : Label := externalLabels (nProd lv r) (nSub lv r)

/-- the rate law is mass action in the labelled compounds: the product of its arguments, with one
    factor per substrate occurrence of every labelled compound (and none for other labelled
    compounds) -/
structure MassAction (lv : List (Name × Nat)) (r : BRxn) : Prop where
  fn_prod : ∀ xs, r.fn xs = listProd xs
  order : ∀ a, labelsOf lv a > 0 → r.args.count a = (subsOf r).count a

/-- no labelled compound named by the rate law occurs more than once among the substrate and
    product occurrences (excludes exactly finding F-C05-1) -/
def distinctOcc (lv : List (Name × Nat)) (r : BRxn) : Bool :=
  r.args.all fun a => labelsOf lv a == 0 || (subsOf r ++ prodsOf r).count a ≤ 1

def DistinctOccurrences (lv : List (Name × Nat)) (r : BRxn) : Prop := distinctOcc lv r = true

instance (lv : List (Name × Nat)) (r : BRxn) : Decidable (DistinctOccurrences lv r) := by
  unfold DistinctOccurrences; infer_instance

/-- the base-model environment induced by an isotopomer state: a labelled compound reads the
    sum of its isotopomers, any other name reads itself -/
def totalsEnv (lv : List (Name × Nat)) (σ : LName → Rat) (a : Name) : Rat :=
  if labelsOf lv a > 0 then totalOf σ a (labelsOf lv a) else σ (plain a)

/-- what the model-level dynamics statement asks of a base reaction: a mapped reaction is mass
    action (repeated compounds allowed) with a map covering the product atoms (`nProd ≤ len(map)`: a map that covers
    the substrates only is accepted by the code but leaves dangling product names, finding F-C05-5); an unmapped
    reaction does not touch labelled compounds -/
def RxnOk (lv : List (Name × Nat)) (maps : List (Name × List Nat)) (r : BRxn) : Prop :=
  match maps.lookup r.name with
  | some lm => nProd lv r ≤ lm.length ∧ MassAction lv r
  | none => (∀ kv ∈ r.stoich, lv.lookup kv.1 = none) ∧ (r.stoich.map (·.1)).Nodup

/-- the flux of the base reaction called `n` at the totals of an isotopomer state (the `fluxes`
    argument of `LinearLabelMapper.build_model` when it is taken from the base model at the same
    pools); a name that is no reaction reads 0 -/
def fluxAtTotals (b : Base) (lv : List (Name × Nat)) (σ : LName → Rat) (n : Name) : Rat :=
  match b.rxns.find? (fun r => r.name == n) with
  | some r => r.rate (totalsEnv lv σ)
  | none => 0

/-- net stoichiometric coefficient of compound `x` in the base reaction called `n` (0 for a name that
    is no reaction) -/
def netOf (b : Base) (n x : Name) : Int :=
  match b.rxns.find? (fun r => r.name == n) with
  | some r => netStoich r.stoich x
  | none => 0

/-! ### numeric reading of a whole labelled model (driver side of the tie) -/

/-- value of a name at a state of the labelled model: state variables, parameters, totals
    (`_total_concentration` = sum) and derived quantities, resolved recursively (the real model
    sorts them topologically; `fuel` bounds the depth).  An unknown name reads 0 here; the real
    model raises, which the tie reports as a mismatch. -/
def LModel.valF (m : LModel) (st : List (LName × Rat)) : Nat → LName → Rat
  | 0, _ => 0
  | f + 1, n =>
    match st.lookup n with
    | some v => v
    | none =>
      match n.lab with
      | some _ => 0
      | none =>
        match m.pars.lookup n.base with
        | some v => v
        | none =>
          match m.totals.lookup n with
          | some isos => (isos.map (LModel.valF m st f)).sum
          | none =>
            match m.derived.lookup n.base with
            | some d => d.fn (d.args.map (LModel.valF m st f))
            | none => 0

def LModel.env (m : LModel) (st : List (LName × Rat)) : LName → Rat :=
  m.valF st (m.derived.length + 3)

/-- `get_right_hand_side(state)` of the labelled model -/
def LModel.rhs (m : LModel) (st : List (LName × Rat)) : List (LName × Rat) :=
  m.vars.map fun kv => (kv.1, rhsOf m.rxns (m.env st) kv.1)

/-- per base variable, the derivative summed over its isotopomers -/
def LModel.summedRhs (m : LModel) (lv : List (Name × Nat)) (baseVars : List Name)
    (st : List (LName × Rat)) : List (Name × Rat) :=
  baseVars.map fun x => (x, ((binaryLabels x (labelsOf lv x)).map (rhsOf m.rxns (m.env st))).sum)

end Mxl.C05
