/-
C17 — mxlpy's own stage of the SBML import, the bookkeeping part, line for line after the Python:

* `importSym`  : `_codegen` of `sbml/_import.py` up to the call of the generator — which container of the
  (third-party) pysbml model goes where, `_transform_stoichiometry` (Float / Symbol name / computed), initial
  assignments overriding the `.value` of a parameter, else of a variable, else being dropped.
* `genModule`  : `generate_mxlpy_code_from_symbolic_repr` of `meta/codegen_mxlpy.py` with `_codegen_variable`,
  `_codegen_parameter`, `_free_name`: the `taken` set (function names of derived quantities and reactions, plus —
  since the repair of F-C17-9 — every name handed out), the `functions` dict with Python dict semantics
  (`omInsert`: assignment to an existing key keeps its position), the order variables → parameters → derived →
  reactions (the computed stoichiometries of a reaction right after the reaction's own function), the
  references the emitted `create_model` makes (`fn=<name>`, `args=[…]`), and the refusal of
  `sympy_to_python_fn` to write a function whose parameter list repeats a name.

Expressions are opaque (`ExprId`): printing them is sympy's business (trusted, exercised by the tie).
`acc = true` is the code as it is (names handed out are added to `taken`); `acc = false` is the code before the
repair and only used for the collision witness in `Props/C17.lean`.
-/
import MxlVerif.Core.Basic
import MxlVerif.Model.C17Doc
namespace Mxl.C17
open Mxl

abbrev ExprId := Nat

/-- `SymbolicFn` -/
structure SymFn where
  fnName : String
  expr : ExprId
  args : List String
deriving Repr, DecidableEq, Inhabited

/-- `.value` of a `SymbolicVariable` / `SymbolicParameter`: a `sympy.Float` or an initial assignment -/
inductive SymVal where
  | num (v : ExprId)
  | fn (f : SymFn)
deriving Repr, DecidableEq, Inhabited

/-- `SymbolicVariable` / `SymbolicParameter` (`unit` only as present / absent) -/
structure SymQty where
  value : SymVal
  unit : Bool
deriving Repr, DecidableEq, Inhabited

/-- a stoichiometric coefficient: `sympy.Float | str | SymbolicFn` -/
inductive SymCoef where
  | num (v : ExprId)
  | name (s : String)
  | fn (f : SymFn)
deriving Repr, DecidableEq, Inhabited

structure SymRxn where
  fn : SymFn
  stoich : List (String × SymCoef)
deriving Repr, DecidableEq, Inhabited

/-- `SymbolicRepr`; the lists are the dicts' `.items()` -/
structure SymRepr where
  variables : List (String × SymQty)
  parameters : List (String × SymQty)
  derived : List (String × SymFn)
  reactions : List (String × SymRxn)
deriving Repr, DecidableEq, Inhabited

/-! ### `_codegen` (sbml/_import.py): pysbml model → `SymbolicRepr` -/

/-- an expression of the pysbml model with `free_symbols(expr)` (a list in set-iteration order: opaque) -/
structure PExpr where
  expr : ExprId
  free : List String
deriving Repr, DecidableEq, Inhabited

/-- what `_transform_stoichiometry` distinguishes -/
inductive PCoef where
  | float (v : ExprId)
  | symbol (s : String)
  | other (e : PExpr)
deriving Repr, DecidableEq, Inhabited

structure PRxn where
  expr : PExpr
  stoich : List (String × PCoef)
deriving Repr, DecidableEq, Inhabited

/-- the containers of `pysbml.transform.data.Model` that `_codegen` reads -/
structure PModel where
  variables : List (String × ExprId × Bool)      -- value, unit present
  parameters : List (String × ExprId × Bool)
  derived : List (String × PExpr)
  reactions : List (String × PRxn)
  inits : List (String × PExpr)
deriving Repr, DecidableEq, Inhabited

def transformStoich (k : String) : PCoef → SymCoef
  | .float v => .num v
  | .symbol s => .name s
  | .other e => .fn { fnName := k, expr := e.expr, args := e.free }

/-- `d[key].value = v` for a key that is present (position kept) -/
def setValue (d : List (String × SymQty)) (key : String) (v : SymVal) : List (String × SymQty) :=
  d.map fun kv => if kv.1 == key then (kv.1, { kv.2 with value := v }) else kv

def hasKey {β} (d : List (String × β)) (k : String) : Bool := d.any (·.1 == k)

/-- the loop over `model.initial_assignments` -/
def applyInits (pm : PModel) : List (String × PExpr) → SymRepr → SymRepr
  | [], s => s
  | (key, e) :: rest, s =>
    let f : SymVal := .fn { fnName := key, expr := e.expr, args := e.free }
    if hasKey pm.parameters key then applyInits pm rest { s with parameters := setValue s.parameters key f }
    else if hasKey pm.variables key then applyInits pm rest { s with variables := setValue s.variables key f }
    else applyInits pm rest s

def importSym (pm : PModel) : SymRepr :=
  let s : SymRepr :=
    { variables := pm.variables.map fun kv => (kv.1, { value := .num kv.2.1, unit := kv.2.2 })
      parameters := pm.parameters.map fun kv => (kv.1, { value := .num kv.2.1, unit := kv.2.2 })
      derived := pm.derived.map fun kv => (kv.1, { fnName := kv.1, expr := kv.2.expr, args := kv.2.free })
      reactions := pm.reactions.map fun kv =>
        (kv.1, { fn := { fnName := kv.1, expr := kv.2.expr.expr, args := kv.2.expr.free }
                 stoich := kv.2.stoich.map fun sv => (sv.1, transformStoich sv.1 sv.2) }) }
  applyInits pm pm.inits s

/-! ### `generate_mxlpy_code_from_symbolic_repr` (meta/codegen_mxlpy.py) -/

/-- `_free_name` (the loop is `freeName` of Model/C17Doc.lean): it meets a different element of `taken` in every round, so `length + 1` rounds always
    suffice (`freshName_spec` in Lemmas/C17Codegen.lean) -/
def freshName (taken : List String) (name : String) : String :=
  (freeName taken name (taken.length + 1)).getD name

/-- what the emitted `create_model` passes for a value -/
inductive EVal where
  | num (v : ExprId) (kw : String) (unit : Bool)   -- `<kw>=<number>[, unit=…]`
  | ia (fn : String) (args : List String)           -- `InitialAssignment(fn=<fn>, args=[…])`
deriving Repr, DecidableEq, Inhabited

inductive ECoef where
  | num (v : ExprId)
  | name (s : String)
  | fn (fn : String) (args : List String)           -- `Derived(fn=<fn>, args=[…])`
deriving Repr, DecidableEq, Inhabited

inductive Call where
  | addVariable (k : String) (v : EVal)
  | addParameter (k : String) (v : EVal)
  | addDerived (k : String) (fn : String) (args : List String)
  | addReaction (k : String) (fn : String) (args : List String) (stoich : List (String × ECoef))
deriving Repr, DecidableEq, Inhabited

/-- the `functions` dict: name ↦ (expr, args) -/
abbrev Fns := List (String × (ExprId × List String))

structure GState where
  fns : Fns
  taken : List String
deriving Repr, Inhabited

/-- `fn_name = _free_name(requested, taken); functions[fn_name] = (expr, args)` -/
def regGenerated (acc : Bool) (st : GState) (requested : String) (f : SymFn) : GState × String :=
  let name := freshName st.taken requested
  ({ fns := omInsert st.fns name (f.expr, f.args), taken := if acc then name :: st.taken else st.taken }, name)

/-- `functions[fn.fn_name] = (fn.expr, fn.args)` -/
def regComponent (st : GState) (f : SymFn) : GState :=
  { st with fns := omInsert st.fns f.fnName (f.expr, f.args) }

/-- `_codegen_variable` (`kw = "initial_value"`) / `_codegen_parameter` (`kw = "value"`); with a unit both write
    `value=` -/
def genQty (acc : Bool) (kw : String) (st : GState) (q : SymQty) : GState × EVal :=
  match q.value with
  | .fn f =>
    let r := regGenerated acc st ("init_" ++ f.fnName) f
    (r.1, .ia r.2 f.args)
  | .num v => (st, .num v (if q.unit then "value" else kw) q.unit)

def genQtys (acc : Bool) (kw : String) (mk : String → EVal → Call) :
    List (String × SymQty) → GState → GState × List Call
  | [], st => (st, [])
  | (k, q) :: rest, st =>
    let r1 := genQty acc kw st q
    let r2 := genQtys acc kw mk rest r1.1
    (r2.1, mk k r1.2 :: r2.2)

def genDerived : List (String × SymFn) → GState → GState × List Call
  | [], st => (st, [])
  | (k, f) :: rest, st =>
    let r := genDerived rest (regComponent st f)
    (r.1, .addDerived k f.fnName f.args :: r.2)

def genCoef (acc : Bool) (rxn : String) (st : GState) : SymCoef → GState × ECoef
  | .fn f =>
    let r := regGenerated acc st (rxn ++ "_stoich_" ++ f.fnName) f
    (r.1, .fn r.2 f.args)
  | .name s => (st, .name s)
  | .num v => (st, .num v)

def genStoich (acc : Bool) (rxn : String) : List (String × SymCoef) → GState → GState × List (String × ECoef)
  | [], st => (st, [])
  | (var, c) :: rest, st =>
    let r1 := genCoef acc rxn st c
    let r2 := genStoich acc rxn rest r1.1
    (r2.1, (var, r1.2) :: r2.2)

def genReactions (acc : Bool) : List (String × SymRxn) → GState → GState × List Call
  | [], st => (st, [])
  | (k, r) :: rest, st =>
    let r1 := genStoich acc k r.stoich (regComponent st r.fn)
    let r2 := genReactions acc rest r1.1
    (r2.1, .addReaction k r.fn.fnName r.fn.args r1.2 :: r2.2)

/-- function names of derived quantities and reactions -/
def takenOf (s : SymRepr) : List String :=
  s.derived.map (·.2.fnName) ++ s.reactions.map (·.2.fn.fnName)

structure Module where
  functions : Fns          -- one `def` each, in this order
  calls : List Call        -- the chain in `create_model`
deriving Repr, DecidableEq, Inhabited

def hasDup : List String → Bool
  | [] => false
  | a :: as => as.contains a || hasDup as

/-- the four loops -/
def genState (acc : Bool) (s : SymRepr) : GState × List Call :=
  let st0 : GState := { fns := [], taken := takenOf s }
  let r1 := genQtys acc "initial_value" Call.addVariable s.variables st0
  let r2 := genQtys acc "value" Call.addParameter s.parameters r1.1
  let r3 := genDerived s.derived r2.1
  let r4 := genReactions acc s.reactions r3.1
  (r4.1, r1.2 ++ r2.2 ++ r3.2 ++ r4.2)

/-- the functions `_check_function_names` is called with: derived quantities, then reactions -/
def compFns (s : SymRepr) : List SymFn := s.derived.map (·.2) ++ s.reactions.map (·.2.fn)

/-- first loop of `_check_function_names`: the function of a name is taken from its first use with distinct arguments -/
def writtenRef (fns : List SymFn) (name : String) : Option SymFn :=
  fns.find? fun f => f.fnName == name && !hasDup f.args

/-- second loop: every use of a name is that name's function applied to the use's arguments: as many arguments, and the
    expression of the use equals the reference with its arguments renamed.  Expressions are opaque here (`ExprId`): in the
    generated `SymbolicRepr`s they stand for closed terms, on the import path a name has one use — equal ids it is. -/
def namesConsistent (s : SymRepr) : Bool :=
  (compFns s).all fun f =>
    match writtenRef (compFns s) f.fnName with
    | some g => g.args.length == f.args.length && g.expr == f.expr
    | none => true

def genModuleWith (acc : Bool) (s : SymRepr) : Except String Module :=
  -- `_check_function_names`: two different functions with one name (builder F's repair a78b54e)
  if !namesConsistent s then .error "ValueError"
  else
  let r := genState acc s
  -- `sympy_to_python_fn` for every entry of `functions`
  if r.1.fns.any (fun kv => hasDup kv.2.2) then .error "ValueError"
  else .ok { functions := r.1.fns, calls := r.2 }

/-! ### `sympy_to_python_fn`: a parameter called like a name the body calls gets a name of its own (F-C17-13) -/

/-- `for arg in clash: new = f"{arg}_"; while new in taken: new += "_"; taken.add(new)` along the parameter list -/
def shadowGo (called : List String) : List String → List String → List String
  | _, [] => []
  | taken, a :: as =>
    if called.contains a then
      let n := freshName taken (a ++ "_")
      n :: shadowGo called (n :: taken) as
    else a :: shadowGo called taken as

/-- the parameter names of the emitted `def`; `called` = the names the printed body calls or reaches into (opaque, like the
    body).  `taken` starts from the arguments and the called names (the free symbols of the body are among the arguments
    wherever the generator is used: `_codegen` passes exactly them, the generated `SymbolicRepr`s have closed bodies) -/
def shadowRename (called args : List String) : List String := shadowGo called (args ++ called) args

def Module.renameParams (calledOf : ExprId → List String) (m : Module) : Module :=
  { m with functions := m.functions.map fun kv => (kv.1, (kv.2.1, shadowRename (calledOf kv.2.1) kv.2.2)) }

/-- the generator as it is -/
def genModule (s : SymRepr) : Except String Module := genModuleWith true s

/-! ### reading the emitted module back: every reference looked up in the module's definitions -/

/-- a reference resolved: the definition found under the name (if any) and the arguments of the call -/
structure RRef where
  defn : Option (ExprId × List String)
  callArgs : List String
deriving Repr, DecidableEq, Inhabited

inductive RVal where
  | num (v : ExprId) (kw : String) (unit : Bool)
  | ia (r : RRef)
deriving Repr, DecidableEq, Inhabited

inductive RCoef where
  | num (v : ExprId)
  | name (s : String)
  | fn (r : RRef)
deriving Repr, DecidableEq, Inhabited

inductive RCall where
  | addVariable (k : String) (v : RVal)
  | addParameter (k : String) (v : RVal)
  | addDerived (k : String) (r : RRef)
  | addReaction (k : String) (r : RRef) (stoich : List (String × RCoef))
deriving Repr, DecidableEq, Inhabited

def resolveRef (fs : Fns) (fn : String) (args : List String) : RRef := { defn := fs.lookup fn, callArgs := args }

def resolveVal (fs : Fns) : EVal → RVal
  | .num v kw u => .num v kw u
  | .ia fn args => .ia (resolveRef fs fn args)

def resolveCoef (fs : Fns) : ECoef → RCoef
  | .num v => .num v
  | .name s => .name s
  | .fn fn args => .fn (resolveRef fs fn args)

def resolveCall (fs : Fns) : Call → RCall
  | .addVariable k v => .addVariable k (resolveVal fs v)
  | .addParameter k v => .addParameter k (resolveVal fs v)
  | .addDerived k fn args => .addDerived k (resolveRef fs fn args)
  | .addReaction k fn args sto => .addReaction k (resolveRef fs fn args) (sto.map fun sv => (sv.1, resolveCoef fs sv.2))

/-- what executing the module builds, names of helper functions resolved away -/
def resolveModule (m : Module) : List RCall := m.calls.map (resolveCall m.functions)

/-! ### what the `SymbolicRepr` prescribes (spec: no names of generated functions, no dict) -/

def specRef (f : SymFn) : RRef := { defn := some (f.expr, f.args), callArgs := f.args }

def specQty (kw : String) (q : SymQty) : RVal :=
  match q.value with
  | .fn f => .ia (specRef f)
  | .num v => .num v (if q.unit then "value" else kw) q.unit

def specCoef : SymCoef → RCoef
  | .num v => .num v
  | .name s => .name s
  | .fn f => .fn (specRef f)

def specCalls (s : SymRepr) : List RCall :=
  s.variables.map (fun kv => .addVariable kv.1 (specQty "initial_value" kv.2)) ++
  s.parameters.map (fun kv => .addParameter kv.1 (specQty "value" kv.2)) ++
  s.derived.map (fun kv => .addDerived kv.1 (specRef kv.2)) ++
  s.reactions.map (fun kv => .addReaction kv.1 (specRef kv.2.fn) (kv.2.stoich.map fun sv => (sv.1, specCoef sv.2)))

/-! ### number of functions the representation asks for -/

def isFnVal : SymVal → Nat
  | .fn _ => 1
  | .num _ => 0

def isFnCoef : SymCoef → Nat
  | .fn _ => 1
  | _ => 0

def rxnFns : List (String × SymRxn) → Nat
  | [] => 0
  | (_, r) :: rest => 1 + (r.stoich.map fun sv => isFnCoef sv.2).sum + rxnFns rest

def fnsAsked (s : SymRepr) : Nat :=
  (s.variables.map fun kv => isFnVal kv.2.value).sum + (s.parameters.map fun kv => isFnVal kv.2.value).sum +
    s.derived.length + rxnFns s.reactions

end Mxl.C17
