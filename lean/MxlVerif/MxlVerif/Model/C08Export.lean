/-
C08 — executable model of `mxlpy/sbml/_export.py`, line for line; tables and the few structural
choices (child order of piecewise, side of a computed coefficient, fall-through of unknown calls,
arity checks, setter name) come from `Generated/C08Tables.lean`, i.e. from the repo's current source.

  convert        _convert_node and the _convert_* family                       (:95-308)
  handleBody     _handle_body  (the first `return` is the result; none: ValueError)
  renameExpr     IdentifierReplacer                                            (:75-83)
  treeToSbml     _tree_to_sbml                                                 (:318-327)
  escapeId       _convert_id_to_sbml / _escape_non_alphanumeric                (:338-348)
  freshName      _free_reference (name of a species reference nothing else in the model has)
  exportReaction _create_sbml_reactions
  exportModel    _model_to_sbml (parameters, derived, variables, reactions)
-/
import MxlVerif.Model.C08Syntax
import MxlVerif.Generated.C08Tables
namespace Mxl.C08
open Gen

/-! ### expressions -/

def lookupE {α β} [BEq α] (tbl : List (α × β)) (k : α) (what : String) : Except XErr β :=
  match tbl.lookup k with
  | some v => .ok v
  | none => .error (.notImplemented what)

def convertConst : Const → Except XErr MathML
  | .bool true => .ok (.csym .true)
  | .bool false => .ok (.csym .false)
  | .num q => .ok (.cn q)
  | .other => .error (.typeError "ASTNode_setValue")     -- libsbml's overload resolution fails

def convertAttr (p a : String) : Except XErr MathML :=
  if libParents.contains p then
    match attrConstTable.lookup a with
    | some m => .ok m
    | none => .error (.notImplemented s!"{p}.{a}")
  else .error (.notImplemented s!"{p}.{a}")

def ifexpChildren (t b o : MathML) : List MathML :=
  ifexpOrder.map fun
    | .test => t
    | .body => b
    | .orelse => o

/-- the function name the tables are consulted with -/
def calleeName : Callee → Except XErr (Option String)
  | .direct f => .ok (some f)
  | .lib p a => .ok (if libParents.contains p then some a else none)
  | .libDeep => .error (.attributeError "id")          -- cast(ast.Name, func.value).id
  | .other => .error (.notImplemented "Unknown call type")

def calleeIsMath : Callee → Bool
  | .lib p _ => p == "math"
  | _ => false

/-- node type for a call of `f` (`isMath`: written `math.f`) with `n` arguments, how many leading arguments
    are converted (`none` = all of them), and whether the node is built by the unary branch -/
def callKind (f : Option String) (isMath : Bool) (n : Nat) : Except XErr (MType × Option Nat × Bool) :=
  let unknown : Except XErr (MType × Option Nat × Bool) :=
    if unknownCallRaises then .error (.notImplemented "Unknown function") else .ok (.function, none, false)
  match f with
  | none => unknown
  | some f =>
    match unaryTable.lookup f with
    | some t =>
      if arityChecked then (if n ≠ 1 then .error (.notImplemented "arity") else .ok (t, none, true))
      else (if n < 1 then .error .indexError else .ok (t, some 1, true))
    | none =>
    match (if binaryNumpyOnly && isMath then none else binaryTable.lookup f) with
    | some t =>
      if arityChecked then (if n ≠ 2 then .error (.notImplemented "arity") else .ok (t, none, false))
      else (if n < 2 then .error .indexError else .ok (t, some 2, false))
    | none =>
    match naryTable.lookup f with
    | some t => .ok (t, none, false)
    | none => unknown

/-- `_unary_node`: MathML `log` gets its base as first child -/
def unaryChildren (t : MType) (ms : List MathML) : List MathML :=
  if logWithBase && t == .fnLog then .cn 10 :: ms else ms

mutual
def convert : PyExpr → Except XErr MathML
  | .name id => .ok (.ci id)
  | .const c => convertConst c
  | .unary op e => do
      let m ← convert e
      let t ← lookupE unaryOpTable op "unaryop"
      pure (.apply t [m])
  | .binop op l r => do
      let a ← convert l
      let b ← convert r
      let t ← lookupE binOpTable op "operator"
      pure (.apply t [a, b])
  | .compare l op r rest => do
      let t ← lookupE cmpOpTable op "cmpop"
      let a ← convert l
      let b ← convert r
      let tl ← convertLinks b rest
      match tl with
      | [] => pure (.apply t [a, b])
      | _ => pure (.apply .logicalAnd (.apply t [a, b] :: tl))
  | .ifexp t b o => do
      let c ← convert t
      let x ← convert b
      let y ← convert o
      pure (.apply .fnPiecewise (ifexpChildren c x y))
  | .call f args => do
      let name ← calleeName f
      let (t, k, isUnary) ← callKind name (calleeIsMath f) args.length
      match k with
      | none => do
          let ms ← convertList args
          pure (.apply t (if isUnary then unaryChildren t ms else ms))
      | some k => do
          let ms ← convertTake k args
          pure (.apply t (if isUnary then unaryChildren t ms else ms))
  | .attr p a => convertAttr p a
  | .attrDeep => .error (.attributeError "id")
  | .boolop _ _ => .error (.notImplemented "BoolOp")
  | .callKw => .error (.notImplemented "Keyword arguments")   -- `_convert_call` looks at `node.keywords` first
  | .other => .error (.notImplemented "node")
def convertList : List PyExpr → Except XErr (List MathML)
  | [] => .ok []
  | e :: es => do
      let m ← convert e
      let ms ← convertList es
      pure (m :: ms)
/-- the first `k` arguments only (`node.args[0]`, `node.args[1]` of the unchecked exporter) -/
def convertTake : Nat → List PyExpr → Except XErr (List MathML)
  | 0, _ => .ok []
  | _ + 1, [] => .ok []
  | k + 1, e :: es => do
      let m ← convert e
      let ms ← convertTake k es
      pure (m :: ms)
/-- further links of a chained comparison; `prev` is the converted operand on the left -/
def convertLinks (prev : MathML) : List (COp × PyExpr) → Except XErr (List MathML)
  | [] => .ok []
  | (op, e) :: rest => do
      let t ← lookupE cmpOpTable op "cmpop"
      let b ← convert e
      let tl ← convertLinks b rest
      pure (.apply t [prev, b] :: tl)
end

def convertStmt : PyStmt → Except XErr MathML
  | .ret none => .error (.valueError "Model function cannot return `None`")
  | .ret (some e) => convert e
  | .other => .error (.notImplemented "stmt")

/-- the older `_handle_body`: `code = ASTNode(); for stmt in stmts: code = _convert_node(stmt); return code` -/
def handleBodyLast (code : MathML) : List PyStmt → Except XErr MathML
  | [] => .ok code
  | s :: ss => do
      let c ← convertStmt s
      handleBodyLast c ss

/-- `for stmt in stmts: code = _convert_node(stmt); if isinstance(stmt, ast.Return): return code`, then
    `raise ValueError` -/
def handleBodyFirst : List PyStmt → Except XErr MathML
  | [] => .error (.valueError "Model function cannot return `None`")
  | s :: ss => do
      let c ← convertStmt s
      match s with
      | .ret _ => pure c
      | .other => handleBodyFirst ss

def handleBody (stmts : List PyStmt) : Except XErr MathML :=
  if bodyFirstReturn then handleBodyFirst stmts else handleBodyLast (.apply .unknown []) stmts

/-! ### argument renaming (IdentifierReplacer visits every `ast.Name`) -/

def renameId (σ : List (String × String)) (id : String) : String :=
  (σ.lookup id).getD id

def renameCallee (σ : List (String × String)) : Callee → Callee
  | .direct f => .direct (renameId σ f)
  | .lib p a => .lib (renameId σ p) a
  | c => c

mutual
def renameExpr (σ : List (String × String)) : PyExpr → PyExpr
  | .name id => .name (renameId σ id)
  | .const c => .const c
  | .unary op e => .unary op (renameExpr σ e)
  | .binop op l r => .binop op (renameExpr σ l) (renameExpr σ r)
  | .compare l op r rest => .compare (renameExpr σ l) op (renameExpr σ r) (renameLinks σ rest)
  | .ifexp t b o => .ifexp (renameExpr σ t) (renameExpr σ b) (renameExpr σ o)
  | .call f args => .call (renameCallee σ f) (renameList σ args)
  | .attr p a => .attr (renameId σ p) a
  | .attrDeep => .attrDeep
  | .boolop a vals => .boolop a (renameList σ vals)
  | .callKw => .callKw
  | .other => .other
def renameList (σ : List (String × String)) : List PyExpr → List PyExpr
  | [] => []
  | e :: es => renameExpr σ e :: renameList σ es
def renameLinks (σ : List (String × String)) : List (COp × PyExpr) → List (COp × PyExpr)
  | [] => []
  | (op, e) :: rest => (op, renameExpr σ e) :: renameLinks σ rest
end

def renameStmt (σ : List (String × String)) : PyStmt → PyStmt
  | .ret (some e) => .ret (some (renameExpr σ e))
  | s => s

/-- a model function: parameter names, body, and the model names it is called with -/
structure PyFn where
  params : List String
  body : List PyStmt
  args : List String
deriving Repr, Inhabited

/-- `dict(zip(fn_args, args, strict=True))` (parameter names of a Python function are distinct) -/
def zipStrict : List String → List String → Except XErr (List (String × String))
  | [], [] => .ok []
  | p :: ps, a :: as => do
      let rest ← zipStrict ps as
      pure ((p, a) :: rest)
  | _, _ => .error (.valueError "zip() argument lengths differ")

/-- `_sbmlify_fn` -/
def sbmlifyFn (f : PyFn) : Except XErr MathML := do
  let σ ← zipStrict f.params f.args
  handleBody (f.body.map (renameStmt σ))

/-! ### identifiers -/

def isAsciiAlpha (c : Char) : Bool := ('a' ≤ c && c ≤ 'z') || ('A' ≤ c && c ≤ 'Z')
def isAsciiDigit (c : Char) : Bool := '0' ≤ c && c ≤ '9'
/-- `[0-9_a-zA-Z]` -/
def isWordChar (c : Char) : Bool := isAsciiAlpha c || isAsciiDigit c || c == '_'

/-- `_escape_non_alphanumeric` on one character -/
def escapeChar (c : Char) : List Char :=
  if isWordChar c then [c] else ['_', '_'] ++ (toString c.toNat).toList ++ ['_', '_']

def escapeChars : List Char → List Char
  | [] => []
  | c :: cs => escapeChar c ++ escapeChars cs

/-- `_convert_id_to_sbml` (the trailing `.replace(".", SBML_DOT)` never fires: every '.' has
    already become `__46__`) -/
def escapeId (id pre : String) : Except XErr String :=
  match escapeChars id.toList with
  | [] => .error .indexError                      -- new_id[0] on the empty string
  | c :: cs =>
    if isAsciiAlpha c then .ok (String.ofList (c :: cs))
    else .ok (pre ++ "_" ++ String.ofList (c :: cs))

/-! ### document -/

inductive PyInit where
  | val (q : Rat)
  | ia (f : PyFn)
deriving Repr, Inhabited

inductive PyCoef where
  | num (q : Rat)
  | computed (f : PyFn)
deriving Repr, Inhabited

structure PyRxn where
  name : String
  fn : PyFn
  stoich : List (String × PyCoef)
deriving Repr, Inhabited

structure PyModel where
  params : List (String × PyInit)
  vars : List (String × PyInit)
  derived : List (String × PyFn)
  rxns : List PyRxn
deriving Repr, Inhabited

structure SRef where
  species : String
  stoich : Option Rat        -- the `stoichiometry` attribute
  id : Option String         -- set for a coefficient defined by an assignment rule
deriving Repr, Inhabited

structure SRxn where
  id : String
  reactants : List SRef
  products : List SRef
  law : MathML
deriving Repr, Inhabited

structure SDoc where
  params : List (String × Option Rat)
  species : List (String × Option Rat)
  inits : List (String × MathML)        -- symbol, math
  rules : List (String × MathML)        -- variable, math (assignment rules, document order)
  rxns : List SRxn
deriving Repr, Inhabited

def SDoc.empty : SDoc := ⟨[], [], [], [], []⟩

/-- libsbml's `InitialAssignment` has `setSymbol`; any other setter name is an AttributeError -/
def iaSetterExists : Bool := iaSetter == "setSymbol"

/-- `pre`: the prefix of the component the assignment belongs to.  The symbol of the assignment is the id that component
    is declared with (`ids[name]`; the older code escaped the name with the prefix `IA`, which names nothing when a prefix
    is needed) -/
def exportInit (pre : String) (d : SDoc) (name : String) (f : PyFn) : Except XErr SDoc := do
  let sym ← escapeId name (if iaSymbolDeclared then pre else prefixInit)
  if !iaSetterExists then .error (.attributeError iaSetter)
  let m ← sbmlifyFn f
  pure { d with inits := d.inits ++ [(sym, m)] }

def exportParam (d : SDoc) (kv : String × PyInit) : Except XErr SDoc := do
  let id ← escapeId kv.1 prefixParam
  match kv.2 with
  | .val q => pure { d with params := d.params ++ [(id, some q)] }
  | .ia f => exportInit prefixParam { d with params := d.params ++ [(id, none)] } kv.1 f

def exportVar (d : SDoc) (kv : String × PyInit) : Except XErr SDoc := do
  let id ← escapeId kv.1 prefixVar
  match kv.2 with
  | .val q => pure { d with species := d.species ++ [(id, some q)] }
  | .ia f => exportInit prefixVar { d with species := d.species ++ [(id, none)] } kv.1 f

/-- `_create_derived_parameter` / `_create_sbml_derived_variables` -/
def exportRule (d : SDoc) (name : String) (f : PyFn) : Except XErr SDoc := do
  let v ← escapeId name prefixRule
  let m ← sbmlifyFn f
  pure { d with rules := d.rules ++ [(v, m)] }

def addRef (side : Side) (r : SRxn) (s : SRef) : SRxn :=
  match side with
  | .reactant => { r with reactants := r.reactants ++ [s] }
  | .product => { r with products := r.products ++ [s] }

def absRat (q : Rat) : Rat := if q < 0 then -q else q

/-- `_free_reference`: `while name in taken: name += "_"`; `fuel` bounds the loop (`taken.length + 1` rounds
    always suffice; `none` = bound hit) -/
def freshName (taken : List String) (name : String) : Nat → Option String
  | 0 => none
  | fuel + 1 => if taken.contains name then freshName taken (name ++ "_") fuel else some name

/-- name of the species reference (and of its assignment rule) for a computed coefficient on `species`,
    and the names taken afterwards.  The older exporter used `<species>ref` unconditionally. -/
def refName (taken : List String) (species : String) : Except XErr (String × List String) :=
  if refFresh then
    match freshName taken (species ++ refSuffix) (taken.length + 1) with
    | some n => .ok (n, n :: taken)
    | none => .error (.valueError "unreachable: a free name exists within len(taken) + 1 rounds")
  else .ok (species ++ refSuffix, taken)

/-- state while the reactions are written: names taken (`set(model.ids)` + references), document, reaction -/
abbrev RState := List String × SDoc × SRxn

/-- one entry of `rxn.stoichiometry` -/
def exportCoef (st : RState) (kv : String × PyCoef) : Except XErr RState := do
  let (taken, d, r) := st
  match kv.2 with
  | .num q =>
      let sp ← escapeId kv.1 prefixRefSpecies
      let side := if q < 0 then negSide else nonnegSide
      pure (taken, d, addRef side r ⟨sp, some (absRat q), none⟩)
  | .computed f =>
      let (reference, taken') ← refName taken kv.1
      let d' ← exportRule d reference f
      let rid ← escapeId reference prefixRefId
      let sp ← escapeId kv.1 prefixRefSpecies
      pure (taken', d', addRef computedSide r ⟨sp, none, some rid⟩)

def exportCoefs (st : RState) : List (String × PyCoef) → Except XErr RState
  | [] => .ok st
  | kv :: rest => do
      let st' ← exportCoef st kv
      exportCoefs st' rest

def exportReaction (st : List String × SDoc) (rx : PyRxn) : Except XErr (List String × SDoc) := do
  let (taken, d) := st
  let id ← escapeId rx.name prefixRxn
  let (taken', d', r) ← exportCoefs (taken, d, ⟨id, [], [], .apply .unknown []⟩) rx.stoich
  let law ← sbmlifyFn rx.fn
  pure (taken', { d' with rxns := d'.rxns ++ [{ r with law := law }] })

def foldE {σ α} (f : σ → α → Except XErr σ) : σ → List α → Except XErr σ
  | s, [] => .ok s
  | s, a :: as => do
      let s' ← f s a
      foldE f s' as

/-- every name of the model (`model.ids`) -/
def PyModel.names (m : PyModel) : List String :=
  m.params.map (·.1) ++ m.vars.map (·.1) ++ m.derived.map (·.1) ++ m.rxns.map (·.name)

/-- `_model_to_sbml`: parameters, derived, variables, reactions.  (The real code writes derived
    parameters before the species and derived variables after them; assignment rules are compared
    as a set, so the model keeps one list.) -/
def exportModel (m : PyModel) : Except XErr SDoc := do
  let d ← foldE exportParam SDoc.empty m.params
  let d ← foldE (fun d kv => exportRule d kv.1 kv.2) d m.derived
  let d ← foldE exportVar d m.vars
  let (_, d) ← foldE exportReaction (m.names, d) m.rxns
  pure d

end Mxl.C08
