/-
C06 — Python → symbolic translation (`mxlpy.meta.source_tools.fn_to_sympy`).

Import-free (core Lean only).  Three parts, all executable and all run by the driver:

* a deep embedding of the supported Python subset (`PyExpr`, `PyStmt`, `FnDef`) with a partial
  big-step semantics over `Rat` (`evalExpr` / `execBody` / `callFn`), defined only where CPython is:
  no division by zero, every local bound before it is read, only integer exponents;
* the symbolic target language `SExpr` (sympy's Piecewise / relational / And fragment) and `evalS`;
* `fnToSympy` / `trBody` / `trLoop` / `trExpr`, written line for line after
  `fn_to_sympy` / `_handle_fn_body` / `_handle_expr` / `_handle_call`, *including* the shared
  mutable `ctx.symbols` (threaded through branches, never copied), the `pieces` list, the `break`
  after an `else`, the "return the last assigned name" fallback and the final `expr.subs(dict)`.

All recursion is on a fuel argument (every recursive call uses the predecessor), so the Python
semantics is a *partial* function (`none` = raises / diverges / outside the model) and the
translator distinguishes `refused` (fn_to_sympy returns `None`), `raised` (an exception that
fn_to_sympy does not catch escapes: KeyError, IndexError) and `fuel`.

What the translator does per operator / known function / statement kind is NOT written here: it is
read from `Tables`, whose value `Generated.C06Tables.tables` is regenerated from
`source_tools.py` on every run by `translate/c06.py`.
-/
namespace Mxl.C06

/-! ## Python side: syntax -/

inductive UnOp where | uadd | usub | other
deriving DecidableEq, Repr

inductive BinOp where | add | sub | mul | div | pow | mod | floordiv | other
deriving DecidableEq, Repr

inductive CmpOp where | gt | ge | lt | le | eq | ne | other
deriving DecidableEq, Repr

/-- What a call's function expression resolves to (`_handle_call`'s lookup in the parent module's
callables / `ctx.fns` / attribute chain).  `known key`: not a function with Python source
(builtin / math / numpy); `key` is its source-text name as in `KNOWN_FNS` ("math.sqrt"). -/
inductive CallTarget where
  | user (f : String)
  | known (key : String)
  | unresolved
deriving DecidableEq, Repr

/-- Module-level objects a function can see. -/
inductive GVal where
  | flt (q : Rat)                 -- a `float` global
  | int (q : Rat)                 -- an `int` global (not found by the translator's float-only lookup)
  | special (c : String) (q : Rat)  -- a float equal to math.pi / math.e / math.tau (KNOWN_CONSTANTS candidates)
  | fn (tgt : CallTarget)           -- a callable member of the module namespace (under its name / dotted path)
  | other
deriving DecidableEq, Repr

/-- one alias of a function-local `import` / `from … import …`: what the imported object is.
`flt` / `int`: a number (`from m import K`); `objs`: a callable or a module — the bindings it creates, keyed by the
source text of the paths the function uses (`[("hmul", .fn t)]`, `[("m", .other), ("m.hsub", .fn t), ("m.HC", .flt q)]`);
`other`: anything else (str, bool, tuple, …). -/
inductive ImpItem where
  | flt (q : Rat)
  | int (q : Rat)
  | objs (ps : List (String × GVal))
  | other
deriving DecidableEq, Repr

inductive PyExpr where
  | num (q : Rat)                                   -- ast.Constant int / float
  | name (n : String)                               -- ast.Name
  | attr (path : String)                            -- ast.Attribute chain resolving to a module-level object
  | un (op : UnOp) (e : PyExpr)
  | bin (op : BinOp) (l r : PyExpr)
  | cmp (l : PyExpr) (ops : List CmpOp) (rs : List PyExpr)   -- ast.Compare: ops and comparators
  | ife (c t e : PyExpr)                            -- ast.IfExp
  | call (func : String) (args : List PyExpr)        -- `func`: the source text of the function expression ("f", "hp.f")
  | callKw (func : String) (args : List PyExpr)      -- a call that also has keyword arguments; `args` = the positional ones
  | unsupported                                     -- BoolOp, Subscript, str constant, …
deriving Repr

inductive PyStmt where
  | assign (x : String) (e : PyExpr)
  | tupleAssign (xs : List String) (es : List PyExpr)      -- `a, b = e1, e2`
  | multiAssign (xs : List String) (e : PyExpr)            -- `a = b = e` (two or more targets, all names)
  | unpackAssign (xs : List String) (e : PyExpr)           -- `a, b = e` with `e` not a tuple display
  | importS (items : List (String × ImpItem))              -- function-local `import m [as a]` / `from m import x [as y], …`
  | augAssign (x : String) (op : BinOp) (e : PyExpr)       -- `x += e`
  | ifs (c : PyExpr) (t e : List PyStmt)
  | ret (e : PyExpr)
  | retNone                                                -- bare `return`
  | skip                                                   -- `pass`, docstring
  | unhandled                                              -- for / while / with / …: not modelled
deriving Repr

/-! ## Values -/

/-- Python values: numbers, bools, and (for names bound by a function-local import) the imported object.  An
object is never the value of an expression (`evalExpr` has no value for a name bound to one); it is only looked
up when a call / attribute path goes through a locally imported name. -/
inductive Val where
  | num (q : Rat)
  | bool (b : Bool)
  | obj (g : GVal)
deriving DecidableEq, Repr, Inhabited

/-- `params` = positional-only parameters followed by the ordinary ones (`args.posonlyargs + args.args`); the first
`nPosonly` of them are the positional-only ones; `otherParams` = the signature also has `*args`, keyword-only
parameters or `**kwargs`. -/
structure FnDef where
  name : String
  params : List String
  body : List PyStmt
  globals : List (String × GVal)
  nPosonly : Nat := 0
  otherParams : Bool := false
deriving Repr

/-- `ctx.fns` / `ctx.modules`: what function-local imports bound, keyed like `globals` (a bare name for an imported
callable, dotted paths `alias.attr` for the members of an imported module that the function uses); first binding wins -/
abbrev Imps := List (String × GVal)

abbrev Prog := List FnDef

def Prog.find (P : Prog) (f : String) : Option FnDef := List.find? (fun d => d.name == f) P

/-- `_handle_call`'s lookup of the function expression among the callables the parent module can see
(a snapshot of `inspect.getmembers(parent_module, callable)` and of the attribute chains used, keyed by
source text).  Local variables play no role in it; anything that is not a callable member is `py_fn = None`. -/
def resolveCall (G : List (String × GVal)) (func : String) : CallTarget :=
  match G.lookup func with
  | some (.fn t) => t
  | _ => .unresolved

/-! ## Symbolic side: syntax -/

inductive SUn where | pos | neg
deriving DecidableEq, Repr

inductive SBin where | add | sub | mul | div | pow | mod | floordiv
deriving DecidableEq, Repr

inductive SRel where | gt | ge | lt | le | eq | ne
deriving DecidableEq, Repr

/-- What the translator does with one comparison operator: build a sympy relational, or apply
Python's `==` / `!=` to the two sympy objects (structural equality, a Python `bool`). -/
inductive CmpTr where
  | rel (r : SRel)
  | structEq
  | structNe
deriving DecidableEq, Repr

inductive SExpr where
  | num (q : Rat)                    -- sympy.Float
  | sym (n : String)                 -- sympy.Symbol
  | const (c : String)               -- sympy.pi, sympy.E, … (no rational value: opaque)
  | boolLit (b : Bool)               -- sympy.true / sympy.false / Python bool
  | un (op : SUn) (a : SExpr)
  | bin (op : SBin) (a b : SExpr)
  | rel (op : SRel) (a b : SExpr)
  | and (a b : SExpr)
  | pw (e c rest : SExpr)            -- Piecewise((e, c), *rest)
  | pwEnd                            -- Piecewise()  (no piece applies: undefined)
  | app1 (f : String) (a : SExpr)    -- sympy.Float(fn(a))   for a KNOWN_FNS entry, `f` = its meaning
  | app2 (f : String) (a b : SExpr)
deriving DecidableEq, Repr, Inhabited

abbrev Syms := List (String × SExpr)          -- ctx.symbols (first binding wins; set = cons)
abbrev SEnv := String → Option Val            -- valuation of symbols
abbrev PyEnv := List (String × Val)           -- Python locals

structure Tables where
  unops : List (UnOp × SUn)
  binops : List (BinOp × SBin)
  cmpops : List (CmpOp × CmpTr)
  knownFns : List (String × String)           -- KNOWN_FNS: key text ↦ sympy function text
  knownConsts : List (String × String)        -- KNOWN_CONSTANTS: key text ↦ sympy constant text
  substSimultaneous : Bool                    -- `expr.subs(d, simultaneous=True)` ?
  tupleSimultaneous : Bool                    -- `a, b = e1, e2`: all right-hand sides translated before any binding ?
  unknownStmtRefused : Bool                   -- statement kinds the translator does not handle: refuse (true) / skip silently (false)
  branchCopies : Bool                         -- each branch of an `if` is translated against a copy of `ctx.symbols` ?
  fallThroughChecked : Bool                   -- `_check_branch`: a branch that can fall through is refused unless … ?
  testsBoolean : Bool                         -- `_handle_test`: an if / IfExp test must be a Boolean that is not a Symbol ?
  chainAssignAll : Bool                       -- `a = b = e` binds every target (true) / only the first (false)
  unpackRefused : Bool                        -- `a, b = e` (e not a tuple display): refused (true) / nothing bound (false)
  importsStrict : Bool                        -- local `from m import x`: ints bound like floats, other objects refused (true) / both skipped (false)
  importsCopied : Bool                        -- each branch of an `if` gets its own copy of `ctx.fns` / `ctx.modules` ?
  sigStrict : Bool                            -- positional-only parameters are arguments, `*args` / keyword-only / `**kw` refused ?
  cmpStrict : Bool := true                    -- a comparison operator outside the elif chain (is, is not, in, not in): refused (true) / the link is dropped (false)
deriving Repr

/-! ## Arithmetic shared by the two semantics (kept separate per side below) -/

def powInt (a : Rat) (n : Int) : Option Rat :=
  if n ≥ 0 then some (a ^ n.toNat)
  else if a = 0 then none else some ((a ^ (-n).toNat)⁻¹)

def ratPow (a b : Rat) : Option Rat := if b.isInt then powInt a b.num else none

def ratFloorDiv (a b : Rat) : Option Rat := if b = 0 then none else some ((a / b).floor : Rat)

def ratMod (a b : Rat) : Option Rat := if b = 0 then none else some (a - b * ((a / b).floor : Rat))

/-! ## Python semantics of the operators (CPython on exact numbers) -/

def pyUn : UnOp → Rat → Option Rat
  | .uadd, x => some x
  | .usub, x => some (-x)
  | .other, _ => none

def pyBin : BinOp → Rat → Rat → Option Rat
  | .add, a, b => some (a + b)
  | .sub, a, b => some (a - b)
  | .mul, a, b => some (a * b)
  | .div, a, b => if b = 0 then none else some (a / b)
  | .pow, a, b => ratPow a b
  | .mod, a, b => ratMod a b
  | .floordiv, a, b => ratFloorDiv a b
  | .other, _, _ => none

def pyCmp : CmpOp → Rat → Rat → Option Bool
  | .gt, a, b => some (decide (b < a))
  | .ge, a, b => some (decide (b ≤ a))
  | .lt, a, b => some (decide (a < b))
  | .le, a, b => some (decide (a ≤ b))
  | .eq, a, b => some (decide (a = b))
  | .ne, a, b => some (decide (a ≠ b))
  | .other, _, _ => none

/-! ## sympy semantics of the operators -/

def symUn : SUn → Rat → Rat
  | .pos, x => x
  | .neg, x => -x

def symBin : SBin → Rat → Rat → Option Rat
  | .add, a, b => some (a + b)
  | .sub, a, b => some (a - b)
  | .mul, a, b => some (a * b)
  | .div, a, b => if b = 0 then none else some (a / b)
  | .pow, a, b => ratPow a b
  | .mod, a, b => ratMod a b
  | .floordiv, a, b => ratFloorDiv a b

def symRel : SRel → Rat → Rat → Bool
  | .gt, a, b => decide (b < a)
  | .ge, a, b => decide (b ≤ a)
  | .lt, a, b => decide (a < b)
  | .le, a, b => decide (a ≤ b)
  | .eq, a, b => decide (a = b)
  | .ne, a, b => decide (a ≠ b)

/-! ## Library functions: the mathematical function a Python / sympy name denotes

`pyMeaning` and `symMeaning` are the stated (trusted) reading of the two libraries' documentation;
`mathEval` gives the exactly computable ones a value over `Rat`.  Functions without rational values
(sqrt, exp, …) are named but have no value in the model (opaque on both sides). -/

def pyMeaning : String → Option String
  | "abs" => some "abs" | "min" => some "min" | "max" => some "max" | "pow" => some "pow"
  | "math.acos" => some "acos" | "math.acosh" => some "acosh" | "math.asin" => some "asin"
  | "math.asinh" => some "asinh" | "math.atan" => some "atan" | "math.atan2" => some "atan2"
  | "math.atanh" => some "atanh" | "math.cbrt" => some "cbrt" | "math.ceil" => some "ceil"
  | "math.cos" => some "cos" | "math.cosh" => some "cosh" | "math.erf" => some "erf"
  | "math.erfc" => some "erfc" | "math.exp" => some "exp" | "math.factorial" => some "factorial"
  | "math.floor" => some "floor" | "math.gamma" => some "gamma" | "math.gcd" => some "gcd"
  | "math.lcm" => some "lcm" | "math.log" => some "log" | "math.pow" => some "pow"
  | "math.prod" => some "prod" | "math.radians" => some "radians"
  | "math.remainder" => some "ieee_remainder" | "math.sin" => some "sin" | "math.sinh" => some "sinh"
  | "math.sqrt" => some "sqrt" | "math.tan" => some "tan" | "math.tanh" => some "tanh"
  | "math.trunc" => some "trunc"
  | "np.abs" => some "abs" | "np.absolute" => some "abs"
  | "np.acos" => some "acos" | "np.acosh" => some "acosh" | "np.asin" => some "asin"
  | "np.asinh" => some "asinh" | "np.atan" => some "atan" | "np.atanh" => some "atanh"
  | "np.atan2" => some "atan2" | "np.pow" => some "pow" | "np.add" => some "add"
  | "np.arccos" => some "acos" | "np.arccosh" => some "acosh" | "np.arcsin" => some "asin"
  | "np.arcsinh" => some "asinh" | "np.arctan2" => some "atan2" | "np.arctan" => some "atan"
  | "np.arctanh" => some "atanh" | "np.cbrt" => some "cbrt" | "np.ceil" => some "ceil"
  | "np.conjugate" => some "conjugate" | "np.cos" => some "cos" | "np.cosh" => some "cosh"
  | "np.exp" => some "exp" | "np.floor" => some "floor" | "np.gcd" => some "gcd"
  | "np.greater" => some "gt" | "np.greater_equal" => some "ge"
  | "np.invert" => some "bitwise_not" | "np.lcm" => some "lcm"
  | "np.less" => some "lt" | "np.less_equal" => some "le" | "np.log" => some "log"
  | "np.maximum" => some "max" | "np.minimum" => some "min" | "np.mod" => some "mod"
  | "np.positive" => some "pos" | "np.power" => some "pow" | "np.sign" => some "sign"
  | "np.sin" => some "sin" | "np.sinh" => some "sinh" | "np.sqrt" => some "sqrt"
  | "np.tan" => some "tan" | "np.tanh" => some "tanh" | "np.trunc" => some "trunc"
  | _ => none

def symMeaning : String → Option String
  | "sympy.Abs" => some "abs" | "sympy.Min" => some "min" | "sympy.Max" => some "max"
  | "sympy.Pow" => some "pow" | "sympy.acos" => some "acos" | "sympy.acosh" => some "acosh"
  | "sympy.asin" => some "asin" | "sympy.asinh" => some "asinh" | "sympy.atan" => some "atan"
  | "sympy.atan2" => some "atan2" | "sympy.atanh" => some "atanh" | "sympy.cbrt" => some "cbrt"
  | "sympy.ceiling" => some "ceil" | "sympy.cos" => some "cos" | "sympy.cosh" => some "cosh"
  | "sympy.erf" => some "erf" | "sympy.erfc" => some "erfc" | "sympy.exp" => some "exp"
  | "sympy.factorial" => some "factorial" | "sympy.floor" => some "floor"
  | "sympy.gamma" => some "gamma" | "sympy.gcd" => some "gcd" | "sympy.lcm" => some "lcm"
  | "sympy.log" => some "log" | "sympy.prod" => some "prod" | "sympy.rad" => some "radians"
  | "sympy.rem" => some "polynomial_remainder" | "sympy.sin" => some "sin"
  | "sympy.sinh" => some "sinh" | "sympy.sqrt" => some "sqrt" | "sympy.tan" => some "tan"
  | "sympy.tanh" => some "tanh" | "sympy.trunc" => some "polynomial_trunc"
  | "sympy.Add" => some "add" | "sympy.conjugate" => some "conjugate"
  | "sympy.GreaterThan" => some "ge" | "sympy.Ge" => some "ge"
  | "sympy.StrictGreaterThan" => some "gt" | "sympy.Gt" => some "gt"
  | "sympy.LessThan" => some "le" | "sympy.Le" => some "le"
  | "sympy.StrictLessThan" => some "lt" | "sympy.Lt" => some "lt"
  | "sympy.invert" => some "modular_inverse" | "sympy.maximum" => some "function_maximum"
  | "sympy.minimum" => some "function_minimum" | "sympy.Mod" => some "mod"
  | "sympy.sign" => some "sign" | "sympy.Id" => some "pos"
  | _ => none

def ratAbs (x : Rat) : Rat := if x < 0 then -x else x
def ratSign (x : Rat) : Rat := if x < 0 then -1 else if x = 0 then 0 else 1

/-- Exact values of the library functions that have them. -/
def mathEval : String → List Val → Option Val
  | "abs", [.num x] => some (.num (ratAbs x))
  | "pos", [.num x] => some (.num x)
  | "sign", [.num x] => some (.num (ratSign x))
  | "floor", [.num x] => some (.num (x.floor : Rat))
  | "ceil", [.num x] => some (.num (x.ceil : Rat))
  | "min", [.num x, .num y] => some (.num (if y < x then y else x))
  | "max", [.num x, .num y] => some (.num (if x < y then y else x))
  | "add", [.num x, .num y] => some (.num (x + y))
  | "pow", [.num x, .num y] => (ratPow x y).map .num
  | "mod", [.num x, .num y] => (ratMod x y).map .num
  | "gt", [.num x, .num y] => some (.bool (decide (y < x)))
  | "ge", [.num x, .num y] => some (.bool (decide (y ≤ x)))
  | "lt", [.num x, .num y] => some (.bool (decide (x < y)))
  | "le", [.num x, .num y] => some (.bool (decide (x ≤ y)))
  | _, _ => none

/-- Functions `mathEval` knows (everything else is opaque: named, but without a value here). -/
def isExactFn (m : String) : Bool :=
  ["abs", "pos", "sign", "floor", "ceil", "min", "max", "add", "pow", "mod", "gt", "ge", "lt", "le"].contains m

/-- Functions that are named but have no value in the model: sympy evaluates them to a Float on numeric
arguments (domain errors are outside the model). -/
def isOpaqueFn (m : String) : Bool :=
  ["sqrt", "exp", "log", "sin", "cos", "tan", "sinh", "cosh", "tanh", "acos", "asin", "atan", "atan2",
   "acosh", "asinh", "atanh", "cbrt", "erf", "erfc", "gamma", "factorial", "radians"].contains m

/-! ## `evalS`: the value of a symbolic expression under a valuation -/

def evalS (ρ : SEnv) : SExpr → Option Val
  | .num q => some (.num q)
  | .sym n => ρ n
  | .const _ => none
  | .boolLit b => some (.bool b)
  | .un op a =>
    match evalS ρ a with
    | some (.num x) => some (.num (symUn op x))
    | _ => none
  | .bin op a b =>
    match evalS ρ a, evalS ρ b with
    | some (.num x), some (.num y) => (symBin op x y).map .num
    | _, _ => none
  | .rel op a b =>
    match evalS ρ a, evalS ρ b with
    | some (.num x), some (.num y) => some (.bool (symRel op x y))
    | _, _ => none
  | .and a b =>
    match evalS ρ a with
    | some (.bool false) => some (.bool false)
    | some (.bool true) =>
      match evalS ρ b with
      | some (.bool y) => some (.bool y)
      | _ => none
    | _ => none
  | .pw e c rest =>
    match evalS ρ c with
    | some (.bool true) => evalS ρ e
    | some (.bool false) => evalS ρ rest
    | _ => none
  | .pwEnd => none
  | .app1 f a =>
    match evalS ρ a with
    | some x => mathEval f [x]
    | none => none
  | .app2 f a b =>
    match evalS ρ a, evalS ρ b with
    | some x, some y => mathEval f [x, y]
    | _, _ => none

def emptyEnv : SEnv := fun _ => none

def envOf (l : List (String × Val)) : SEnv := fun n => l.lookup n

/-! ## Substitution (`expr.subs`) -/

def substSim (σ : Syms) : SExpr → SExpr
  | .num q => .num q
  | .sym n => match σ.lookup n with | some s => s | none => .sym n
  | .const c => .const c
  | .boolLit b => .boolLit b
  | .un op a => .un op (substSim σ a)
  | .bin op a b => .bin op (substSim σ a) (substSim σ b)
  | .rel op a b => .rel op (substSim σ a) (substSim σ b)
  | .and a b => .and (substSim σ a) (substSim σ b)
  | .pw e c rest => .pw (substSim σ e) (substSim σ c) (substSim σ rest)
  | .pwEnd => .pwEnd
  | .app1 f a => .app1 f (substSim σ a)
  | .app2 f a b => .app2 f (substSim σ a) (substSim σ b)

def insertByName (kv : String × SExpr) : Syms → Syms
  | [] => [kv]
  | x :: xs => if kv.1 < x.1 then kv :: x :: xs else x :: insertByName kv xs

/-- sympy's `subs(dict)` without `simultaneous=True`: one replacement after the other, in sympy's
canonical order of the keys (for symbols: by name). -/
def substSeq (σ : Syms) (e : SExpr) : SExpr :=
  (σ.foldr insertByName []).foldl (fun acc kv => substSim [kv] acc) e

def applySubst (T : Tables) (σ : Syms) (e : SExpr) : SExpr :=
  if T.substSimultaneous then substSim σ e else substSeq σ e

/-! ## Sort checks = the `TypeError`s sympy raises when a relational is used as a number etc. -/

/-- Acceptable as an operand of `+ - * / ** % //`, a relational, or unary `+`/`-`. -/
def arithOk : SExpr → Bool
  | .rel _ _ _ => false
  | .and _ _ => false
  | .boolLit _ => false
  | _ => true

/-- Acceptable as a `Piecewise` condition (a Boolean, or a bare Symbol). -/
def condOk : SExpr → Bool
  | .rel _ _ _ => true
  | .and _ _ => true
  | .boolLit _ => true
  | .sym _ => true
  | .pw _ _ _ => true
  | _ => false

def isTrueLit : SExpr → Bool
  | .boolLit true => true
  | _ => false

/-- the Piecewise chain ends with a `(value, True)` piece -/
def endsWithDefault : SExpr → Bool
  | .pw _ c rest =>
    match rest with
    | .pwEnd => isTrueLit c
    | _ => endsWithDefault rest
  | _ => false

/-- every Piecewise inside the expression has a final default piece (`inChain`: we are in the tail of a chain
whose head was already checked) -/
def pwComplete : Bool → SExpr → Bool
  | inChain, .pw e c rest =>
    pwComplete false e && pwComplete false c && pwComplete true rest && (inChain || endsWithDefault (.pw e c rest))
  | _, .un _ a => pwComplete false a
  | _, .bin _ a b => pwComplete false a && pwComplete false b
  | _, .rel _ a b => pwComplete false a && pwComplete false b
  | _, .and a b => pwComplete false a && pwComplete false b
  | _, .app1 _ a => pwComplete false a
  | _, .app2 _ a b => pwComplete false a && pwComplete false b
  | _, _ => true

def hasSym : SExpr → Bool
  | .num _ => false
  | .sym _ => true
  | .const _ => false
  | .boolLit _ => false
  | .un _ a => hasSym a
  | .bin _ a b => hasSym a || hasSym b
  | .rel _ a b => hasSym a || hasSym b
  | .and a b => hasSym a || hasSym b
  | .pw e c rest => hasSym e || hasSym c || hasSym rest
  | .pwEnd => false
  | .app1 _ a => hasSym a
  | .app2 _ a b => hasSym a || hasSym b

inductive TErr where
  | refused (why : String)        -- fn_to_sympy returns None
  | raised (cls : String)         -- an exception fn_to_sympy does not catch
  | fuel
deriving DecidableEq, Repr

abbrev TR := Except TErr

instance {ε α} [DecidableEq ε] [DecidableEq α] : DecidableEq (Except ε α)
  | .ok a, .ok b => if h : a = b then isTrue (by rw [h]) else isFalse (fun h' => by cases h'; exact h rfl)
  | .error a, .error b => if h : a = b then isTrue (by rw [h]) else isFalse (fun h' => by cases h'; exact h rfl)
  | .ok _, .error _ => isFalse (fun h => by cases h)
  | .error _, .ok _ => isFalse (fun h => by cases h)

def pwOf : List (SExpr × SExpr) → SExpr
  | [] => .pwEnd
  | (e, c) :: rest => .pw e c (pwOf rest)

/-- `sympy.Piecewise(*pieces)` -/
def mkPiecewise (pieces : List (SExpr × SExpr)) : TR SExpr :=
  if pieces.all (fun p => condOk p.2 && pwComplete false p.2) then .ok (pwOf pieces)
  else .error (.refused "TypeError: Piecewise condition is not Boolean / ValueError: it contains a Piecewise without default")

/-- `sympy.Float(fn(*model_args))` for a `KNOWN_FNS` hit. -/
def knownCall (T : Tables) (key : String) (sargs : List SExpr) : TR SExpr :=
  match T.knownFns.lookup key with
  | none => .error (.refused "TypeError: no Python source for this callable")
  | some sname =>
    match symMeaning sname with
    | none => .error (.refused "sympy function outside the model")
    | some m =>
      if sargs.any hasSym then .error (.refused "TypeError: Float() of a non-number")
      else
        let e : Option SExpr :=
          match sargs with
          | [a] => some (.app1 m a)
          | [a, b] => some (.app2 m a b)
          | _ => none
        match e with
        | none => .error (.refused "arity outside the model")
        | some e =>
          if isExactFn m then
            match evalS emptyEnv e with
            | some (.num _) => .ok e
            | _ => .error (.refused "TypeError: Float() of a non-number")
          else if isOpaqueFn m then .ok e
          else .error (.refused "sympy function that does not evaluate on numbers")

/-- `for node in reversed(body): if Assign to a single Name: return its name` -/
def lastAssigned : List PyStmt → Option String
  | [] => none
  | s :: rest =>
    match lastAssigned rest with
    | some x => some x
    | none => match s with
      | .assign x _ => some x
      | .multiAssign (x :: _) _ => some x      -- `node.targets[0]` of a chained assignment
      | _ => none

/-- sequential binding of `a, b = e1, e2` targets (`ctx.symbols[target.id] = expr`) -/
def bindAll (ctx : Syms) : List String → List SExpr → Syms
  | x :: xs, s :: ss => bindAll ((x, s) :: ctx) xs ss
  | _, _ => ctx

mutual
/-- `_always_returns`: every path through the statement ends in a `return` (`isinstance(node, ast.Return)`: a bare
`return` counts; `_handle_fn_body` then refuses it with "Return value cannot be None") -/
def stmtReturns : PyStmt → Bool
  | .ret _ => true
  | .retNone => true
  | .ifs _ t e => bodyReturns t && bodyReturns e
  | _ => false
def bodyReturns : List PyStmt → Bool
  | [] => false
  | s :: rest => stmtReturns s || bodyReturns rest
end

/-- a non-empty list of plain single-name assignments -/
def assignOnly : List PyStmt → Bool
  | [] => false
  | [.assign _ _] => true
  | .assign _ _ :: rest => assignOnly rest
  | _ => false

/-- `_check_branch(branch, rest)`: the branch returns on every path, or it consists of plain assignments and all
that follows the `if` is nothing or `return <the last name it assigns>` -/
def branchOk (rest : List PyStmt) (b : List PyStmt) : Bool :=
  bodyReturns b ||
    (assignOnly b &&
      match rest, lastAssigned b with
      | [], _ => true
      | [.ret (.name n)], some x => n == x
      | _, _ => false)

/-- `_handle_test`: `isinstance(c, bool) or (isinstance(c, Boolean) and not isinstance(c, Symbol))` -/
def isBoolSorted : SExpr → Bool
  | .rel _ _ _ => true
  | .and _ _ => true
  | .boolLit _ => true
  | _ => false

/-- one link of a comparison chain -/
def cmpOne (T : Tables) (op : CmpOp) (l r : SExpr) : TR (Option SExpr) :=
  match T.cmpops.lookup op with
  | none =>
    -- no branch of the elif chain matches: the `else` raises NotImplementedError; before that repair nothing was
    -- appended (the link silently vanished from the chain)
    if T.cmpStrict then .error (.refused "NotImplementedError: comparison operator") else .ok none
  | some (.rel s) =>
    if arithOk l && arithOk r then .ok (some (.rel s l r))
    else .error (.refused "TypeError: relational of a relational")
  | some .structEq => .ok (some (.boolLit (decide (l = r))))
  | some .structNe => .ok (some (.boolLit (decide (l ≠ r))))

def cmpChain (T : Tables) : SExpr → List CmpOp → List SExpr → TR (List SExpr)
  | prev, op :: ops, r :: rs => do
    let c ← cmpOne T op prev r
    let cs ← cmpChain T r ops rs
    match c with
    | some c => pure (c :: cs)
    | none => pure cs
  | _, _, _ => pure []

def andAll : SExpr → List SExpr → SExpr
  | acc, [] => acc
  | acc, c :: cs => andAll (.and acc c) cs

/-- one alias of a function-local import (`ast.Import` / `ast.ImportFrom` branch of `_handle_fn_body`) -/
def impStep (T : Tables) : Syms × Imps → String × ImpItem → TR (Syms × Imps)
  | (ctx, I), (n, .flt q) => .ok ((n, .num q) :: ctx, I)                 -- ctx.symbols[name] = sympy.Float(el)
  | (ctx, I), (n, .int q) =>
    if T.importsStrict then .ok ((n, .num q) :: ctx, I) else .ok (ctx, I)   -- unrepaired: "Skipping import"
  | (ctx, I), (_, .objs ps) => .ok (ctx, ps ++ I)                         -- ctx.fns[name] = el / ctx.modules[name] = el
  | (ctx, I), (_, .other) =>
    if T.importsStrict then .error (.refused "NotImplementedError: cannot translate the imported object")
    else .ok (ctx, I)

def impAll (T : Tables) : Syms × Imps → List (String × ImpItem) → TR (Syms × Imps)
  | s, [] => .ok s
  | s, it :: its => do
    let s' ← impStep T s it
    impAll T s' its

/-! ## The translator -/

mutual

/-- `_handle_expr` -/
def trExpr (T : Tables) (P : Prog) : Nat → List (String × GVal) → Imps → Syms → PyExpr → TR SExpr
  | 0, _, _, _, _ => .error .fuel
  | f+1, G, I, ctx, e =>
    match e with
    | .num q => .ok (.num q)
    | .name n =>
      match ctx.lookup n with
      | some s => .ok s
      | none =>
        match G.lookup n with
        | some (.flt q) => .ok (.num q)
        | some (.special _ q) => .ok (.num q)
        | _ => .error (.raised "KeyError")
    | .attr p =>
      match (I ++ G).lookup p with       -- modules = getmembers(parent_module, ismodule) | ctx.modules
      | some (.flt q) => .ok (.num q)
      | some (.special c q) =>
        match T.knownConsts.lookup c with
        | some s => .ok (.const s)
        | none => .ok (.num q)
      | _ => .error (.refused "attribute is not a float")
    | .un op a => do
      let s ← trExpr T P f G I ctx a
      match T.unops.lookup op with
      | none => .error (.refused "NotImplementedError: unary operator")
      | some sop => if arithOk s then .ok (.un sop s) else .error (.refused "TypeError: unary op on a relational")
    | .bin op a b => do
      let l ← trExpr T P f G I ctx a
      let r ← trExpr T P f G I ctx b
      match T.binops.lookup op with
      | none => .error (.refused "NotImplementedError: binary operator")
      | some sop =>
        if arithOk l && arithOk r then .ok (.bin sop l r)
        else .error (.refused "TypeError: arithmetic on a relational")
    | .cmp l ops rs => do
      let left ← trExpr T P f G I ctx l
      let rights ← trArgs T P f G I ctx rs
      let cs ← cmpChain T left ops rights
      match cs with
      | [] => .error (.raised "IndexError")
      | c :: cs => .ok (andAll c cs)
    | .ife c t e => do
      let cond ← trExpr T P f G I ctx c
      if T.testsBoolean && !isBoolSorted cond then
        .error (.refused "NotImplementedError: only comparisons can be used as a condition")
      else do
        let tt ← trExpr T P f G I ctx t
        let ee ← trExpr T P f G I ctx e
        mkPiecewise [(tt, cond), (ee, .boolLit true)]
    | .call func args => do
      let sargs ← trArgs T P f G I ctx args
      match resolveCall (I ++ G) func with    -- fns = getmembers(parent_module, callable) | ctx.fns
      | .unresolved => .error (.refused "py_fn is None")
      | .known key => knownCall T key sargs
      | .user g =>
        match P.find g with
        | none => .error (.refused "py_fn is None")
        | some d => fnToSympy T P f d (some sargs)
    | .callKw _ _ =>
      -- after the repair of F-C06-9 `_handle_call` refuses calls that pass keyword arguments
      .error (.refused "NotImplementedError: keyword arguments")
    | .unsupported => .error (.refused "NotImplementedError: expression type")

def trArgs (T : Tables) (P : Prog) : Nat → List (String × GVal) → Imps → Syms → List PyExpr → TR (List SExpr)
  | 0, _, _, _, _ => .error .fuel
  | _+1, _, _, _, [] => .ok []
  | f+1, G, I, ctx, a :: as => do
    let s ← trExpr T P f G I ctx a
    let ss ← trArgs T P f G I ctx as
    pure (s :: ss)

/-- the `while remaining_body:` loop of `_handle_fn_body`.  `body` is the list the function was
called with (used by the fallback), `pieces` the Piecewise pieces so far, `rem` = `remaining_body`,
`isElif` = the head of `rem` is an `elif` node pushed back by the previous iteration. -/
def trLoop (T : Tables) (P : Prog) : Nat → List (String × GVal) → Imps → List PyStmt →
    List (SExpr × SExpr) → List PyStmt → Bool → Syms → TR (SExpr × Syms)
  | 0, _, _, _, _, _, _, _ => .error .fuel
  | f+1, G, I, body, pieces, rem, isElif, ctx =>
    match rem with
    | [] =>
      -- after the loop
      if !pieces.isEmpty then do
        let r ← mkPiecewise pieces
        pure (r, ctx)
      else
        match lastAssigned body with
        | some x =>
          match ctx.lookup x with
          | some s => .ok (s, ctx)
          | none => .error (.raised "KeyError")
        | none => .error (.refused "ValueError: no return value found")
    | .ifs c t e :: rest => do
      let cond ← trExpr T P f G I ctx c
      if T.testsBoolean && !isBoolSorted cond then
        .error (.refused "NotImplementedError: only comparisons can be used as a condition")
      else if T.fallThroughChecked && !branchOk rest t then
        .error (.refused "NotImplementedError: branch without return followed by more than `return <its last name>`")
      else do
        -- = _handle_fn_body(node.body, ctx.updated(symbols=dict(ctx.symbols)))   (a copy: ctx is kept)
        let (ifE, ctxB) ← trLoop T P f G I t [] t false ctx
        let ctx1 := if T.branchCopies then ctx else ctxB
        let pieces1 := pieces ++ [(ifE, cond)]
        match e with
        | [] =>
          if rest.isEmpty && isElif then .error (.refused "ValueError: elif node is not in body")
          else trLoop T P f G I body pieces1 rest false ctx1
        | [.ifs c2 t2 e2] => trLoop T P f G I body pieces1 (.ifs c2 t2 e2 :: rest) true ctx1
        | _ =>
          if T.fallThroughChecked && !branchOk rest e then
            .error (.refused "NotImplementedError: branch without return followed by more than `return <its last name>`")
          else do
            let (elseE, ctxE) ← trLoop T P f G I e [] e false ctx1   -- = _handle_fn_body(node.orelse, copy of ctx)
            let r ← mkPiecewise (pieces1 ++ [(elseE, .boolLit true)])
            pure (r, if T.branchCopies then ctx1 else ctxE)
    | .ret v :: _ => do
      let s ← trExpr T P f G I ctx v
      if pieces.isEmpty then pure (s, ctx)
      else do
        let r ← mkPiecewise (pieces ++ [(s, .boolLit true)])
        pure (r, ctx)
    | .retNone :: _ => .error (.refused "ValueError: return value cannot be None")
    | .assign x v :: rest => do
      let s ← trExpr T P f G I ctx v
      trLoop T P f G I body pieces rest false ((x, s) :: ctx)
    | .tupleAssign xs es :: rest =>
      if xs.length ≠ es.length then .error (.refused "ValueError: zip strict")
      else if T.tupleSimultaneous then do
        let ss ← trArgs T P f G I ctx es
        trLoop T P f G I body pieces rest false (bindAll ctx xs ss)
      else do
        let ctx' ← trTuple T P f G I ctx xs es
        trLoop T P f G I body pieces rest false ctx'
    | .multiAssign xs v :: rest => do
      let s ← trExpr T P f G I ctx v
      if T.chainAssignAll then trLoop T P f G I body pieces rest false (bindAll ctx xs (xs.map (fun _ => s)))
      else
        match xs with
        | x :: _ => trLoop T P f G I body pieces rest false ((x, s) :: ctx)    -- unrepaired: `node.targets[0]` only
        | [] => trLoop T P f G I body pieces rest false ctx
    | .unpackAssign _ v :: rest =>
      if T.unpackRefused then .error (.refused "NotImplementedError: unpacking of something else than a tuple display")
      else do
        let _ ← trExpr T P f G I ctx v          -- unrepaired: the value is translated, no target is bound
        trLoop T P f G I body pieces rest false ctx
    | .importS items :: rest => do
      -- the branch contexts are copies (`ctx.branch()`), so like `ctx.symbols` the import tables only flow forward
      let (ctx', I') ← impAll T (ctx, I) items
      trLoop T P f G I' body pieces rest false ctx'
    | .augAssign _ _ _ :: rest =>
      if T.unknownStmtRefused then .error (.refused "NotImplementedError: statement kind")
      else trLoop T P f G I body pieces rest false ctx
    | .unhandled :: rest =>
      if T.unknownStmtRefused then .error (.refused "NotImplementedError: statement kind")
      else trLoop T P f G I body pieces rest false ctx
    | .skip :: rest => trLoop T P f G I body pieces rest false ctx

/-- `a, b = e1, e2` translated pair by pair against the *updated* context (the unrepaired code) -/
def trTuple (T : Tables) (P : Prog) : Nat → List (String × GVal) → Imps → Syms → List String → List PyExpr → TR Syms
  | 0, _, _, _, _, _ => .error .fuel
  | f+1, G, I, ctx, x :: xs, e :: es => do
    let s ← trExpr T P f G I ctx e
    trTuple T P f G I ((x, s) :: ctx) xs es
  | _+1, _, _, ctx, _, _ => .ok ctx

/-- `fn_to_sympy(fn, origin, model_args)` -/
def fnToSympy (T : Tables) (P : Prog) : Nat → FnDef → Option (List SExpr) → TR SExpr
  | 0, _, _ => .error .fuel
  | f+1, d, margs =>
    -- `_positional_params`: `*args`, keyword-only parameters and `**kw` are refused; positional-only ones are arguments
    if T.sigStrict && d.otherParams then .error (.refused "NotImplementedError: only positional parameters")
    else do
    let fnArgs := if T.sigStrict then d.params else d.params.drop d.nPosonly   -- unrepaired: `fn_def.args.args` only
    -- Context(symbols = {name: Symbol(name)}, modules = {}, fns = {})
    let (e, _) ← trLoop T P f d.globals [] d.body [] d.body false (fnArgs.map (fun p => (p, SExpr.sym p)))
    match margs with
    | none => pure e
    | some [] => pure e
    | some ms =>
      if ms.length ≠ fnArgs.length then .error (.refused "ValueError: zip strict")
      else pure (applySubst T (fnArgs.zip ms) e)

end

/-- `_handle_fn_body(body, ctx)`: the loop started with no pieces and the whole body remaining -/
def trBody (T : Tables) (P : Prog) (f : Nat) (G : List (String × GVal)) (I : Imps) (body : List PyStmt) (ctx : Syms) :
    TR (SExpr × Syms) :=
  trLoop T P f G I body [] body false ctx

/-! ## Python semantics -/

inductive Outcome where
  | ret (v : Val)
  | fall (env : PyEnv)
deriving Repr

/-- the names (and dotted paths rooted at them) a function-local import makes local -/
def impNames : List (String × ImpItem) → List String
  | [] => []
  | (n, .objs ps) :: rest => n :: (ps.map (·.1) ++ impNames rest)
  | (n, _) :: rest => n :: impNames rest

mutual
def stmtAssigned : PyStmt → List String
  | .assign x _ => [x]
  | .tupleAssign xs _ => xs
  | .augAssign x _ _ => [x]
  | .multiAssign xs _ => xs
  | .unpackAssign xs _ => xs
  | .importS items => impNames items
  | .ifs _ t e => bodyAssigned t ++ bodyAssigned e
  | _ => []
def bodyAssigned : List PyStmt → List String
  | [] => []
  | s :: rest => stmtAssigned s ++ bodyAssigned rest
end

/-- names that are local to the function (CPython: every parameter and every name assigned anywhere) -/
def FnDef.locals (d : FnDef) : List String := d.params ++ bodyAssigned d.body

def setAll (env : PyEnv) : List String → List Val → PyEnv
  | x :: xs, v :: vs => setAll ((x, v) :: env) xs vs
  | _, _ => env

def Val.isObj : Val → Bool
  | .obj _ => true
  | _ => false

/-- `bool(v)` as used by `if` / conditional expressions. -/
def truthy : Val → Bool
  | .num q => decide (q ≠ 0)
  | .bool b => b
  | .obj _ => true

def asNum : Val → Option Rat
  | .num q => some q
  | _ => none

/-- executing one alias of a function-local import: the name (paths) become bound locals -/
def impEnvItem (env : PyEnv) : String × ImpItem → PyEnv
  | (n, .flt q) => (n, .num q) :: env
  | (n, .int q) => (n, .num q) :: env
  | (_, .objs ps) => ps.map (fun kv => (kv.1, Val.obj kv.2)) ++ env
  | (n, .other) => (n, .obj .other) :: env

def impEnv (env : PyEnv) (items : List (String × ImpItem)) : PyEnv := items.foldl impEnvItem env

/-- the function object a call's function expression denotes: a path rooted at a function-local import is looked up
among the bound locals (unbound / not a function: the call raises), anything else in the module namespace -/
def pyResolve (G : List (String × GVal)) (L : List String) (env : PyEnv) (func : String) : CallTarget :=
  if L.contains func then
    match env.lookup func with
    | some (.obj (.fn t)) => t
    | _ => .unresolved
  else resolveCall G func

/-- the object an attribute path denotes (same rule) -/
def pyAttr (G : List (String × GVal)) (L : List String) (env : PyEnv) (p : String) : Option GVal :=
  if L.contains p then
    match env.lookup p with
    | some (.obj g) => some g
    | _ => none
  else G.lookup p

/-- the comparison chain `prev op1 r1 op2 r2 …` with Python's short circuit; the comparators are
expressions, evaluated only when reached -/
def cmpFold (ev : PyExpr → Option Val) : Rat → List CmpOp → List PyExpr → Option Val
  | _, [], [] => some (.bool true)
  | prev, op :: ops, r :: rs =>
    match ev r with
    | some (.num y) =>
      match pyCmp op prev y with
      | some true => cmpFold ev y ops rs
      | some false => some (.bool false)
      | none => none
    | _ => none
  | _, _, _ => none

mutual

def evalExpr (P : Prog) : Nat → List (String × GVal) → List String → PyEnv → PyExpr → Option Val
  | 0, _, _, _, _ => none
  | f+1, G, L, env, e =>
    match e with
    | .num q => some (.num q)
    | .name n =>
      if L.contains n then
        match env.lookup n with
        | some (.obj _) => none         -- a function / module object is not a value of the modelled subset
        | r => r
      else match G.lookup n with
        | some (.flt q) => some (.num q)
        | some (.int q) => some (.num q)
        | some (.special _ q) => some (.num q)
        | _ => none
    | .attr p =>
      match pyAttr G L env p with
      | some (.flt q) => some (.num q)
      | some (.int q) => some (.num q)
      -- `math.pi`, `math.e`, `math.tau` read through an attribute denote π, e, 2π: no rational value in the model
      -- (the translator maps them to sympy.pi, …; the double is only their approximation)
      | _ => none
    | .un op a =>
      match evalExpr P f G L env a with
      | some (.num x) => (pyUn op x).map .num
      | _ => none
    | .bin op a b =>
      match evalExpr P f G L env a, evalExpr P f G L env b with
      | some (.num x), some (.num y) => (pyBin op x y).map .num
      | _, _ => none
    | .cmp l ops rs =>
      match evalExpr P f G L env l with
      | some (.num x) => if ops.isEmpty then none else cmpFold (evalExpr P f G L env) x ops rs
      | _ => none
    | .ife c t e =>
      match evalExpr P f G L env c with
      | some cv => if truthy cv then evalExpr P f G L env t else evalExpr P f G L env e
      | none => none
    | .call func args =>
      match evalArgs P f G L env args with
      | none => none
      | some vs =>
        -- CPython resolves the name in the local scope first: a local of that name is a number (the call raises) unless a
        -- function-local import bound it to a function
        match pyResolve G L env func with
        | .unresolved => none
        | .known key =>
          match pyMeaning key with
          | some m => mathEval m vs
          | none => none
        | .user g =>
          match P.find g with
          | none => none
          | some d => callFn P f d vs
    | .callKw _ _ => none      -- keyword / default binding is not modelled (oracle-only stratum)
    | .unsupported => none

def evalArgs (P : Prog) : Nat → List (String × GVal) → List String → PyEnv → List PyExpr → Option (List Val)
  | 0, _, _, _, _ => none
  | _+1, _, _, _, [] => some []
  | f+1, G, L, env, a :: as =>
    match evalExpr P f G L env a, evalArgs P f G L env as with
    | some v, some vs => some (v :: vs)
    | _, _ => none

def execStmt (P : Prog) : Nat → List (String × GVal) → List String → PyEnv → PyStmt → Option Outcome
  | 0, _, _, _, _ => none
  | f+1, G, L, env, s =>
    match s with
    | .assign x e =>
      match evalExpr P f G L env e with
      | some v => some (.fall ((x, v) :: env))
      | none => none
    | .tupleAssign xs es =>
      if xs.length ≠ es.length then none
      else match evalArgs P f G L env es with
        | some vs => some (.fall (setAll env xs vs))
        | none => none
    | .multiAssign xs e =>
      match evalExpr P f G L env e with
      | some v => some (.fall (setAll env xs (xs.map (fun _ => v))))
      | none => none
    | .unpackAssign _ _ => none          -- tuples are not values of the modelled subset
    | .importS items => some (.fall (impEnv env items))
    | .augAssign x op e =>
      match env.lookup x, evalExpr P f G L env e with
      | some (.num a), some (.num b) =>
        match pyBin op a b with
        | some r => some (.fall ((x, .num r) :: env))
        | none => none
      | _, _ => none
    | .ifs c t e =>
      match evalExpr P f G L env c with
      | some cv => execBody P f G L env (if truthy cv then t else e)
      | none => none
    | .ret e =>
      match evalExpr P f G L env e with
      | some v => some (.ret v)
      | none => none
    | .retNone => none
    | .skip => some (.fall env)
    | .unhandled => none

def execBody (P : Prog) : Nat → List (String × GVal) → List String → PyEnv → List PyStmt → Option Outcome
  | 0, _, _, _, _ => none
  | _+1, _, _, env, [] => some (.fall env)
  | f+1, G, L, env, s :: rest =>
    match execStmt P f G L env s with
    | some (.ret v) => some (.ret v)
    | some (.fall env') => execBody P f G L env' rest
    | none => none

/-- calling a Python function with positional arguments; `none` when it raises, does not return a
value (falls off the end / bare return), or the arity is wrong -/
def callFn (P : Prog) : Nat → FnDef → List Val → Option Val
  | 0, _, _ => none
  | f+1, d, vs =>
    -- `*args` / keyword-only / `**kw`: binding not modelled; arguments are numbers (bools), never function objects
    if vs.length ≠ d.params.length || d.otherParams || vs.any Val.isObj then none
    else match execBody P f d.globals d.locals (d.params.zip vs) d.body with
      | some (.ret v) => some v
      | _ => none

end

/-! ## `_check_branch` read from the source: atoms of its accepting conditions and their meaning

`translate/c06.py` turns the body of `_check_branch` into `Generated.checkBranchAccept` (a list of conjunctions of these
atoms, recognised by their exact source text); `Props/C06.lean` proves that the generated condition is `branchOk`. -/

inductive CBAtom where
  | alwaysReturns      -- `_always_returns(branch)`
  | plain              -- `bool(branch) and all(isinstance(node, ast.Assign) and len(node.targets) == 1 and isinstance(node.targets[0], ast.Name) …)`
  | restEmpty          -- `not rest`
  | restLen1           -- `len(rest) == 1`
  | rest0Return        -- `isinstance(ret := rest[0], ast.Return)`
  | retValueName       -- `isinstance(ret.value, ast.Name)`
  | lastTargetIsRet    -- `branch[-1].targets[0].id == ret.value.id`
deriving DecidableEq, Repr

def isPlainAssign : PyStmt → Bool
  | .assign _ _ => true
  | _ => false

def cbAtom (rest b : List PyStmt) : CBAtom → Bool
  | .alwaysReturns => bodyReturns b
  | .plain => !b.isEmpty && b.all isPlainAssign
  | .restEmpty => rest.isEmpty
  | .restLen1 => rest.length == 1
  | .rest0Return => match rest.head? with
    | some (.ret _) => true
    | some .retNone => true
    | _ => false
  | .retValueName => match rest.head? with
    | some (.ret (.name _)) => true
    | _ => false
  | .lastTargetIsRet => match b.getLast?, rest.head? with
    | some (.assign x _), some (.ret (.name n)) => n == x      -- (string equality: symmetric)
    | _, _ => false

def checkBranchG (accept : List (List CBAtom)) (rest b : List PyStmt) : Bool :=
  accept.any (fun conj => conj.all (cbAtom rest b))

/-! ## the `ast` class a model constructor stands for (what the two dispatchers test with `isinstance`) -/

def exprClass : PyExpr → String
  | .num _ => "Constant" | .name _ => "Name" | .attr _ => "Attribute" | .un _ _ => "UnaryOp" | .bin _ _ _ => "BinOp"
  | .cmp _ _ _ => "Compare" | .ife _ _ _ => "IfExp" | .call _ _ => "Call" | .callKw _ _ => "Call"
  | .unsupported => "<any other class>"

def stmtClass : PyStmt → String
  | .assign _ _ => "Assign" | .tupleAssign _ _ => "Assign" | .multiAssign _ _ => "Assign" | .unpackAssign _ _ => "Assign"
  | .augAssign _ _ _ => "AugAssign" | .ifs _ _ _ => "If" | .ret _ => "Return" | .retNone => "Return"
  | .skip => "Pass" | .importS _ => "ImportFrom" | .unhandled => "<any other class>"

end Mxl.C06
