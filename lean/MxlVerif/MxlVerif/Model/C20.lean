/-
C20 — vocabulary for the translated loss functions (fit/losses.py), the `_Settings.loss` scaling wrapper
(fit/abstract.py), the fit wrappers (fit/routines.py) and `LocalScipyMinimizer.__call__` (minimizers/_scipy.py).
Import-free.  Everything is polymorphic in the number type: the driver runs it at core `Rat`, the theorems
about sqrt/log instantiate it at Mathlib's `ℝ` (Lemmas/C20Real.lean).  A pandas Series is a `List`.
-/
namespace Mxl.C20

class HasAbs (α : Type) where abs : α → α
class HasSqrt (α : Type) where sqrt : α → α
class HasLog (α : Type) where log : α → α

section vec
variable {α : Type}

/-- `np.sum(v)` -/
def vsum [Add α] [NatCast α] (l : List α) : α := l.foldr (· + ·) ((0 : Nat) : α)
/-- `np.mean(v)` -/
def vmean [Add α] [Div α] [NatCast α] (l : List α) : α := vsum l / ((l.length : Nat) : α)
def vadd [Add α] (a b : List α) : List α := List.zipWith (· + ·) a b
def vsub [Sub α] (a b : List α) : List α := List.zipWith (· - ·) a b
def vmul [Mul α] (a b : List α) : List α := List.zipWith (· * ·) a b
def vdiv [Div α] (a b : List α) : List α := List.zipWith (· / ·) a b
/-- elementwise function / broadcasting against a scalar -/
def vmap (f : α → α) (l : List α) : List α := l.map f
def vsquare [Mul α] (l : List α) : List α := l.map fun x => x * x
def vabs [HasAbs α] (l : List α) : List α := l.map HasAbs.abs
def vsqrt [HasSqrt α] (l : List α) : List α := l.map HasSqrt.sqrt
def vlog [HasLog α] (l : List α) : List α := l.map HasLog.log
/-- `np.linalg.norm(v, 2)` of a vector -/
def norm2 [Add α] [Mul α] [NatCast α] [HasSqrt α] (l : List α) : α := HasSqrt.sqrt (vsum (vsquare l))

/-- inner product and squared norms of two vectors: what `cosine_similarity` is made of, without the square
roots (so the driver can evaluate it at `Rat`) -/
def cosineParts [Add α] [Mul α] [NatCast α] (a b : List α) : α × α × α :=
  (vsum (vmul a b), vsum (vsquare a), vsum (vsquare b))

/-- what `mean` computed on the pinned tree: the SIGNED mean of first minus second argument (kept to state why the
repair exists) -/
def pinnedMean [Add α] [Sub α] [Div α] [NatCast α] (a b : List α) : α := vmean (vsub a b)

/-- what `cosine_similarity` computed on the pinned tree: `-np.sum(norm(y_pred, 2) * norm(y_true, 2))`, minus the
PRODUCT of the norms (kept to state why the repair exists) -/
def pinnedCosine [Add α] [Mul α] [Neg α] [NatCast α] [HasSqrt α] (a b : List α) : α := -(norm2 a * norm2 b)

end vec

/-- `_Settings.scale`: with `guard` a spread that is not positive (constant column: 0; single value: NaN) is
taken as 1 — that measurement is compared unscaled; without it the raw `data.std()` is the divisor -/
def effScale {α : Type} [LT α] [DecidableLT α] [NatCast α] (guard : Bool) (s : α) : α :=
  if guard then (if ((0 : Nat) : α) < s then s else ((1 : Nat) : α)) else s

/-- `_Settings.loss`: `loss_fn(data_scaled, (prediction - mean) / scale)` if `standard_scale` else
`loss_fn(data, prediction)` — the data goes into the FIRST parameter, the prediction into the second -/
def scaledLoss {α : Type} [Sub α] [Div α] [LT α] [DecidableLT α] [NatCast α] (guard : Bool)
    (lossFn : List α → List α → α) (standardScale : Bool) (mean scale : α) (data prediction : List α) : α :=
  if standardScale then
    lossFn (vmap (fun x => (x - mean) / effScale guard scale) data)
      (vmap (fun x => (x - mean) / effScale guard scale) prediction)
  else lossFn data prediction

instance : HasAbs Rat := ⟨fun x => if x < 0 then -x else x⟩

/-! ### fit wrappers -/

/-- `OptimisationState(parameters, residual)` -/
structure OptState (α : Type) where
  parameters : List (String × α)
  residual : α
deriving Repr

/-- `Fit(model, best_pars, loss)` (the model is tracked separately, see `FitEnv`) -/
structure Fit (α : Type) where
  bestPars : List (String × α)
  loss : α
deriving Repr

/-- `_pack_updates(par_values, par_names)` = `dict(zip(par_names, par_values, strict=True))` -/
def packUpdates {α : Type} (names : List String) (values : List α) : List (String × α) := names.zip values

/-- `LocalScipyMinimizer.__call__(residual_fn, p0, bounds)`; `minimize g x0` stands for
`scipy.optimize.minimize(g, x0=x0, ...)`: `some (x, f)` = `res.success` with `res.x`, `res.fun`. -/
def localScipyCall {α : Type} (minimize : (List α → α) → List α → Option (List α × α))
    (residualFn : List (String × α) → α) (p0 : List (String × α)) : Option (OptState α) :=
  let names := p0.map (·.1)
  match minimize (fun xs => residualFn (packUpdates names xs)) (p0.map (·.2)) with
  | some (x, f) => some ⟨names.zip x, f⟩
  | none => none

/-- `[bounds.get(name, default) for name in p0]`: the box handed to scipy for the i-th entry of `x0` is the one the
caller gave for the i-th NAME of `p0` (or the default), whatever the order of the `bounds` dict -/
def fillBounds {α : Type} (dflt : α × α) (bounds : List (String × (α × α))) (names : List String) :
    List (α × α) :=
  names.map fun n => (bounds.lookup n).getD dflt

/-- the boxes `LocalScipyMinimizer` hands to scipy, one per entry of `p0` (a bound may be `None`): the caller's box for a
name that has one; otherwise the default box — with `onlyIfInside` (read from the source) only when the START VALUE lies in
it, and no box at all (`(None, None)`) when it does not, so that no start value is ever moved onto a box the caller did not
ask for -/
def fillBoundsLocal {α : Type} [LE α] [DecidableLE α] (onlyIfInside : Bool) (dflt : α × α)
    (bounds : List (String × (α × α))) (p0 : List (String × α)) : List (Option α × Option α) :=
  p0.map fun nv =>
    match bounds.lookup nv.1 with
    | some b => (some b.1, some b.2)
    | none =>
      if !onlyIfInside || (decide (dflt.1 ≤ nv.2) && decide (nv.2 ≤ dflt.2)) then (some dflt.1, some dflt.2)
      else (none, none)

/-- the tail of `fit.steady_state` / `time_course` / `protocol_time_course`:
`match minimizer(fn, p0, bounds).value: case OptimisationState(parameters, residual): Fit(...)`. -/
def fitWrap {α : Type} (minimizer : (List (String × α) → α) → List (String × α) → Option (OptState α))
    (residualFn : List (String × α) → α) (p0 : List (String × α)) : Option (Fit α) :=
  match minimizer residualFn p0 with
  | some st => some ⟨st.parameters, st.residual⟩
  | none => none

/-- what scipy's local minimisers are ASSUMED to do on success (trusted, tested by the harness): report the
objective at the reported point, never worse than at the start, and keep the dimension. -/
def MinimiserContract {α : Type} [LE α] (minimize : (List α → α) → List α → Option (List α × α)) : Prop :=
  ∀ g x0 x f, minimize g x0 = some (x, f) → f = g x ∧ f ≤ g x0 ∧ x.length = x0.length

/-! ### who owns the model the residual function mutates -/

/-- the caller's model object and the object the residual function updates -/
structure FitEnv (M : Type) where
  caller : M
  work : M
  aliased : Bool     -- `work` IS the caller's object (`as_deepcopy=False`)

/-- `if as_deepcopy: model = deepcopy(model)` -/
def FitEnv.start {M : Type} (asDeepcopy : Bool) (model : M) : FitEnv M :=
  ⟨model, model, !asDeepcopy⟩

/-- one residual evaluation: `model.update_parameter(p, updates[p])` ... on `settings.model` -/
def FitEnv.evalResidual {M P : Type} (update : M → P → M) (e : FitEnv M) (p : P) : FitEnv M :=
  let w := update e.work p
  ⟨if e.aliased then w else e.caller, w, e.aliased⟩

def FitEnv.run {M P : Type} (update : M → P → M) (e : FitEnv M) (ps : List P) : FitEnv M :=
  ps.foldl (FitEnv.evalResidual update) e

/-! ### the fit drivers end to end: residual values that may be `np.inf`, a scripted minimiser, the model's values -/

/-- a residual value: a number, or `np.inf` (what every `*_residual` returns when the simulation failed) -/
inductive Ext where
  | fin (x : Rat)
  | inf
deriving DecidableEq, Repr, Inhabited

def Ext.le : Ext → Ext → Bool
  | _, .inf => true
  | .inf, .fin _ => false
  | .fin x, .fin y => decide (x ≤ y)

instance : LE Ext := ⟨fun a b => Ext.le a b = true⟩
instance : DecidableLE Ext := fun a b => inferInstanceAs (Decidable (Ext.le a b = true))

/-- float addition with `inf` absorbing -/
def Ext.add : Ext → Ext → Ext
  | .fin x, .fin y => .fin (x + y)
  | _, _ => .inf
instance : Add Ext := ⟨Ext.add⟩

/-- `_sum_of_residuals` / `_mixed_sum_of_residuals`: `error = 0.0; for r in results: error += r` -/
def sumResiduals (rs : List Ext) : Ext := rs.foldl (· + ·) (.fin 0)

/-- the deterministic stand-in for an optimiser that the harness passes as `minimizer=`: it evaluates the objective at
the start and then at every scripted candidate of the right dimension, in order, and reports the FIRST point with the
least value (a candidate replaces the incumbent only when it is strictly better) -/
def scriptedMinimise {α : Type} [LE α] [DecidableLE α] (cands : List (List α)) (g : List α → α) (x0 : List α) :
    Option (List α × α) :=
  some ((cands.filter fun c => c.length == x0.length).foldl
    (fun best x => if best.2 ≤ g x then best else (x, g x)) (x0, g x0))

/-- the points at which `scriptedMinimise` calls the objective, in order, as the residual function sees them -/
def scriptedTrace {α : Type} (names : List String) (cands : List (List α)) (x0 : List α) : List (List (String × α)) :=
  (x0 :: cands.filter fun c => c.length == x0.length).map (packUpdates names)

/-- the numbers of a model that a fit can touch: parameter values and initial conditions, by name -/
structure ModelVals (α : Type) where
  pars : List (String × α)
  vars : List (String × α)
deriving Repr

/-- assignment to an existing name (all entries of that name; names are unique in a model) -/
def setVal {α : Type} (l : List (String × α)) (n : String) (v : α) : List (String × α) :=
  l.map fun kv => if kv.1 == n then (kv.1, v) else kv

def hasName {α : Type} (l : List (String × α)) (n : String) : Bool := l.any fun kv => kv.1 == n

/-- `model.update_variables(y0)`: one `update_variable` per entry; `none` = the KeyError for a name that is no variable -/
def updateVariables {α : Type} (m : ModelVals α) : List (String × α) → Option (ModelVals α)
  | [] => some m
  | (n, v) :: rest => if hasName m.vars n then updateVariables { m with vars := setVal m.vars n v } rest else none

/-- `p_names` / `v_names` of `_Settings`: `[i for i in p0 if i in model.get_parameter_names()]` and the same with the
variable names — a name of `p0` that is neither is in neither list -/
def routeNames {α : Type} (m : ModelVals α) (p0names : List String) : List String × List String :=
  (p0names.filter (hasName m.pars), p0names.filter (hasName m.vars))

/-- `for p in names: model.update_parameter(p, updates[p])` (or `update_variable`) on one of the two value tables;
`none` = the KeyError of `updates[p]` -/
def setAll {α : Type} (updates : List (String × α)) (names : List String) (l : List (String × α)) :
    Option (List (String × α)) :=
  names.foldlM (fun l p => (updates.lookup p).map fun v => setVal l p v) l

/-- the first lines of every `*_residual(updates, settings)`: `model.update_variables(y0)` if there is a `y0`, then
`model.update_parameter(p, updates[p])` for `p_names`, then `model.update_variable(v, updates[v])` for `v_names`
(`none` = a KeyError: unknown `y0` name, or `updates` lacks a fitted name) -/
def applyUpdates {α : Type} (y0 : Option (List (String × α))) (pNames vNames : List String) (m : ModelVals α)
    (updates : List (String × α)) : Option (ModelVals α) := do
  let m ← match y0 with
    | some y => updateVariables m y
    | none => some m
  let pars ← setAll updates pNames m.pars
  let vars ← setAll updates vNames m.vars
  some ⟨pars, vars⟩

/-- what a fit driver leaves behind -/
structure DriverOut (α : Type) where
  fit : Option (Fit α)            -- `none` = FitFailure
  caller : ModelVals α            -- the caller's model object afterwards
  work : ModelVals α              -- the object the residual function worked on = `Fit.model`
  trace : List (List (String × α))   -- the updates the residual function was called with, in order

/-- `fit.steady_state` / `time_course` / `protocol_time_course` with the scripted minimiser, end to end:
deepcopy or not, name routing, every residual evaluation updating the working model, the wrapper around the
minimiser's result and — with `setsBest` (read from the source by the translator) — `_set_best(model, parameters)`.
`residual` stands for simulate-and-compare on the updated model. -/
def fitDriver {α : Type} [LE α] [DecidableLE α] (setsBest asDeepcopy : Bool) (y0 : Option (List (String × α)))
    (model : ModelVals α) (p0 : List (String × α)) (cands : List (List α)) (fail : Bool)
    (residual : List (String × α) → α) : DriverOut α :=
  let names := p0.map (·.1)
  let (pN, vN) := routeNames model names
  let update := fun (m : ModelVals α) u => (applyUpdates y0 pN vN m u).getD m
  let trace := scriptedTrace names cands (p0.map (·.2))
  let env := (FitEnv.start asDeepcopy model).run update trace
  let minimize : (List α → α) → List α → Option (List α × α) :=
    if fail then fun _ _ => none else scriptedMinimise cands
  match fitWrap (localScipyCall minimize) residual p0 with
  | some fit =>
    let env' := if setsBest then
        FitEnv.evalResidual (fun m u => (applyUpdates none pN vN m u).getD m) env fit.bestPars
      else env
    ⟨some fit, env'.caller, env'.work, trace⟩
  | none => ⟨none, env.caller, env.work, trace⟩

/-- `EnsembleFit([fit for ... if not isinstance(fit := i[1].value, Exception)])`: failures are dropped, order kept -/
def ensembleFits {α : Type} (fits : List (Option (Fit α))) : List (Fit α) := fits.filterMap id

/-- `EnsembleFit.get_best_fit` = `min(self.fits, key=lambda x: x.loss)`: the first fit with the least loss; `none` =
the ValueError of `min` on an empty list -/
def getBestFit {α : Type} [LE α] [DecidableLE α] : List (Fit α) → Option (Fit α)
  | [] => none
  | f :: rest => some (rest.foldl (fun best x => if best.loss ≤ x.loss then best else x) f)

end Mxl.C20
