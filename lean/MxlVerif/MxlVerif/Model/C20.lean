/-
C20 — vocabulary for the translated loss functions (fit/losses.py), the `_Settings.loss` scaling wrapper
(fit/abstract.py), the fit wrappers (fit/routines.py) and `LocalScipyMinimizer.__call__` (minimizers/_scipy.py).
Import-free.  Everything is polymorphic in the number type: the driver runs it at core `Rat`, the theorems
about sqrt/log instantiate it at Mathlib's `ℝ` (Lemmas/C20Real.lean).  A pandas Series is a `List`.
-/
namespace Mxl.C20

class HasAbs (α : Type) where abs : α → α
class HasSqrt (α : Type) where sqrt : α → α
class HasLog (α : Type) where log : α → α

section vec
variable {α : Type}

/-- `np.sum(v)` -/
def vsum [Add α] [NatCast α] (l : List α) : α := l.foldr (· + ·) ((0 : Nat) : α)
/-- `np.mean(v)` -/
def vmean [Add α] [Div α] [NatCast α] (l : List α) : α := vsum l / ((l.length : Nat) : α)
def vadd [Add α] (a b : List α) : List α := List.zipWith (· + ·) a b
def vsub [Sub α] (a b : List α) : List α := List.zipWith (· - ·) a b
def vmul [Mul α] (a b : List α) : List α := List.zipWith (· * ·) a b
def vdiv [Div α] (a b : List α) : List α := List.zipWith (· / ·) a b
/-- elementwise function / broadcasting against a scalar -/
def vmap (f : α → α) (l : List α) : List α := l.map f
def vsquare [Mul α] (l : List α) : List α := l.map fun x => x * x
def vabs [HasAbs α] (l : List α) : List α := l.map HasAbs.abs
def vsqrt [HasSqrt α] (l : List α) : List α := l.map HasSqrt.sqrt
def vlog [HasLog α] (l : List α) : List α := l.map HasLog.log
/-- `np.linalg.norm(v, 2)` of a vector -/
def norm2 [Add α] [Mul α] [NatCast α] [HasSqrt α] (l : List α) : α := HasSqrt.sqrt (vsum (vsquare l))

/-- inner product and squared norms of two vectors: what `cosine_similarity` is made of, without the square
roots (so the driver can evaluate it at `Rat`) -/
def cosineParts [Add α] [Mul α] [NatCast α] (a b : List α) : α × α × α :=
  (vsum (vmul a b), vsum (vsquare a), vsum (vsquare b))

/-- what `cosine_similarity` computed on the pinned tree: `-np.sum(norm(y_pred, 2) * norm(y_true, 2))`, minus the
PRODUCT of the norms (kept to state why the repair exists) -/
def pinnedCosine [Add α] [Mul α] [Neg α] [NatCast α] [HasSqrt α] (a b : List α) : α := -(norm2 a * norm2 b)

end vec

/-- `_Settings.scale`: with `guard` a spread that is not positive (constant column: 0; single value: NaN) is
taken as 1 — that measurement is compared unscaled; without it the raw `data.std()` is the divisor -/
def effScale {α : Type} [LT α] [DecidableLT α] [NatCast α] (guard : Bool) (s : α) : α :=
  if guard then (if ((0 : Nat) : α) < s then s else ((1 : Nat) : α)) else s

/-- `_Settings.loss`: `loss_fn(data_scaled, (prediction - mean) / scale)` if `standard_scale` else
`loss_fn(data, prediction)` — the data goes into the FIRST parameter, the prediction into the second -/
def scaledLoss {α : Type} [Sub α] [Div α] [LT α] [DecidableLT α] [NatCast α] (guard : Bool)
    (lossFn : List α → List α → α) (standardScale : Bool) (mean scale : α) (data prediction : List α) : α :=
  if standardScale then
    lossFn (vmap (fun x => (x - mean) / effScale guard scale) data)
      (vmap (fun x => (x - mean) / effScale guard scale) prediction)
  else lossFn data prediction

instance : HasAbs Rat := ⟨fun x => if x < 0 then -x else x⟩

/-! ### fit wrappers -/

/-- `OptimisationState(parameters, residual)` -/
structure OptState (α : Type) where
  parameters : List (String × α)
  residual : α
deriving Repr

/-- `Fit(model, best_pars, loss)` (the model is tracked separately, see `FitEnv`) -/
structure Fit (α : Type) where
  bestPars : List (String × α)
  loss : α
deriving Repr

/-- `_pack_updates(par_values, par_names)` = `dict(zip(par_names, par_values, strict=True))` -/
def packUpdates {α : Type} (names : List String) (values : List α) : List (String × α) := names.zip values

/-- `LocalScipyMinimizer.__call__(residual_fn, p0, bounds)`; `minimize g x0` stands for
`scipy.optimize.minimize(g, x0=x0, ...)`: `some (x, f)` = `res.success` with `res.x`, `res.fun`. -/
def localScipyCall {α : Type} (minimize : (List α → α) → List α → Option (List α × α))
    (residualFn : List (String × α) → α) (p0 : List (String × α)) : Option (OptState α) :=
  let names := p0.map (·.1)
  match minimize (fun xs => residualFn (packUpdates names xs)) (p0.map (·.2)) with
  | some (x, f) => some ⟨names.zip x, f⟩
  | none => none

/-- `[bounds.get(name, default) for name in p0]`: the box handed to scipy for the i-th entry of `x0` is the one the
caller gave for the i-th NAME of `p0` (or the default), whatever the order of the `bounds` dict -/
def fillBounds {α : Type} (dflt : α × α) (bounds : List (String × (α × α))) (names : List String) :
    List (α × α) :=
  names.map fun n => (bounds.lookup n).getD dflt

/-- the tail of `fit.steady_state` / `time_course` / `protocol_time_course`:
`match minimizer(fn, p0, bounds).value: case OptimisationState(parameters, residual): Fit(...)`. -/
def fitWrap {α : Type} (minimizer : (List (String × α) → α) → List (String × α) → Option (OptState α))
    (residualFn : List (String × α) → α) (p0 : List (String × α)) : Option (Fit α) :=
  match minimizer residualFn p0 with
  | some st => some ⟨st.parameters, st.residual⟩
  | none => none

/-- what scipy's local minimisers are ASSUMED to do on success (trusted, tested by the harness): report the
objective at the reported point, never worse than at the start, and keep the dimension. -/
def MinimiserContract {α : Type} [LE α] (minimize : (List α → α) → List α → Option (List α × α)) : Prop :=
  ∀ g x0 x f, minimize g x0 = some (x, f) → f = g x ∧ f ≤ g x0 ∧ x.length = x0.length

/-! ### who owns the model the residual function mutates -/

/-- the caller's model object and the object the residual function updates -/
structure FitEnv (M : Type) where
  caller : M
  work : M
  aliased : Bool     -- `work` IS the caller's object (`as_deepcopy=False`)

/-- `if as_deepcopy: model = deepcopy(model)` -/
def FitEnv.start {M : Type} (asDeepcopy : Bool) (model : M) : FitEnv M :=
  ⟨model, model, !asDeepcopy⟩

/-- one residual evaluation: `model.update_parameter(p, updates[p])` ... on `settings.model` -/
def FitEnv.evalResidual {M P : Type} (update : M → P → M) (e : FitEnv M) (p : P) : FitEnv M :=
  let w := update e.work p
  ⟨if e.aliased then w else e.caller, w, e.aliased⟩

def FitEnv.run {M P : Type} (update : M → P → M) (e : FitEnv M) (ps : List P) : FitEnv M :=
  ps.foldl (FitEnv.evalResidual update) e

end Mxl.C20
