/-
C18 — executable model of `mca.py`:

  `variable_elasticities` (124-178), `parameter_elasticities` (181-233): central differences with a
  relative displacement, optional scaling `old / flux`, parameter reset;
  `_response_coefficient_worker` (45-116): optional `update_variables(y0)`, perturb up, steady
  state, perturb down, steady state, difference quotient through the LAZY result views (C09:
  they re-apply their own parameter snapshot to the one shared model), reset, optional
  normalisation, and — after
    "fix: response_coefficients restores the model's initial values when custom variables are given"
  — restoring the variables it overwrote;
  `response_coefficients` (261-321): sequential fold over one model object, or a pool of copies.

Floats: a division by zero yields inf/nan instead of raising; here such an entry is `none`.
-/
import MxlVerif.Model.C09Workers
namespace Mxl.C18
open Mxl.C09

def quot (a b : Rat) : Option Rat := if b = 0 then none else some (a / b)

/-- one entry: `(upper - lower) / (2 * displacement * old)`, then `*= old / base` if normalized -/
def coef (normalized : Bool) (d old upper lower base : Rat) : Option Rat :=
  match quot (upper - lower) (2 * d * old) with
  | none => none
  | some e => if normalized then (quot old base).map fun s => e * s else some e

abbrev Column := List (Name × Option Rat)

def zip3 (up lo base : List (Name × Rat)) (f : Rat → Rat → Rat → Option Rat) : Column :=
  up.map fun kv => (kv.1, match lo.lookup kv.1, base.lookup kv.1 with
    | some l, some b => f kv.2 l b
    | _, _ => none)

def getKey (m : List (Name × Rat)) (k : Name) : Except Err Rat :=
  match m.lookup k with
  | some v => .ok v
  | none => .error (.keyError k)

/-- `variables | {var: value}` -/
def setState (vars : Row) (k : Name) (v : Rat) : Row := omInsert vars k v

/-- the flux vector the coefficients are scaled with (`if normalized: ... get_fluxes(variables)`);
    unused — here the upper fluxes — otherwise -/
def baseFlux (normalized : Bool) (c : Content) (vars : Row) (t : Rat) (unused : List (Name × Rat)) :
    Except Err (List (Name × Rat)) :=
  if normalized then getFluxes c (some vars) t else .ok unused

/-! ### `variable_elasticities`: no model state is written -/

def varElasticityOf (c : Content) (vars : Row) (t : Rat) (normalized : Bool) (d : Rat) (var : Name) :
    Except Err Column := do
  let old ← getKey vars var
  let upper ← getFluxes c (some (setState vars var (old * (1 + d)))) t
  let lower ← getFluxes c (some (setState vars var (old * (1 - d)))) t
  let base ← baseFlux normalized c vars t upper
  pure (zip3 upper lower base (coef normalized d old))

/-- `variables = model.get_initial_conditions() if variables is None else variables` -/
def resolveState (c : Content) (vars : Option Row) : Except Err Row :=
  match vars with
  | some v => .ok v
  | none => getInit c

def varElasticities (c : Content) (toScan : Option (List Name)) (vars : Option Row) (t : Rat)
    (normalized : Bool) (d : Rat) : Except Err (List (Name × Column)) := do
  let vs ← resolveState c vars
  let names := toScan.getD (omKeys c.vars)
  names.mapM fun var => do pure (var, ← varElasticityOf c vs t normalized d var)

/-! ### `parameter_elasticities`: the model's parameters are written and reset -/

def parElasticityOf (vars : Row) (t : Rat) (normalized : Bool) (d : Rat) (c : Content) (par : Name) :
    Except Err (Content × Column) := do
  let old ← getKey (← getParameterValues c) par
  let c1 ← updatePars c [(par, old * (1 + d))]
  let upper ← getFluxes c1 (some vars) t
  let c2 ← updatePars c1 [(par, old * (1 - d))]
  let lower ← getFluxes c2 (some vars) t
  let c3 ← updatePars c2 [(par, old)]
  let base ← baseFlux normalized c3 vars t upper
  pure (c3, zip3 upper lower base (coef normalized d old))

def foldCols (f : Content → Name → Except Err (Content × Column)) :
    Content → List Name → Except Err (Content × List (Name × Column))
  | c, [] => .ok (c, [])
  | c, p :: rest =>
    match f c p with
    | .error e => .error e
    | .ok (c1, col) =>
      match foldCols f c1 rest with
      | .error e => .error e
      | .ok (c2, cols) => .ok (c2, (p, col) :: cols)

def parElasticities (c : Content) (toScan : Option (List Name)) (vars : Option Row) (t : Rat)
    (normalized : Bool) (d : Rat) : Except Err (Content × List (Name × Column)) := do
  let vs ← resolveState c vars
  foldCols (parElasticityOf vs t normalized d) c (toScan.getD (omKeys c.pars))

/-! ### `_response_coefficient_worker` -/

/-- `_steady_state_worker(model, ...)` on the one model object: the result refers to that model,
    so it is kept as (segments, nan) and viewed against the CURRENT content -/
def runSS (w : Worker) (c : Content) : Except Err (Content × List Seg × Bool) :=
  match w.run c with
  | .error e => .error e
  | .ok (c', some segs) => .ok (c', segs, false)
  | .ok (c', none) =>
    match mkDefault c' w.dfltIndex with
    | .error e => .error e
    | .ok p => .ok (c', p.segs, true)

/-- `.variables.iloc[-1]` / `.fluxes.iloc[-1]`: the last row of the lazy view (all names; the
    caller selects columns).  `none` = NaN placeholder. -/
def lastRow (nan : Bool) (c : Content) (segs : List Seg) : Except Err (Content × Option (List (Name × Rat))) :=
  match viewKeep nan c segs with
  | .error e => .error e
  | .ok (c', rs) =>
    if nan then .ok (c', none)
    else .ok (c', (rs.getLast?.bind fun rows => rows.getLast?).map (·.2))

def diffCol (d old : Rat) (up lo : Option (List (Name × Rat))) : Column :=
  match up, lo with
  | some u, some l => u.map fun kv => (kv.1, match l.lookup kv.1 with
      | some lv => quot (kv.2 - lv) (2 * d * old)
      | none => none)
  | some u, none => u.map fun kv => (kv.1, none)
  | none, _ => []

def normCol (old : Rat) (col : Column) (norm : Option (List (Name × Rat))) : Column :=
  col.map fun kv => (kv.1, match kv.2, norm.bind (·.lookup kv.1) with
    | some e, some nv => (quot old nv).map fun s => e * s
    | _, _ => none)

/-- `if y0 is not None: model.update_variables(y0)` -/
def applyY0 (c : Content) (y0 : Option Row) : Except Err Content :=
  match y0 with
  | none => .ok c
  | some kv => updateVars c kv

/-- `if normalized: norm = _steady_state_worker(...); conc_resp *= old / norm.variables.iloc[-1]; ...` -/
def normStep (w : Worker) (normalized : Bool) (old : Rat) (col : Column) (c7 : Content) :
    Except Err (Content × Column) :=
  if normalized then do
    let r ← runSS w c7
    let v ← lastRow r.2.2 r.1 r.2.1
    pure (v.1, normCol old col v.2)
  else pure (c7, col)

/-- `if y0 is not None: model.update_variables(old_variables)` (the fix) -/
def restoreVars (y0 : Option Row) (saved : List (Name × Val)) (c8 : Content) : Content :=
  match y0 with
  | none => c8
  | some _ => { c8 with vars := saved }

def responseWorker (w : Worker) (y0 : Option Row) (normalized : Bool) (d : Rat) (c : Content) (par : Name) :
    Except Err (Content × Column) := do
  let pv ← getParameterValues c
  let old ← getKey pv par
  let c0 ← applyY0 c y0                                  -- saved = model.get_raw_variables() = c.vars
  let c1 ← updatePars c0 [(par, old * (1 + d))]
  let up ← runSS w c1
  let c3 ← updatePars up.1 [(par, old * (1 - d))]
  let lo ← runSS w c3
  let uv ← lastRow up.2.2 lo.1 up.2.1                    -- upper.variables: re-applies upper's snapshot
  let lv ← lastRow lo.2.2 uv.1 lo.2.1
  let c7 ← updatePars lv.1 [(par, old)]                  -- Reset
  let r ← normStep w normalized old (diffCol d old uv.2 lv.2) c7
  pure (restoreVars y0 c.vars r.1, r.2)

/-- `parallelise(..., parallel=False)`: one model object threaded through the parameters -/
def responseSeq (w : Worker) (y0 : Option Row) (normalized : Bool) (d : Rat) (c : Content)
    (toScan : Option (List Name)) : Except Err (Content × List (Name × Column)) :=
  foldCols (responseWorker w y0 normalized d) c (toScan.getD (omKeys c.pars))

/-- a task's answer as the parent keeps it: `(k, v)` with the coefficients only -/
def colOf (p : Name) (r : Except Err (Content × Column)) : Except Err (Name × Column) :=
  match r with
  | .error e => .error e
  | .ok x => .ok (p, x.2)

def withModel (c : Content) (r : Except Err (List (Name × Column))) : Except Err (Content × List (Name × Column)) :=
  match r with
  | .error e => .error e
  | .ok cols => .ok (c, cols)

/-- `parallelise(..., parallel=True, max_workers=n)` under the schedule `assign`: every task on
    a pickled copy of the caller's model, which is never written -/
def responsePar (assign : List Nat) (n : Nat) (w : Worker) (y0 : Option Row) (normalized : Bool) (d : Rat)
    (c : Content) (toScan : Option (List Name)) : Except Err (Content × List (Name × Column)) :=
  withModel c ((schedMap assign n (fun p => (p, responseWorker w y0 normalized d c p))
    (toScan.getD (omKeys c.pars))).mapM fun pr => colOf pr.1 pr.2)

/-! ### Monte-Carlo wrappers (`mc.py`): one sample = one task of C09's pool

`mc.variable_elasticities` / `mc.parameter_elasticities` / `mc.response_coefficients` hand every row of
`mc_to_scan` to `_update_parameters_and_initial_conditions` (C09 `applyRow` on a copy of the model) and then
call the plain routine on that copy.  `variables=None` travels to the routine as `None`: the default state
is resolved PER SAMPLE, after the sample's values were written in. -/

def mcVarSample (c : Content) (sample : Row) (toScan : Option (List Name)) (vars : Option Row) (t : Rat)
    (normalized : Bool) (d : Rat) : Except Err (List (Name × Column)) := do
  let c1 ← applyRow c sample
  varElasticities c1 toScan vars t normalized d

def mcParSample (c : Content) (sample : Row) (toScan : Option (List Name)) (vars : Option Row) (t : Rat)
    (normalized : Bool) (d : Rat) : Except Err (List (Name × Column)) := do
  let c1 ← applyRow c sample
  let r ← parElasticities c1 toScan vars t normalized d
  pure r.2

/-- `mc.response_coefficients`: `if variables is not None: model.update_variables(variables)` on the CALLER's
    model (returned as first component: it is not undone), then per sample the sequential routine with
    `variables=None` on the updated copy -/
def mcRespSample (w : Worker) (c : Content) (sample : Row) (toScan : Option (List Name)) (vars : Option Row)
    (normalized : Bool) (d : Rat) : Except Err (Content × List (Name × Column)) := do
  let c0 ← applyY0 c vars
  let c1 ← applyRow c0 sample
  let r ← responseSeq w none normalized d c1 toScan
  pure (c, r.2)   -- after the repair of F-C18-2 the override is applied to a copy: the caller's model is returned as it was

end Mxl.C18
