/-
C18 — executable model of `mca.py`:

  `variable_elasticities` (124-178), `parameter_elasticities` (181-233): central differences with a
  relative displacement, optional scaling `old / flux`, parameter reset;
  `_response_coefficient_worker` (45-116): optional `update_variables(y0)`, perturb up, steady
  state, perturb down, steady state, difference quotient through the LAZY result views (C09:
  they re-apply their own parameter snapshot to the one shared model), reset, optional
  normalisation, and — after
    "fix: response_coefficients restores the model's initial values when custom variables are given"
  — restoring the variables it overwrote;
  `response_coefficients` (261-321): sequential fold over one model object, or a pool of copies.

Floats: a division by zero yields inf/nan instead of raising; here such an entry is `none`.
-/
import MxlVerif.Model.C09Workers
import MxlVerif.Generated.C18Expr
namespace Mxl.C18
open Mxl.C09

def quot (a b : Rat) : Option Rat := if b = 0 then none else some (a / b)

/-- one entry: `(upper - lower) / (2 * displacement * old)`, then `*= old / base` if normalized -/
def coef (normalized : Bool) (d old upper lower base : Rat) : Option Rat :=
  match quot (upper - lower) (2 * d * old) with
  | none => none
  | some e => if normalized then (quot old base).map fun s => e * s else some e

/-- the scaled central difference of `x ↦ x^n` at relative displacement `d`: what `coef true` yields for a
    power law of kinetic order `n` (`Props.C18_central_diff_monomial`) -/
def scaledCD (d : Rat) (n : Nat) : Rat := ((1 + d) ^ n - (1 - d) ^ n) / (2 * d)

/-- `Π_{k<n} (1 + k·d²)`: the factor by which the scaled central difference may exceed the kinetic order -/
def prodUp (d : Rat) : Nat → Rat
  | 0 => 1
  | n + 1 => prodUp d n * (1 + (n : Rat) * d ^ 2)

abbrev Column := List (Name × Option Rat)

def zip3 (up lo base : List (Name × Rat)) (f : Rat → Rat → Rat → Option Rat) : Column :=
  up.map fun kv => (kv.1, match lo.lookup kv.1, base.lookup kv.1 with
    | some l, some b => f kv.2 l b
    | _, _ => none)

def getKey (m : List (Name × Rat)) (k : Name) : Except Err Rat :=
  match m.lookup k with
  | some v => .ok v
  | none => .error (.keyError k)

/-- `variables | {var: value}` -/
def setState (vars : Row) (k : Name) (v : Rat) : Row := omInsert vars k v

/-- the flux vector the coefficients are scaled with (`if normalized: ... get_fluxes(variables)`);
    unused — here the upper fluxes — otherwise -/
def baseFlux (normalized : Bool) (c : Content) (vars : Row) (t : Rat) (unused : List (Name × Rat)) :
    Except Err (List (Name × Rat)) :=
  if normalized then getFluxes c (some vars) t else .ok unused

/-! ### `variable_elasticities`: no model state is written -/

def varElasticityOf (c : Content) (vars : Row) (t : Rat) (normalized : Bool) (d : Rat) (var : Name) :
    Except Err Column := do
  let old ← getKey vars var
  let upper ← getFluxes c (some (setState vars var (old * (1 + d)))) t
  let lower ← getFluxes c (some (setState vars var (old * (1 - d)))) t
  let base ← baseFlux normalized c vars t upper
  pure (zip3 upper lower base (coef normalized d old))

/-- `variables = model.get_initial_conditions() if variables is None else variables` -/
def resolveState (c : Content) (vars : Option Row) : Except Err Row :=
  match vars with
  | some v => .ok v
  | none => getInit c

def varElasticities (c : Content) (toScan : Option (List Name)) (vars : Option Row) (t : Rat)
    (normalized : Bool) (d : Rat) : Except Err (List (Name × Column)) := do
  let vs ← resolveState c vars
  let names := toScan.getD (omKeys c.vars)
  names.mapM fun var => do pure (var, ← varElasticityOf c vs t normalized d var)

/-! ### routines that WRITE the one model object: what the model looks like when an exception escapes

`Run α` = the model as a block of statements leaves it, and the block's value or the exception that escapes
it.  (An `Except Err (Content × α)` forgets the model on the raising path, and with it the question whether
the routine put the model back.) -/

abbrev Run (α : Type) := Content × Except Err α

/-- sequencing: an exception stops the block, the model stays as it is at that point -/
def Run.bind {α β : Type} (r : Run α) (f : Content → α → Run β) : Run β :=
  match r with
  | (c, .error e) => (c, .error e)
  | (c, .ok a) => f c a

/-- a statement that only reads the model -/
def rd {α : Type} (c : Content) (x : Except Err α) : Run α := (c, x)

/-- `model.update_parameters(...)` / `model.update_variables(...)`: `_check_known_names` raises BEFORE anything
    is written, so a failing update leaves the model as it was -/
def wr (c : Content) (x : Except Err Content) : Run Unit :=
  match x with
  | .ok c' => (c', .ok ())
  | .error e => (c, .error e)

/-- `try: body  finally: fin` — `fin` runs on the model as `body` left it; an exception of `fin` replaces the
    body's outcome -/
def tryFinally {α : Type} (body : Run α) (fin : Content → Run Unit) : Run α :=
  match fin body.1 with
  | (c', .ok _) => (c', body.2)
  | (c', .error e) => (c', .error e)

/-- forget the model of a raising run (the view the rest of the framework has of a routine) -/
def Run.toExcept {α : Type} (r : Run α) : Except Err (Content × α) :=
  match r with
  | (c, .ok a) => .ok (c, a)
  | (_, .error e) => .error e

/-! ### `parameter_elasticities`: the model's parameters are written and reset (`try ... finally`, after
    "fix: parameter_elasticities resets the perturbed parameter when a flux evaluation raises") -/

abbrev Fluxes := List (Name × Rat)

/-- the `try:` block -/
def parTry (vars : Row) (t d old : Rat) (c : Content) (par : Name) : Run (Fluxes × Fluxes) :=
  (wr c (updatePars c [(par, old * (1 + d))])).bind fun c1 _ =>
  (rd c1 (getFluxes c1 (some vars) t)).bind fun c1 upper =>
  (wr c1 (updatePars c1 [(par, old * (1 - d))])).bind fun c2 _ =>
  (rd c2 (getFluxes c2 (some vars) t)).bind fun c2 lower =>
  (c2, .ok (upper, lower))

/-- `old = model.get_parameter_values()[par]` -/
def oldValue (c : Content) (par : Name) : Except Err Rat := do
  let pv ← getParameterValues c
  getKey pv par

def parElasticityOfT (vars : Row) (t : Rat) (normalized : Bool) (d : Rat) (c : Content) (par : Name) : Run Column :=
  (rd c (oldValue c par)).bind fun c old =>
  (if Generated.C18.parFinallyResets then                -- regenerated from mca.py: is the reset in a `finally:`?
      tryFinally (parTry vars t d old c par) fun c' => wr c' (updatePars c' [(par, old)])
    else
      (parTry vars t d old c par).bind fun c2 ul => (wr c2 (updatePars c2 [(par, old)])).bind fun c3 _ => (c3, .ok ul)).bind fun c3 ul =>
  (rd c3 (baseFlux normalized c3 vars t ul.1)).bind fun c3 base =>
  (c3, .ok (zip3 ul.1 ul.2 base (coef normalized d old)))

def parElasticityOf (vars : Row) (t : Rat) (normalized : Bool) (d : Rat) (c : Content) (par : Name) :
    Except Err (Content × Column) := (parElasticityOfT vars t normalized d c par).toExcept

/-- the loop over `to_scan` on the one model object; an exception ends it with the model as it is then -/
def foldColsT (f : Content → Name → Run Column) : Content → List Name → Run (List (Name × Column))
  | c, [] => (c, .ok [])
  | c, p :: rest =>
    match f c p with
    | (c1, .error e) => (c1, .error e)
    | (c1, .ok col) =>
      match foldColsT f c1 rest with
      | (c2, .error e) => (c2, .error e)
      | (c2, .ok cols) => (c2, .ok ((p, col) :: cols))

def foldCols (f : Content → Name → Except Err (Content × Column)) :
    Content → List Name → Except Err (Content × List (Name × Column))
  | c, [] => .ok (c, [])
  | c, p :: rest =>
    match f c p with
    | .error e => .error e
    | .ok (c1, col) =>
      match foldCols f c1 rest with
      | .error e => .error e
      | .ok (c2, cols) => .ok (c2, (p, col) :: cols)

def parElasticitiesT (c : Content) (toScan : Option (List Name)) (vars : Option Row) (t : Rat)
    (normalized : Bool) (d : Rat) : Run (List (Name × Column)) :=
  (rd c (resolveState c vars)).bind fun c vs =>
  foldColsT (parElasticityOfT vs t normalized d) c (toScan.getD (omKeys c.pars))

def parElasticities (c : Content) (toScan : Option (List Name)) (vars : Option Row) (t : Rat)
    (normalized : Bool) (d : Rat) : Except Err (Content × List (Name × Column)) :=
  (parElasticitiesT c toScan vars t normalized d).toExcept

/-! ### `_response_coefficient_worker` -/

/-- `_steady_state_worker(model, ...)` on the one model object: the result refers to that model,
    so it is kept as (segments, nan) and viewed against the CURRENT content -/
def runSS (w : Worker) (c : Content) : Except Err (Content × List Seg × Bool) :=
  match w.run c with
  | .error e => .error e
  | .ok (c', some segs) => .ok (c', segs, false)
  | .ok (c', none) =>
    match mkDefault c' w.dfltIndex with
    | .error e => .error e
    | .ok p => .ok (c', p.segs, true)

/-- `.variables.iloc[-1]` / `.fluxes.iloc[-1]`: the last row of the lazy view (all names; the
    caller selects columns).  `none` = NaN placeholder. -/
def lastRow (nan : Bool) (c : Content) (segs : List Seg) : Except Err (Content × Option (List (Name × Rat))) :=
  match viewKeep nan c segs with
  | .error e => .error e
  | .ok (c', rs) =>
    if nan then .ok (c', none)
    else .ok (c', (rs.getLast?.bind fun rows => rows.getLast?).map (·.2))

def diffCol (d old : Rat) (up lo : Option (List (Name × Rat))) : Column :=
  match up, lo with
  | some u, some l => u.map fun kv => (kv.1, match l.lookup kv.1 with
      | some lv => quot (kv.2 - lv) (2 * d * old)
      | none => none)
  | some u, none => u.map fun kv => (kv.1, none)
  | none, _ => []

def normCol (old : Rat) (col : Column) (norm : Option (List (Name × Rat))) : Column :=
  col.map fun kv => (kv.1, match kv.2, norm.bind (·.lookup kv.1) with
    | some e, some nv => (quot old nv).map fun s => e * s
    | _, _ => none)

/-- `if y0 is not None: model.update_variables(y0)` -/
def applyY0 (c : Content) (y0 : Option Row) : Except Err Content :=
  match y0 with
  | none => .ok c
  | some kv => updateVars c kv

/-- `if y0 is not None: model.update_variables(old_variables)` (the fix) -/
def restoreVars (y0 : Option Row) (saved : List (Name × Val)) (c8 : Content) : Content :=
  match y0 with
  | none => c8
  | some _ => { c8 with vars := saved }

/-- `_steady_state_worker(model, ...)` as a statement: a run that raises leaves the model alone (the steady-state
    `Simulator` never writes the model it is given) -/
def runSST (w : Worker) (c : Content) : Run (List Seg × Bool) :=
  match runSS w c with
  | .ok (c', segs, nan) => (c', .ok (segs, nan))
  | .error e => (c, .error e)

/-- reading a lazy view as a statement: `_keep_model_parameters` is itself a `try ... finally`, so a view that
    raises hands the model its previous parameters back -/
def lastRowT (nan : Bool) (c : Content) (segs : List Seg) : Run (Option (List (Name × Rat))) :=
  match lastRow nan c segs with
  | .ok (c', r) => (c', .ok r)
  | .error e => (c, .error e)

def normStepT (w : Worker) (normalized : Bool) (old : Rat) (col : Column) (c7 : Content) : Run Column :=
  if normalized then
    (runSST w c7).bind fun c8 r =>
    (lastRowT r.2 c8 r.1).bind fun c9 nv =>
    (c9, .ok (normCol old col nv))
  else (c7, .ok col)

/-- the `try:` block of `_response_coefficient_worker` -/
def respTry (w : Worker) (y0 : Option Row) (normalized : Bool) (d old : Rat) (c : Content) (par : Name) : Run Column :=
  (wr c (applyY0 c y0)).bind fun c0 _ =>
  (wr c0 (updatePars c0 [(par, old * (1 + d))])).bind fun c1 _ =>
  (runSST w c1).bind fun c2 up =>
  (wr c2 (updatePars c2 [(par, old * (1 - d))])).bind fun c3 _ =>
  (runSST w c3).bind fun c4 lo =>
  (lastRowT up.2 c4 up.1).bind fun c5 uv =>             -- upper.variables: re-applies upper's snapshot
  (lastRowT lo.2 c5 lo.1).bind fun c6 lv =>
  (wr c6 (updatePars c6 [(par, old)])).bind fun c7 _ =>  -- Reset
  normStepT w normalized old (diffCol d old uv lv) c7

/-- the `finally:` block: the parameter, then (with custom variables) the saved raw variables -/
def respFinally (y0 : Option Row) (saved : List (Name × Val)) (par : Name) (old : Rat) (c' : Content) : Run Unit :=
  (wr c' (updatePars c' [(par, old)])).bind fun c'' _ => (restoreVars y0 saved c'', .ok ())

/-- `_response_coefficient_worker` after
    "fix: response_coefficients leaves the model's parameters and initial values as it found them when a
    steady-state run raises" -/
def responseWorkerT (w : Worker) (y0 : Option Row) (normalized : Bool) (d : Rat) (c : Content) (par : Name) :
    Run Column :=
  (rd c (oldValue c par)).bind fun c old =>             -- saved = model.get_raw_variables() = c.vars
  if Generated.C18.respFinallyRestores then             -- regenerated from mca.py: are reset and restore in a `finally:`?
    tryFinally (respTry w y0 normalized d old c par) (respFinally y0 c.vars par old)
  else (respTry w y0 normalized d old c par).bind fun c8 col => (restoreVars y0 c.vars c8, .ok col)

def responseWorker (w : Worker) (y0 : Option Row) (normalized : Bool) (d : Rat) (c : Content) (par : Name) :
    Except Err (Content × Column) := (responseWorkerT w y0 normalized d c par).toExcept

/-- `parallelise(..., parallel=False)`: one model object threaded through the parameters -/
def responseSeqT (w : Worker) (y0 : Option Row) (normalized : Bool) (d : Rat) (c : Content)
    (toScan : Option (List Name)) : Run (List (Name × Column)) :=
  foldColsT (responseWorkerT w y0 normalized d) c (toScan.getD (omKeys c.pars))

def responseSeq (w : Worker) (y0 : Option Row) (normalized : Bool) (d : Rat) (c : Content)
    (toScan : Option (List Name)) : Except Err (Content × List (Name × Column)) :=
  (responseSeqT w y0 normalized d c toScan).toExcept

/-- a task's answer as the parent keeps it: `(k, v)` with the coefficients only -/
def colOf (p : Name) (r : Except Err (Content × Column)) : Except Err (Name × Column) :=
  match r with
  | .error e => .error e
  | .ok x => .ok (p, x.2)

def withModel (c : Content) (r : Except Err (List (Name × Column))) : Except Err (Content × List (Name × Column)) :=
  match r with
  | .error e => .error e
  | .ok cols => .ok (c, cols)

/-- `parallelise(..., parallel=True, max_workers=n)` under the schedule `assign`: every task on
    a pickled copy of the caller's model, which is never written -/
def responsePar (assign : List Nat) (n : Nat) (w : Worker) (y0 : Option Row) (normalized : Bool) (d : Rat)
    (c : Content) (toScan : Option (List Name)) : Except Err (Content × List (Name × Column)) :=
  withModel c ((schedMap assign n (fun p => (p, responseWorker w y0 normalized d c p))
    (toScan.getD (omKeys c.pars))).mapM fun pr => colOf pr.1 pr.2)

/-! ### Monte-Carlo wrappers (`mc.py`): one sample = one task of C09's pool

`mc.variable_elasticities` / `mc.parameter_elasticities` / `mc.response_coefficients` hand every row of
`mc_to_scan` to `_update_parameters_and_initial_conditions` (C09 `applyRow` on a copy of the model) and then
call the plain routine on that copy.  `variables=None` travels to the routine as `None`: the default state
is resolved PER SAMPLE, after the sample's values were written in. -/

def mcVarSample (c : Content) (sample : Row) (toScan : Option (List Name)) (vars : Option Row) (t : Rat)
    (normalized : Bool) (d : Rat) : Except Err (List (Name × Column)) := do
  let c1 ← applyRow c sample
  varElasticities c1 toScan vars t normalized d

def mcParSample (c : Content) (sample : Row) (toScan : Option (List Name)) (vars : Option Row) (t : Rat)
    (normalized : Bool) (d : Rat) : Except Err (List (Name × Column)) := do
  let c1 ← applyRow c sample
  let r ← parElasticities c1 toScan vars t normalized d
  pure r.2

/-- `mc.response_coefficients`: `if variables is not None: model.update_variables(variables)` on the CALLER's
    model (returned as first component: it is not undone), then per sample the sequential routine with
    `variables=None` on the updated copy -/
def mcRespSample (w : Worker) (c : Content) (sample : Row) (toScan : Option (List Name)) (vars : Option Row)
    (normalized : Bool) (d : Rat) : Except Err (Content × List (Name × Column)) := do
  let c0 ← applyY0 c vars
  let c1 ← applyRow c0 sample
  let r ← responseSeq w none normalized d c1 toScan
  pure (c, r.2)   -- after the repair of F-C18-2 the override is applied to a copy: the caller's model is returned as it was

end Mxl.C18
