/-
C10 — the stateless, pointwise specification of the result views.

`specRead res m0 q` answers a query from the immutable result (`raw_variables`,
`raw_parameters`) and the model *content* `m0` alone: no memo cell, no shared mutable
model, no loop that threads parameters from one segment into the next, no
`start`/`end` bookkeeping.  Row `j` of segment `i` is the core's pointwise function of
(`m0` with snapshot `i` applied, that row's time, that row's state); normalisation is
"global row `r` divided by its factor"; a concatenated view is the flattening of the
per-segment one.  The theorems of `Props/C10.lean` relate the impl-faithful readers of
`Model/C10.lean` to these definitions; the driver can execute both.
-/
import MxlVerif.Model.C10
namespace Mxl.C10

/-- `zip(strict=True)` + map -/
def zipWithE {α β γ} (f : α → β → Except Err γ) : List α → List β → Except Err (List γ)
  | [], [] => .ok []
  | a :: as, b :: bs =>
    match f a b with
    | .error e => .error e
    | .ok c =>
      match zipWithE f as bs with
      | .error e => .error e
      | .ok cs => .ok (c :: cs)
  | _, _ => .error (.valueError "zip")

/-- one segment of the full argument table: every row is `pointRow` under the model with
    that segment's snapshot applied -/
def specSegArgs (m0 : Content) (tbl : Table) (p : Pars) : Except Err Table :=
  match withPars m0 p with
  | .error e => .error e
  | .ok c => mapE (fun r => match pointRow c r.1 r.2 with
      | .error e => .error e
      | .ok row => .ok (r.1, row)) tbl

def specAllArgs (res : Res) (m0 : Content) : Except Err (List Table) :=
  zipWithE (specSegArgs m0) res.rawVars res.rawPars

/-! ### normalisation: one factor per global row -/

def totalRows (tabs : List Table) : Nat := (tabs.map List.length).sum

/-- the factor of every global row, in order -/
def specFactors (tabs : List Table) : Norm → Except Err (Option (List Rat))
  | .none => .ok none
  | .scalar f => .ok (some (List.replicate (totalRows tabs) f))
  | .list fs =>
    if fs.length = tabs.length then
      .ok (some ((tabs.zip fs).flatMap fun tf => List.replicate tf.1.length tf.2))
    else if fs.length < totalRows tabs then .error (.valueError "cannot reshape")
    else .ok (some (fs.take (totalRows tabs)))

/-- cut a flat list of rows back into segments of the given lengths -/
def unflatten {α} : List Nat → List α → List (List α)
  | [], _ => []
  | n :: ns, l => l.take n :: unflatten ns (l.drop n)

def specNorm (tabs : List Table) (n : Norm) : Except Err (List Table) :=
  match specFactors tabs n with
  | .error e => .error e
  | .ok none => .ok tabs
  | .ok (some facs) =>
    if facs.any (· = 0) then .error (.other "non-finite")
    else .ok (unflatten (tabs.map List.length) (List.zipWith scaleRow facs tabs.flatten))

def specAdjust (tabs : List Table) (n : Norm) (concat : Bool) : Except Err View :=
  match specNorm tabs n with
  | .error e => .error e
  | .ok tabs' =>
    if concat then
      if tabs'.isEmpty then .error (.valueError "No objects to concatenate")
      else .ok (.frame tabs'.flatten)
    else .ok (.frames tabs')

/-! ### the views -/

def specSelected (res : Res) (m0 : Content) (f : Flags) : Except Err (List Table) :=
  match specAllArgs res m0 with
  | .error e => .error e
  | .ok tabs =>
    match selectNames m0 f with
    | .error e => .error e
    | .ok names => mapE (selectTable names) tabs

def specArgsView (res : Res) (m0 : Content) (f : Flags) (n : Norm) (cc : Bool) :
    Except Err View :=
  match specSelected res m0 f with
  | .error e => .error e
  | .ok sel => specAdjust sel n cc

def specVariables (res : Res) (m0 : Content) (dv ro sv : Bool) (n : Norm) (cc : Bool) :
    Except Err View :=
  if !(dv || ro || sv) then specAdjust res.rawVars n cc
  else specArgsView res m0 { vars := true, dvars := dv, svars := sv, readouts := ro } n cc

def specFluxes (res : Res) (m0 : Content) (sur : Bool) (n : Norm) (cc : Bool) :
    Except Err View :=
  specArgsView res m0 { rxns := true, sflux := sur } n cc

/-- derivatives of one segment: stoichiometry (computed coefficients evaluated on the
    reported row and its time) times the reported fluxes, i.e. the core's `rhsFromArgs` on
    the pointwise row.  `C10_rhs_row_is_core_rhs` relates this to the core's
    `get_right_hand_side(state, time)` -/
def specSegRhs (m0 : Content) (tbl : Table) (p : Pars) : Except Err Table :=
  match withPars m0 p with
  | .error e => .error e
  | .ok c =>
    match createCache c with
    | .error e => .error e
    | .ok cache =>
      mapE (fun r => match pointRow c r.1 r.2 with
        | .error e => .error e
        | .ok row =>
          match rhsFromArgs cache (omKeys c.vars) ((("time", r.1) :: row) ++ c.data) with
          | .error e => .error e
          | .ok d => .ok (r.1, d)) tbl

def specRhs (res : Res) (m0 : Content) (n : Norm) (cc : Bool) : Except Err View :=
  match zipWithE (specSegRhs m0) res.rawVars res.rawPars with
  | .error e => .error e
  | .ok ds => specAdjust ds n cc

/-- one segment of scaled producers / consumers: each selected flux times (±) its
    coefficient *at that row's state and time* under the segment's parameters -/
def specScaleSeg (m0 : Content) (v : Name) (names : List Name) (sgn : Rat)
    (fl : Table) (raw : Table × Pars) : Except Err Table :=
  match withPars m0 raw.2 with
  | .error e => .error e
  | .ok c =>
    zipWithE (bindRow (fun (s : Rat × Row) => stoichOfVarAt c v (some s.2) s.1) (scaleRowWith names sgn))
      fl raw.1

def specProdCons (res : Res) (m0 : Content) (prod : Bool) (v : Name) (scaled : Bool)
    (n : Norm) (cc : Bool) : Except Err View :=
  match res.rawPars with
  | [] => .error (.other "IndexError")
  | p0 :: _ =>
    match withPars m0 p0 with
    | .error e => .error e
    | .ok c0 =>
      match stoichOfVar c0 v with
      | .error e => .error e
      | .ok s0 =>
        let names := pickNames prod s0
        match specFluxes res m0 true n false with
        | .error e => .error e
        | .ok (.frames tabs) =>
          match mapE (selectTable names) tabs with
          | .error e => .error e
          | .ok sel =>
            match (if scaled then
                zipWithE (specScaleSeg m0 v names (if prod then 1 else -1)) sel
                  (res.rawVars.zip res.rawPars)
              else .ok sel) with
            | .error e => .error e
            | .ok out => specAdjust out .none cc
        | .ok _ => .error (.other "unreachable")

def specNewY0 (res : Res) : Except Err View :=
  if res.rawVars.isEmpty then .error (.valueError "No objects to concatenate")
  else
    match res.rawVars.flatten.getLast? with
    | none => .error (.other "IndexError")
    | some r => .ok (.dict r.2)

def specCombined (res : Res) (m0 : Content) : Except Err View :=
  match specVariables res m0 true true true .none true with
  | .error e => .error e
  | .ok (.frame a) =>
    match specFluxes res m0 true .none true with
    | .error e => .error e
    | .ok (.frame b) => .ok (.frame (hcat a b))
    | .ok _ => .error (.other "unreachable")
  | .ok _ => .error (.other "unreachable")

def specRead (res : Res) (m0 : Content) : Query → Except Err View
  | .args f n cc => specArgsView res m0 f n cc
  | .vars dv ro sv n cc => specVariables res m0 dv ro sv n cc
  | .fluxes sur n cc => specFluxes res m0 sur n cc
  | .variablesProp => specVariables res m0 true true true .none true
  | .fluxesProp => specFluxes res m0 true .none true
  | .combined => specCombined res m0
  | .rhs n cc => specRhs res m0 n cc
  | .prodCons prod v sc n cc => specProdCons res m0 prod v sc n cc
  | .newY0 => specNewY0 res

/-- the specification of a history: every read is answered from `(res, m0)` alone and
    does not touch the shared model; `cur` is the model as its owner left it (only
    `setPars` events change it) -/
def specHistory (res : Res) (m0 : Content) : Content → List Event → List (Except Err View)
  | _, [] => []
  | cur, .read q :: rest => specRead res m0 q :: specHistory res m0 cur rest
  | cur, .setPars p :: rest =>
    match withPars cur p with
    | .error e => .error e :: specHistory res m0 cur rest
    | .ok c => .ok (.dict []) :: specHistory res m0 c rest
  | cur, .modelPars :: rest =>
    (match getParameterValues cur with
     | .error e => .error e
     | .ok ps => .ok (.dict ps)) :: specHistory res m0 cur rest

end Mxl.C10
