/-
C08 — the two model-level meanings that the round trip relates.

* `pyValue` / `pyInit` / `pyRhs` : the original model (spec): a name is a state variable, a plain
  parameter, a parameter / variable defined by an initial assignment (evaluated once, at the initial
  state), a derived quantity or a reaction rate; d x / dt = Σ coefficient × rate.
* `docValue` / `docInit` / `docRhs` : the SBML reading of an exported document (spec of the import):
  species, parameters, initial assignments (override the attribute value), assignment rules (also
  for species-reference ids), kinetic laws; d x / dt = Σ_products s·v − Σ_reactants s·v.  Every
  species sits in the default compartment of constant size 1, which is therefore left out.
* `nameToPy` : pysbml's identifier mapping (third party, modelled so that renamed identifiers can
  be predicted): `__<digits>__` → that character, Python keywords get a trailing `_`, a fixed list
  of characters is dropped or spelled out, a leading non-letter gets a `_` in front.
Recursion through definitions uses fuel (one unit per definition followed).
-/
import MxlVerif.Model.C08Sem
import MxlVerif.Model.C08Export
namespace Mxl.C08

/-! ### original model -/

def bindArgs (env : VEnv) (params args : List String) : VEnv :=
  fun p => match (params.zip args).lookup p with
    | some a => env a
    | none => none

def callFn (I : Interp) (env : VEnv) (f : PyFn) : Option Val :=
  if f.params.length = f.args.length then evalPyBody I (bindArgs env f.params f.args) f.body else none

def findRxn (rxns : List PyRxn) (n : String) : Option PyRxn := rxns.find? (·.name == n)

def pyInit (I : Interp) (m : PyModel) : Nat → String → Option Val
  | 0, _ => none
  | fuel + 1, n =>
    match m.vars.lookup n with
    | some (.val q) => some (.num q)
    | some (.ia f) => callFn I (pyInit I m fuel) f
    | none =>
    match m.params.lookup n with
    | some (.val q) => some (.num q)
    | some (.ia f) => callFn I (pyInit I m fuel) f
    | none =>
    match m.derived.lookup n with
    | some f => callFn I (pyInit I m fuel) f
    | none =>
    match findRxn m.rxns n with
    | some r => callFn I (pyInit I m fuel) r.fn
    | none => none

def PyModel.fuel (m : PyModel) : Nat :=
  m.params.length + m.vars.length + m.derived.length + m.rxns.length + 1

def pyValue (I : Interp) (m : PyModel) (state : List (String × Rat)) : Nat → String → Option Val
  | 0, _ => none
  | fuel + 1, n =>
    match state.lookup n with
    | some q => some (.num q)
    | none =>
    match m.params.lookup n with
    | some (.val q) => some (.num q)
    | some (.ia _) => pyInit I m m.fuel n
    | none =>
    match m.derived.lookup n with
    | some f => callFn I (pyValue I m state fuel) f
    | none =>
    match findRxn m.rxns n with
    | some r => callFn I (pyValue I m state fuel) r.fn
    | none => none

def pyCoef (I : Interp) (env : VEnv) : PyCoef → Option Rat
  | .num q => some q
  | .computed f => (callFn I env f).map Val.toNum

def sumOpt : List (Option Rat) → Option Rat
  | [] => some 0
  | x :: xs => do
      let a ← x
      let b ← sumOpt xs
      some (a + b)

/-- d x / dt of the original model -/
def pyRhs (I : Interp) (m : PyModel) (state : List (String × Rat)) (x : String) : Option Rat :=
  let env := pyValue I m state m.fuel
  sumOpt (m.rxns.filterMap fun r =>
    match r.stoich.lookup x with
    | none => none
    | some c => some (do
        let s ← pyCoef I env c
        let v ← env r.name
        some (s * v.toNum)))

/-! ### SBML reading of a document -/

def lookupLast {β} (l : List (String × β)) (k : String) : Option β := l.reverse.lookup k

def SDoc.fuel (d : SDoc) : Nat :=
  d.params.length + d.species.length + d.inits.length + d.rules.length + d.rxns.length + 2

def findSRxn (rxns : List SRxn) (n : String) : Option SRxn := rxns.find? (·.id == n)

def docInit (I : Interp) (d : SDoc) : Nat → String → Option Val
  | 0, _ => none
  | fuel + 1, n =>
    match lookupLast d.inits n with
    | some m => evalMath I (docInit I d fuel) m
    | none =>
    match d.species.lookup n with
    | some v => v.map .num
    | none =>
    match d.params.lookup n with
    | some v => v.map .num
    | none =>
    match lookupLast d.rules n with
    | some m => evalMath I (docInit I d fuel) m
    | none =>
    match findSRxn d.rxns n with
    | some r => evalMath I (docInit I d fuel) r.law
    | none => none

def docValue (I : Interp) (d : SDoc) (state : List (String × Rat)) : Nat → String → Option Val
  | 0, _ => none
  | fuel + 1, n =>
    match state.lookup n with
    | some q => some (.num q)
    | none =>
    match d.params.lookup n with
    | some v =>
      (match lookupLast d.inits n with
       | some _ => docInit I d d.fuel n
       | none => v.map .num)
    | none =>
    match lookupLast d.rules n with
    | some m => evalMath I (docValue I d state fuel) m
    | none =>
    match findSRxn d.rxns n with
    | some r => evalMath I (docValue I d state fuel) r.law
    | none => none

/-- the value of a species reference: rule-defined if it has an id with a rule, else the attribute -/
def refCoef (env : VEnv) (d : SDoc) (s : SRef) : Option Rat :=
  match s.id with
  | some i =>
    (match lookupLast d.rules i with
     | some _ => (env i).map Val.toNum
     | none => s.stoich)
  | none => s.stoich

def sideSum (env : VEnv) (d : SDoc) (x : String) (refs : List SRef) : Option Rat :=
  sumOpt ((refs.filter (·.species == x)).map (refCoef env d))

/-- net coefficient of species `x` in reaction `r`: products − reactants -/
def netCoef (env : VEnv) (d : SDoc) (r : SRxn) (x : String) : Option Rat := do
  let p ← sideSum env d x r.products
  let q ← sideSum env d x r.reactants
  some (p - q)

def docRhs (I : Interp) (d : SDoc) (state : List (String × Rat)) (x : String) : Option Rat :=
  let env := docValue I d state d.fuel
  sumOpt (d.rxns.map fun r => do
    let s ← netCoef env d r x
    if s = 0 then some 0 else do
      let v ← env r.id
      some (s * v.toNum))

/-! ### pysbml's identifier mapping -/

def pyKeywords : List String :=
  ["False", "None", "True", "and", "as", "assert", "async", "await", "break", "class", "continue",
   "def", "del", "elif", "else", "except", "finally", "for", "from", "global", "if", "import", "in",
   "is", "lambda", "nonlocal", "not", "or", "pass", "raise", "return", "try", "while", "with", "yield"]

def digitsVal (ds : List Char) : Nat := ds.foldl (fun a c => 10 * a + (c.toNat - '0'.toNat)) 0

/-- `__(\d+)__` at the head of the list: the decoded character and the rest -/
def matchEscape (cs : List Char) : Option (Char × List Char) :=
  match cs with
  | '_' :: '_' :: rest =>
    let ds := rest.takeWhile isAsciiDigit
    let tl := rest.dropWhile isAsciiDigit
    if ds.isEmpty then none
    else match tl with
      | '_' :: '_' :: tl' => some (Char.ofNat (digitsVal ds), tl')
      | _ => none
  | _ => none

/-- `RE_FROM_SBML.sub(chr(int(group 1)))`: leftmost, non-overlapping -/
def unescapeChars : Nat → List Char → List Char
  | 0, cs => cs
  | _, [] => []
  | fuel + 1, c :: cs =>
    match matchEscape (c :: cs) with
    | some (ch, rest) => ch :: unescapeChars fuel rest
    | none => c :: unescapeChars fuel cs

def dropSubstr (pat : List Char) : Nat → List Char → List Char
  | 0, cs => cs
  | _, [] => []
  | fuel + 1, c :: cs =>
    if pat.isPrefixOf (c :: cs) then dropSubstr pat fuel ((c :: cs).drop pat.length)
    else c :: dropSubstr pat fuel cs

/-- the `.replace` chain, one character at a time (no replacement produces a character that a
    later replacement consumes) -/
def replaceChar (c : Char) : List Char :=
  if c == ' ' || c == '-' then ['_']
  else if ['(', ')', '[', ']', '.', ',', ':', ';', '"', '\'', '^', '|'].contains c then []
  else if c == '=' then ['e', 'q']
  else if c == '>' then ['l', 'g']
  else if c == '<' then ['s', 'm']
  else if c == '+' then ['p', 'l', 'u', 's']
  else if c == '*' then ['s', 't', 'a', 'r']
  else if c == '/' then ['d', 'i', 'v']
  else [c]

/-- `"__SBML_DOT__"` -/
def sbmlDot : List Char := ['_', '_', 'S', 'B', 'M', 'L', '_', 'D', 'O', 'T', '_', '_']

def nameToPy (name : String) : String :=
  let cs := unescapeChars (name.length + 1) name.toList
  let cs := if pyKeywords.contains (String.ofList cs) then cs ++ ['_'] else cs
  let cs := dropSubstr sbmlDot (cs.length + 1) cs
  let cs := cs.flatMap replaceChar
  match cs with
  | [] => ""
  | c :: _ => if c.isAlpha then String.ofList cs else "_" ++ String.ofList cs

mutual
def mapMath (f : String → String) : MathML → MathML
  | .ci n => .ci (f n)
  | .apply t cs => .apply t (mapMathList f cs)
  | m => m
def mapMathList (f : String → String) : List MathML → List MathML
  | [] => []
  | m :: ms => mapMath f m :: mapMathList f ms
end

mutual
def mathNames : MathML → List String
  | .ci n => [n]
  | .apply _ cs => mathNamesList cs
  | _ => []
def mathNamesList : List MathML → List String
  | [] => []
  | m :: ms => mathNames m ++ mathNamesList ms
end

/-- identifiers used in some math of the document that nothing in the document defines
    (the imported model then has unresolvable arguments) -/
def SDoc.undefinedNames (d : SDoc) : List String :=
  let defined := d.params.map (·.1) ++ d.species.map (·.1) ++ d.rules.map (·.1) ++ d.rxns.map (·.id) ++ ["time"]
  let used := (d.inits.map (·.2) ++ d.rules.map (·.2) ++ d.rxns.map (·.law)).flatMap mathNames
  used.filter (fun n => !defined.contains n)

/-- pysbml renames the species of a reference and the variable of the rule that defines its value,
    but keeps the reference's own id as written (observed; part of finding F-C08-5) -/
def SRef.mapNames (f : String → String) (s : SRef) : SRef :=
  { s with species := f s.species }

/-- what the importer sees: every identifier and every `ci` passed through `f` -/
def SDoc.mapNames (f : String → String) (d : SDoc) : SDoc :=
  { params := d.params.map fun kv => (f kv.1, kv.2)
    species := d.species.map fun kv => (f kv.1, kv.2)
    inits := d.inits.map fun kv => (f kv.1, mapMath f kv.2)
    rules := d.rules.map fun kv => (f kv.1, mapMath f kv.2)
    rxns := d.rxns.map fun r =>
      { id := f r.id, reactants := r.reactants.map (SRef.mapNames f),
        products := r.products.map (SRef.mapNames f), law := mapMath f r.law } }

end Mxl.C08
