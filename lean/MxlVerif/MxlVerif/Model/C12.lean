/-
C12 — executable model of `mxlpy.symbolic.symbolic_model.to_symbolic_model`
(symbolic_model.py:44-123), `SymbolicModel.jacobian` (36-41) and of what
`Simulator._initialise_integrator` (simulator.py:111-138) compiles and passes.

A model whose functions translate is a `SContent`: the same seven containers as the
numeric `Content` of `Model/Core.lean`, but every function carries the symbolic body
`fn_to_sympy` produces for it (a `BExpr` over its positional arguments).  `toContent`
forgets the bodies into the opaque functions `List Rat → Rat` of the numeric core, so
`callRhs sc.toContent` is the numeric right-hand side of the very same model.
ASSUMPTION (named, C06's subject): `fn_to_sympy f` returns the expression `body` with
`f(v₀,…) = evalB [v₀,…] body`; it never returns `None` for these functions.

Surrogates are kept opaque (they have no symbolic form); `to_symbolic_model` only meets
them through the cache (their outputs are no symbols, their fluxes have no expression).
-/
import MxlVerif.Model.Core
import MxlVerif.Model.C12Sym
namespace Mxl.C12

structure SFn where
  args : List Name
  body : BExpr
deriving Inhabited

inductive SCoef where
  | num (c : Rat)
  | dyn (f : SFn)
deriving Inhabited

inductive SVal where
  | plain (v : Rat)
  | ia (f : SFn)
deriving Inhabited

structure SRxn where
  rate : SFn
  stoich : List (Name × SCoef)
deriving Inhabited

structure SContent where
  vars : List (Name × SVal) := []
  pars : List (Name × SVal) := []
  derived : List (Name × SFn) := []
  readouts : List (Name × SFn) := []
  rxns : List (Name × SRxn) := []
  surs : List (Name × Sur) := []
  data : List (Name × Rat) := []
deriving Inhabited

/-- the Python callable: evaluate the body at the positional arguments -/
def SFn.toFn (f : SFn) : Fn := { args := f.args, fn := fun vs => evalB vs f.body }

def SCoef.toCoef : SCoef → Coef
  | .num c => .num c
  | .dyn f => .dyn f.toFn

def SVal.toVal : SVal → Val
  | .plain v => .plain v
  | .ia f => .ia f.toFn

def SRxn.toRxn (r : SRxn) : Rxn :=
  { rate := r.rate.toFn, stoich := r.stoich.map fun kv => (kv.1, kv.2.toCoef) }

/-- the numeric model with the same content -/
def SContent.toContent (c : SContent) : Content :=
  { vars := c.vars.map fun kv => (kv.1, kv.2.toVal),
    pars := c.pars.map fun kv => (kv.1, kv.2.toVal),
    derived := c.derived.map fun kv => (kv.1, kv.2.toFn),
    readouts := c.readouts.map fun kv => (kv.1, kv.2.toFn),
    rxns := c.rxns.map fun kv => (kv.1, kv.2.toRxn),
    surs := c.surs,
    data := c.data }

abbrev Symbols := List (Name × SExpr)

/-- `dict(zip(names, list_of_symbols(names)))` -/
def symbolsOf (ks : List Name) : Symbols := ks.map fun k => (k, .sym k)

/-- `[symbols[i] for i in v.args]` — `KeyError` on the first name that is no symbol -/
def lookupSyms (s : Symbols) (args : List Name) : Except Err (List SExpr) :=
  args.mapM fun a => match s.lookup a with
    | some e => .ok e
    | none => .error (.keyError a)

/-- `fn_to_sympy(v.fn, origin=k, model_args=[symbols[i] for i in v.args])` -/
def substFn (s : Symbols) (f : SFn) : Except Err SExpr := do
  let es ← lookupSyms s f.args
  pure (substArgs es f.body)

/-- "Insert derived into symbols" (symbolic_model.py:83-92, after
    `fix: convert derived quantities in dependency order`): walk `names`
    (= `cache.order`), skip what is no derived quantity. -/
def derivedLoop (derived : List (Name × SFn)) : List Name → Symbols → Except Err Symbols
  | [], s => .ok s
  | k :: ks, s =>
    match derived.lookup k with
    | none => derivedLoop derived ks s
    | some f => do
      let e ← substFn s f
      derivedLoop derived ks (omInsert s k e)

/-- "Insert derived into reaction via args" (symbolic_model.py:94-102) -/
def rxnLoop (s : Symbols) : List (Name × SRxn) → Symbols → Except Err Symbols
  | [], rx => .ok rx
  | (k, r) :: rest, rx => do
    let e ← substFn s r.rate
    rxnLoop s rest (omInsert rx k e)

/-- `eqs.get(cpd, sympy.Float(0.0))` -/
def eqGet (eqs : Symbols) (cpd : Name) : SExpr := (eqs.lookup cpd).getD (.const 0)

/-- inner loop over `stoich.items()` (symbolic_model.py:106-110) -/
def eqStatic (rx : Symbols) (cpd : Name) : List (Name × Rat) → Symbols → Except Err Symbols
  | [], eqs => .ok eqs
  | (rxn, n) :: rest, eqs =>
    match rx.lookup rxn with
    | none => .error (.keyError rxn)
    | some r => eqStatic rx cpd rest (omInsert eqs cpd (.add (eqGet eqs cpd) (.mul (.const n) r)))

def eqStaticAll (rx : Symbols) : List (Name × List (Name × Rat)) → Symbols → Except Err Symbols
  | [], eqs => .ok eqs
  | (cpd, st) :: rest, eqs => do
    let eqs' ← eqStatic rx cpd st eqs
    eqStaticAll rx rest eqs'

/-- the body of the state-dependent coefficient of `cpd` in reaction `rxn` (the cache
    keeps the very `Derived` object of the reaction's stoichiometry) -/
def dynBody (c : SContent) (rxn cpd : Name) : Option SFn :=
  match c.rxns.lookup rxn with
  | some r =>
    match r.stoich.lookup cpd with
    | some (.dyn f) => some f
    | _ => none
  | none => none

/-- the dynamic-coefficient branch (symbolic_model.py:111-121, after
    `fix: translate state-dependent stoichiometric coefficients ...`):
    `fn_to_sympy(der.fn, origin=cpd, model_args=[symbols[i] for i in der.args]) * rxns[rxn]`.
    A surrogate flux has no expression (`KeyError`). -/
def eqDyn (c : SContent) (s rx : Symbols) (cpd : Name) :
    List (Name × Fn) → Symbols → Except Err Symbols
  | [], eqs => .ok eqs
  | (rxn, der) :: rest, eqs => do
    let es ← lookupSyms s der.args
    match rx.lookup rxn with
    | none => .error (.keyError rxn)
    | some r =>
      match dynBody c rxn cpd with
      | none => .error (.other "dynamic coefficient without a body")
      | some f =>
        eqDyn c s rx cpd rest
          (omInsert eqs cpd (.add (eqGet eqs cpd) (.mul (substArgs es f.body) r)))

def eqDynAll (c : SContent) (s rx : Symbols) :
    List (Name × List (Name × Fn)) → Symbols → Except Err Symbols
  | [], eqs => .ok eqs
  | (cpd, st) :: rest, eqs => do
    let eqs' ← eqDyn c s rx cpd st eqs
    eqDynAll c s rx rest eqs'

/-- `[eqs[i] for i in cache.var_names]` -/
def collectEqs (eqs : Symbols) (varNames : List Name) : Except Err (List SExpr) :=
  varNames.mapM fun k => match eqs.lookup k with
    | some e => .ok e
    | none => .error (.keyError k)

/-- `variables | parameters | data` (symbolic_model.py:49-82); the variables are the keys of
    `get_initial_conditions()`, the parameters the keys of `get_parameter_values()`
    (`cache.base_parameter_values`: parameters given by an initial assignment are absent). -/
def baseSymbols (c : SContent) (cache : Cache) : Symbols :=
  omUnion (omUnion (symbolsOf (omKeys cache.init)) (symbolsOf (omKeys cache.basePars)))
    (symbolsOf (omKeys c.data))

/-- `to_symbolic_model` with the order in which derived quantities are visited made
    explicit (`names`), given the cache. -/
def toSymbolicWith (c : SContent) (cache : Cache) (names : List Name) : Except Err (List SExpr) := do
  let s ← derivedLoop c.derived names (baseSymbols c cache)
  let rx ← rxnLoop s c.rxns []
  let eqs ← eqStaticAll rx cache.stoich []
  let eqs' ← eqDynAll c s rx cache.dynStoich eqs
  collectEqs eqs' cache.varNames

/-- `to_symbolic_model(model).eqs` -/
def toSymbolic (c : SContent) : Except Err (List SExpr) := do
  let cache ← createCache c.toContent
  toSymbolicWith c cache cache.order

/-- the pinned tree visited the derived quantities in declaration order
    (`for k, v in model.get_raw_derived().items()`); kept to state what F-C12-2 was. -/
def toSymbolicDeclOrder (c : SContent) : Except Err (List SExpr) := do
  let cache ← createCache c.toContent
  toSymbolicWith c cache (omKeys c.derived)

/-- `SymbolicModel.jacobian`: row per equation, column per variable symbol, in the order of
    `variables` (= keys of the initial conditions = `var_names`) -/
def jacobianOf (es : List SExpr) (varNames : List Name) : List (List SExpr) :=
  es.map fun e => varNames.map fun x => D x e

/-! ### `Simulator._initialise_integrator` -/

/-- what `lambdify((time, variable_names, parameter_names), jac)` compiles: the matrix,
    read under the binding of the given names to the values passed positionally -/
structure JacFn where
  varNames : List Name
  parNames : List Name
  jac : List (List SExpr)
deriving Inhabited

/-- the environment a lambdified function evaluates in: names bound positionally
    (`time`, then the variable names, then the parameter names); unbound = 0 is never
    consulted for a matrix produced by `toSymbolic` (see `Props/C12`). -/
def lamEnv (f : JacFn) (t : Rat) (xs ps : List Rat) : Name → Rat :=
  fun n => (((f.parNames.zip ps).reverse ++ (f.varNames.zip xs).reverse ++ [("time", t)]).lookup n).getD 0

/-- `jacArgs`: the closure `lambda t, x: _jac_fn(t, x, <parameters>)` — names the compiled
    function was built with and the values the closure passes for the third argument.
    After `fix: pass parameter values, not Parameter containers, to the compiled Jacobian`
    both come from `get_parameter_values()` (one dict, so aligned by construction). -/
def jacArgs (c : SContent) : Except Err (List Name × List Name × List Rat) := do
  let cache ← createCache c.toContent
  pure (cache.varNames, omKeys cache.basePars, cache.basePars.map (·.2))

/-- `jac_fn` of `_initialise_integrator`: `none` = the `except Exception` fallback
    (a warning is logged and the integrator runs without a Jacobian) -/
def simJacobian (c : SContent) : Option JacFn :=
  match toSymbolic c, jacArgs c with
  | .ok es, .ok (vn, pn, _) => some { varNames := vn, parNames := pn, jac := jacobianOf es vn }
  | _, _ => none

/-- the names a lambdified function binds -/
def JacFn.bound (f : JacFn) : List Name := "time" :: (f.varNames ++ f.parNames)

/-- first symbol of the matrix that the compiled function does not bind (`NameError` when
    the generated code reaches it) -/
def JacFn.unbound (f : JacFn) : Option Name :=
  (f.jac.flatMap fun row => row.flatMap freeSyms).find? fun n => !f.bound.contains n

/-- calling `jac_fn(t, x)` -/
def callJac (c : SContent) (t : Rat) (xs : List Rat) : Except Err (Option (List (List Rat))) :=
  match simJacobian c with
  | none => .ok none
  | some f => do
    let (_, _, ps) ← jacArgs c
    if xs.length != f.varNames.length then .error (.valueError "not enough values to unpack")
    else match f.unbound with
      | some n => .error (.nameError n)
      | none => pure (some (f.jac.map fun row => row.map (evalS (lamEnv f t xs ps))))

/-! ### the closure after `fix: recompile the Jacobian when parameter values have changed …`

`jac_fn` keeps the compiled function together with the tuple of parameter values it was compiled
for; every call reads the model's CURRENT parameter values and compiles again when the tuple
differs (derived parameters and parameter-only coefficients are numbers inside the compiled
matrix).  `now` is the content of the (mutable) model at the time of the call. -/

structure JacClosure where
  fn : JacFn
  vals : List Rat
deriving Inhabited

/-- what `_initialise_integrator` installs (`none` = fallback without Jacobian) -/
def installJac (c : SContent) : Option JacClosure :=
  match simJacobian c, jacArgs c with
  | some f, .ok (_, _, pv) => some ⟨f, pv⟩
  | _, _ => none

/-- `_compile_jac()`; inside the closure nothing catches what it raises -/
def compileJac (c : SContent) : Except Err JacFn := do
  let es ← toSymbolic c
  let (vn, pn, _) ← jacArgs c
  pure { varNames := vn, parNames := pn, jac := jacobianOf es vn }

/-- `_compiled["fn"](t, x, list(values))` -/
def evalJacFn (f : JacFn) (t : Rat) (xs ps : List Rat) : Except Err (List (List Rat)) :=
  if xs.length != f.varNames.length then .error (.valueError "not enough values to unpack")
  else match f.unbound with
    | some n => .error (.nameError n)
    | none => pure (f.jac.map fun row => row.map (evalS (lamEnv f t xs ps)))

/-- `jac_fn(t, x)` while the model's content is `now`; returns the closure's new state too -/
def JacClosure.call (cl : JacClosure) (now : SContent) (t : Rat) (xs : List Rat) :
    Except Err (JacClosure × List (List Rat)) := do
  let (_, _, values) ← jacArgs now
  let cl' ← if values != cl.vals then do
      let f ← compileJac now
      pure ({ fn := f, vals := values } : JacClosure)
    else pure cl
  let J ← evalJacFn cl'.fn t xs values
  pure (cl', J)

/-- `Model.update_parameter(k, v)` on the content (the named parameter gets the plain value) -/
def SContent.setPar (c : SContent) (k : Name) (v : Rat) : SContent :=
  { c with pars := c.pars.map fun kv => if kv.1 == k then (kv.1, SVal.plain v) else kv }

/-! ### the environment in which symbolic and numeric sides are compared -/

/-- values of the model symbols at state `xs`: data, variables, plain parameters -/
def symEnvL (c : SContent) (cache : Cache) (xs : List Rat) : Env :=
  c.data.reverse ++ (cache.varNames.zip xs).reverse ++ cache.basePars.reverse

def symEnv (c : SContent) (cache : Cache) (xs : List Rat) : Name → Rat :=
  fun n => ((symEnvL c cache xs).lookup n).getD 0

/-! ### well-formedness (what `Model`'s `_ids` registry guarantees) -/

/-- every name the model declares, plus `time` -/
def SContent.names (c : SContent) : List Name :=
  omKeys c.vars ++ omKeys c.pars ++ omKeys c.data ++ omKeys c.derived ++ omKeys c.rxns ++ ["time"]

/-- `Model._insert_id` refuses a name that is already taken (and `time` is taken from the
    start); a stoichiometry is a dict, so a compound occurs once per reaction.  The theorems
    of `Props/C12` are about surrogate-free models, as the property is. -/
def SContent.wf (c : SContent) : Bool :=
  decide c.names.Nodup && c.surs.isEmpty &&
    c.rxns.all fun kv => decide (omKeys kv.2.stoich).Nodup

/-- sufficient, order-free condition for the conversion to succeed (membership tests only):
    every argument of a derived quantity or of a reaction is a variable, a plain parameter,
    a data name or a derived quantity; every coefficient is a number; every variable occurs
    in some stoichiometry. -/
def SContent.symNames (c : SContent) : List Name :=
  omKeys c.vars ++ omKeys (plainOf c.toContent.pars) ++ omKeys c.data ++ omKeys c.derived

def SCoef.isNum : SCoef → Bool
  | .num _ => true
  | .dyn _ => false

def SContent.convertible (c : SContent) : Bool :=
  c.derived.all (fun kv => kv.2.args.all fun a => c.symNames.contains a) &&
  c.rxns.all (fun kv => kv.2.rate.args.all fun a => c.symNames.contains a) &&
  c.rxns.all (fun kv => kv.2.stoich.all fun cs => cs.2.isNum) &&
  (omKeys c.vars).all (fun v => c.rxns.any fun kv => (omKeys kv.2.stoich).contains v)

/-! ### order-free specification (search oracle through the driver)

`specEqs` never looks at any order or at the cache: a name is resolved by unfolding its
definition (fuel = number of derived quantities + 1), an equation is the sum over the
reactions, in any order, of coefficient × resolved rate. -/

def resolveName (c : SContent) : Nat → Name → Except Err SExpr
  | 0, k => .error (.other s!"fuel:{k}")
  | fuel + 1, k =>
    if (omKeys c.vars).contains k || (omKeys c.data).contains k then .ok (.sym k)
    else match c.pars.lookup k with
      | some (.plain _) => .ok (.sym k)
      | some (.ia _) => .error (.keyError k)
      | none =>
        match c.derived.lookup k with
        | some f => do
          let es ← f.args.mapM (resolveName c fuel)
          pure (substArgs es f.body)
        | none => .error (.keyError k)

def specRate (c : SContent) (r : SRxn) : Except Err SExpr := do
  let es ← r.rate.args.mapM (resolveName c (c.derived.length + 1))
  pure (substArgs es r.rate.body)

/-- coefficient as an expression: numbers as they are, computed coefficients unfolded -/
def specCoef (c : SContent) : SCoef → Except Err SExpr
  | .num q => .ok (.const q)
  | .dyn f => do
    let es ← f.args.mapM (resolveName c (c.derived.length + 1))
    pure (substArgs es f.body)

def specEq (c : SContent) (x : Name) : Except Err SExpr :=
  c.rxns.foldlM (fun acc kv => do
    match kv.2.stoich.lookup x with
    | none => pure acc
    | some co => do
      let r ← specRate c kv.2
      let q ← specCoef c co
      pure (.add acc (.mul q r))) (.const 0)

def specEqs (c : SContent) : Except Err (List SExpr) :=
  (omKeys c.vars).mapM (specEq c)

end Mxl.C12
