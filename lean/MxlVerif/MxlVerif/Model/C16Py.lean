/-
Evaluation of the linear label model as Python performs it (round 4b): the stoichiometric
coefficients `∓1/pool` are `Derived` quantities, so a zero pool raises `ZeroDivisionError` for the
whole right-hand side.  Import-free apart from `Model/C16`.
-/
import MxlVerif.Model.C16
namespace Mxl.C16

/-- the pools whose reciprocal the model evaluates: the compound of every substrate and product
    position of every per-position reaction (never `EXT`) -/
def poolsOf (rxs : List LinRxn) : List Name :=
  rxs.flatMap fun rx =>
    (if rx.substrate ≠ Slot.ext then [rx.substrate.base] else [])
      ++ (if rx.product ≠ Slot.ext then [rx.product.base] else [])

/-- `get_right_hand_side` of the linear label model: `ZeroDivisionError` (`none`) when a pool whose
    reciprocal is a coefficient is zero, else `linRhs` -/
def linRhsChecked (rxs : List LinRxn) (E : Slot → Rat) (v : Name → Rat) (C : Name → Rat) :
    Option (Slot → Rat) :=
  if (poolsOf rxs).any (fun c => C c == 0) then none else some (linRhs rxs E v C)

end Mxl.C16
