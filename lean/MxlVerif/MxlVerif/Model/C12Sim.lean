/-
C12 — the `use_jacobian` glue of `Simulator` as a state machine (simulator.py, `_initialise_integrator`,
`clear_results`, `update_parameter(s)`, `scale_parameter(s)`, `update_variable(s)`).

What the glue does is read from the source by `translate/c12.py` into a `Glue` record
(`Generated/C12Glue.lean`): in which order `lambdify` binds `time`, the variable names and the parameter
names; where the closure takes the current parameter values from; whether it compiles again when they
differ from the ones it was compiled for, whether it remembers the new ones, which values it passes;
what the `except` clause catches and does; which methods build the integrator again.  The state machine
below is parameterised by that record, so the driver runs the machine *with the facts of the current
source*; `GlueOk` is what the theorems of `Props/C12` need, and `Generated.glue` satisfies it by `decide`.

State = the model's current content + the closure the integrator holds (`none` = runs without Jacobian).
Import-free apart from the model of C12.
-/
import MxlVerif.Model.C12
namespace Mxl.C12

structure Glue where
  /-- the argument tuple of `lambdify`, normalised -/
  lambdifyArgs : List String
  /-- what the compiled function is called with inside `jac_fn`, normalised -/
  callArgs : List String
  /-- expression the closure reads the current parameter values from -/
  valuesFrom : String
  /-- expression whose value is remembered next to the compiled function at compile time -/
  compiledFrom : String
  /-- the matrix that is compiled -/
  matrix : String
  /-- `if values != <remembered>: <fn> = _compile_jac()` -/
  recompileOnChange : Bool
  /-- … and the remembered values are replaced by the current ones in that branch -/
  storesValues : Bool
  /-- the recompile test also has the disjunct `<model's cache object> is not <remembered cache object>`: every edit of
      the model (`_invalidate_cache`) is noticed, not only a changed parameter value -/
  watchesModel : Bool
  /-- … and the remembered cache object is replaced by the current one in that branch -/
  storesCache : Bool
  /-- expression the cache object is taken from (at compile time and in the closure) -/
  cacheFrom : String
  /-- in the recompile branch the compilation comes first: what the closure remembers is replaced only after
      `_compile_jac()` has returned (if it raises, the next call compiles again instead of using the old function) -/
  compileBeforeStore : Bool
  /-- compiling and installing happen inside the `try` -/
  compileInsideTry : Bool
  /-- `except Exception` (or bare / BaseException) -/
  catchesAll : Bool
  /-- the handler leaves `jac_fn = None` -/
  fallbackNone : Bool
  /-- the handler logs a warning -/
  fallbackWarns : Bool
  /-- `jac_fn` is the third positional argument of the integrator's constructor -/
  integratorGetsJac : Bool
  /-- without `use_jacobian` nothing is compiled -/
  onlyWhenRequested : Bool
  /-- methods of `Simulator` that call `_initialise_integrator` (sorted) -/
  reinitSites : List String
  /-- methods of `Simulator` that only forward to the model's parameter update (sorted) -/
  parameterSites : List String
deriving DecidableEq, Repr, Inhabited

/-- the facts the model of C12 was written after (simulator.py:113-152 of the repaired tree) -/
def expectedGlue : Glue :=
  { lambdifyArgs := ["'time'", "model.get_variable_names()", "list(model.get_parameter_values())"],
    callArgs := ["t", "x", "list(current)"],
    valuesFrom := "tuple(model.get_parameter_values().values())",
    compiledFrom := "tuple(model.get_parameter_values().values())",
    matrix := "to_symbolic_model(model).jacobian()",
    recompileOnChange := true, storesValues := true, watchesModel := true, storesCache := true,
    cacheFrom := "model._cache (read after compiling)", compileBeforeStore := true, compileInsideTry := true, catchesAll := true,
    fallbackNone := true, fallbackWarns := true, integratorGetsJac := true, onlyWhenRequested := true,
    reinitSites := ["__init__", "clear_results", "update_variables"],
    parameterSites := ["scale_parameter", "scale_parameters", "update_parameter", "update_parameters"] }

/-- what the theorems need of the glue (decidable) -/
def GlueOk (g : Glue) : Bool :=
  g.lambdifyArgs == expectedGlue.lambdifyArgs && g.callArgs == expectedGlue.callArgs &&
  g.valuesFrom == expectedGlue.valuesFrom && g.compiledFrom == expectedGlue.compiledFrom &&
  g.matrix == expectedGlue.matrix &&
  g.cacheFrom == expectedGlue.cacheFrom && g.watchesModel && g.storesCache && g.compileBeforeStore &&
  g.recompileOnChange && g.storesValues && g.compileInsideTry && g.catchesAll && g.fallbackNone &&
  g.fallbackWarns && g.integratorGetsJac && g.onlyWhenRequested &&
  ["__init__", "clear_results", "update_variables"].all (g.reinitSites.contains ·)

/-- which values the compiled function receives as its third argument -/
def Glue.passesCurrent (g : Glue) : Bool := g.callArgs.getD 2 "" == "list(current)"

/-- the compiled function binds (time, variables, parameters) and is called with (t, x, values) -/
def Glue.aligned (g : Glue) : Bool :=
  g.lambdifyArgs == expectedGlue.lambdifyArgs && (g.callArgs.take 2 == ["t", "x"]) &&
  g.valuesFrom == expectedGlue.valuesFrom && g.compiledFrom == expectedGlue.compiledFrom &&
  g.matrix == expectedGlue.matrix

/-- the remembered cache object is read AFTER `_compile_jac()` (the conversion itself puts a new cache object in place:
    `to_symbolic_model` starts with `model._create_cache()`) -/
def Glue.cacheReadAfter (g : Glue) : Bool := g.cacheFrom == "model._cache (read after compiling)"

/-- `jac_fn(t, x)` with the facts `g`.  `clVer` = the model's cache object the closure remembers, `nowVer` = the
    model's current one (a number that changes whenever the object is replaced: by every edit of the model,
    `_invalidate_cache`, and by every conversion: after compiling it is `nowVer + 1`).  Returns the closure's state after
    the call — ALSO when the call raises (the exception escapes from the solver, the closure object lives on and is
    called again by the next simulation) — and the matrix or the error. -/
def JacClosure.callG (g : Glue) (cl : JacClosure) (clVer : Nat) (now : SContent) (nowVer : Nat) (t : Rat)
    (xs : List Rat) : (JacClosure × Nat) × Except Err (List (List Rat)) :=
  match jacArgs now with
  | .error e => ((cl, clVer), .error e)
  | .ok (_, _, values) =>
    if (g.recompileOnChange && values != cl.vals) || (g.watchesModel && nowVer != clVer) then
      -- what is remembered when the stores come first: the object from before compiling
      let stored : JacClosure × Nat :=
        ({ fn := cl.fn, vals := if g.storesValues then values else cl.vals }, if g.storesCache then nowVer else clVer)
      match compileJac now with
      | .error e => ((if g.compileBeforeStore then (cl, clVer) else stored), .error e)
      | .ok f =>
        let remembered : Nat :=
          if g.storesCache then (if g.compileBeforeStore && g.cacheReadAfter then nowVer + 1 else nowVer) else clVer
        let st : JacClosure × Nat := ({ fn := f, vals := stored.1.vals }, remembered)
        (st, evalJacFn f t xs (if g.passesCurrent then values else st.1.vals))
    else ((cl, clVer), evalJacFn cl.fn t xs (if g.passesCurrent then values else cl.vals))

/-- does `jac_fn` compile again at this call?  (the test of the recompile branch; `false` when the parameter values
    cannot be read: the call raises before) -/
def JacClosure.recompilesG (g : Glue) (cl : JacClosure) (clVer : Nat) (now : SContent) (nowVer : Nat) : Bool :=
  match jacArgs now with
  | .error _ => false
  | .ok (_, _, values) => (g.recompileOnChange && values != cl.vals) || (g.watchesModel && nowVer != clVer)

def okB {α} : Except Err α → Bool
  | .ok _ => true
  | .error _ => false

/-- the model's cache object after `_initialise_integrator` has tried to compile: `to_symbolic_model` replaces it as soon
    as `_create_cache()` succeeds (whatever happens later in the conversion) -/
def verAfterCompile (c : SContent) (ver : Nat) : Nat := if okB (createCache c.toContent) then ver + 1 else ver

/-- `_initialise_integrator` with the facts `g`: `.ok none` = fallback (a warning is logged, no Jacobian);
    an error = the conversion error escapes from the constructor -/
def installG (g : Glue) (useJac : Bool) (c : SContent) : Except Err (Option JacClosure) :=
  if !useJac && g.onlyWhenRequested then .ok none
  else if !g.aligned || !g.integratorGetsJac then .ok none
  else match installJac c with
    | some cl => .ok (some cl)
    | none =>
      if g.compileInsideTry && g.catchesAll && g.fallbackNone then .ok none
      else .error (.other "the conversion error escapes from _initialise_integrator")

inductive SimOp where
  /-- `Simulator.update_parameter(s)` / `scale_parameter(s)` / a protocol step: `Model.update_parameter` -/
  | setPar (k : Name) (v : Rat)
  /-- any other edit of the model the Simulator holds (`sim.model.update_reaction(...)`, `update_derived`, `add_*`,
      `remove_*` …): afterwards its content is `c'` -/
  | edit (c' : SContent)
  /-- `clear_results` / `update_variable(s)`: `_initialise_integrator` again on the current model -/
  | reinit
  /-- the integrator calls `jac_fn(t, x)` -/
  | call (t : Rat) (xs : List Rat)
deriving Inhabited

/-- `version` stands for the identity of the model's cache object: every editing method of `Model` is wrapped in
    `_invalidate_cache`, so the next `_create_cache()` returns a new object -/
structure SimState where
  content : SContent
  version : Nat := 0
  jac : Option (JacClosure × Nat)
deriving Inhabited

/-- … for the closure the integrator currently holds -/
def SimState.recompilesG (g : Glue) (s : SimState) : Bool :=
  match s.jac with
  | none => false
  | some (cl, ver) => cl.recompilesG g ver s.content s.version

/-- observable of one step -/
inductive SimOut where
  /-- an update / re-initialisation: nothing to observe -/
  | upd
  /-- a call while the integrator has no Jacobian -/
  | noJac
  /-- the matrix the integrator gets -/
  | mat (J : List (List Rat))
  /-- `jac_fn` raised (the exception escapes from the solver; the Simulator and its closure stay in use) -/
  | raised
deriving DecidableEq, Repr, Inhabited

def SimState.stepG (g : Glue) (s : SimState) : SimOp → Except Err (SimState × SimOut)
  | .setPar k v => .ok ({ s with content := s.content.setPar k v, version := s.version + 1 }, .upd)
  | .edit c' => .ok ({ s with content := c', version := s.version + 1 }, .upd)
  | .reinit => do
    let j ← installG g true s.content
    let v' := verAfterCompile s.content s.version
    pure ({ s with version := v', jac := j.map fun cl => (cl, if g.cacheReadAfter then v' else s.version) }, .upd)
  | .call t xs =>
    match s.jac with
    | none => .ok (s, .noJac)
    | some (cl, ver) =>
      let r := cl.callG g ver s.content s.version t xs
      -- a compilation (also one that fails later on) has replaced the model's cache object
      let v' := if cl.recompilesG g ver s.content s.version then s.version + 1 else s.version
      .ok ({ s with version := v', jac := some r.1 }, match r.2 with | .ok J => .mat J | .error _ => .raised)

/-- a whole history; the outputs in order.  Only a re-initialisation can end it with an error (never with the generated facts). -/
def runG (g : Glue) : SimState → List SimOp → Except Err (SimState × List SimOut)
  | s, [] => .ok (s, [])
  | s, op :: ops => do
    let (s', o) ← s.stepG g op
    let (s'', os) ← runG g s' ops
    pure (s'', o :: os)

/-- `Simulator(model, use_jacobian=True)` -/
def simInitG (g : Glue) (c : SContent) : Except Err SimState := do
  let j ← installG g true c
  let v' := verAfterCompile c 0
  pure { content := c, version := v', jac := j.map fun cl => (cl, if g.cacheReadAfter then v' else 0) }

/-- the model's content after one operation (independent of the glue) -/
def SimOp.after (c : SContent) : SimOp → SContent
  | .setPar k v => c.setPar k v
  | .edit c' => c'
  | _ => c

/-- … and after a history -/
def contentAfter (c : SContent) : List SimOp → SContent
  | [] => c
  | op :: ops => contentAfter (op.after c) ops

end Mxl.C12
