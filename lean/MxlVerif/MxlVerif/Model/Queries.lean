/-
Public query entry points of `Model` expressed over `Core` (what the
correspondence harness observes).
-/
import MxlVerif.Model.Core
namespace Mxl

def getInit (c : Content) : Except Err (List (Name × Rat)) := do
  pure (← createCache c).init

/-- `get_parameter_values`: the plain (not assignment-defined) parameter values
    (`cache.base_parameter_values`) -/
def getParameterValues (c : Content) : Except Err (List (Name × Rat)) := do
  pure (← createCache c).basePars

/-- (`get_derived_parameter_names`, `get_derived_variable_names`) -/
def getClasses (c : Content) : Except Err (List Name × List Name) := do
  let cache ← createCache c
  let ap := omKeys cache.allPars
  pure ((omKeys c.derived).filter (fun k => ap.contains k),
        (omKeys c.derived).filter (fun k => !ap.contains k))

def resolveVars (cache : Cache) (vars : Option (List (Name × Rat))) : List (Name × Rat) :=
  vars.getD cache.init

/-- `get_args(variables, time)` with default flags: every name of `get_arg_names`,
    here as a name-sorted dict -/
def getArgs (c : Content) (vars : Option (List (Name × Rat))) (t : Rat) :
    Except Err (List (Name × Rat)) := do
  let cache ← createCache c
  let env ← getArgsEnv c cache (resolveVars cache vars) t
  pure (envToDict (omKeys c.data) env)

/-- names of reaction fluxes and surrogate fluxes (`get_reaction_names` +
    surrogate stoichiometry keys) -/
def Content.fluxNames (c : Content) : List Name :=
  omKeys c.rxns ++ c.surs.flatMap (fun kv => omKeys kv.2.stoich)

def getFluxes (c : Content) (vars : Option (List (Name × Rat))) (t : Rat) :
    Except Err (List (Name × Rat)) := do
  let cache ← createCache c
  let env ← getArgsEnv c cache (resolveVars cache vars) t
  c.fluxNames.mapM fun k => do pure (k, ← env.get k)

def getRhsQ (c : Content) (vars : Option (List (Name × Rat))) (t : Rat) :
    Except Err (List (Name × Rat)) := do
  let cache ← createCache c
  let dep ← getArgsEnv c cache (resolveVars cache vars) t
  rhsFromArgs cache (omKeys c.vars) dep

def overlayDyn (dep : Env) (cpd : Name) :
    List (Name × Fn) → List (Name × List (Name × Rat)) → Except Err (List (Name × List (Name × Rat)))
  | [], st => pure st
  | (rxn, f) :: rest, st => do
    let v ← f.calc dep
    overlayDyn dep cpd rest (setNested st cpd rxn v)

def overlayDynAll (dep : Env) :
    List (Name × List (Name × Fn)) → List (Name × List (Name × Rat)) →
      Except Err (List (Name × List (Name × Rat)))
  | [], st => pure st
  | (cpd, m) :: rest, st => do
    let st' ← overlayDyn dep cpd m st
    overlayDynAll dep rest st'

/-- `get_stoichiometries(variables, time)`: per compound, per flux, the coefficient
    (absent = 0 in the DataFrame) -/
def getStoich (c : Content) (vars : Option (List (Name × Rat))) (t : Rat) :
    Except Err (List (Name × List (Name × Rat))) := do
  let cache ← createCache c
  let dep ← getArgsEnv c cache (resolveVars cache vars) t
  overlayDynAll dep cache.dynStoich cache.stoich

/-- `get_stoichiometries_of_variable(variable, variables, time)`: that variable's row of the table
    (KeyError for a variable no stoichiometry mentions) -/
def getStoichOfVar (c : Content) (x : Name) (vars : Option (List (Name × Rat))) (t : Rat) :
    Except Err (List (Name × Rat)) := do
  let tbl ← getStoich c vars t
  match tbl.lookup x with
  | some row => pure row
  | none => .error (.keyError x)

/-! ### time-course forms: the pointwise forms mapped over the rows of a table -/

/-- `get_args_time_course(variables)`: one `_get_args` per row (index = time), `time` column dropped -/
def getArgsTC (c : Content) (rows : List (Rat × List (Name × Rat))) :
    Except Err (List (List (Name × Rat))) := do
  let cache ← createCache c
  rows.mapM fun (t, vars) => do
    let env ← getArgsEnv c cache vars t
    pure ((envToDict (omKeys c.data) env).filter fun kv => kv.1 != "time")

/-- `get_fluxes_time_course(variables)` -/
def getFluxesTC (c : Content) (rows : List (Rat × List (Name × Rat))) :
    Except Err (List (List (Name × Rat))) := do
  let cache ← createCache c
  rows.mapM fun (t, vars) => do
    let env ← getArgsEnv c cache vars t
    c.fluxNames.mapM fun k => do pure (k, ← env.get k)

/-- `get_right_hand_side_time_course(args)`: `_get_right_hand_side` per row of an argument table
    with `{"time": index} | row` as the argument dict (after the repair of F-C01-1) -/
def getRhsTC (c : Content) (argRows : List (Rat × List (Name × Rat))) :
    Except Err (List (List (Name × Rat))) := do
  let cache ← createCache c
  -- computed coefficients also see the data sets (`self._data | args`, after the repair of F-C01-2)
  argRows.mapM fun (t, row) => rhsFromArgs cache (omKeys c.vars) (row ++ [("time", t)] ++ c.data)

end Mxl
