/-
Public query entry points of `Model` expressed over `Core` (what the
correspondence harness observes).
-/
import MxlVerif.Model.Core
namespace Mxl

def getInit (c : Content) : Except Err (List (Name × Rat)) := do
  pure (← createCache c).init

/-- `get_parameter_values`: the plain (not assignment-defined) parameter values
    (`cache.base_parameter_values`) -/
def getParameterValues (c : Content) : Except Err (List (Name × Rat)) := do
  pure (← createCache c).basePars

/-- (`get_derived_parameter_names`, `get_derived_variable_names`) -/
def getClasses (c : Content) : Except Err (List Name × List Name) := do
  let cache ← createCache c
  let ap := omKeys cache.allPars
  pure ((omKeys c.derived).filter (fun k => ap.contains k),
        (omKeys c.derived).filter (fun k => !ap.contains k))

def resolveVars (cache : Cache) (vars : Option (List (Name × Rat))) : List (Name × Rat) :=
  vars.getD cache.init

/-- `get_args(variables, time)` with default flags: every name of `get_arg_names`,
    here as a name-sorted dict -/
def getArgs (c : Content) (vars : Option (List (Name × Rat))) (t : Rat) :
    Except Err (List (Name × Rat)) := do
  let cache ← createCache c
  let env ← getArgsEnv c cache (resolveVars cache vars) t
  pure (envToDict (omKeys c.data) env)

/-- names of reaction fluxes and surrogate fluxes (`get_reaction_names` +
    surrogate stoichiometry keys) -/
def Content.fluxNames (c : Content) : List Name :=
  omKeys c.rxns ++ c.surs.flatMap (fun kv => omKeys kv.2.stoich)

def getFluxes (c : Content) (vars : Option (List (Name × Rat))) (t : Rat) :
    Except Err (List (Name × Rat)) := do
  let cache ← createCache c
  let env ← getArgsEnv c cache (resolveVars cache vars) t
  c.fluxNames.mapM fun k => do pure (k, ← env.get k)

def getRhsQ (c : Content) (vars : Option (List (Name × Rat))) (t : Rat) :
    Except Err (List (Name × Rat)) := do
  let cache ← createCache c
  let dep ← getArgsEnv c cache (resolveVars cache vars) t
  rhsFromArgs cache (omKeys c.vars) dep

def overlayDyn (dep : Env) (cpd : Name) :
    List (Name × Fn) → List (Name × List (Name × Rat)) → Except Err (List (Name × List (Name × Rat)))
  | [], st => pure st
  | (rxn, f) :: rest, st => do
    let v ← f.calc dep
    overlayDyn dep cpd rest (setNested st cpd rxn v)

def overlayDynAll (dep : Env) :
    List (Name × List (Name × Fn)) → List (Name × List (Name × Rat)) →
      Except Err (List (Name × List (Name × Rat)))
  | [], st => pure st
  | (cpd, m) :: rest, st => do
    let st' ← overlayDyn dep cpd m st
    overlayDynAll dep rest st'

/-- `get_stoichiometries(variables, time)`: per compound, per flux, the coefficient
    (absent = 0 in the DataFrame) -/
def getStoich (c : Content) (vars : Option (List (Name × Rat))) (t : Rat) :
    Except Err (List (Name × List (Name × Rat))) := do
  let cache ← createCache c
  let dep ← getArgsEnv c cache (resolveVars cache vars) t
  overlayDynAll dep cache.dynStoich cache.stoich

/-- `for rxn, derived in cache.dyn_stoich_by_cpds.get(variable, {}).items(): stoich[rxn] = derived.fn(…)` -/
def overlayRow (dep : Env) : List (Name × Fn) → List (Name × Rat) → Except Err (List (Name × Rat))
  | [], row => pure row
  | (rxn, f) :: rest, row => do
    let v ← f.calc dep
    overlayRow dep rest (omInsert row rxn v)

/-- `get_stoichiometries_of_variable(variable, variables, time)`: that variable's row of the static
    table (KeyError for a variable no stoichiometry mentions) with ITS computed coefficients
    evaluated — the computed coefficients of other variables are not touched (so a coefficient of
    another variable that cannot be evaluated does not make this query fail) -/
def getStoichOfVar (c : Content) (x : Name) (vars : Option (List (Name × Rat))) (t : Rat) :
    Except Err (List (Name × Rat)) := do
  let cache ← createCache c
  let dep ← getArgsEnv c cache (resolveVars cache vars) t
  match cache.stoich.lookup x with
  | none => .error (.keyError x)
  | some row => overlayRow dep ((cache.dynStoich.lookup x).getD []) row

/-! ### time-course forms: the pointwise forms mapped over the rows of a table -/

/-- `get_args_time_course(variables)`: one `_get_args` per row (index = time), `time` column dropped -/
def getArgsTC (c : Content) (rows : List (Rat × List (Name × Rat))) :
    Except Err (List (List (Name × Rat))) := do
  let cache ← createCache c
  rows.mapM fun (t, vars) => do
    let env ← getArgsEnv c cache vars t
    pure ((envToDict (omKeys c.data) env).filter fun kv => kv.1 != "time")

/-- `get_fluxes_time_course(variables)` -/
def getFluxesTC (c : Content) (rows : List (Rat × List (Name × Rat))) :
    Except Err (List (List (Name × Rat))) := do
  let cache ← createCache c
  rows.mapM fun (t, vars) => do
    let env ← getArgsEnv c cache vars t
    c.fluxNames.mapM fun k => do pure (k, ← env.get k)

/-- `get_right_hand_side_time_course(args)`: `_get_right_hand_side` per row of an argument table
    with `{"time": index} | row` as the argument dict (after the repair of F-C01-1) -/
def getRhsTC (c : Content) (argRows : List (Rat × List (Name × Rat))) :
    Except Err (List (List (Name × Rat))) := do
  let cache ← createCache c
  -- computed coefficients also see the data sets (`self._data | args`, after the repair of F-C01-2)
  argRows.mapM fun (t, row) => rhsFromArgs cache (omKeys c.vars) (row ++ [("time", t)] ++ c.data)

/-! ### `get_arg_names` / `get_args` with its nine `include_*` flags and the readouts -/

/-- the keyword flags of `get_args` / `get_arg_names`, in the order `get_arg_names` consults them -/
structure ArgFlags where
  time : Bool := true
  variables : Bool := true
  parameters : Bool := true
  derivedVariables : Bool := true
  derivedParameters : Bool := true
  reactions : Bool := true
  surrogateVariables : Bool := true
  surrogateFluxes : Bool := true
  readouts : Bool := false
deriving Repr, DecidableEq, Inhabited

/-- `get_surrogate_output_names(include_fluxes=…)` -/
def surrogateOutputNames (c : Content) (includeFluxes : Bool) : List Name :=
  if includeFluxes then c.surs.flatMap (fun kv => kv.2.outs)
  else c.surs.flatMap (fun kv => kv.2.outs.filter fun x => !(omKeys kv.2.stoich).contains x)

/-- `get_surrogate_reaction_names` -/
def surrogateReactionNames (c : Content) : List Name :=
  c.surs.flatMap (fun kv => omKeys kv.2.stoich)

/-- `get_arg_names(**flags)`: the groups in the fixed order of the method body (derived variables
    BEFORE derived parameters); the two derived groups come from the cache's parameter table -/
def getArgNames (c : Content) (cache : Cache) (f : ArgFlags) : List Name :=
  let ap := omKeys cache.allPars
  (if f.time then ["time"] else []) ++
  (if f.variables then omKeys c.vars else []) ++
  (if f.parameters then omKeys c.pars else []) ++
  (if f.derivedVariables then (omKeys c.derived).filter (fun k => !ap.contains k) else []) ++
  (if f.derivedParameters then (omKeys c.derived).filter (fun k => ap.contains k) else []) ++
  (if f.reactions then omKeys c.rxns else []) ++
  (if f.surrogateVariables then surrogateOutputNames c false else []) ++
  (if f.surrogateFluxes then surrogateReactionNames c else []) ++
  (if f.readouts then omKeys c.readouts else [])

/-- `get_arg_names(**flags)` as a public entry point: the cache is built (and a bad graph rejected) only
    when one of the two derived groups is requested — `get_derived_*_names` are the only callees that
    need it -/
def getArgNamesQ (c : Content) (f : ArgFlags) : Except Err (List Name) :=
  if f.derivedVariables || f.derivedParameters then do
    let cache ← createCache c
    pure (getArgNames c cache f)
  else pure (getArgNames c default f)

/-- `scope = self._data | raw; for name in order: self._readouts[name].calculate_inpl(name, scope);
    raw[name] = scope[name]` — along the given list, in place; the readouts see the data sets again
    (after the repair of F-C01-4), the returned dict does not hold them.  Returns `raw`. -/
def evalReadouts : List (Name × Fn) → Env → Env → Except Err Env
  | [], _, raw => pure raw
  | (k, f) :: rest, scope, raw => do
    let v ← f.calc scope
    evalReadouts rest (scope.set k v) (raw.set k v)

/-- `_get_args` as returned: the data sets popped from the dict -/
def dropData (dataKeys : List Name) (env : Env) : Env :=
  env.filter fun kv => !dataKeys.contains kv.1

/-- `Model._sorted_readouts(set(scope))`: the readouts in dependency order (`_sort_dependencies` over
    one `Dependency(name, args, {name})` per readout; after the repair of F-C01-3), each with its function -/
def sortedReadouts (c : Content) (scope : Env) : Except Err (List (Name × Fn)) := do
  let order ← sortDeps (scope.map (·.1))
    (c.readouts.map fun kv => { name := kv.1, required := kv.2.args, provided := [kv.1] })
  order.mapM fun k =>
    match c.readouts.lookup k with
    | some f => pure (k, f)
    | none => .error (.keyError k)

/-- `if include_readouts: …` on the dict `_get_args` returned: the readouts are evaluated in
    dependency order on `self._data | raw` -/
def readoutPass (c : Content) (f : ArgFlags) (raw : Env) : Except Err Env :=
  if f.readouts then do
    let ros ← sortedReadouts c (raw ++ c.data)
    evalReadouts ros (raw ++ c.data) raw
  else pure raw

/-- `get_args(variables, time, **flags)`: `pd.Series(raw).loc[get_arg_names(**flags)]` — the selected
    names in `get_arg_names` order, `KeyError` for a selected name the dict does not hold -/
def getArgsSel (c : Content) (vars : Option (List (Name × Rat))) (t : Rat) (f : ArgFlags) :
    Except Err (List (Name × Rat)) := do
  let cache ← createCache c
  let env ← getArgsEnv c cache (resolveVars cache vars) t
  let raw ← readoutPass c f (dropData (omKeys c.data) env)
  (getArgNames c cache f).mapM fun k => do pure (k, ← raw.get k)

/-- the flags `get_fluxes` passes -/
def fluxFlags : ArgFlags :=
  { time := false, variables := false, parameters := false, derivedVariables := false,
    derivedParameters := false, reactions := true, surrogateVariables := false,
    surrogateFluxes := true, readouts := false }

/-- `get_args_time_course(variables, **flags)`: per row `_get_args` (+ readouts), then the columns
    `get_arg_names(include_time=False, **flags)` -/
def getArgsSelTC (c : Content) (rows : List (Rat × List (Name × Rat))) (f : ArgFlags) :
    Except Err (List (List (Name × Rat))) := do
  let cache ← createCache c
  let names := getArgNames c cache { f with time := false }
  rows.mapM fun (t, vars) => do
    let env ← getArgsEnv c cache vars t
    let raw ← readoutPass c f (dropData (omKeys c.data) env)
    names.mapM fun k => do pure (k, ← raw.get k)

/-! ### the fluxes are read from the dict `_get_args` RETURNED (data sets popped)

`rhsFromArgs`, `getFluxes`, `getArgs`, `getStoich` above read flux values from the environment before the
pop; Python reads `dependent[flux]` / `args.loc[flux names]` after it.  The two agree unless a stoichiometry
KEY of a surrogate is not bound in the popped dict (it is a data-set name, or no output at all) — then every
entry point that looks the fluxes up raises `KeyError(flux)`.  `guardFlux` adds exactly that: the answer is
kept iff `get_fluxes` (= `getArgsSel … fluxFlags`, which selects from the popped dict) answers, else its error. -/
def guardFlux {α} (c : Content) (vars : Option (List (Name × Rat))) (t : Rat) (r : Except Err α) :
    Except Err α :=
  -- the flux lookup comes right after `_create_cache` / `_get_args` (whose errors `getArgsSel` shares) and
  -- before anything else the entry point does (computed coefficients, row selection)
  match getArgsSel c vars t fluxFlags with
  | .error e => .error e
  | .ok _ => r

end Mxl
