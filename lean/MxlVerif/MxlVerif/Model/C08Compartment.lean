/-
C08 — the `compartments` option of `sbml.write` and the species attributes, line for line after
`_default_compartments`, `_create_sbml_compartments`, `_create_sbml_variables` (the part that
`exportVar` leaves out: compartment, hasOnlySubstanceUnits, amount or concentration) and `write`.
The structural choices come from `Generated/C08Tables.lean`, i.e. from the repo's current source:

  speciesHosu               literal of cpd.setHasOnlySubstanceUnits(…)
  speciesInitAmount         cpd.setInitialAmount(float(init)) (true) / cpd.setInitialConcentration (false)
  speciesCompartmentLit     some "compartment" = the older hard-coded id; none = next(iter(compartments))
                            behind the guards "no variables: return" / "no compartments: ValueError"
  defaultCompartmentFresh   the default compartment's id is _free_reference("compartment", set(model.ids))
  compartmentClashRefused   an explicit compartment id that is a component name raises ValueError

and the SBML L3 reading of a species (spec §4.6: what the identifier stands for in math).
-/
import MxlVerif.Model.C08Export
namespace Mxl.C08
open Gen

/-- what the file says about one species beyond id and value -/
structure SSpecies where
  id : String
  compartment : String
  hosu : Bool            -- hasOnlySubstanceUnits
  initAmount : Bool      -- the value attribute is initialAmount (else initialConcentration)
deriving Repr, Inhabited, DecidableEq

/-- the written document with its compartments, and what `write` adds that carries no number: the modifier species of
    every reaction (document order), the id of the model, the ids of the unit definitions -/
structure SDocC where
  doc : SDoc
  compartments : List (String × Rat)     -- id, size (document order)
  species : List SSpecies
  modifiers : List (String × List String) := []   -- reaction id, species ids of its modifiers
  modelId : String := ""
  unitIds : List String := []
deriving Repr, Inhabited

/-- the further options of `write` -/
structure WriteOpts where
  modelName : String := "model"        -- `_default_model_name`
  date : String := ""                  -- `datetime.now(UTC).date()` as `%Y-%m-%d` (run time)
  unitIds : List String := ["per_second"]   -- keys of `_default_units` / of the `units` option
deriving Repr, Inhabited

/-- `Reaction.get_modifiers`: the arguments of the rate function that are variables of the model and not in the stoichiometry -/
def modifiersOf (m : PyModel) (rx : PyRxn) : List String :=
  rx.fn.args.filter fun k => (m.vars.map (·.1)).contains k && !(rx.stoich.map (·.1)).contains k

def mapE {α β} (f : α → Except XErr β) : List α → Except XErr (List β)
  | [] => .ok []
  | a :: as => do
      let b ← f a
      let bs ← mapE f as
      pure (b :: bs)

/-- the `createModifier` loop of `_create_sbml_reactions`, for every reaction -/
def exportModifiers (m : PyModel) : Except XErr (List (String × List String)) :=
  mapE (fun rx => do
    let rid ← escapeId rx.name prefixRxn
    let ms ← mapE (fun k => escapeId k prefixRefSpecies) (modifiersOf m rx)
    pure (rid, ms)) m.rxns

/-- `_create_sbml_model`: id (and name) of the model -/
def modelId (o : WriteOpts) : Except XErr String := escapeId (o.modelName ++ "_" ++ o.date) "MODEL"

/-- `_default_compartments(compartments, taken=set(model.ids))`; `none` = the option was not given.
    (Python: `compartments` is a dict, so the ids of an explicit list are pairwise distinct.) -/
def chooseCompartments (taken : List String) : Option (List (String × Rat)) → Except XErr (List (String × Rat))
  | none =>
    if defaultCompartmentFresh then
      match freshName taken defaultCompartmentId (taken.length + 1) with
      | some n => .ok [(n, (defaultCompartmentSize : Rat))]
      | none => .error (.valueError "unreachable: a free name exists within len(taken) + 1 rounds")
    else .ok [(defaultCompartmentId, (defaultCompartmentSize : Rat))]
  | some cs =>
    if compartmentClashRefused && cs.any (fun c => taken.contains c.1) then
      .error (.valueError "compartment ids are also names of model components")
    else .ok cs

/-- head of `_create_sbml_variables`: the compartment every species is put into.
    `none` = the function returns before it needs one (no variables). -/
def speciesCompartment (cs : List (String × Rat)) (vars : List (String × PyInit)) : Except XErr (Option String) :=
  match speciesCompartmentLit with
  | some c => .ok (some c)
  | none =>
    match vars with
    | [] => .ok none
    | _ :: _ =>
      match cs with
      | [] => .error (.valueError "SBML species need a compartment, but `compartments` is empty")
      | c :: _ => .ok (some c.1)

def speciesAttrs (comp : Option String) (species : List (String × Option Rat)) : List SSpecies :=
  match comp with
  | none => []
  | some c => species.map fun kv => ⟨kv.1, c, speciesHosu, speciesInitAmount⟩

/-! ### inside math a component is referred to by the id it is declared with (`_sbml_ids`, `_sbmlify_fn(fn, args, ids)`) -/

/-- `ids.get(n, n)`: the declared id of a component of the model, any other name as it is -/
def idOf (m : PyModel) (n : String) : String :=
  let pre : Option String :=
    if (m.params.map (·.1)).contains n then some prefixParam
    else if (m.vars.map (·.1)).contains n then some prefixVar
    else if (m.derived.map (·.1)).contains n then some prefixRule
    else if (m.rxns.map (·.name)).contains n then some prefixRxn
    else none
  match pre with
  | some p => (match escapeId n p with | .ok s => s | .error _ => n)
  | none => n

def PyFn.mapArgs (g : String → String) (f : PyFn) : PyFn := { f with args := f.args.map g }

def PyInit.mapArgs (g : String → String) : PyInit → PyInit
  | .val q => .val q
  | .ia f => .ia (f.mapArgs g)

def PyCoef.mapArgs (g : String → String) : PyCoef → PyCoef
  | .num q => .num q
  | .computed f => .computed (f.mapArgs g)

/-- the model as the exporter sees its functions: every model argument replaced by the component's id -/
def PyModel.escArgs (m : PyModel) : PyModel :=
  if mathUsesIds then
    let g := idOf m
    { params := m.params.map fun kv => (kv.1, kv.2.mapArgs g)
      vars := m.vars.map fun kv => (kv.1, kv.2.mapArgs g)
      derived := m.derived.map fun kv => (kv.1, kv.2.mapArgs g)
      rxns := m.rxns.map fun r => { r with fn := r.fn.mapArgs g, stoich := r.stoich.map fun kv => (kv.1, kv.2.mapArgs g) } }
  else m

/-- `exportModel` with any initial set of names the species references have to avoid -/
def exportModelFrom (taken0 : List String) (m : PyModel) : Except XErr SDoc := do
  let d ← foldE exportParam SDoc.empty m.params
  let d ← foldE (fun d kv => exportRule d kv.1 kv.2) d m.derived
  let d ← foldE exportVar d m.vars
  let (_, d) ← foldE exportReaction (taken0, d) m.rxns
  pure d

/-- `taken` at the head of `_create_sbml_reactions`: `set(model.ids)`, since F-C08-19 joined with the ids of the
    compartments already written to the document -/
def refTaken (m : PyModel) (cs : List (String × Rat)) : List String :=
  if refAvoidsCompartments then m.names ++ cs.map (·.1) else m.names

/-- `_model_to_sbml` with its `compartments` argument: the same four loops as `exportModel`, the guard of
    `_create_sbml_variables` where the real code has it -/
def exportModelC (m : PyModel) (cs : List (String × Rat)) : Except XErr SDocC := do
  let d ← foldE exportParam SDoc.empty m.params
  let d ← foldE (fun d kv => exportRule d kv.1 kv.2) d m.derived
  let comp ← speciesCompartment cs m.vars
  let d ← foldE exportVar d m.vars
  let (_, d) ← foldE exportReaction (refTaken m cs, d) m.rxns
  pure { doc := d, compartments := cs, species := speciesAttrs comp d.species }

/-- `write(model, file, compartments=…)` up to the serialisation -/
def writeModel (m : PyModel) (cs : Option (List (String × Rat))) : Except XErr SDocC := do
  let cs ← chooseCompartments m.names cs
  exportModelC m.escArgs cs

/-- `write` with all its options: the model id is written first, the modifiers with their reactions; neither changes a
    component (`writeModelFull_doc`) -/
def writeModelFull (m : PyModel) (cs : Option (List (String × Rat))) (o : WriteOpts) : Except XErr SDocC := do
  let mid ← modelId o
  let dc ← writeModel m cs
  let mods ← exportModifiers m
  pure { dc with modifiers := mods, modelId := mid, unitIds := o.unitIds }

/-! ### SBML reading of a species in a compartment of constant size (L3v2 §4.6.5, §4.11.7) -/

/-- what the species identifier stands for in math, given the amount -/
def speciesSymbol (hosu : Bool) (size amount : Rat) : Rat := if hosu then amount else amount / size

/-- the amount the value attribute prescribes -/
def initialAmountOf (initAmount : Bool) (size v : Rat) : Rat := if initAmount then v else v * size

/-- d symbol / dt for d amount / dt = `rate` (constant compartment) -/
def symbolRate (hosu : Bool) (size rate : Rat) : Rat := if hosu then rate else rate / size

end Mxl.C08
