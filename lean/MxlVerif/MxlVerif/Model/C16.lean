/-
Executable model of `mxlpy.linear_label_map`, line for line after `linear_label_map.py`:
`_generate_isotope_labels` (29-51), `_unpack_stoichiometries` (54-83),
`_stoichiometry_to_duplicate_list` (86-103), `_map_substrates_to_labelmap` (106-126),
`_add_label_influx_or_efflux` (129-166) and `LinearLabelMapper.build_model` (230-307).

A label position `f"{compound}__{i}"` is kept structurally as `Slot.pos compound i`, the
placeholder `"EXT"` as `Slot.ext`; the driver renders them.
-/
import MxlVerif.Model.C05
namespace Mxl.C16
open Mxl.C05 (LErr)

inductive Slot where
  | ext
  | pos (c : Name) (i : Nat)
deriving DecidableEq, Repr, Inhabited

/-- `_generate_isotope_labels` -/
def isotopeLabels (c : Name) (n : Nat) : Except LErr (List Slot) :=
  if n > 0 then .ok ((List.range n).map (Slot.pos c)) else .error .valueError

/-- `_unpack_stoichiometries`: `{k: int(-v)}` for `v < 0`, `{k: int(v)}` otherwise -/
def unpackLin : List (Name × Int) → List (Name × Nat) × List (Name × Nat)
  | [] => ([], [])
  | (k, v) :: rest =>
    let (s, p) := unpackLin rest
    if v < 0 then ((k, (-v).toNat) :: s, p) else (s, (k, v.toNat) :: p)

/-- `_stoichiometry_to_duplicate_list` -/
def dupList (d : List (Name × Nat)) : List Name := d.flatMap fun kv => List.replicate kv.2 kv.1

/-- `[j for i in cs for j in isotopomers[i]]` (`KeyError` for a compound without labels) -/
def slotsOf (isos : List (Name × List Slot)) : List Name → Except LErr (List Slot)
  | [] => .ok []
  | c :: cs =>
    match isos.lookup c with
    | none => .error (.keyError c)
    | some l => do
      let rest ← slotsOf isos cs
      pure (l ++ rest)

/-- `_add_label_influx_or_efflux` -/
def addInfluxEfflux (subs prods : List Slot) (labelmap : List Nat) :
    Except LErr (List Slot × List Slot) :=
  let prods := prods ++ List.replicate (subs.length - prods.length) Slot.ext
  let subs := subs ++ List.replicate (prods.length - subs.length) Slot.ext
  if labelmap.length < subs.length then .error .valueError else .ok (subs, prods)

/-- the loop of `_map_substrates_to_labelmap`: `for substrate, pos in zip(.., strict=True):
    res[pos] = substrate` (an index outside `res` raises `IndexError` when reached; a length
    mismatch raises `ValueError` once the shorter operand is exhausted) -/
def assignSlots (res : List Slot) : List Slot → List Nat → Except LErr (List Slot)
  | [], [] => .ok res
  | s :: ss, p :: ps => if p < res.length then assignSlots (res.set p s) ss ps else .error .indexError
  | _, _ => .error .valueError

/-- `_map_substrates_to_labelmap` (no longer called by `build_model`; kept by the repo because a unit
    test pins its output, and here because `C16_linear_reading` states what it computes) -/
def mapSubstratesToLabelmap (subs : List Slot) (labelmap : List Nat) : Except LErr (List Slot) :=
  assignSlots (List.replicate subs.length Slot.ext) subs labelmap

/-- the comprehension of `_map_labelmap_to_substrates`: `[substrates[pos] for _, pos in
    zip(substrates, labelmap, strict=True)]` (an index outside `substrates` raises `IndexError` when
    reached; a length mismatch raises `ValueError` once the shorter operand is exhausted) -/
def pickSlots (subs : List Slot) : List Slot → List Nat → Except LErr (List Slot)
  | [], [] => .ok []
  | _ :: ss, p :: ps =>
    match subs[p]? with
    | some s => do
      let rest ← pickSlots subs ss ps
      pure (s :: rest)
    | none => .error .indexError
  | _, _ => .error .valueError

/-- `_map_labelmap_to_substrates` (repo commit "fix: LinearLabelMapper.build_model reads a label map
    like LabelMapper ..."): product position `i` is built from substrate position `labelmap[i]` -/
def mapLabelmapToSubstrates (subs : List Slot) (labelmap : List Nat) : Except LErr (List Slot) :=
  pickSlots subs subs labelmap

/-- one per-position reaction `f"{rxn}__{i}"`: rate `_relative_label_flux(substrate, rxn)`,
    stoichiometry `{substrate: -1/conc, product: +1/conc}` without the `EXT` entries -/
structure LinRxn where
  rxn : Name
  slot : Nat
  substrate : Slot
  product : Slot
deriving DecidableEq, Repr, Inhabited

/-- the `for i, (substrate, product) in enumerate(zip(subs, prods, strict=True))` loop -/
def slotRxns (rxn : Name) (i : Nat) : List Slot → List Slot → List LinRxn
  | s :: ss, p :: ps =>
    if s = p then slotRxns rxn (i + 1) ss ps else ⟨rxn, i, s, p⟩ :: slotRxns rxn (i + 1) ss ps
  | _, _ => []

/-- body of `for rxn_name, label_map in self.label_maps.items()` -/
def linRxnsOf (isos : List (Name × List Slot)) (baseRxns : List (Name × List (Name × Int)))
    (rxn : Name) (labelmap : List Nat) : Except LErr (List LinRxn) :=
  match baseRxns.lookup rxn with
  | none => .error (.keyError rxn)
  | some st => do
    let (s, p) := unpackLin st
    let subs ← slotsOf isos (dupList s)
    let prods ← slotsOf isos (dupList p)
    let (subs, prods) ← addInfluxEfflux subs prods labelmap
    let subs ← mapLabelmapToSubstrates subs labelmap
    pure (slotRxns rxn 0 subs prods)

/-! ### label maps as Python reads them: integer indices, a negative index counts from the end -/

/-- `_add_label_influx_or_efflux` (only `len(labelmap)` is read) -/
def addInfluxEffluxI (subs prods : List Slot) (labelmap : List Int) :
    Except LErr (List Slot × List Slot) :=
  let prods := prods ++ List.replicate (subs.length - prods.length) Slot.ext
  let subs := subs ++ List.replicate (prods.length - subs.length) Slot.ext
  if labelmap.length < subs.length then .error .valueError else .ok (subs, prods)

/-- the comprehension of `_map_labelmap_to_substrates` for any integer map: `substrates[pos]` with
    Python's index rule (`Mxl.C05.pyIndex`) -/
def pickSlotsI (subs : List Slot) : List Slot → List Int → Except LErr (List Slot)
  | [], [] => .ok []
  | _ :: ss, p :: ps =>
    match Mxl.C05.pyIndex subs.length p with
    | .error e => .error e
    | .ok j =>
      match subs[j]? with
      | some s => do
        let rest ← pickSlotsI subs ss ps
        pure (s :: rest)
      | none => .error .indexError
  | _, _ => .error .valueError

def mapLabelmapToSubstratesI (subs : List Slot) (labelmap : List Int) : Except LErr (List Slot) :=
  pickSlotsI subs subs labelmap

/-- body of `for rxn_name, label_map in self.label_maps.items()`, integer map -/
def linRxnsOfI (isos : List (Name × List Slot)) (baseRxns : List (Name × List (Name × Int)))
    (rxn : Name) (labelmap : List Int) : Except LErr (List LinRxn) :=
  match baseRxns.lookup rxn with
  | none => .error (.keyError rxn)
  | some st => do
    let (s, p) := unpackLin st
    let subs ← slotsOf isos (dupList s)
    let prods ← slotsOf isos (dupList p)
    let (subs, prods) ← addInfluxEffluxI subs prods labelmap
    let subs ← mapLabelmapToSubstratesI subs labelmap
    pure (slotRxns rxn 0 subs prods)

/-- `variables[f"{base}__{pos}"] = v`: in place if present, else appended -/
def setSlot (m : List (Slot × Rat)) (k : Slot) (v : Rat) : List (Slot × Rat) :=
  match m with
  | [] => [(k, v)]
  | (k', v') :: rest => if k' = k then (k', v) :: rest else (k', v') :: setSlot rest k v

structure LinModel where
  vars : List (Slot × Rat)
  rxns : List LinRxn
deriving Inhabited

/-- `LinearLabelMapper.build_model` (parameters `concs | fluxes | {"EXT": external_label}` are
    passed through unchanged and supplied at evaluation time) -/
def linearBuild (baseRxns : List (Name × List (Name × Int))) (lv : List (Name × Nat))
    (maps : List (Name × List Nat)) (initLabels : List (Name × List Nat)) :
    Except LErr LinModel := do
  let isos ← lv.mapM fun kn => do pure (kn.1, ← isotopeLabels kn.1 kn.2)
  let zeros := (isos.flatMap (·.2)).map fun s => (s, (0 : Rat))
  let vars := initLabels.foldl (fun vs kp =>
    kp.2.foldl (fun vs pos => setSlot vs (Slot.pos kp.1 pos) (1 / (kp.2.length : Rat))) vs) zeros
  let groups ← maps.mapM fun km => linRxnsOf isos baseRxns km.1 km.2
  pure { vars, rxns := groups.flatten }

/-- padded length of a `label_maps` entry's reaction (0 when the entry is rejected before the map is
    read) -/
def padLen (isos : List (Name × List Slot)) (baseRxns : List (Name × List (Name × Int)))
    (rxn : Name) : Nat :=
  match baseRxns.lookup rxn with
  | none => 0
  | some st =>
    match slotsOf isos (dupList (unpackLin st).1), slotsOf isos (dupList (unpackLin st).2) with
    | .ok s, .ok p => max s.length p.length
    | _, _ => 0

/-- `LinearLabelMapper.build_model`, integer maps (this is what the driver runs) -/
def linearBuildI (baseRxns : List (Name × List (Name × Int))) (lv : List (Name × Nat))
    (maps : List (Name × List Int)) (initLabels : List (Name × List Nat)) :
    Except LErr LinModel := do
  let isos ← lv.mapM fun kn => do pure (kn.1, ← isotopeLabels kn.1 kn.2)
  let zeros := (isos.flatMap (·.2)).map fun s => (s, (0 : Rat))
  let vars := initLabels.foldl (fun vs kp =>
    kp.2.foldl (fun vs pos => setSlot vs (Slot.pos kp.1 pos) (1 / (kp.2.length : Rat))) vs) zeros
  let groups ← maps.mapM fun km => linRxnsOfI isos baseRxns km.1 km.2
  pure { vars, rxns := groups.flatten }

/-! ### stoichiometric coefficients as the base model stores them (`float | Derived`) -/

/-- `_unpack_stoichiometries` on raw coefficients, entry by entry (after repo commit "fix:
    LinearLabelMapper refuses a fractional stoichiometric coefficient ..."): a `Derived` raises
    `NotImplementedError`; `n = int(v)`, `n != v` — a float that is not a whole number — raises
    `ValueError`; a negative `n` goes to the substrates as `-n`, any other to the products -/
def unpackLinRaw : List (Name × Mxl.C05.Coef) → Except LErr (List (Name × Nat) × List (Name × Nat))
  | [] => .ok ([], [])
  | (k, c) :: rest =>
    match c with
    | .derived => .error .notImplementedError
    | .int v => do
      let (s, p) ← unpackLinRaw rest
      if v < 0 then pure ((k, (-v).toNat) :: s, p) else pure (s, (k, v.toNat) :: p)
    | .float q =>
      if ((Mxl.C05.pyTrunc q : Int) : Rat) = q then do
        let (s, p) ← unpackLinRaw rest
        if Mxl.C05.pyTrunc q < 0 then pure ((k, (-(Mxl.C05.pyTrunc q)).toNat) :: s, p)
        else pure (s, (k, (Mxl.C05.pyTrunc q).toNat) :: p)
      else .error .valueError

/-- body of `for rxn_name, label_map in self.label_maps.items()` on raw coefficients: `raw` lists the
    reactions whose coefficients are not all Python `int`s -/
def linRxnsOfP (isos : List (Name × List Slot)) (baseRxns : List (Name × List (Name × Int)))
    (raw : List (Name × List (Name × Mxl.C05.Coef))) (rxn : Name) (labelmap : List Int) :
    Except LErr (List LinRxn) :=
  match raw.lookup rxn with
  | none => linRxnsOfI isos baseRxns rxn labelmap
  | some st =>
    match baseRxns.lookup rxn with
    | none => .error (.keyError rxn)
    | some _ => do
      let (s, p) ← unpackLinRaw st
      let subs ← slotsOf isos (dupList s)
      let prods ← slotsOf isos (dupList p)
      let (subs, prods) ← addInfluxEffluxI subs prods labelmap
      let subs ← mapLabelmapToSubstratesI subs labelmap
      pure (slotRxns rxn 0 subs prods)

/-- `LinearLabelMapper.build_model` on raw coefficients (this is what the driver runs) -/
def linearBuildP (baseRxns : List (Name × List (Name × Int))) (lv : List (Name × Nat))
    (maps : List (Name × List Int)) (raw : List (Name × List (Name × Mxl.C05.Coef)))
    (initLabels : List (Name × List Nat)) : Except LErr LinModel := do
  let isos ← lv.mapM fun kn => do pure (kn.1, ← isotopeLabels kn.1 kn.2)
  let zeros := (isos.flatMap (·.2)).map fun s => (s, (0 : Rat))
  let vars := initLabels.foldl (fun vs kp =>
    kp.2.foldl (fun vs pos => setSlot vs (Slot.pos kp.1 pos) (1 / (kp.2.length : Rat))) vs) zeros
  let groups ← maps.mapM fun km => linRxnsOfP isos baseRxns raw km.1 km.2
  pure { vars, rxns := groups.flatten }

/-- the reading of a map that `LabelMapper` and the documentation use: product position `i` is fed
    by (padded) substrate position `labelmap[i]` -/
def documentedSources (subs : List Slot) (labelmap : List Nat) : List Slot :=
  labelmap.map fun i => subs.getD i Slot.ext

/-- amount of compound `x` (with `n` positions) that is labelled at position `i` -/
def margOf (σ : Mxl.C05.LName → Rat) (x : Name) (n i : Nat) : Rat :=
  Mxl.C05.sumMap (Mxl.C05.patterns n) fun u => if u.getD i false then σ ⟨x, some u⟩ else 0

/-- the label positions of a list of compound occurrences, in order (what the linear mapper's
    `[j for i in cs for j in isotopomers[i]]` lists when every compound has labels) -/
def slotsFlat (lv : List (Name × Nat)) (cs : List Name) : List Slot :=
  cs.flatMap fun c => (List.range (Mxl.C05.labelsOf lv c)).map (Slot.pos c)

/-- the isotopomers of `x` (with `n` positions) that are labelled at position `i` -/
def labelledAt (x : Name) (n i : Nat) : List Mxl.C05.LName :=
  ((Mxl.C05.patterns n).filter fun u => u.getD i false).map fun u => ⟨x, some u⟩

/-- 1 if the bit is set, else 0 -/
def ind (b : Bool) : Rat := if b then 1 else 0

/-- the rate suffix (substrate pattern followed by the external 1s) an isotopomer reaction is
    named after -/
def suffixOf (rx : Mxl.C05.LRxn) : Mxl.C05.Label := rx.name.lab.getD []

/-- positional enrichment of an isotopomer state: labelled amount / pool size; the external pool
    is fully labelled -/
def enrichOf (lv : List (Name × Nat)) (σ : Mxl.C05.LName → Rat) : Slot → Rat
  | .ext => 1
  | .pos c i => margOf σ c (Mxl.C05.labelsOf lv c) i / Mxl.C05.totalOf σ c (Mxl.C05.labelsOf lv c)

/-- the substrate positions of a reaction padded with `EXT` up to the product positions -/
def paddedSubs (lv : List (Name × Nat)) (r : Mxl.C05.BRxn) : List Slot :=
  slotsFlat lv (Mxl.C05.subsOf r)
    ++ List.replicate ((slotsFlat lv (Mxl.C05.prodsOf r)).length - (slotsFlat lv (Mxl.C05.subsOf r)).length) Slot.ext

/-- the product positions of a reaction padded with `EXT` up to the substrate positions -/
def paddedProds (lv : List (Name × Nat)) (r : Mxl.C05.BRxn) : List Slot :=
  slotsFlat lv (Mxl.C05.prodsOf r)
    ++ List.replicate ((slotsFlat lv (Mxl.C05.subsOf r)).length - (slotsFlat lv (Mxl.C05.prodsOf r)).length) Slot.ext

/-- the `isotopomers` dict of the linear mapper when every listed compound has positions -/
def isosOf (lv : List (Name × Nat)) : List (Name × List Slot) :=
  lv.map fun kn => (kn.1, (List.range kn.2).map (Slot.pos kn.1))

/-! ### numeric reading -/

def Slot.base : Slot → Name
  | .ext => "EXT"
  | .pos c _ => c

/-- `_relative_label_flux(label_percentage, v_ss)` with `args=[substrate, rxn_name]` -/
def LinRxn.rate (E : Slot → Rat) (v : Name → Rat) (rx : LinRxn) : Rat := E rx.substrate * v rx.rxn

/-- coefficient of variable `x` in a per-position reaction: `_neg_one_div(conc)` on the
    substrate, `_one_div(conc)` on the product (never on `EXT`) -/
def linCoef (C : Name → Rat) (rx : LinRxn) (x : Slot) : Rat :=
  (if rx.substrate = x ∧ x ≠ Slot.ext then -1 / C x.base else 0)
    + (if rx.product = x ∧ x ≠ Slot.ext then 1 / C x.base else 0)

/-- derivative of label position `x` in the linear label model -/
def linRhs (rxs : List LinRxn) (E : Slot → Rat) (v : Name → Rat) (C : Name → Rat) (x : Slot) : Rat :=
  (rxs.map fun rx => linCoef C rx x * rx.rate E v).sum

end Mxl.C16
