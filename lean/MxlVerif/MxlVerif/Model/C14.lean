/-
C14 — protocols.  Impl-faithful model of `make_protocol` (src/mxlpy/__init__.py:158-199),
`Simulator.simulate_protocol` and `Simulator.simulate_protocol_time_course` (simulator.py) on top of
the C04 machine, and the declarative reading of a protocol: an explicit list of
(update parameters; simulate) calls with cumulative-sum boundaries and, for the time-course
form, the requested points of each half-open step interval.
-/
import MxlVerif.Model.C04
namespace Mxl.C14
open Mxl.C04

/-- one protocol step as the user writes it: (duration in seconds, parameter values) -/
abbrev PStep := Rat × Upd
/-- the protocol DataFrame: rows (cumulative time, parameter values), in row order -/
abbrev Protocol := List (Rat × Upd)

/-! ### `make_protocol` -/

/-- `data[t] = pars` on a dict keyed by time: replace in place or append -/
def rowInsert : Protocol → Rat → Upd → Protocol
  | [], t, p => [(t, p)]
  | (t', p') :: rest, t, p => if t' == t then (t', p) :: rest else (t', p') :: rowInsert rest t p

def makeRows (t0 : Rat) (acc : Protocol) : List PStep → Protocol
  | [] => acc
  | (d, p) :: rest => makeRows (t0 + d) (rowInsert acc (t0 + d) p) rest

/-- column order of `pd.DataFrame(data).T`: parameter names in order of first appearance -/
def columns (acc : List Name) : List Upd → List Name
  | [] => acc
  | p :: rest => columns (acc ++ (p.map (·.1)).filter (fun k => !acc.contains k)) rest

/-- `row.dropna().to_dict()`: the row's values in column order; a column the step does not name holds NaN in the
    table and is skipped when the row is applied (`Gen.protocolSkipsUnnamed`, since the repair of F-C14-3) -/
def rowDict (cols : List Name) (p : Upd) : Upd :=
  cols.filterMap fun k => (p.lookup k).map fun v => (k, v)

def makeProtocol (steps : List PStep) : Protocol :=
  let rows := makeRows 0 [] steps
  let cols := columns [] (rows.map (·.2))
  rows.map fun r => (r.1, rowDict cols r.2)

/-- the steps as the table holds them: each step's values, listed in the table's column order -/
def normSteps (steps : List PStep) : List PStep :=
  let cols := columns [] (steps.map (·.2))
  steps.map fun s => (s.1, rowDict cols s.2)

def nodupNames : List Name → Bool
  | [] => true
  | k :: rest => !rest.contains k && nodupNames rest

/-- every step names the same (distinct) parameters in the same order (the documented use) -/
def uniform : List PStep → Bool
  | [] => true
  | (_, p) :: rest => nodupNames (p.map (·.1)) && rest.all fun s => s.2.map (·.1) == p.map (·.1)

/-! ### `simulate_protocol` -/

def protoLoop {σ} (S : Sys σ) (tStart : Rat) (steps : Option Nat) : Sim σ → Protocol → Out (Sim σ)
  | s, [] => (s, none)
  | s, (tEnd, p) :: rest =>
    match updPars s p with
    | (s1, some e) => (s1, some e)
    | (s1, none) =>
      match simulate S s1 (tStart + tEnd) steps with
      | (s2, some e) => (s2, some e)
      | (s2, none) => if s2.segs.isNone then (s2, none) else protoLoop S tStart steps s2 rest

def simulateProtocol {σ} (S : Sys σ) (s : Sim σ) (prot : Protocol) (tpps : Nat) : Out (Sim σ) :=
  if s.errors > 0 then (s, none) else
  match reached? s.segs with
  | .error e => (s, some e)
  | .ok tStart => protoLoop S tStart (some tpps) s prot

/-! ### `simulate_protocol_time_course` -/

def insertRat (x : Rat) : List Rat → List Rat
  | [] => [x]
  | y :: ys => if x ≤ y then x :: y :: ys else y :: insertRat x ys

def sortRat (l : List Rat) : List Rat := l.foldr insertRat []

/-- `protocol.index.join(pd.Index(time_points), how="outer")` for a protocol index without
    repeats: the requested points (repeats kept) and the boundaries not among them, sorted -/
def outerJoin (idx pts : List Rat) : List Rat :=
  sortRat (pts ++ idx.filter fun t => !pts.contains t)

/-- `full_time_points[(full_time_points > t_start) & (full_time_points <= t_end)]`; the two comparison
    operators are read from the source (`Gen.selectLo`, `Gen.selectHi`) -/
def select (full : List Rat) (lo hi : Rat) : List Rat :=
  full.filter fun t => Gen.selectLo.eval t lo && Gen.selectHi.eval t hi

def ptcLoop {σ} (S : Sys σ) (full : List Rat) : Rat → Sim σ → Protocol → Out (Sim σ)
  | _, s, [] => (s, none)
  | tStart, s, (tEnd, p) :: rest =>
    match updPars s p with
    | (s1, some e) => (s1, some e)
    | (s1, none) =>
      match timeCourse S s1 (select full tStart tEnd) with
      | (s2, some e) => (s2, some e)
      | (s2, none) => if s2.segs.isNone then (s2, none) else ptcLoop S full tEnd s2 rest

def simulateProtocolTC {σ} (S : Sys σ) (s : Sim σ) (prot : Protocol) (pts : List Rat) (rel : Bool) :
    Out (Sim σ) :=
  if s.errors > 0 then (s, none) else
  match reached? s.segs with
  | .error e => (s, some e)
  | .ok tStart =>
    -- `protocol.index + pd.Timedelta(...)`: an empty table has a RangeIndex, which cannot be shifted by a Timedelta
    if prot.isEmpty then (s, some .typeError) else
    let prot' := prot.map fun r => (r.1 + tStart, r.2)
    let pts' := if rel then pts.map (· + tStart) else pts
    match pts'.getLast? with
    | none => (s, some .indexError)
    | some last =>
      if Gen.protocolTCRefusal.eval last tStart then (s, some .valueError) else
      match prot'.getLast? with
      | none => (s, some .indexError)
      | some _ => ptcLoop S (outerJoin (prot'.map (·.1)) pts') tStart s prot'

/-! ### what a protocol means: explicit calls -/

/-- `[update p₁; simulate (T+d₁); update p₂; simulate (T+d₁+d₂); …]` -/
def expandProtocol (T : Rat) (n : Nat) : List PStep → List Op
  | [] => []
  | (d, p) :: rest => .updPars p :: .simulate (T + d) (some n) :: expandProtocol (T + d) n rest

/-- the points a step of the time-course form asks for: the requested points inside
    `(lo, hi]` and the boundary `hi`, sorted -/
def stepPoints (pts : List Rat) (lo hi : Rat) : List Rat :=
  sortRat ((pts.filter fun t => lo < t && t ≤ hi) ++ (if pts.contains hi then [] else [hi]))

def expandProtocolTC (pts : List Rat) (T : Rat) : List PStep → List Op
  | [] => []
  | (d, p) :: rest => .updPars p :: .timeCourse (stepPoints pts T (T + d)) :: expandProtocolTC pts (T + d) rest

/-- the specification machine's protocol calls: the explicit calls (each step's values as the table lists them:
    `normSteps`), run until one raises -/
def Spec.protocol {σ} (S : Sys σ) (a : Spec σ) (steps : List PStep) (n : Nat) : Out (Spec σ) :=
  if a.failed then (a, none) else Spec.runStop S a (expandProtocol a.now n (normSteps steps))

def Spec.protocolTC {σ} (S : Sys σ) (a : Spec σ) (steps : List PStep) (pts : List Rat) (rel : Bool) :
    Out (Spec σ) :=
  if a.failed then (a, none) else
  if steps.isEmpty then (a, some .typeError) else
  let pts' := if rel then pts.map (· + a.now) else pts
  match pts'.getLast? with
  | none => (a, some .indexError)
  | some last =>
    if last ≤ a.now then (a, some .valueError) else
    Spec.runStop S a (expandProtocolTC pts' a.now (normSteps steps))

/-! ### a solver failure INSIDE a protocol call -/

/-- which protocol step's solver call fails: `some 0` = this one, `some (k+1)` = the k-th after it, `none` = none -/
def decFail : Option Nat → Option Nat
  | some (k + 1) => some k
  | _ => none

/-- `simulate_protocol` when the solver fails in the step `k` (0-based) of the protocol: the loop body is the same; the
    step's `simulate` is the failing one -/
def protoLoopF {σ} (S : Sys σ) (tStart : Rat) (steps : Option Nat) : Option Nat → Sim σ → Protocol → Out (Sim σ)
  | _, s, [] => (s, none)
  | k, s, (tEnd, p) :: rest =>
    match updPars s p with
    | (s1, some e) => (s1, some e)
    | (s1, none) =>
      match (if k = some 0 then simulateF S s1 (tStart + tEnd) steps else simulate S s1 (tStart + tEnd) steps) with
      | (s2, some e) => (s2, some e)
      | (s2, none) => if s2.segs.isNone then (s2, none) else protoLoopF S tStart steps (decFail k) s2 rest

/-- `Simulator.simulate_protocol`, the solver failing in step `k` (0-based) -/
def simulateProtocolF {σ} (S : Sys σ) (s : Sim σ) (prot : Protocol) (tpps : Nat) (k : Nat) : Out (Sim σ) :=
  if s.errors > 0 then (s, none) else
  match reached? s.segs with
  | .error e => (s, some e)
  | .ok tStart => protoLoopF S tStart (some tpps) (some k) s prot

/-- the explicit calls, the `k`-th `simulate` being the failing one -/
def expandProtocolF (T : Rat) (n : Nat) : Option Nat → List PStep → List Op
  | _, [] => []
  | k, (d, p) :: rest =>
    .updPars p :: (if k = some 0 then .simulateF (T + d) (some n) else .simulate (T + d) (some n))
      :: expandProtocolF (T + d) n (decFail k) rest

/-- the specification machine's reading: the explicit calls with the failing one in place `k`; a first step that fails on
    a simulator WITHOUT results ends the call (`if self.variables is None: break`) -/
def Spec.protocolF {σ} (S : Sys σ) (a : Spec σ) (steps : List PStep) (n k : Nat) : Out (Spec σ) :=
  if a.failed then (a, none) else
  let ops := expandProtocolF a.now n (some k) (normSteps steps)
  Spec.runStop S a (if k == 0 && a.segs.isNone then ops.take 2 else ops)

/-- `simulate_protocol_time_course` when the solver fails in step `k` -/
def ptcLoopF {σ} (S : Sys σ) (full : List Rat) : Option Nat → Rat → Sim σ → Protocol → Out (Sim σ)
  | _, _, s, [] => (s, none)
  | k, tStart, s, (tEnd, p) :: rest =>
    match updPars s p with
    | (s1, some e) => (s1, some e)
    | (s1, none) =>
      match (if k = some 0 then timeCourseF S s1 (select full tStart tEnd)
             else timeCourse S s1 (select full tStart tEnd)) with
      | (s2, some e) => (s2, some e)
      | (s2, none) => if s2.segs.isNone then (s2, none) else ptcLoopF S full (decFail k) tEnd s2 rest

/-- the explicit time-course calls, the `k`-th being the failing one -/
def expandProtocolTCF (pts : List Rat) : Option Nat → Rat → List PStep → List Op
  | _, _, [] => []
  | k, T, (d, p) :: rest =>
    .updPars p :: (if k = some 0 then .timeCourseF (stepPoints pts T (T + d)) else .timeCourse (stepPoints pts T (T + d)))
      :: expandProtocolTCF pts (decFail k) (T + d) rest

/-- `Simulator.simulate_protocol_time_course`, the solver failing in step `k` (0-based) -/
def simulateProtocolTCF {σ} (S : Sys σ) (s : Sim σ) (prot : Protocol) (pts : List Rat) (rel : Bool) (k : Nat) :
    Out (Sim σ) :=
  if s.errors > 0 then (s, none) else
  match reached? s.segs with
  | .error e => (s, some e)
  | .ok tStart =>
    if prot.isEmpty then (s, some .typeError) else
    let prot' := prot.map fun r => (r.1 + tStart, r.2)
    let pts' := if rel then pts.map (· + tStart) else pts
    match pts'.getLast? with
    | none => (s, some .indexError)
    | some last =>
      if Gen.protocolTCRefusal.eval last tStart then (s, some .valueError) else
      match prot'.getLast? with
      | none => (s, some .indexError)
      | some _ => ptcLoopF S (outerJoin (prot'.map (·.1)) pts') (some k) tStart s prot'

/-- the same for the time-course form (after the same argument checks) -/
def Spec.protocolTCF {σ} (S : Sys σ) (a : Spec σ) (steps : List PStep) (pts : List Rat) (rel : Bool) (k : Nat) :
    Out (Spec σ) :=
  if a.failed then (a, none) else
  if steps.isEmpty then (a, some .typeError) else
  let pts' := if rel then pts.map (· + a.now) else pts
  match pts'.getLast? with
  | none => (a, some .indexError)
  | some last =>
    if last ≤ a.now then (a, some .valueError) else
    let ops := expandProtocolTCF pts' (some k) a.now (normSteps steps)
    Spec.runStop S a (if k == 0 && a.segs.isNone then ops.take 2 else ops)

/-! ### histories with protocol calls -/

inductive OpP where
  | basic (op : Op)
  | protocol (steps : List PStep) (tpps : Nat)
  | protocolTC (steps : List PStep) (pts : List Rat) (rel : Bool)
  | protocolF (steps : List PStep) (tpps : Nat) (k : Nat)                        -- the solver fails in step `k`
  | protocolTCF (steps : List PStep) (pts : List Rat) (rel : Bool) (k : Nat)
deriving Repr, DecidableEq

def stepP {σ} (S : Sys σ) (s : Sim σ) : OpP → Out (Sim σ)
  | .basic op => step S s op
  | .protocol steps n => simulateProtocol S s (makeProtocol steps) n
  | .protocolTC steps pts rel => simulateProtocolTC S s (makeProtocol steps) pts rel
  | .protocolF steps n k => simulateProtocolF S s (makeProtocol steps) n k
  | .protocolTCF steps pts rel k => simulateProtocolTCF S s (makeProtocol steps) pts rel k

def runP {σ} (S : Sys σ) (s : Sim σ) : List OpP → Sim σ × List (Option Exc)
  | [] => (s, [])
  | op :: rest =>
    let r := stepP S s op
    let rr := runP S r.1 rest
    (rr.1, r.2 :: rr.2)

def Spec.stepP {σ} (S : Sys σ) (a : Spec σ) : OpP → Out (Spec σ)
  | .basic op => Spec.step S a op
  | .protocol steps n => Spec.protocol S a steps n
  | .protocolTC steps pts rel => Spec.protocolTC S a steps pts rel
  | .protocolF steps n k => Spec.protocolF S a steps n k
  | .protocolTCF steps pts rel k => Spec.protocolTCF S a steps pts rel k

def Spec.runP {σ} (S : Sys σ) (a : Spec σ) : List OpP → Spec σ × List (Option Exc)
  | [] => (a, [])
  | op :: rest =>
    let r := Spec.stepP S a op
    let rr := Spec.runP S r.1 rest
    (rr.1, r.2 :: rr.2)

/-! ### the protocols the theorems cover -/

/-- positive durations (what `make_protocol` needs for its dict keyed by cumulative time not to merge or reorder
    steps).  Which parameters a step names, and in which order, is free. -/
def wfSteps (steps : List PStep) : Bool := steps.all (fun s => decide (0 < s.1))

/-- every protocol of the history is well-formed: positive durations (`wfSteps`), nothing else -/
def wfOp : OpP → Bool
  | .basic _ => true
  | .protocol steps _ => wfSteps steps
  | .protocolTC steps _ _ => wfSteps steps
  | .protocolF steps _ _ => wfSteps steps
  | .protocolTCF steps _ _ _ => wfSteps steps

end Mxl.C14
