/-
C12 — concrete models used by the `example`s of `Props/C12.lean` (bodies from the generated
rate-law library, i.e. from the current `mxlpy/fns.py`).
-/
import MxlVerif.Model.C12
import MxlVerif.Model.C12Sim
import MxlVerif.Generated.C12Lib
namespace Mxl.C12

/-- F-C12-2's witness: `d1 = add(d0, v1)` is declared before `d0 = mul(c0, v0)` -/
def witnessDeclOrder : SContent :=
  { vars := [("v0", .plain 1), ("v1", .plain 2)],
    pars := [("c0", .plain 2), ("c1", .plain 3)],
    derived := [("d1", ⟨["d0", "v1"], Lib.add⟩), ("d0", ⟨["c0", "v0"], Lib.mul⟩)],
    rxns := [("r0", ⟨⟨["d1", "c1"], Lib.mass_action_1s⟩, [("v0", .num (-1)), ("v1", .num 1)]⟩)] }

/-- the same declarations in dependency order -/
def witnessSorted : SContent :=
  { witnessDeclOrder with
    derived := [("d0", ⟨["c0", "v0"], Lib.mul⟩), ("d1", ⟨["d0", "v1"], Lib.add⟩)] }

/-- a Michaelis–Menten model with a state-dependent coefficient and a parameter-only derived
    quantity (static in the cache) -/
def witnessMM : SContent :=
  { vars := [("v0", .plain 1), ("v1", .plain 2)],
    pars := [("c0", .plain 2), ("c1", .plain 3), ("c2", .plain 5)],
    derived := [("d0", ⟨["c0", "c1"], Lib.mul⟩)],
    rxns := [("r0", ⟨⟨["v0", "d0", "c2"], Lib.michaelis_menten_1s⟩,
                [("v0", .num (-1)), ("v1", .dyn ⟨["v0", "c0"], Lib.mul⟩)]⟩),
             ("r1", ⟨⟨["v1", "c1"], Lib.mass_action_1s⟩, [("v1", .num (-1))]⟩)] }

/-- the same model after `update_reaction("r1", fn=mass_action_2s, args=["v1", "v0", "c1"])` -/
def witnessMMEdited : SContent :=
  { witnessMM with
    rxns := [("r0", ⟨⟨["v0", "d0", "c2"], Lib.michaelis_menten_1s⟩,
                [("v0", .num (-1)), ("v1", .dyn ⟨["v0", "c0"], Lib.mul⟩)]⟩),
             ("r1", ⟨⟨["v1", "v0", "c1"], Lib.mass_action_2s⟩, [("v1", .num (-1))]⟩)] }

/-- the glue before the repair of F-C12-5: parameter values watched, the model's cache object not -/
def glueBeforeWatch : Glue := { expectedGlue with watchesModel := false, storesCache := false, cacheFrom := "" }

/-- the glue with the two statements of the recompile branch in the other order (remember first, compile then) -/
def glueStoreFirst : Glue := { expectedGlue with compileBeforeStore := false }

/-- the glue with the remembered cache object read BEFORE compiling (a local read at the top of `jac_fn`, or the entry
    placed before `"fn"` in the dict): the conversion replaces the object, so what is remembered is never the current one -/
def glueReadBefore : Glue := { expectedGlue with cacheFrom := "model._cache (read before compiling)" }

/-- per operation of a history on a fresh Simulator: does the closure compile again at this point? -/
def histCompiles (g : Glue) (c : SContent) (ops : List SimOp) : Option (List Bool) :=
  match simInitG g c with
  | .error _ => none
  | .ok s0 =>
    let rec go (s : SimState) : List SimOp → Option (List Bool)
      | [] => some []
      | op :: rest =>
        match s.stepG g op with
        | .error _ => none
        | .ok (s', _) => (go s' rest).map ((match op with | .call _ _ => s.recompilesG g | _ => false) :: ·)
    go s0 ops

/-- what a fresh Simulator's `jac_fn` answers, as an output of the state machine -/
def outOf : Option (List (List Rat)) → SimOut
  | some J => .mat J
  | none => .noJac

/-- the outputs of a history on a fresh Simulator (`none` = something raised) -/
def histOuts (g : Glue) (c : SContent) (ops : List SimOp) : Option (List SimOut) :=
  match simInitG g c with
  | .ok s0 => (match runG g s0 ops with | .ok r => some r.2 | .error _ => none)
  | .error _ => none

/-- the matrix a fresh Simulator on `c` hands over at `t = 0`, state `xs` -/
def jacAt (c : SContent) (xs : List Rat) : Option (List (List Rat)) :=
  match callJac c 0 xs with
  | .ok o => o
  | .error _ => none

/-- the same model after `update_reaction("r1", fn=mass_action_1s, args=["v1", "time"])`: numerically fine, but
    `time` is no symbol of the symbolic model, so the conversion raises `KeyError` -/
def witnessMMTime : SContent :=
  { witnessMM with
    rxns := [("r0", ⟨⟨["v0", "d0", "c2"], Lib.michaelis_menten_1s⟩,
                [("v0", .num (-1)), ("v1", .dyn ⟨["v0", "c0"], Lib.mul⟩)]⟩),
             ("r1", ⟨⟨["v1", "time"], Lib.mass_action_1s⟩, [("v1", .num (-1))]⟩)] }

def isKeyError {α} (k : Name) : Except Err α → Bool
  | .error (.keyError k') => k == k'
  | _ => false

def isOk {α} : Except Err α → Bool
  | .ok _ => true
  | .error _ => false

end Mxl.C12
