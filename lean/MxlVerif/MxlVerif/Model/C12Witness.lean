/-
C12 — concrete models used by the `example`s of `Props/C12.lean` (bodies from the generated
rate-law library, i.e. from the current `mxlpy/fns.py`).
-/
import MxlVerif.Model.C12
import MxlVerif.Generated.C12Lib
namespace Mxl.C12

/-- F-C12-2's witness: `d1 = add(d0, v1)` is declared before `d0 = mul(c0, v0)` -/
def witnessDeclOrder : SContent :=
  { vars := [("v0", .plain 1), ("v1", .plain 2)],
    pars := [("c0", .plain 2), ("c1", .plain 3)],
    derived := [("d1", ⟨["d0", "v1"], Lib.add⟩), ("d0", ⟨["c0", "v0"], Lib.mul⟩)],
    rxns := [("r0", ⟨⟨["d1", "c1"], Lib.mass_action_1s⟩, [("v0", .num (-1)), ("v1", .num 1)]⟩)] }

/-- the same declarations in dependency order -/
def witnessSorted : SContent :=
  { witnessDeclOrder with
    derived := [("d0", ⟨["c0", "v0"], Lib.mul⟩), ("d1", ⟨["d0", "v1"], Lib.add⟩)] }

/-- a Michaelis–Menten model with a state-dependent coefficient and a parameter-only derived
    quantity (static in the cache) -/
def witnessMM : SContent :=
  { vars := [("v0", .plain 1), ("v1", .plain 2)],
    pars := [("c0", .plain 2), ("c1", .plain 3), ("c2", .plain 5)],
    derived := [("d0", ⟨["c0", "c1"], Lib.mul⟩)],
    rxns := [("r0", ⟨⟨["v0", "d0", "c2"], Lib.michaelis_menten_1s⟩,
                [("v0", .num (-1)), ("v1", .dyn ⟨["v0", "c0"], Lib.mul⟩)]⟩),
             ("r1", ⟨⟨["v1", "c1"], Lib.mass_action_1s⟩, [("v1", .num (-1))]⟩)] }

def isKeyError {α} (k : Name) : Except Err α → Bool
  | .error (.keyError k') => k == k'
  | _ => false

def isOk {α} : Except Err α → Bool
  | .ok _ => true
  | .error _ => false

end Mxl.C12
