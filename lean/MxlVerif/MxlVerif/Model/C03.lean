/-
C03 — the `Model` as a state machine over edit histories.

`State = { content, ids, cache }` after `mxlpy.model.Model` (`_variables … _data`, `_ids`, `_cache`).
`step` follows every public mutator of `model.py` statement by statement; whether a mutator clears the
cache before running (`@_invalidate_cache`), whether it touches `_ids` before or after its own container,
and how many rejecting checks precede its first write are NOT written here: they are read from
`Generated/C03Mutators.lean`, which `translate/c03.py` extracts from the current source on every run.

A mutator is a sequence of sub-steps `State → State × Except Err Unit`; the state reached at the raising
sub-step is kept (a Python exception does not roll anything back).

Not modelled: units / sources, data sets other than scalars.  (The function-arity checks of `_create_cache` are:
`buildCache`.)
-/
import MxlVerif.Model.Queries
import MxlVerif.Generated.C03Mutators
namespace Mxl.C03
open Mxl

abbrev Kind := String

/-- `State.sigs`: what `inspect.getfullargspec` reports for the function a component carries (by component
    name).  In Python the signature is part of the function object stored in the component; the shared `Content`
    keeps functions as opaque `List Rat → Rat`, so the signature is kept next to it.  A name without an entry
    stands for a function whose positional parameters fit its argument list. -/
structure State where
  content : Content := {}
  ids : List (Name × Kind) := []
  cache : Option Cache := none
  sigs : List (Name × Gen.Sig) := []
deriving Inhabited

abbrev Res := Except Err Unit

def ok (s : State) : State × Res := (s, .ok ())
def fail (s : State) (e : Err) : State × Res := (s, .error e)

/-- sequencing of sub-steps: stop at the first exception, keeping the state reached -/
def andThen (a : State × Res) (f : State → State × Res) : State × Res :=
  match a with
  | (s, .ok ()) => f s
  | (s, .error e) => (s, .error e)

/-- the `@_invalidate_cache` wrapper, as far as the source carries it -/
def inval (m : Gen.Mut) (s : State) : State :=
  if Gen.invalidates m then { s with cache := none } else s

/-- the `ctx=` literal of the `i`-th `_insert_id` call in the source of `m` (the value stored in `Model.ids`) -/
def ctxOf (m : Gen.Mut) (i : Nat) : Kind := (Gen.ctx m).getD i ""

/-! ### `_ids` -/

/-- `_insert_id` -/
def insertId (n : Name) (k : Kind) (s : State) : State × Res :=
  if n == "time" then fail s (.keyError "time")
  else if (omKeys s.ids).contains n then fail s (.nameError n)
  else ok { s with ids := s.ids ++ [(n, k)] }

/-- `_remove_id` (`del self._ids[name]`) -/
def removeId (n : Name) (s : State) : State × Res :=
  if (omKeys s.ids).contains n then ok { s with ids := omErase s.ids n }
  else fail s (.keyError n)

def insertIds (k : Kind) : List Name → State → State × Res
  | [], s => ok s
  | n :: rest, s => andThen (insertId n k s) (insertIds k rest)

def removeIds : List Name → State → State × Res
  | [], s => ok s
  | n :: rest, s => andThen (removeId n s) (removeIds rest)

/-- `_check_new_ids`: what `_insert_id` would raise for any of the names, inserting none -/
def checkNewIds (taken : List Name) : List Name → Except Err Unit
  | [] => .ok ()
  | n :: rest =>
    if n == "time" then .error (.keyError "time")
    else if taken.contains n then .error (.nameError n)
    else checkNewIds (n :: taken) rest

/-- `_check_known_names`: every name is a key of the container and is given once -/
def checkKnown (keys : List Name) (seen : List Name) : List Name → Except Err Unit
  | [] => .ok ()
  | n :: rest =>
    if !keys.contains n || seen.contains n then .error (.keyError n)
    else checkKnown keys (n :: seen) rest

/-! ### containers -/

/-- one of the six plain containers of `Content` -/
structure Lens (β : Type) where
  get : Content → List (Name × β)
  set : Content → List (Name × β) → Content

def varsL : Lens Val := ⟨(·.vars), fun c x => { c with vars := x }⟩
def parsL : Lens Val := ⟨(·.pars), fun c x => { c with pars := x }⟩
def derivedL : Lens Fn := ⟨(·.derived), fun c x => { c with derived := x }⟩
def readoutsL : Lens Fn := ⟨(·.readouts), fun c x => { c with readouts := x }⟩
def rxnsL : Lens Rxn := ⟨(·.rxns), fun c x => { c with rxns := x }⟩
def dataL : Lens Rat := ⟨(·.data), fun c x => { c with data := x }⟩

/-- `self._x[name] = v` -/
def putG {β} (L : Lens β) (n : Name) (v : β) (s : State) : State × Res :=
  ok { s with content := L.set s.content (omInsert (L.get s.content) n v) }

/-- `self._x.pop(name)` / `del self._x[name]` -/
def popG {β} (L : Lens β) (n : Name) (s : State) : State × Res :=
  if (omKeys (L.get s.content)).contains n then
    ok { s with content := L.set s.content (omErase (L.get s.content) n) }
  else fail s (.keyError n)

/-- body of `add_parameter`, `add_variable`, `add_derived`, `add_reaction`, `add_readout`, `add_data` -/
def addG {β} (m : Gen.Mut) (L : Lens β) (k : Kind) (n : Name) (v : β) (s : State) : State × Res :=
  match Gen.idOrder m with
  | .idFirst => andThen (insertId n k s) (putG L n v)
  | _ => andThen (putG L n v s) (insertId n k)

/-- body of the `remove_*` of the same containers -/
def removeG {β} (m : Gen.Mut) (L : Lens β) (n : Name) (s : State) : State × Res :=
  match Gen.idOrder m with
  | .containerFirst => andThen (popG L n s) (removeId n)
  | _ => andThen (removeId n s) (popG L n)

/-! ### plural forms: the elements in order, stopping at the first exception -/

def foldOps {α} (f : α → State → State × Res) : List α → State → State × Res
  | [], s => ok s
  | a :: rest, s => andThen (f a s) (foldOps f rest)

/-- a plural form: (as far as the source has it) validate all names first, then the elements in order -/
def pluralOp {α} (m : Gen.Mut) (chk : State → Except Err Unit) (f : α → State → State × Res)
    (l : List α) (s : State) : State × Res :=
  let s := inval m s
  match (if Gen.checksBeforeWrites m ≥ 1 then chk s else .ok ()) with
  | .error e => fail s e
  | .ok () => foldOps f l s

/-! ### parameters -/

def addParameter (n : Name) (v : Val) (s : State) : State × Res :=
  addG .add_parameter parsL (ctxOf .add_parameter 0) n v (inval .add_parameter s)

def removeParameter (n : Name) (s : State) : State × Res :=
  removeG .remove_parameter parsL n (inval .remove_parameter s)

def updateParameter (n : Name) (v : Option Val) (s : State) : State × Res :=
  let s := inval .update_parameter s
  if (omKeys s.content.pars).contains n then
    match v with
    | none => ok s
    | some v => putG parsL n v s
  else fail s (.keyError n)

/-- (name, `len(el.args)`) of every function the sanity-check loop of `_create_cache` looks at, in the order of
    its `it.chain(initial_assignments.items(), self._derived.items(), self._reactions.items(),
    self._readouts.items())` — the operands are read from the source (`Gen.arityChecked`) -/
def fnArities (c : Content) : List (Name × Nat) :=
  Gen.arityChecked.flatMap fun d =>
    if d == "initial_assignments" then
      (omUnion (iaOf c.vars) (iaOf c.pars)).map fun kv => (kv.1, kv.2.args.length)
    else if d == "_derived" then c.derived.map fun kv => (kv.1, kv.2.args.length)
    else if d == "_reactions" then c.rxns.map fun kv => (kv.1, kv.2.rate.args.length)
    else if d == "_readouts" then c.readouts.map fun kv => (kv.1, kv.2.args.length)
    else []

/-- `all(_check_function_arity(el.fn, len(el.args)) …)` -/
def arityOK (sigs : List (Name × Gen.Sig)) (c : Content) : Bool :=
  (fnArities c).all fun na =>
    match sigs.lookup na.1 with
    | some sg => Gen.checkFunctionArity sg na.2
    | none => true

/-- `_create_cache`: the sanity checks (`ArityMismatchError`), then the shared core's cache construction -/
def buildCache (sigs : List (Name × Gen.Sig)) (c : Content) : Except Err Cache :=
  if arityOK sigs c then createCache c else .error (.other Gen.arityError)

/-- `if (cache := self._cache) is None: cache = self._create_cache()` -/
def ensureCache (s : State) : State × Except Err Cache :=
  match s.cache with
  | some c => (s, .ok c)
  | none =>
    match buildCache s.sigs s.content with
    | .ok c => ({ s with cache := some c }, .ok c)
    | .error e => (s, .error e)

/-- `_scaled_value`: the parameter's current value (for an assignment-defined one: its cached value)
    times the factor; only the cache may be filled -/
def scaledValue (n : Name) (f : Rat) (s : State) : State × Except Err Rat :=
  match s.content.pars.lookup n with
  | none => (s, .error (.keyError n))
  | some (.plain old) => (s, .ok (old * f))
  | some (.ia _) =>
    match ensureCache s with
    | (s1, .error e) => (s1, .error e)
    | (s1, .ok cache) =>
      match cache.allPars.lookup n with
      | none => (s1, .error (.keyError n))
      | some v => (s1, .ok (v * f))

def scaleParameter (n : Name) (f : Rat) (s : State) : State × Res :=
  let s := inval .scale_parameter s
  match scaledValue n f s with
  | (s1, .error e) => (s1, .error e)
  | (s1, .ok v) => updateParameter n (some (.plain v)) s1

def addParameters (l : List (Name × Val)) (s : State) : State × Res :=
  pluralOp .add_parameters (fun s => checkNewIds (omKeys s.ids) (l.map (·.1)))
    (fun kv => addParameter kv.1 kv.2) l s

def removeParameters (l : List Name) (s : State) : State × Res :=
  pluralOp .remove_parameters (fun s => checkKnown (omKeys s.content.pars) [] l) removeParameter l s

def updateParameters (l : List (Name × Val)) (s : State) : State × Res :=
  pluralOp .update_parameters (fun s => checkKnown (omKeys s.content.pars) [] (l.map (·.1)))
    (fun kv => updateParameter kv.1 (some kv.2)) l s

/-- the dict comprehension of `scale_parameters`: every `_scaled_value`, in order -/
def scaledValues : List (Name × Rat) → State → State × Except Err (List (Name × Val))
  | [], s => (s, .ok [])
  | (n, f) :: rest, s =>
    match scaledValue n f s with
    | (s1, .error e) => (s1, .error e)
    | (s1, .ok v) =>
      match scaledValues rest s1 with
      | (s2, .error e) => (s2, .error e)
      | (s2, .ok vs) => (s2, .ok ((n, .plain v) :: vs))

def scaleParameters (l : List (Name × Rat)) (s : State) : State × Res :=
  let s := inval .scale_parameters s
  if Gen.delegates .scale_parameters = [.update_parameters] then
    match scaledValues l s with
    | (s1, .error e) => (s1, .error e)
    | (s1, .ok vs) => updateParameters vs s1
  else foldOps (fun kv => scaleParameter kv.1 kv.2) l s

/-! ### variables -/

def addVariable (n : Name) (v : Val) (s : State) : State × Res :=
  addG .add_variable varsL (ctxOf .add_variable 0) n v (inval .add_variable s)

/-- the `remove_stoichiometries` loops of `remove_variable` -/
def stripStoich (n : Name) (c : Content) : Content :=
  { c with
    rxns := c.rxns.map (fun kv => (kv.1, { kv.2 with stoich := omErase kv.2.stoich n })),
    surs := c.surs.map (fun kv =>
      (kv.1, { kv.2 with stoich := kv.2.stoich.map (fun fs => (fs.1, omErase fs.2 n)) })) }

def stripStep (n : Name) (rs : Bool) (s : State) : State × Res :=
  ok (if rs then { s with content := stripStoich n s.content } else s)

def removeVariable (n : Name) (rs : Bool) (s : State) : State × Res :=
  let s := inval .remove_variable s
  match Gen.firstWrite .remove_variable with
  | .component => andThen (stripStep n rs s) (removeG .remove_variable varsL n)
  | _ => andThen (removeG .remove_variable varsL n s) (stripStep n rs)

def updateVariable (n : Name) (v : Val) (s : State) : State × Res :=
  let s := inval .update_variable s
  if (omKeys s.content.vars).contains n then putG varsL n v s
  else fail s (.keyError n)

def makeVariableStatic (n : Name) (v : Option Rat) (s : State) : State × Res :=
  let s := inval .make_variable_static s
  match s.content.vars.lookup n with
  | none => fail s (.keyError n)
  | some iv =>
    let value : Val := match v with | none => iv | some r => .plain r
    andThen (removeVariable n true s) (addParameter n value)

def addVariables (l : List (Name × Val)) (s : State) : State × Res :=
  pluralOp .add_variables (fun s => checkNewIds (omKeys s.ids) (l.map (·.1)))
    (fun kv => addVariable kv.1 kv.2) l s

def removeVariables (l : List Name) (rs : Bool) (s : State) : State × Res :=
  pluralOp .remove_variables (fun s => checkKnown (omKeys s.content.vars) [] l)
    (fun n => removeVariable n rs) l s

def updateVariables (l : List (Name × Val)) (s : State) : State × Res :=
  pluralOp .update_variables (fun s => checkKnown (omKeys s.content.vars) [] (l.map (·.1)))
    (fun kv => updateVariable kv.1 kv.2) l s

/-! ### `make_parameter_dynamic` -/

/-- `surrogate.stoichiometries.get(rxn_name)` is truthy -/
def surHasFlux (f : Name) (su : Sur) : Bool :=
  match su.stoich.lookup f with
  | some st => !st.isEmpty
  | none => false

def isFlux (c : Content) (f : Name) : Bool :=
  (omKeys c.rxns).contains f || c.surs.any (fun kv => surHasFlux f kv.2)

/-- `stoich[name] = value` on the flux `f` of a surrogate -/
def setSurStoich (n f : Name) (v : Rat) (su : Sur) : Sur :=
  let inner := omInsert ((su.stoich.lookup f).getD []) n (Coef.num v)
  { su with stoich := omInsert su.stoich f inner }

/-- one round of the `for rxn_name, value in stoichiometries.items()` loop -/
def setStoich (n : Name) (f : Name) (v : Rat) (s : State) : State × Res :=
  let c := s.content
  match c.rxns.lookup f with
  | some r =>
    ok { s with content := { c with rxns := omInsert c.rxns f { r with stoich := omInsert r.stoich n (.num v) } } }
  | none =>
    if c.surs.any (fun kv => surHasFlux f kv.2) then
      ok { s with content := { c with surs := c.surs.map (fun kv =>
        if surHasFlux f kv.2 then (kv.1, setSurStoich n f v kv.2) else kv) } }
    else fail s (.keyError f)

def setStoichs (n : Name) : List (Name × Rat) → State → State × Res
  | [], s => ok s
  | (f, v) :: rest, s => andThen (setStoich n f v s) (setStoichs n rest)

def makeParameterDynamic (n : Name) (iv : Option Rat) (st : Option (List (Name × Rat)))
    (s : State) : State × Res :=
  let s := inval .make_parameter_dynamic s
  match s.content.pars.lookup n with
  | none => fail s (.keyError n)
  | some pv =>
    let value : Val := match iv with | none => pv | some r => .plain r
    let fl := st.getD []
    if decide (Gen.checksBeforeWrites .make_parameter_dynamic ≥ 1) &&
        !(fl.all (fun fv => isFlux s.content fv.1)) then
      fail s (.keyError "reaction not found")
    else
      andThen (removeParameter n s) fun s =>
        andThen (addVariable n value s) (setStoichs n fl)

/-! ### derived, reactions, readouts, data -/

def addDerived (n : Name) (f : Fn) (s : State) : State × Res :=
  addG .add_derived derivedL (ctxOf .add_derived 0) n f (inval .add_derived s)

def updateDerived (n : Name) (fn : Option (List Rat → Rat)) (args : Option (List Name))
    (s : State) : State × Res :=
  let s := inval .update_derived s
  match s.content.derived.lookup n with
  | none => fail s (.keyError n)
  | some d => putG derivedL n { fn := fn.getD d.fn, args := args.getD d.args } s

def removeDerived (n : Name) (s : State) : State × Res :=
  removeG .remove_derived derivedL n (inval .remove_derived s)

def addReaction (n : Name) (r : Rxn) (s : State) : State × Res :=
  addG .add_reaction rxnsL (ctxOf .add_reaction 0) n r (inval .add_reaction s)

def updateReaction (n : Name) (fn : Option (List Rat → Rat)) (args : Option (List Name))
    (st : Option (List (Name × Coef))) (s : State) : State × Res :=
  let s := inval .update_reaction s
  match s.content.rxns.lookup n with
  | none => fail s (.keyError n)
  | some r =>
    putG rxnsL n { rate := { fn := fn.getD r.rate.fn, args := args.getD r.rate.args },
                   stoich := st.getD r.stoich } s

def removeReaction (n : Name) (s : State) : State × Res :=
  removeG .remove_reaction rxnsL n (inval .remove_reaction s)

def addReadout (n : Name) (f : Fn) (s : State) : State × Res :=
  addG .add_readout readoutsL (ctxOf .add_readout 0) n f (inval .add_readout s)

def removeReadout (n : Name) (s : State) : State × Res :=
  removeG .remove_readout readoutsL n (inval .remove_readout s)

def addData (n : Name) (v : Rat) (s : State) : State × Res :=
  addG .add_data dataL (ctxOf .add_data 0) n v (inval .add_data s)

def updateData (n : Name) (v : Rat) (s : State) : State × Res :=
  let s := inval .update_data s
  if decide (Gen.checksBeforeWrites .update_data ≥ 1) && !(omKeys s.content.data).contains n then
    fail s (.keyError n)
  else putG dataL n v s

def removeData (n : Name) (s : State) : State × Res :=
  removeG .remove_data dataL n (inval .remove_data s)

/-! ### surrogates -/

def setSurs (c : Content) (x : List (Name × Sur)) : Content := { c with surs := x }

def putSur (n : Name) (su : Sur) (s : State) : State × Res :=
  ok { s with content := setSurs s.content (omInsert s.content.surs n su) }

def addSurrogate (n : Name) (su : Sur) (s : State) : State × Res :=
  let s := inval .add_surrogate s
  let chk := if Gen.checksBeforeWrites .add_surrogate ≥ 1 then checkNewIds (omKeys s.ids) (n :: su.outs)
             else .ok ()
  match chk with
  | .error e => fail s e
  | .ok () =>
    andThen (insertId n (ctxOf .add_surrogate 0) s) fun s =>
      andThen (insertIds (ctxOf .add_surrogate 1) su.outs s) (putSur n su)

/-- the keyword arguments of `update_surrogate` -/
structure SurUpd where
  sur : Option Sur := none
  args : Option (List Name) := none
  outs : Option (List Name) := none
  stoich : Option (List (Name × List (Name × Coef))) := none
deriving Inhabited

def SurUpd.apply (u : SurUpd) (old : Sur) : Sur :=
  let base := u.sur.getD old
  { base with args := u.args.getD base.args, outs := u.outs.getD base.outs,
              stoich := u.stoich.getD base.stoich }

/-- the passed object after `if args is not None: surrogate.args = args` … (keyword arguments win) -/
def SurUpd.over (u : SurUpd) (su : Sur) : Sur :=
  { su with args := u.args.getD su.args, outs := u.outs.getD su.outs, stoich := u.stoich.getD su.stoich }

/-- `add_surrogate(name, surrogate, args=…, outputs=…, stoichiometries=…)`: the up-front check looks at
    `outputs` when given, else at the object's own outputs — i.e. at the outputs of the overridden object, which is
    what is registered and stored -/
def addSurrogateKw (n : Name) (su : Sur) (u : SurUpd) (s : State) : State × Res :=
  addSurrogate n (u.over su) s

def updateSurrogate (n : Name) (u : SurUpd) (s : State) : State × Res :=
  let s := inval .update_surrogate s
  match s.content.surs.lookup n with
  | none => fail s (.keyError n)
  | some old =>
    let new := u.apply old
    let chk := if Gen.checksBeforeWrites .update_surrogate ≥ 2 then
        checkNewIds ((omKeys s.ids).filter (fun i => !old.outs.contains i)) new.outs
      else .ok ()
    match chk with
    | .error e => fail s e
    | .ok () =>
      andThen (removeIds old.outs s) fun s =>
        andThen (insertIds (ctxOf .update_surrogate 0) new.outs s) (putSur n new)

def popSur (n : Name) (s : State) : State × Res :=
  if (omKeys s.content.surs).contains n then
    ok { s with content := setSurs s.content (omErase s.content.surs n) }
  else fail s (.keyError n)

def removeSurrogate (n : Name) (s : State) : State × Res :=
  let s := inval .remove_surrogate s
  let outs := ((s.content.surs.lookup n).map (·.outs)).getD []
  match Gen.idOrder .remove_surrogate with
  | .containerFirst =>
    andThen (popSur n s) fun s => andThen (removeId n s) (removeIds outs)
  | _ =>
    andThen (removeId n s) fun s => andThen (popSur n s) (removeIds outs)

/-! ### ops -/

inductive Op where
  | add_parameter (n : Name) (v : Val)
  | remove_parameter (n : Name)
  | update_parameter (n : Name) (v : Option Val)
  | scale_parameter (n : Name) (f : Rat)
  | make_parameter_dynamic (n : Name) (iv : Option Rat) (st : Option (List (Name × Rat)))
  | add_parameters (l : List (Name × Val))
  | remove_parameters (l : List Name)
  | update_parameters (l : List (Name × Val))
  | scale_parameters (l : List (Name × Rat))
  | add_variable (n : Name) (v : Val)
  | remove_variable (n : Name) (rs : Bool)
  | update_variable (n : Name) (v : Val)
  | make_variable_static (n : Name) (v : Option Rat)
  | add_variables (l : List (Name × Val))
  | remove_variables (l : List Name) (rs : Bool)
  | update_variables (l : List (Name × Val))
  | add_derived (n : Name) (f : Fn)
  | update_derived (n : Name) (fn : Option (List Rat → Rat)) (args : Option (List Name))
  | remove_derived (n : Name)
  | add_reaction (n : Name) (r : Rxn)
  | update_reaction (n : Name) (fn : Option (List Rat → Rat)) (args : Option (List Name))
      (st : Option (List (Name × Coef)))
  | remove_reaction (n : Name)
  | add_readout (n : Name) (f : Fn)
  | remove_readout (n : Name)
  | add_surrogate (n : Name) (su : Sur)
  | add_surrogate_kw (n : Name) (su : Sur) (u : SurUpd)
  | update_surrogate (n : Name) (u : SurUpd)
  | remove_surrogate (n : Name)
  | add_data (n : Name) (v : Rat)
  | update_data (n : Name) (v : Rat)
  | remove_data (n : Name)

/-- the source method an op stands for -/
def Op.mut : Op → Gen.Mut
  | .add_parameter .. => .add_parameter
  | .remove_parameter .. => .remove_parameter
  | .update_parameter .. => .update_parameter
  | .scale_parameter .. => .scale_parameter
  | .make_parameter_dynamic .. => .make_parameter_dynamic
  | .add_parameters .. => .add_parameters
  | .remove_parameters .. => .remove_parameters
  | .update_parameters .. => .update_parameters
  | .scale_parameters .. => .scale_parameters
  | .add_variable .. => .add_variable
  | .remove_variable .. => .remove_variable
  | .update_variable .. => .update_variable
  | .make_variable_static .. => .make_variable_static
  | .add_variables .. => .add_variables
  | .remove_variables .. => .remove_variables
  | .update_variables .. => .update_variables
  | .add_derived .. => .add_derived
  | .update_derived .. => .update_derived
  | .remove_derived .. => .remove_derived
  | .add_reaction .. => .add_reaction
  | .update_reaction .. => .update_reaction
  | .remove_reaction .. => .remove_reaction
  | .add_readout .. => .add_readout
  | .remove_readout .. => .remove_readout
  | .add_surrogate .. => .add_surrogate
  | .add_surrogate_kw .. => .add_surrogate
  | .update_surrogate .. => .update_surrogate
  | .remove_surrogate .. => .remove_surrogate
  | .add_data .. => .add_data
  | .update_data .. => .update_data
  | .remove_data .. => .remove_data

/-- one public mutator call -/
def step (s : State) : Op → State × Res
  | .add_parameter n v => addParameter n v s
  | .remove_parameter n => removeParameter n s
  | .update_parameter n v => updateParameter n v s
  | .scale_parameter n f => scaleParameter n f s
  | .make_parameter_dynamic n iv st => makeParameterDynamic n iv st s
  | .add_parameters l => addParameters l s
  | .remove_parameters l => removeParameters l s
  | .update_parameters l => updateParameters l s
  | .scale_parameters l => scaleParameters l s
  | .add_variable n v => addVariable n v s
  | .remove_variable n rs => removeVariable n rs s
  | .update_variable n v => updateVariable n v s
  | .make_variable_static n v => makeVariableStatic n v s
  | .add_variables l => addVariables l s
  | .remove_variables l rs => removeVariables l rs s
  | .update_variables l => updateVariables l s
  | .add_derived n f => addDerived n f s
  | .update_derived n fn args => updateDerived n fn args s
  | .remove_derived n => removeDerived n s
  | .add_reaction n r => addReaction n r s
  | .update_reaction n fn args st => updateReaction n fn args st s
  | .remove_reaction n => removeReaction n s
  | .add_readout n f => addReadout n f s
  | .remove_readout n => removeReadout n s
  | .add_surrogate n su => addSurrogate n su s
  | .add_surrogate_kw n su u => addSurrogateKw n su u s
  | .update_surrogate n u => updateSurrogate n u s
  | .remove_surrogate n => removeSurrogate n s
  | .add_data n v => addData n v s
  | .update_data n v => updateData n v s
  | .remove_data n => removeData n s

/-! ### queries -/

/-- the nine `include_*` flags of `get_arg_names` / `get_args` / `get_args_time_course` -/
structure Flags where
  time : Bool := true
  vars : Bool := true
  pars : Bool := true
  dpars : Bool := true
  dvars : Bool := true
  rxns : Bool := true
  survars : Bool := true
  surfluxes : Bool := true
  readouts : Bool := false
deriving Inhabited, DecidableEq

/-- the keyword arguments `get_fluxes` / `get_fluxes_time_course` pass on -/
def fluxFlags : Flags :=
  { time := false, vars := false, pars := false, dpars := false, dvars := false, rxns := true,
    survars := false, surfluxes := true, readouts := false }

/-- the getters that only list names of the current content (no cache involved) -/
inductive NameQ where
  | vars | pars | rxns | readouts
  | surOuts (includeFluxes : Bool)
  | surRxns
  | unusedPars
  /-- keys of `get_raw_variables()` … `get_raw_surrogates()` (deep copies of the containers) -/
  | rawVars | rawPars | rawDerived | rawRxns | rawReadouts | rawSurs

inductive Query where
  | init
  | pvals
  | classes
  | args (vals : Option (List Rat)) (t : Rat) (fl : Flags)
  | rhs (vals : Option (List Rat)) (t : Rat)
  | fluxes (vals : Option (List Rat)) (t : Rat)
  | call (t : Rat) (vals : List Rat)
  | stoich (vals : Option (List Rat)) (t : Rat)
  | stoichvar (x : Name) (vals : Option (List Rat)) (t : Rat)
  | names (q : NameQ)
  | argNames (fl : Flags)
  | rawStoich (x : Name)
  | argsTC (rows : List (Rat × List Rat)) (fl : Flags)
  | fluxesTC (rows : List (Rat × List Rat))
  | rhsTC (rows : List (Rat × List Rat))
  | eqFresh

inductive Ans where
  | assoc (l : List (Name × Rat))
  | rats (l : List Rat)
  | classes (pars vars : List Name)
  | table (l : List (Name × List (Name × Rat)))
  | names (l : List Name)
  | coefs (l : List (Name × Coef))
  | rows (l : List (List (Name × Rat)))
  | bool (b : Bool)

def cycle (vals : List Rat) : Nat → List Name → List (Name × Rat)
  | _, [] => []
  | i, k :: ks => (k, vals.getD (i % vals.length) 0) :: cycle vals (i + 1) ks

/-- the `variables` argument: given values cycled over the current variables, or the cached initial conditions -/
def stateOf (c : Content) (cache : Cache) (vals : Option (List Rat)) : List (Name × Rat) :=
  match vals with
  | none => cache.init
  | some v => cycle v 0 (omKeys c.vars)

/-- `get_surrogate_output_names(include_fluxes=…)` -/
def surOutNames (c : Content) (includeFluxes : Bool) : List Name :=
  if includeFluxes then c.surs.flatMap (fun kv => kv.2.outs)
  else c.surs.flatMap (fun kv => kv.2.outs.filter (fun o => !(omKeys kv.2.stoich).contains o))

/-- `get_surrogate_reaction_names` -/
def surRxnNames (c : Content) : List Name := c.surs.flatMap (fun kv => omKeys kv.2.stoich)

/-- `get_arg_names(include_…)`, in the order of the method body; `ap` = keys of `cache.all_parameter_values`
    (only looked at when one of the two derived flags is set) -/
def argNamesOf (c : Content) (ap : List Name) (fl : Flags) : List Name :=
  (if fl.time then ["time"] else [])
    ++ (if fl.vars then omKeys c.vars else [])
    ++ (if fl.pars then omKeys c.pars else [])
    ++ (if fl.dvars then (omKeys c.derived).filter (fun k => !ap.contains k) else [])
    ++ (if fl.dpars then (omKeys c.derived).filter (fun k => ap.contains k) else [])
    ++ (if fl.rxns then omKeys c.rxns else [])
    ++ (if fl.survars then surOutNames c false else [])
    ++ (if fl.surfluxes then surRxnNames c else [])
    ++ (if fl.readouts then omKeys c.readouts else [])

def argNames (c : Content) (cache : Cache) (fl : Flags) : List Name :=
  argNamesOf c (omKeys cache.allPars) fl

/-- `get_unused_parameters`: parameters named by no derived quantity, reaction or surrogate (initial
    assignments, readouts and computed coefficients are not looked at — as in the code) -/
def unusedPars (c : Content) : List Name :=
  let used := c.derived.flatMap (fun kv => kv.2.args) ++ c.rxns.flatMap (fun kv => kv.2.rate.args)
    ++ c.surs.flatMap (fun kv => kv.2.args)
  (omKeys c.pars).filter (fun p => !used.contains p)

/-- `get_raw_stoichiometries_of_variable`: reactions only; `stoichs[variable]` raises for an unknown name -/
def rawStoichOf (c : Content) (x : Name) : Except Err (List (Name × Coef)) :=
  let row := c.rxns.filterMap (fun kv => (kv.2.stoich.lookup x).map (fun f => (kv.1, f)))
  if c.rxns.any (fun kv => (omKeys kv.2.stoich).contains x) then .ok row else .error (.keyError x)

/-- `_get_args` including the final `args.pop(data)`: what `get_args`, `get_right_hand_side` and `__call__`
    all work with.  (Since the repair of F-C01-2 state-dependent coefficients are evaluated over
    `args | data`, so the derivative entry points hand `dep ++ c.data` to `rhsFromArgs2` as the coefficients'
    environment — and `dep` alone for the fluxes.) -/
def rawArgs (c : Content) (cache : Cache) (vars : List (Name × Rat)) (t : Rat) : Except Err Env := do
  let env ← getArgsEnv c cache vars t
  pure (env.filter (fun kv => !(omKeys c.data).contains kv.1))

/-- body of `get_args` / one row of `_get_args_time_course` followed by the `.loc[names]` selection -/
def argsRow (c : Content) (cache : Cache) (vars : List (Name × Rat)) (t : Rat) (fl : Flags) :
    Except Err (List (Name × Rat)) := do
  let raw ← rawArgs c cache vars t
  -- `scope = self._data | raw; ro.calculate_inpl(name, scope); raw[name] = scope[name]` (readouts may name data sets
  -- since the repair `fix: readouts can name data sets`): the shared `Mxl.evalReadouts`
  -- … `for name in self._sorted_readouts(set(scope))` (since `fix: readouts are evaluated in dependency order`): the
  -- shared `Mxl.sortedReadouts` — a readout naming an unknown name is a MissingDependenciesError, a cycle a
  -- CircularDependencyError
  let raw ← if fl.readouts then do
      let ros ← Mxl.sortedReadouts c (raw ++ c.data)
      Mxl.evalReadouts ros (raw ++ c.data) raw
    else pure raw
  (argNames c cache fl).mapM fun k => do pure (k, ← Env.get raw k)

/-- the public `get_args(variables, time)` table, then `self._data | args` as lookup environment for
    computed coefficients (`get_stoichiometries`, `get_stoichiometries_of_variable`) -/
def coefArgs (c : Content) (cache : Cache) (vals : Option (List Rat)) (t : Rat) : Except Err Env := do
  let l ← argsRow c cache (stateOf c cache vals) t {}
  pure (l ++ c.data)

/-- `stoich[rxn] = derived.fn(...)` for one variable's computed coefficients -/
def overlayRow (env : Env) : List (Name × Fn) → List (Name × Rat) → Except Err (List (Name × Rat))
  | [], row => pure row
  | (rxn, f) :: rest, row => do
    let v ← f.calc env
    overlayRow env rest (omInsert row rxn v)

/-- the second loop of `_get_right_hand_side` / `__call__` for one variable: the computed coefficient is evaluated on
    `coef` (= `self._data | args`), the FLUX is read from `args` — the table `_get_args` returned, from which the data
    sets were popped (a flux name that only a data set carries is a KeyError) -/
def accDyn2 (args coef : Env) (k : Name) : List (Name × Fn) → List (Name × Rat) → Except Err (List (Name × Rat))
  | [], dxdt => pure dxdt
  | (flux, dv) :: rest, dxdt => do
    let n ← dv.calc coef
    let fv ← args.get flux
    let dxdt' ← accumulate dxdt k (n * fv)
    accDyn2 args coef k rest dxdt'

def accDynAll2 (args coef : Env) : List (Name × List (Name × Fn)) → List (Name × Rat) →
    Except Err (List (Name × Rat))
  | [], dxdt => pure dxdt
  | (k, st) :: rest, dxdt => do
    let dxdt' ← accDyn2 args coef k st dxdt
    accDynAll2 args coef rest dxdt'

/-- `_get_right_hand_side(args=…)` / the tail of `__call__`: static coefficients times `args[flux]`, then the computed
    ones (the shared core's `rhsFromArgs` with the two environments kept apart) -/
def rhsFromArgs2 (cache : Cache) (varNames : List Name) (args coef : Env) : Except Err (List (Name × Rat)) := do
  let z := varNames.map fun k => (k, (0 : Rat))
  let d1 ← accStaticAll args cache.stoich z
  accDynAll2 args coef cache.dynStoich d1

/-- does the entry point go through `if (cache := self._cache) is None: cache = self._create_cache()`? -/
def Query.needsCache : Query → Bool
  | .names _ => false
  | .rawStoich _ => false
  | .argNames fl => fl.dvars || fl.dpars
  | .eqFresh => false
  | _ => true

/-- the query entry points, given the cache they read -/
def answer (c : Content) (cache : Cache) : Query → Except Err Ans
  | .init => .ok (.assoc cache.init)
  | .pvals => .ok (.assoc cache.basePars)
  | .classes =>
    let ap := omKeys cache.allPars
    .ok (.classes ((omKeys c.derived).filter (fun k => ap.contains k))
                  ((omKeys c.derived).filter (fun k => !ap.contains k)))
  | .args vals t fl => do
    let l ← argsRow c cache (stateOf c cache vals) t fl
    pure (.assoc l)
  | .fluxes vals t => do
    let l ← argsRow c cache (stateOf c cache vals) t fluxFlags
    pure (.assoc l)
  | .rhs vals t => do
    let dep ← rawArgs c cache (stateOf c cache vals) t
    let d ← rhsFromArgs2 cache (omKeys c.vars) dep (dep ++ c.data)
    pure (.assoc d)
  | .call t vals =>
    let xs := (cycle vals 0 (omKeys c.vars)).map (·.2)
    if xs.length != cache.varNames.length then
      .error (.valueError "zip() argument lengths differ")
    else do
      let dep ← rawArgs c cache (cache.varNames.zip xs) t
      let dxdt ← rhsFromArgs2 cache cache.varNames dep (dep ++ c.data)
      let l ← cache.varNames.mapM fun k => Env.get dxdt k
      pure (.rats l)
  | .stoich vals t => do
    let env ← coefArgs c cache vals t
    let tbl ← overlayDynAll env cache.dynStoich cache.stoich
    pure (.table tbl)
  | .stoichvar x vals t => do
    let env ← coefArgs c cache vals t
    match cache.stoich.lookup x with
    | none => .error (.keyError x)
    | some row =>
      let r ← overlayRow env ((cache.dynStoich.lookup x).getD []) row
      pure (.assoc r)
  | .names .vars => .ok (.names (omKeys c.vars))
  | .names .pars => .ok (.names (omKeys c.pars))
  | .names .rxns => .ok (.names (omKeys c.rxns))
  | .names .readouts => .ok (.names (omKeys c.readouts))
  | .names (.surOuts b) => .ok (.names (surOutNames c b))
  | .names .surRxns => .ok (.names (surRxnNames c))
  | .names .unusedPars => .ok (.names (unusedPars c))
  | .names .rawVars => .ok (.names (omKeys c.vars))
  | .names .rawPars => .ok (.names (omKeys c.pars))
  | .names .rawDerived => .ok (.names (omKeys c.derived))
  | .names .rawRxns => .ok (.names (omKeys c.rxns))
  | .names .rawReadouts => .ok (.names (omKeys c.readouts))
  | .names .rawSurs => .ok (.names (omKeys c.surs))
  | .argNames fl => .ok (.names (argNames c cache fl))
  | .rawStoich x => (rawStoichOf c x).map Ans.coefs
  | .argsTC rows fl => do
    -- `get_args_time_course`: one `_get_args` per row of the table, `include_time=False`
    let l ← rows.mapM fun (t, vals) => argsRow c cache (cycle vals 0 (omKeys c.vars)) t { fl with time := false }
    pure (.rows l)
  | .fluxesTC rows => do
    let l ← rows.mapM fun (t, vals) => argsRow c cache (cycle vals 0 (omKeys c.vars)) t fluxFlags
    pure (.rows l)
  | .rhsTC rows => do
    -- `get_right_hand_side_time_course(get_args_time_course(variables))`: per row
    -- `_get_right_hand_side(args={"time": time} | row)`
    let l ← rows.mapM fun (t, vals) => do
      let row ← argsRow c cache (cycle vals 0 (omKeys c.vars)) t { time := false }
      rhsFromArgs2 cache (omKeys c.vars) (row ++ [("time", t)]) (row ++ [("time", t)] ++ c.data)
    pure (.rows l)
  | .eqFresh => .ok (.bool true)

/-- `model == other` for a NEWLY BUILT `other` with the same containers and ids: the generated `__eq__` compares
    the dataclass fields of `Gen.eqFields` as a tuple; the new model's `_cache` is `None` -/
def eqFresh (s : State) : Bool :=
  Gen.eqFields.all fun f => if f == "_cache" then s.cache.isNone else true

/-- a query: build the cache if there is none (where the entry point does so), then answer from it -/
def query (s : State) (q : Query) : State × Except Err Ans :=
  match q with
  | .eqFresh => (s, .ok (.bool (eqFresh s)))
  | q =>
    if q.needsCache then
      match ensureCache s with
      | (s1, .error e) => (s1, .error e)
      | (s1, .ok cache) => (s1, answer s1.content cache q)
    else (s, answer s.content default q)

/-- what a freshly built model with this content (and these functions) answers -/
def freshAnswer (sigs : List (Name × Gen.Sig)) (c : Content) (q : Query) : Except Err Ans :=
  if q.needsCache then do
    let cache ← buildCache sigs c
    answer c cache q
  else answer c default q

/-! ### the public surface of `class Model` that is not a mutator -/

/-- the public method a query form stands for (the harness calls exactly this one) -/
def Query.entry : Query → String
  | .init => "get_initial_conditions"
  | .pvals => "get_parameter_values"
  | .classes => "get_derived_parameter_names"
  | .args .. => "get_args"
  | .rhs .. => "get_right_hand_side"
  | .fluxes .. => "get_fluxes"
  | .call .. => "__call__"
  | .stoich .. => "get_stoichiometries"
  | .stoichvar .. => "get_stoichiometries_of_variable"
  | .names .vars => "get_variable_names"
  | .names .pars => "get_parameter_names"
  | .names .rxns => "get_reaction_names"
  | .names .readouts => "get_readout_names"
  | .names (.surOuts _) => "get_surrogate_output_names"
  | .names .surRxns => "get_surrogate_reaction_names"
  | .names .unusedPars => "get_unused_parameters"
  | .names .rawVars => "get_raw_variables"
  | .names .rawPars => "get_raw_parameters"
  | .names .rawDerived => "get_raw_derived"
  | .names .rawRxns => "get_raw_reactions"
  | .names .rawReadouts => "get_raw_readouts"
  | .names .rawSurs => "get_raw_surrogates"
  | .argNames _ => "get_arg_names"
  | .rawStoich _ => "get_raw_stoichiometries_of_variable"
  | .argsTC .. => "get_args_time_course"
  | .fluxesTC _ => "get_fluxes_time_course"
  | .rhsTC _ => "get_right_hand_side_time_course"
  | .eqFresh => "__eq__"

/-- every public reader the model answers: the entry points of the query forms, `ids` (observed after every op),
    the second half of `.classes`, and the two dict-returning forms the `…_names` getters are `list(…)` of -/
def modelledEntries : List String :=
  [ "ids", "get_initial_conditions", "get_parameter_values", "get_derived_parameter_names",
    "get_derived_variable_names", "get_derived_parameters", "get_derived_variables", "get_args", "get_right_hand_side",
    "get_fluxes", "__call__", "get_stoichiometries", "get_stoichiometries_of_variable", "get_variable_names",
    "get_parameter_names", "get_reaction_names", "get_readout_names", "get_surrogate_output_names",
    "get_surrogate_reaction_names", "get_unused_parameters", "get_raw_variables", "get_raw_parameters",
    "get_raw_derived", "get_raw_reactions", "get_raw_readouts", "get_raw_surrogates", "get_arg_names",
    "get_raw_stoichiometries_of_variable", "get_args_time_course", "get_fluxes_time_course",
    "get_right_hand_side_time_course", "__eq__" ]

/-- public readers the model does NOT answer, each with the reason -/
def outOfScope : List (String × String) :=
  [ ("__repr__", "wadler_lindig pretty printer over the dataclass fields; runtime"),
    ("parameters", "TableView (markdown / LaTeX through sympy) of the container; runtime"),
    ("variables", "TableView of the container; runtime"),
    ("derived", "TableView of the container; runtime"),
    ("reactions", "TableView of the container; runtime"),
    ("check_units", "sympy unit algebra; reads the containers and get_stoichiometries_of_variable (modelled)") ]

/-! ### histories -/

/-- the component names for which a call passes a function object (initial assignment, derived quantity,
    rate, readout) -/
def Op.fnNames : Op → List Name
  | .add_parameter n _ | .update_parameter n _ | .add_variable n _ | .update_variable n _
  | .add_derived n _ | .update_derived n _ _ | .add_reaction n _ | .update_reaction n _ _ _
  | .add_readout n _ => [n]
  | .add_parameters l | .update_parameters l | .add_variables l | .update_variables l => l.map (·.1)
  | _ => []

/-- a public mutator call together with the signatures of the function objects it passes: the body runs; when it
    returns normally the passed functions (with their signatures) are what the named components now carry -/
def stepS (s : State) (op : Op) (given : List (Name × Gen.Sig)) : State × Res :=
  let r := step s op
  match r.2 with
  | .ok () =>
    ({ r.1 with sigs := (given.filter fun g => op.fnNames.contains g.1).foldl (fun m g => omInsert m g.1 g.2) r.1.sigs },
     .ok ())
  | .error e => (r.1, .error e)

inductive HOp where
  | edit (op : Op) (given : List (Name × Gen.Sig) := [])
  | ask (q : Query)
  /-- `model = copy.deepcopy(model)`: the history goes on with an independent copy (containers, ids and cache
      are copied, nothing is shared with the original) -/
  | fork

def stepH (s : State) : HOp → State
  | .edit op given => (stepS s op given).1
  | .ask q => (query s q).1
  | .fork => s

def run (s : State) (h : List HOp) : State := h.foldl stepH s

def init : State := {}

/-- all names a content declares, container by container -/
def surOuts (c : Content) : List Name := c.surs.flatMap (fun kv => kv.2.outs)

def contentNames (c : Content) : List Name :=
  omKeys c.vars ++ omKeys c.pars ++ omKeys c.derived ++ omKeys c.readouts ++ omKeys c.rxns
    ++ omKeys c.surs ++ surOuts c ++ omKeys c.data

/-! ### building a model with a given content from scratch -/

/-- the signature the function of component `n` was stated with, as the `given` of the call that adds it again -/
def givenFor (sigs : List (Name × Gen.Sig)) (n : Name) : List (Name × Gen.Sig) :=
  match sigs.lookup n with
  | some g => [(n, g)]
  | none => []

/-- "a freshly built model with the same content": the `add_*` calls that build `c` on an empty `Model()`, container
    by container, in the order the harness' fresh-model oracle uses (`c03ops.build_ops`), each function passed with the
    signature it was stated with -/
def rebuild (sigs : List (Name × Gen.Sig)) (c : Content) : List HOp :=
  c.data.map (fun kv => HOp.edit (.add_data kv.1 kv.2) []) ++
  c.vars.map (fun kv => HOp.edit (.add_variable kv.1 kv.2) (givenFor sigs kv.1)) ++
  c.pars.map (fun kv => HOp.edit (.add_parameter kv.1 kv.2) (givenFor sigs kv.1)) ++
  c.derived.map (fun kv => HOp.edit (.add_derived kv.1 kv.2) (givenFor sigs kv.1)) ++
  c.rxns.map (fun kv => HOp.edit (.add_reaction kv.1 kv.2) (givenFor sigs kv.1)) ++
  c.surs.map (fun kv => HOp.edit (.add_surrogate kv.1 kv.2) []) ++
  c.readouts.map (fun kv => HOp.edit (.add_readout kv.1 kv.2) (givenFor sigs kv.1))

/-- the freshly built model itself -/
def freshState (s : State) : State := run init (rebuild s.sigs s.content)

end Mxl.C03
