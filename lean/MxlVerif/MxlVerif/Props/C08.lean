import MxlVerif.Model.C08Doc
namespace Mxl.C08
theorem placeholder : True := trivial
end Mxl.C08
