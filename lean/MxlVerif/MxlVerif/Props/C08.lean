/-
C08 — SBML export then import reproduces the model, or export fails.
Theorems about the executable model of `mxlpy/sbml/_export.py` (Model/C08Export.lean, tables generated
from the repo's source) against the two declarative semantics of Model/C08Sem.lean / C08Doc.lean.
-/
import MxlVerif.Lemmas.C08Roundtrip
import MxlVerif.Lemmas.C08Compartment
import MxlVerif.Lemmas.C08RoundtripFrom
import MxlVerif.Lemmas.C08Full
import MxlVerif.Lemmas.C08Bridge
import MxlVerif.Lemmas.C08Total
import MxlVerif.Model.C17Doc
namespace Mxl.C08
open Gen

/-- The expression compiler is sound: whenever the exporter accepts an expression and Python gives it
    a value, the SBML reading of the exported MathML tree has the same value — in every environment
    and for every interpretation of the transcendental functions. -/
theorem C08_math_sound (I : Interp) (env : VEnv) :
    ∀ e m v, convert e = .ok m → evalPy I env e = some v → evalMath I env m = some v :=
  convert_sound I env

/-- A construct without MathML counterpart anywhere in an expression makes the export raise. -/
theorem C08_unsupported_raises :
    ∀ e, hasUnsupported e = true → ∃ err, convert e = .error err := by
  refine (renameExpr.mutual_induct
    (motive_1 := fun e => hasUnsupported e = true → ∃ err, convert e = .error err)
    (motive_2 := fun es => hasUnsupportedList es = true → ∃ err, convertList es = .error err)
    (motive_3 := fun rest => hasUnsupportedLinks rest = true → ∀ pm, ∃ err, convertLinks pm rest = .error err)
    ?name ?const ?unary ?binop ?compare ?ifexp ?call ?attr ?attrDeep ?boolop ?callKw ?other
    ?lnil ?lcons ?nil ?cons).1
  case name => intro id h; simp [hasUnsupported, unsupportedNode] at h
  case const =>
    intro c h
    cases c <;> simp [hasUnsupported, unsupportedNode] at h
    exact exists_err (by simp [convert, convertConst, isErr])
  case unary =>
    intro op e ih h
    cases hx : convert e with
    | error err => exact ⟨err, by simp [convert, hx, bind, Except.bind]⟩
    | ok m1 =>
      cases op with
      | invert =>
        exact exists_err (by simp [convert, hx, bind, Except.bind, lookupE, unaryOpTable_lookup, isErr])
      | usub | not | uadd =>
        simp [hasUnsupported, unsupportedNode] at h
        obtain ⟨err, he⟩ := ih h
        rw [hx] at he
        cases he
  case binop =>
    intro op l r ihl ihr h
    cases hl : convert l with
    | error err => exact ⟨err, by simp [convert, hl, bind, Except.bind]⟩
    | ok a =>
      cases hr : convert r with
      | error err => exact ⟨err, by simp [convert, hl, hr, bind, Except.bind]⟩
      | ok b =>
        cases op <;> simp +decide [hasUnsupported, unsupportedNode] at h <;>
          first
          | (rcases h with h | h
             · obtain ⟨err, he⟩ := ihl h; rw [hl] at he; cases he
             · obtain ⟨err, he⟩ := ihr h; rw [hr] at he; cases he)
          | exact exists_err (by simp [convert, hl, hr, bind, Except.bind, lookupE, binOpTable_lookup, isErr])
  case compare =>
    intro l op r rest ihl ihr ihrest h
    cases ht : lookupE cmpOpTable op "cmpop" with
    | error err => exact ⟨err, by simp [convert, ht, bind, Except.bind]⟩
    | ok t =>
      cases hl : convert l with
      | error err => exact ⟨err, by simp [convert, ht, hl, bind, Except.bind]⟩
      | ok a =>
        cases hr : convert r with
        | error err => exact ⟨err, by simp [convert, ht, hl, hr, bind, Except.bind]⟩
        | ok b =>
          cases hk : convertLinks b rest with
          | error err => exact ⟨err, by simp [convert, ht, hl, hr, hk, bind, Except.bind]⟩
          | ok tl =>
            exfalso
            cases op <;> simp +decide [hasUnsupported, unsupportedNode] at h <;>
              first
              | (simp [lookupE, cmpOpTable_lookup] at ht; done)
              | (rcases h with (h | h) | h
                 · obtain ⟨err, he⟩ := ihl h; rw [hl] at he; cases he
                 · obtain ⟨err, he⟩ := ihr h; rw [hr] at he; cases he
                 · obtain ⟨err, he⟩ := ihrest h b; rw [hk] at he; cases he)
  case ifexp =>
    intro t b o iht ihb iho h
    simp only [hasUnsupported, Bool.or_eq_true] at h
    cases hc : convert t with
    | error err => exact ⟨err, by simp [convert, hc, bind, Except.bind]⟩
    | ok c =>
      cases hx : convert b with
      | error err => exact ⟨err, by simp [convert, hc, hx, bind, Except.bind]⟩
      | ok x =>
        cases hy : convert o with
        | error err => exact ⟨err, by simp [convert, hc, hx, hy, bind, Except.bind]⟩
        | ok y =>
          exfalso
          rcases h with (h | h) | h
          · obtain ⟨err, he⟩ := iht h; rw [hc] at he; cases he
          · obtain ⟨err, he⟩ := ihb h; rw [hx] at he; cases he
          · obtain ⟨err, he⟩ := iho h; rw [hy] at he; cases he
  case call =>
    intro f args ih h
    simp only [hasUnsupported, Bool.or_eq_true] at h
    cases hn : calleeName f with
    | error err => exact ⟨err, by simp [convert, hn, bind, Except.bind]⟩
    | ok name =>
      cases hk : callKind name (calleeIsMath f) args.length with
      | error err => exact ⟨err, by simp [convert, hn, hk, bind, Except.bind]⟩
      | ok r =>
        obtain ⟨t, k, u⟩ := r
        obtain ⟨rfl, fn, rfl, _⟩ := callKind_ok hk
        have hknown := callKind_known hk
        rcases h with h | h
        · exfalso
          cases f with
          | direct f' =>
            simp only [calleeName, Except.ok.injEq, Option.some.injEq] at hn
            subst hn
            simp [unsupportedNode, hknown] at h
          | lib p a =>
            simp only [calleeName, Except.ok.injEq] at hn
            split at hn
            · rename_i hp'
              simp only [Option.some.injEq] at hn
              subst hn
              have := libParents_sub hp'
              simp [unsupportedNode, hknown, this] at h
            · simp at hn
          | libDeep => simp [calleeName] at hn
          | other => simp [calleeName] at hn
        · obtain ⟨err, he⟩ := ih h
          exact ⟨err, by simp [convert, hn, hk, he, bind, Except.bind]⟩
  case attr =>
    intro p a h
    simp only [hasUnsupported, unsupportedNode] at h
    cases hc : convertAttr p a with
    | error err => exact ⟨err, by simp [convert, hc]⟩
    | ok m =>
      exfalso
      simp only [convertAttr] at hc
      split at hc
      · rename_i hp'
        cases hl : attrConstTable.lookup a with
        | none => simp [hl] at hc
        | some m' =>
          have hm := mem_of_lookup hl
          have := libParents_sub hp'
          simp only [attrConstTable, List.mem_cons, List.mem_nil_iff, Prod.mk.injEq, or_false] at hm
          rcases hm with ⟨rfl, _⟩ | ⟨rfl, _⟩ | ⟨rfl, _⟩ | ⟨rfl, _⟩ <;> simp [this] at h
      · simp at hc
  case attrDeep => intro _; exact exists_err (by simp [convert, isErr])
  case boolop => intro a vals _ _; exact exists_err (by simp [convert, isErr])
  case callKw => intro _; exact exists_err (by simp [convert, isErr])
  case other => intro _; exact exists_err (by simp [convert, isErr])
  case lnil => intro h; simp [hasUnsupportedLinks] at h
  case lcons =>
    intro op e rest ihe ihrest h pm
    cases ht : lookupE cmpOpTable op "cmpop" with
    | error err => exact ⟨err, by simp [convertLinks, ht, bind, Except.bind]⟩
    | ok t =>
      cases he : convert e with
      | error err => exact ⟨err, by simp [convertLinks, ht, he, bind, Except.bind]⟩
      | ok b =>
        cases hk : convertLinks b rest with
        | error err => exact ⟨err, by simp [convertLinks, ht, he, hk, bind, Except.bind]⟩
        | ok tl =>
          exfalso
          cases op <;> simp +decide [hasUnsupportedLinks] at h <;>
            first
            | (simp [lookupE, cmpOpTable_lookup] at ht; done)
            | (rcases h with h | h
               · obtain ⟨err, h'⟩ := ihe h; rw [he] at h'; cases h'
               · obtain ⟨err, h'⟩ := ihrest h b; rw [hk] at h'; cases h')
  case nil => intro h; simp [hasUnsupportedList] at h
  case cons =>
    intro e es ihe ihes h
    simp only [hasUnsupportedList, Bool.or_eq_true] at h
    cases hx : convert e with
    | error err => exact ⟨err, by simp [convertList, hx, bind, Except.bind]⟩
    | ok m1 =>
      rcases h with h | h
      · obtain ⟨err, he⟩ := ihe h; rw [hx] at he; cases he
      · obtain ⟨err, he⟩ := ihes h
        exact ⟨err, by simp [convertList, hx, he, bind, Except.bind]⟩

/-- A model function (called with the model names `f.args`) and its exported math agree: the value Python
    computes from the arguments' values — the value of the first `return` — is the value the SBML reading
    gives the exported tree in the model's own environment.  Any body: statements after the first `return`
    are never reached (finding F-C08-12, repaired: the last statement used to be exported), a body without
    `return` is refused.  Covers `IdentifierReplacer`, `_handle_body`, `_convert_node`. -/
theorem C08_fn_sound (I : Interp) (env : VEnv) (f : PyFn) (m : MathML) (v : Val)
    (hfree : calleeFreeBody f.params f.body = true)
    (hx : sbmlifyFn f = .ok m) (hv : callFn I env f = some v) : evalMath I env m = some v :=
  sbmlifyFn_sound I env f m v hfree hx hv

/-- … and a body whose first statement is not a `return <expr>` is refused. -/
theorem C08_body_without_return_raises (f : PyFn) (h : ∀ e rest, f.body ≠ .ret (some e) :: rest) :
    ∃ err, sbmlifyFn f = .error err := by
  unfold sbmlifyFn
  cases hz : zipStrict f.params f.args with
  | error err => exact ⟨err, by simp [bind, Except.bind]⟩
  | ok σ =>
    have hfirst : bodyFirstReturn = true := rfl
    simp only [bind, Except.bind, handleBody, hfirst, if_true]
    cases hb : f.body with
    | nil => exact ⟨_, rfl⟩
    | cons s ss =>
      cases s with
      | other => exact exists_err (by simp [handleBodyFirst, renameStmt, convertStmt, bind, Except.bind, isErr])
      | ret oe =>
        cases oe with
        | none => exact exists_err (by simp [handleBodyFirst, renameStmt, convertStmt, bind, Except.bind, isErr])
        | some e => exact absurd hb (h e ss)

/-- Function level of `C08_unsupported_raises`: a body that does not begin with `return <expression>`, or
    whose returned expression contains a construct without MathML counterpart, makes the export raise
    (`IdentifierReplacer` renames identifiers only, so the renamed expression is unsupported as well). -/
theorem C08_fn_unsupported_raises (f : PyFn) (h : bodyUnsupported f.body = true)
    (hfree : calleeFreeBody f.params f.body = true) :
    ∃ err, sbmlifyFn f = .error err := by
  cases hb : f.body with
  | nil => exact C08_body_without_return_raises f (by intro e rest; rw [hb]; exact fun h => by cases h)
  | cons s ss =>
    cases s with
    | other => exact C08_body_without_return_raises f (by intro e rest; rw [hb]; exact fun h => by cases h)
    | ret oe =>
      cases oe with
      | none => exact C08_body_without_return_raises f (by intro e rest; rw [hb]; exact fun h => by cases h)
      | some e =>
        rw [hb] at h
        simp only [bodyUnsupported, stmtUnsupported] at h
        unfold sbmlifyFn
        cases hz : zipStrict f.params f.args with
        | error err => exact ⟨err, by simp [bind, Except.bind]⟩
        | ok σ =>
          have hfirst : bodyFirstReturn = true := rfl
          have hσ := zipStrict_eq hz
          subst hσ
          rw [hb] at hfree
          simp only [calleeFreeBody, List.all_cons, Bool.and_eq_true] at hfree
          obtain ⟨err, he⟩ := C08_unsupported_raises _ (by rw [hasUnsupported_rename f.params f.args e hfree.1]; exact h)
          exact ⟨err, by simp [bind, Except.bind, handleBody, hfirst, hb, renameStmt, handleBodyFirst, convertStmt, he]⟩

/-- Identifiers of the form `[A-Za-z][A-Za-z0-9_]*` are written unchanged (whatever the prefix). -/
theorem C08_escape_plain (s pre : String) (h : isPlainName s = true) : escapeId s pre = .ok s :=
  escapeId_plain pre h

/-- … hence escaping is injective on them. -/
theorem C08_escape_injective_on_plain (s t pre pre' : String) (hs : isPlainName s = true)
    (ht : isPlainName t = true) (h : escapeId s pre = escapeId t pre') : s = t := by
  rw [escapeId_plain pre hs, escapeId_plain pre' ht] at h
  exact Except.ok.inj h

/-- Numeric coefficient: whatever its sign, the species reference the exporter writes (reactant with
    |q| if negative, product otherwise) has net coefficient `q` under the SBML reading; nothing else changes. -/
theorem C08_stoich_sign_numeric (env : VEnv) (taken taken' : List String) (d d' : SDoc) (r r' : SRxn)
    (x : String) (q : Rat) (hx : isPlainName x = true)
    (h : exportCoef (taken, d, r) (x, .num q) = .ok (taken', d', r'))
    (hfresh : ∀ s ∈ refsOf r, s.species ≠ x) :
    taken' = taken ∧ d' = d ∧ netCoefR env r' x = some q := by
  rcases exportCoef_plain hx h with ⟨q', hc, ht, hd, hr⟩ | ⟨f, rid, hc, _⟩
  · cases hc
    exact ⟨ht, hd, by rw [hr]; exact netCoefR_num env r x q hfresh⟩
  · cases hc

/-- Computed coefficient: the exporter writes an assignment rule holding the exported function, under a
    name nothing else in the model has (`taken`: finding F-C08-7, repaired), and a species reference whose
    net coefficient is *plus* the value of that rule — the sign of the computed value is kept (finding
    F-C08-1, repaired). -/
theorem C08_stoich_sign_computed (env : VEnv) (taken taken' : List String) (d d' : SDoc) (r r' : SRxn)
    (x : String) (f : PyFn) (hx : isPlainName x = true)
    (h : exportCoef (taken, d, r) (x, .computed f) = .ok (taken', d', r'))
    (hfresh : ∀ s ∈ refsOf r, s.species ≠ x) :
    ∃ rid m, rid ∉ taken ∧ taken' = rid :: taken ∧ sbmlifyFn f = .ok m ∧
      d' = { d with rules := d.rules ++ [(rid, m)] } ∧ lookupLast d'.rules rid = some m ∧
      netCoefR env r' x = (env rid).map Val.toNum := by
  rcases exportCoef_plain hx h with ⟨q', hc, _⟩ | ⟨f', rid, hc, hok, hnew, _, ht, hd, hr⟩
  · cases hc
  · cases hc
    refine ⟨rid, mathOf f, by simpa using hnew, ht, hok, hd, ?_, ?_⟩
    · rw [hd]; exact lookupLast_append_self _ _ _
    · rw [hr]; exact netCoefR_computed env r x rid hfresh

/-- `netCoefR` is the SBML reading `netCoef` of a reaction in every document that holds a rule for each
    of the reaction's species-reference ids — which is what the exporter writes. -/
theorem C08_netCoef_reading (env : VEnv) (d : SDoc) (r : SRxn) (x : String)
    (h : ∀ s ∈ refsOf r, ∀ i, s.id = some i → (lookupLast d.rules i).isSome = true) :
    netCoef env d r x = netCoefR env r x :=
  netCoef_eq_R env d r x h

/-- A whole `rxn.stoichiometry` (keys `[A-Za-z][A-Za-z0-9_]*`, pairwise distinct as dict keys are): the
    rules written for it (`R`) have fresh, pairwise distinct names; every species has, under the SBML
    reading, exactly the coefficient the model gives it — the number itself, or plus the value of its own
    rule for a computed coefficient — and species outside the dict keep the net coefficient they had. -/
theorem C08_reaction_stoich (l : List (String × PyCoef)) (taken taken' : List String) (d d' : SDoc) (r r' : SRxn)
    (h : exportCoefs (taken, d, r) l = .ok (taken', d', r'))
    (hplain : ∀ kv ∈ l, isPlainName kv.1 = true) (hnodup : (l.map (·.1)).Nodup)
    (hfresh : ∀ s ∈ refsOf r, s.species ∉ l.map (·.1)) :
    ∃ R : List (String × MathML),
      d' = { d with rules := d.rules ++ R } ∧
      (∀ k ∈ R.map (·.1), k ∉ taken ∧ isPlainName k = true) ∧ (R.map (·.1)).Nodup ∧
      (∀ k, k ∈ taken' ↔ k ∈ R.map (·.1) ∨ k ∈ taken) ∧
      (∀ s ∈ refsOf r', s ∈ refsOf r ∨ (s.species ∈ l.map (·.1) ∧ ∀ i, s.id = some i → i ∈ R.map (·.1))) ∧
      (∀ env x q, (x, PyCoef.num q) ∈ l → netCoefR env r' x = some q) ∧
      (∀ env x f, (x, PyCoef.computed f) ∈ l → sbmlifyFn f = .ok (mathOf f) ∧
        ∃ rid, (rid, mathOf f) ∈ R ∧ netCoefR env r' x = (env rid).map Val.toNum) ∧
      (∀ env z, z ∉ l.map (·.1) → netCoefR env r' z = netCoefR env r z) :=
  exportCoefs_spec l taken taken' d d' r r' h hplain hnodup hfresh

/-! ### the whole model: export, then the SBML reading of the document

`wellNamed m`: component names `[A-Za-z][A-Za-z0-9_]*` and pairwise distinct, stoichiometry keys likewise, no
function uses one of its parameters as a function / module name.  Direction: whatever the original model
computes, the document computes (a value Python does not define — division by zero, an unknown name —
is not constrained). -/

/-- every component comes back under its name -/
theorem C08_roundtrip_names (m : PyModel) (d : SDoc) (hw : wellNamed m = true) (hx : exportModel m = .ok d) :
    (∀ n ∈ m.params.map (·.1), n ∈ d.params.map (·.1)) ∧ (∀ n ∈ m.vars.map (·.1), n ∈ d.species.map (·.1)) ∧
    (∀ n ∈ m.derived.map (·.1), n ∈ d.rules.map (·.1)) ∧ (∀ n ∈ m.rxns.map (·.name), n ∈ d.rxns.map (·.id)) := by
  have hE := exported_of_export hw hx
  refine ⟨?_, ?_, ?_, ?_⟩
  · intro n hn
    cases hl : m.params.lookup n with
    | none => exact absurd hn (not_mem_keys_of_lookup_none hl)
    | some i =>
      cases i with
      | val q => exact mem_keys_of_lookup_some (hE.par_val n q hl).1
      | ia f => exact mem_keys_of_lookup_some (hE.par_ia n f hl).1
  · intro n hn
    cases hl : m.vars.lookup n with
    | none => exact absurd hn (not_mem_keys_of_lookup_none hl)
    | some i =>
      cases i with
      | val q => exact mem_keys_of_lookup_some (hE.var_val n q hl).1
      | ia f =>
        -- a variable with an initial assignment: its species carries no value, the look-up is `some none`
        have : d.species.lookup n ≠ none := by
          intro hnone
          have := hE.var_none
          -- established directly from the document instead
          exact absurd hnone (by
            have hk := exported_species_key hw hx n hn
            intro h0
            exact not_mem_keys_of_lookup_none h0 hk)
        cases hs : d.species.lookup n with
        | none => exact absurd hs this
        | some v => exact mem_keys_of_lookup_some hs
  · intro n hn
    cases hl : m.derived.lookup n with
    | none => exact absurd hn (not_mem_keys_of_lookup_none hl)
    | some f =>
      obtain ⟨h1, _⟩ := hE.der n f hl
      exact List.mem_map.mpr ⟨_, mem_keys_of_lookupLast_some h1, rfl⟩
  · intro n hn
    obtain ⟨rx, hrx, rfl⟩ := List.mem_map.mp hn
    exact rel_ids hE.rxns rx hrx

/-- initial values of variables and parameters (initial assignments included) -/
theorem C08_roundtrip_init (I : Interp) (m : PyModel) (d : SDoc) (n : String) (v : Val)
    (hw : wellNamed m = true) (hx : exportModel m = .ok d) (hv : pyInit I m m.fuel n = some v) :
    docInit I d d.fuel n = some v := by
  have hE := exported_of_export hw hx
  exact docInit_mono I d (Nat.le_of_succ_le hE.fuel) n v
    (init_transfer I hE (fnsFree_of_wellNamed hw) m.fuel n v hv)

/-- derived quantities and fluxes at every state -/
theorem C08_roundtrip_values (I : Interp) (m : PyModel) (d : SDoc) (st : List (String × Rat)) (n : String) (v : Val)
    (hw : wellNamed m = true) (hx : exportModel m = .ok d) (hv : pyValue I m st m.fuel n = some v) :
    docValue I d st d.fuel n = some v := by
  have hE := exported_of_export hw hx
  exact docValue_mono I d st (Nat.le_of_succ_le hE.fuel) n v
    (value_transfer I hE (fnsFree_of_wellNamed hw) st m.fuel n v hv)

/-- derivatives at every state (the state assigns values to names of the model only) -/
theorem C08_roundtrip_rhs (I : Interp) (m : PyModel) (d : SDoc) (st : List (String × Rat)) (x : String) (v : Rat)
    (hw : wellNamed m = true) (hst : ∀ n q, st.lookup n = some q → n ∈ m.names)
    (hx : exportModel m = .ok d) (hv : pyRhs I m st x = some v) : docRhs I d st x = some v := by
  have hE := exported_of_export hw hx
  rw [pyRhs_eq] at hv
  rw [docRhs_eq]
  exact rhs_list I hE (fnsFree_of_wellNamed hw) st hst x hE.rxns (fun _ h => h) v hv

/-! ### names (finding F-C08-5: known) -/

/-- Full statement: every component name comes back under its name (write the id, read it through the
    importer's identifier mapping).  False of the code: -/
theorem C08_names_roundtrip_fails :
    ¬ ∀ s pre : String, (escapeId s pre).map nameToPy = .ok s := by
  intro h
  have := congrArg Except.toOption (h "x.c" "CPD")
  revert this
  decide

/-- escaping alone is not injective either: a legal Python-side name collides with an escaped one -/
theorem C08_escape_not_injective :
    (escapeId "a.b" "CPD").toOption = (escapeId "a__46__b" "CPD").toOption ∧ "a.b" ≠ "a__46__b" := by
  decide

/-- `_partial`: names `[A-Za-z][A-Za-z0-9_]*` without a double underscore that are not Python keywords
    do come back unchanged. -/
theorem C08_names_roundtrip_partial (s pre : String) (h : isRoundTripName s = true) :
    (escapeId s pre).map nameToPy = .ok s := by
  have hp : isPlainName s = true := by
    simp only [isRoundTripName, Bool.and_eq_true] at h
    exact h.1.1
  rw [escapeId_plain pre hp]
  simp [Except.map, nameToPy_plain s h]

example : isRoundTripName "ATP_c" = true := by decide
example : isRoundTripName "x.c" = false := by decide
example : isRoundTripName "lambda" = false := by decide

/-! ### species-reference ids (finding F-C08-7, repaired): the former counterexample -/

/-- two reactions, each with a computed coefficient on `y` (before the repair both wrote the rule `yref`) -/
def clashModel : PyModel :=
  let coef (c : Rat) : PyFn := ⟨["p"], [.ret (some (.binop .mult (.name "p") (.const (.num c))))], ["k"]⟩
  let rate (v : String) : PyFn := ⟨["a", "b"], [.ret (some (.binop .mult (.name "a") (.name "b")))], ["k", v]⟩
  { params := [("k", .val 3)], vars := [("x", .val 2), ("y", .val 3)], derived := [],
    rxns := [⟨"r1", rate "x", [("x", .num (-1)), ("y", .computed (coef 2))]⟩,
             ⟨"r2", rate "y", [("y", .computed (coef 3))]⟩] }

/-- non-vacuity of the round-trip theorems: the model is well named, it is exported, its derivative is
    defined — and the document gives the same (117; the shared rule gave 135) -/
example : wellNamed clashModel = true := by decide +kernel
example : ∃ d, exportModel clashModel = .ok d ∧
    pyRhs (fun _ _ => none) clashModel [("x", 2), ("y", 3)] "y" = some 117 ∧
    docRhs (fun _ _ => none) d [("x", 2), ("y", 3)] "y" = some 117 := by
  refine ⟨_, rfl, ?_, ?_⟩ <;> decide +kernel

/-! ### the exporter is total on its language (Model/C08Language.lean) -/

/-- Every expression that contains neither a construct MathML cannot say (`hasUnsupported`) nor one of the few
    representable constructs this exporter refuses (`usesRefused`: unary plus, `%`, `floor`, `exp`, `log2`,
    `math.remainder`, `math.power`) IS exported — whatever its depth and shape: the refusals of the exporter are
    local to a node, never caused by a combination.  With `C08_math_sound` the export then has the meaning of the
    expression; with `C08_unsupported_raises` the exporter's domain is known from both sides. -/
theorem C08_export_total (e : PyExpr) (h : hasUnsupported e = false) (hr : usesRefused e = false) :
    ∃ m, convert e = .ok m :=
  ok_of_not_err (convert_total e h hr)

/-- function level: as many arguments as parameters, a body that begins with `return <expression of the language>`,
    no parameter used as function / module name — then `_sbmlify_fn` returns the MathML tree -/
theorem C08_fn_export_total (f : PyFn) (hlen : f.params.length = f.args.length)
    (hlang : bodyInLanguage f.body = true) (hfree : calleeFreeBody f.params f.body = true) :
    ∃ m, sbmlifyFn f = .ok m := by
  cases hb : f.body with
  | nil => rw [hb] at hlang; simp [bodyInLanguage] at hlang
  | cons s ss =>
    rw [hb] at hlang hfree
    cases s with
    | other => simp [bodyInLanguage] at hlang
    | ret oe =>
      cases oe with
      | none => simp [bodyInLanguage] at hlang
      | some e =>
        simp only [bodyInLanguage, Bool.and_eq_true, Bool.not_eq_true'] at hlang
        simp only [calleeFreeBody, List.all_cons, Bool.and_eq_true] at hfree
        have h1 : hasUnsupported (renameExpr (f.params.zip f.args) e) = false := by
          rw [hasUnsupported_rename f.params f.args e hfree.1]; exact hlang.1
        have h2 : usesRefused (renameExpr (f.params.zip f.args) e) = false := by
          rw [usesRefused_rename f.params f.args e hfree.1]; exact hlang.2
        obtain ⟨m, hm⟩ := C08_export_total _ h1 h2
        have hfirst : bodyFirstReturn = true := rfl
        exact ⟨m, by simp [sbmlifyFn, zipStrict_total _ _ hlen, bind, Except.bind, handleBody, hfirst, hb, renameStmt,
          handleBodyFirst, convertStmt, hm, pure, Except.pure]⟩

/-- non-vacuity: a nested conditional with a chained comparison, `np.power`, `math.log10`, `max` of three -/
def languageExample : PyExpr :=
  .ifexp (.compare (.const (.num 0)) .lt (.name "x") [(.le, .name "k")])
    (.call (.lib "np" "power") [.name "x", .const (.num 2)])
    (.binop .add (.call (.lib "math" "log10") [.name "k"]) (.call (.direct "max") [.name "x", .name "k", .const (.num 1)]))
example : hasUnsupported languageExample = false ∧ usesRefused languageExample = false := by decide +kernel
example : usesRefused (.binop .mod (.name "x") (.name "k")) = true ∧
    usesRefused (.call (.lib "math" "remainder") [.name "x", .name "k"]) = true ∧
    usesRefused (.call (.lib "np" "remainder") [.name "x", .name "k"]) = false := by decide +kernel

/-! ### the `compartments` option and the species attributes (findings F-C08-14 / -15 / -16, repaired) -/

/-- `write(model, file, compartments=…)` writes, whatever the option, the components `exportModel` writes for the model
    with its function arguments replaced by the declared ids (`escArgs`; the identity on a well-named model), when the
    species references avoid a set of names that contains the model's (the compartment ids are in it since F-C08-19). -/
theorem C08_write_doc_is_export (m : PyModel) (o : Option (List (String × Rat))) (dc : SDocC)
    (h : writeModel m o = .ok dc) :
    ∃ t, (∀ n ∈ m.names, n ∈ t) ∧ exportModelFrom t m.escArgs = .ok dc.doc ∧
      (wellNamed m = true → m.escArgs = m) ∧ exportModel m = exportModelFrom m.names m := by
  obtain ⟨cs, _, he⟩ := writeModel_ok h
  refine ⟨refTaken m.escArgs cs, ?_, (exportModelC_doc he).1, escArgs_of_wellNamed, rfl⟩
  intro n hn
  exact names_sub_refTaken m.escArgs cs n (by rw [(escArgs_names m).1]; exact hn)

/-- **Every successful `write` round-trips**, whatever the `compartments` option: for a well-named model the document
    written holds every component under its name, and its SBML reading gives the model's initial values, derived values,
    fluxes and derivatives at every state (the four round-trip theorems, for `writeModel` instead of `exportModel`). -/
theorem C08_write_roundtrip (I : Interp) (m : PyModel) (o : Option (List (String × Rat))) (dc : SDocC)
    (hw : wellNamed m = true) (h : writeModel m o = .ok dc) :
    (∀ n ∈ m.vars.map (·.1), n ∈ dc.doc.species.map (·.1)) ∧
    (∀ n v, pyInit I m m.fuel n = some v → docInit I dc.doc dc.doc.fuel n = some v) ∧
    (∀ st n v, pyValue I m st m.fuel n = some v → docValue I dc.doc st dc.doc.fuel n = some v) ∧
    (∀ st x v, (∀ n q, st.lookup n = some q → n ∈ m.names) → pyRhs I m st x = some v → docRhs I dc.doc st x = some v) := by
  obtain ⟨t, hsub, hx, hid, _⟩ := C08_write_doc_is_export m o dc h
  rw [hid hw] at hx
  have hE := exported_of_exportFrom hsub hw hx
  refine ⟨exported_species_keyFrom hw hx, ?_, ?_, ?_⟩
  · intro n v hv
    exact docInit_mono I dc.doc (Nat.le_of_succ_le hE.fuel) n v
      (init_transfer I hE (fnsFree_of_wellNamed hw) m.fuel n v hv)
  · intro st n v hv
    exact docValue_mono I dc.doc st (Nat.le_of_succ_le hE.fuel) n v
      (value_transfer I hE (fnsFree_of_wellNamed hw) st m.fuel n v hv)
  · intro st x v hst hv
    rw [pyRhs_eq] at hv
    rw [docRhs_eq]
    exact rhs_list I hE (fnsFree_of_wellNamed hw) st hst x hE.rxns (fun _ h => h) v hv

/-- **What `write` does with the options that carry no number.**  For a well-named model and any options: the model id,
    the unit definitions and the modifiers are ADDED to the document of `writeModel` — components, compartments and species
    attributes are those of `writeModel` (so `C08_write_roundtrip` holds for the full `write`); every reaction lists as
    modifiers exactly the arguments of its rate function that are variables and not in its stoichiometry, each of them a
    species the document declares, none of them a reactant or product. -/
theorem C08_write_full (m : PyModel) (cs : Option (List (String × Rat))) (o : WriteOpts) (dc : SDocC)
    (hw : wellNamed m = true) (h : writeModelFull m cs o = .ok dc) :
    (∃ dc0, writeModel m cs = .ok dc0 ∧ dc.doc = dc0.doc ∧ dc.compartments = dc0.compartments ∧ dc.species = dc0.species) ∧
    dc.modifiers = m.rxns.map (fun rx => (rx.name, modifiersOf m rx)) ∧
    (∀ rm ∈ dc.modifiers, ∀ s ∈ rm.2, s ∈ dc.doc.species.map (·.1)) ∧
    (∀ rx ∈ m.rxns, ∀ k ∈ modifiersOf m rx, k ∉ rx.stoich.map (·.1)) := by
  obtain ⟨dc0, mods, mid, h0, hm, _, rfl⟩ := writeModelFull_parts h
  have hw' := hw
  simp only [wellNamed, Bool.and_eq_true, List.all_eq_true] at hw'
  obtain ⟨⟨⟨⟨⟨⟨hplain, _⟩, _⟩, _⟩, _⟩, _⟩, _⟩ := hw'
  have hmods : mods = m.rxns.map (fun rx => (rx.name, modifiersOf m rx)) := by
    have : exportModifiers m = .ok (m.rxns.map (fun rx => (rx.name, modifiersOf m rx))) := by
      unfold exportModifiers
      apply mapE_ok_of_forall
      intro rx hrx
      have hn : isPlainName rx.name = true := hplain rx.name (rxn_name_mem hrx)
      have hin : mapE (fun k => escapeId k prefixRefSpecies) (modifiersOf m rx) = .ok ((modifiersOf m rx).map fun k => k) := by
        apply mapE_ok_of_forall
        intro k hk
        have hv := (modifiersOf_spec m rx k hk).2.1
        have : k ∈ m.names := by unfold PyModel.names; simp only [List.mem_append]; exact .inl (.inl (.inr hv))
        exact escapeId_plain _ (hplain k this)
      simp [escapeId_plain _ hn, hin, bind, Except.bind, pure, Except.pure]
    rw [this] at hm
    exact (Except.ok.inj hm).symm
  refine ⟨⟨dc0, h0, rfl, rfl, rfl⟩, hmods, ?_, ?_⟩
  · intro rm hrm s hs
    simp only [hmods, List.mem_map] at hrm
    obtain ⟨rx, _, rfl⟩ := hrm
    have hv := (modifiersOf_spec m rx s hs).2.1
    exact (C08_write_roundtrip (fun _ _ => none) m cs dc0 hw h0).1 s hv
  · intro rx _ k hk
    exact (modifiersOf_spec m rx k hk).2.2

/-- the model id can always be written (the name is never empty: it ends in `_<date>`) -/
theorem C08_model_id_total (o : WriteOpts) : ∃ id, modelId o = .ok id := modelId_total o

/-- no dangling compartment (F-C08-15): every species is written, with the compartment of each being one of
    the compartments the file declares; a model with variables has exactly one species entry per species. -/
theorem C08_species_compartment_declared (m : PyModel) (o : Option (List (String × Rat))) (dc : SDocC)
    (h : writeModel m o = .ok dc) :
    (∀ s ∈ dc.species, s.compartment ∈ dc.compartments.map (·.1)) ∧
    (m.vars ≠ [] → dc.species.map (·.id) = dc.doc.species.map (·.1)) := by
  obtain ⟨cs, _, he⟩ := writeModel_ok h
  obtain ⟨_, hcs, comp, hcomp, hsp⟩ := exportModelC_doc he
  constructor
  · intro s hs
    rw [hsp] at hs
    cases comp with
    | none => simp [speciesAttrs] at hs
    | some c =>
      simp only [speciesAttrs, List.mem_map] at hs
      obtain ⟨kv, _, rfl⟩ := hs
      rw [hcs]
      exact speciesCompartment_mem hcomp
  · intro hv
    cases hvars : m.escArgs.vars with
    | nil => exact absurd ((escArgs_vars_nil m).mp hvars) hv
    | cons v vs =>
      rw [hvars] at hcomp
      obtain ⟨c, rfl⟩ := speciesCompartment_some hcomp
      rw [hsp]
      simp [speciesAttrs, Function.comp_def]

/-- the species are amounts (F-C08-14): for every size of the compartment — also 0 — the identifier of a written
    species stands for the value the model gave it and its derivative is Σ stoichiometry × rate, undivided. -/
theorem C08_species_is_amount (m : PyModel) (o : Option (List (String × Rat))) (dc : SDocC)
    (h : writeModel m o = .ok dc) :
    ∀ s ∈ dc.species, ∀ size v rate : Rat,
      speciesSymbol s.hosu size (initialAmountOf s.initAmount size v) = v ∧ symbolRate s.hosu size rate = rate := by
  obtain ⟨cs, _, he⟩ := writeModel_ok h
  obtain ⟨_, _, comp, _, hsp⟩ := exportModelC_doc he
  intro s hs size v rate
  rw [hsp] at hs
  cases comp with
  | none => simp [speciesAttrs] at hs
  | some c =>
    simp only [speciesAttrs, List.mem_map] at hs
    obtain ⟨kv, _, rfl⟩ := hs
    have h1 : speciesHosu = true := rfl
    have h2 : speciesInitAmount = true := rfl
    simp [speciesSymbol, initialAmountOf, symbolRate, h1, h2]

/-- what the older exporter wrote (a concentration, hasOnlySubstanceUnits = false) means in a compartment of
    size 2: the derivative 6 of the model is read as 3, the value 2 survives (F-C08-14 witness) -/
example :
    symbolRate false 2 6 = 3 ∧ speciesSymbol false 2 (initialAmountOf false 2 2) = 2 := by
  decide +kernel

/-- composition with the import side (C17's document semantics, run by C17's driver handler): a species with the
    attributes the exporter writes is read by `symOfAmount` / `amountOfSym` / `symInit` as the plain quantity it was in the
    model — in every document, whatever the compartments and their sizes -/
theorem C08_written_species_import_reading (d : Mxl.C17.Doc) (s : Mxl.C17.Species)
    (hh : s.hosu = speciesHosu) (ha : s.isAmount = speciesInitAmount) :
    (∀ a : Rat, Mxl.C17.symOfAmount d s a = a ∧ Mxl.C17.amountOfSym d s a = a) ∧ Mxl.C17.symInit d s = s.init := by
  have h1 : speciesHosu = true := rfl
  have h2 : speciesInitAmount = true := rfl
  rw [h1] at hh; rw [h2] at ha
  refine ⟨fun a => by simp [Mxl.C17.symOfAmount, Mxl.C17.amountOfSym, hh], ?_⟩
  cases hi : s.init <;> simp [Mxl.C17.symInit, Mxl.C17.symOfAmount, hh, ha, hi]

/-- **Bridge to the import side, document level** (cross-audit): for a model with variables, C17's document semantics — the
    reference the imported model is compared with — reads the document `write` produces (`toC17`: compartments, species with
    their written attributes, no function definitions) as the written `SDoc` with the compartments added as constant parameters:
    same flattening (`toSDoc`), and the same d amount / dt at the same amounts (`docRhs17`), whatever the compartments and sizes.
    What is left between `C08_write_roundtrip` (about `dc.doc`) and C17's reading is only that parameters no math mentions do not
    change a value (`evalMath_mono` direction; compartment ids are apart from the component names, `C08_compartment_ids_apart`). -/
theorem C08_written_doc_import_reading (I : Interp) (m : PyModel) (o : Option (List (String × Rat))) (dc : SDocC)
    (hv : m.vars ≠ []) (h : writeModel m o = .ok dc) :
    Mxl.C17.toSDoc (toC17 dc) =
      { dc.doc with params := dc.doc.params ++ dc.compartments.map (fun kv => (kv.1, some kv.2)) } ∧
    ∀ amounts x, Mxl.C17.docRhs17 I (toC17 dc) amounts x =
      docRhs I { dc.doc with params := dc.doc.params ++ dc.compartments.map (fun kv => (kv.1, some kv.2)) } amounts x :=
  ⟨toSDoc_written m o dc hv h, fun amounts x => docRhs17_written I m o dc hv h amounts x⟩

/-- compartment ids and component names stay apart (F-C08-16): no compartment of a written file is called like a
    parameter, variable, derived quantity or reaction of the model; the default call never fails on that account. -/
theorem C08_compartment_ids_apart (m : PyModel) (o : Option (List (String × Rat))) (dc : SDocC)
    (h : writeModel m o = .ok dc) : ∀ c ∈ dc.compartments, m.names.contains c.1 = false := by
  obtain ⟨cs, hc, he⟩ := writeModel_ok h
  rw [(exportModelC_doc he).2.1]
  exact chooseCompartments_apart hc

theorem C08_default_compartment_total (m : PyModel) :
    ∃ n, chooseCompartments m.names none = .ok [(n, (defaultCompartmentSize : Rat))] :=
  chooseCompartments_default_total m.names

/-- variables but no compartment: the export raises (a species needs one) -/
theorem C08_no_compartment_refused (m : PyModel) (hv : m.vars ≠ []) :
    ∃ err, writeModel m (some []) = .error err := by
  have hr : compartmentClashRefused = true := rfl
  have hl : speciesCompartmentLit = none := rfl
  simp only [writeModel, chooseCompartments, hr, List.any_nil, Bool.and_false, Bool.false_eq_true, if_false,
    bind, Except.bind, exportModelC]
  cases h1 : foldE exportParam SDoc.empty m.escArgs.params with
  | error e => exact ⟨e, rfl⟩
  | ok d1 =>
    simp only []
    cases h2 : foldE (fun d kv => exportRule d kv.1 kv.2) d1 m.escArgs.derived with
    | error e => exact ⟨e, rfl⟩
    | ok d2 =>
      simp only []
      cases hvars : m.escArgs.vars with
      | nil => exact absurd ((escArgs_vars_nil m).mp hvars) hv
      | cons v vs => exact ⟨.valueError "SBML species need a compartment, but `compartments` is empty", by simp [speciesCompartment, hl]⟩

/-- `_free_reference` terminates: within `len(taken) + 1` rounds it finds a name that is not taken, so the name of
    a species reference (and of the default compartment) always exists — the `unreachable` error of the model is. -/
theorem C08_free_reference_total (taken : List String) (x : String) :
    (∃ r, freshName taken x (taken.length + 1) = some r ∧ taken.contains r = false) ∧
    (∃ n, refName taken x = .ok (n, n :: taken) ∧ taken.contains n = false) :=
  ⟨freshName_total taken x, refName_total taken x⟩

/-- non-vacuity: the former counterexample of F-C08-16 — a parameter called `compartment` — is written with the
    default compartment `compartment_`, the species in it, as amounts -/
example : ∃ dc, writeModel ⟨[("compartment", .val 3)], [("x", .val 2)], [], []⟩ none = .ok dc ∧
    dc.compartments = [("compartment_", (defaultCompartmentSize : Rat))] ∧ dc.species = [⟨"x", "compartment_", true, true⟩] := by
  refine ⟨_, rfl, ?_, ?_⟩ <;> decide +kernel
example : ∃ dc, writeModel clashModel (some [("cell", 4), ("c2", 1)]) = .ok dc ∧
    dc.species.map (·.compartment) = ["cell", "cell"] := by
  refine ⟨_, rfl, ?_⟩; decide +kernel
example : ∃ err, writeModel clashModel (some [("r1", 4)]) = .error err := ⟨_, rfl⟩
/-- the former F-C08-19 counterexample: a compartment called `yref`; the references are `yref_` and `yref__` -/
example : ∃ dc, writeModel clashModel (some [("yref", 5)]) = .ok dc ∧ dc.doc.rules.map (·.1) = ["yref_", "yref__"] ∧
    docRhs (fun _ _ => none) dc.doc [("x", 2), ("y", 3)] "y" = some 117 := by
  refine ⟨_, rfl, ?_, ?_⟩ <;> decide +kernel

/-! ### facts about the tables and structural choices read from `_export.py` -/

theorem C08_tables :
    ifexpOrder = [.body, .test, .orelse] ∧ computedSide = .product ∧ negSide = .reactant ∧
    nonnegSide = .product ∧ unknownCallRaises = true ∧ arityChecked = true ∧ logWithBase = true ∧
    iaSetterExists = true ∧ libParents = pyLibs ∧ binaryNumpyOnly = true ∧ bodyFirstReturn = true ∧
    refFresh = true ∧ refSuffix = "ref" ∧ refAvoidsCompartments = true ∧
    iaSymbolDeclared = true ∧ mathUsesIds = true ∧ prefixRefId = prefixRule ∧ prefixRefSpecies = prefixVar ∧
    exportOrder = [.params, .derivedParams, .vars, .derivedVars, .rxns] ∧
    speciesHosu = true ∧ speciesInitAmount = true ∧ speciesCompartmentLit = none ∧
    defaultCompartmentId = "compartment" ∧ defaultCompartmentFresh = true ∧
    compartmentClashRefused = true := by
  decide

/-- why `math.remainder` must not be exported as `rem` (finding F-C08-11, repaired): the IEEE remainder
    of 5 by 3 is −1, the MathML / numpy one is 2 -/
theorem C08_math_remainder_differs (I : Interp) :
    Sem.eval I .ieeeRem [5, 3] = some (-1) ∧ Sem.eval I .rem [5, 3] = some 2 := by
  have h1 : Sem.eval (fun _ _ => none) .ieeeRem [5, 3] = some (-1) := by decide +kernel
  have h2 : Sem.eval (fun _ _ => none) .rem [5, 3] = some 2 := by decide +kernel
  exact ⟨h1, h2⟩

/-- no function name is in two of the UNARY / BINARY / NARY tables (the order of the lookups is immaterial) -/
theorem C08_tables_disjoint :
    (unaryTable.map (·.1)).all (fun k => !(binaryTable.map (·.1)).contains k && !(naryTable.map (·.1)).contains k) = true ∧
    (binaryTable.map (·.1)).all (fun k => !(naryTable.map (·.1)).contains k) = true := by
  decide

end Mxl.C08
