/-
C08 — SBML export then import reproduces the model, or export fails.
Theorems about the executable model of `mxlpy/sbml/_export.py` (Model/C08Export.lean, tables generated
from the repo's source) against the two declarative semantics of Model/C08Sem.lean / C08Doc.lean.
-/
import MxlVerif.Lemmas.C08
namespace Mxl.C08
open Gen

/-- The expression compiler is sound: whenever the exporter accepts an expression and Python gives it
    a value, the SBML reading of the exported MathML tree has the same value — in every environment
    and for every interpretation of the transcendental functions. -/
theorem C08_math_sound (I : Interp) (env : VEnv) :
    ∀ e m v, convert e = .ok m → evalPy I env e = some v → evalMath I env m = some v := by
  refine (renameExpr.mutual_induct
    (motive_1 := fun e => ∀ m v, convert e = .ok m → evalPy I env e = some v → evalMath I env m = some v)
    (motive_2 := fun es => ∀ ms vs, convertList es = .ok ms → evalPyList I env es = some vs →
      evalMathList I env ms = some vs)
    (motive_3 := fun rest => ∀ pm pv ms v, evalMath I env pm = some pv → convertLinks pm rest = .ok ms →
      evalPyLinks I env pv rest = some v → evalAnd I env ms = some v)
    ?name ?const ?unary ?binop ?compare ?ifexp ?call ?attr ?attrDeep ?boolop ?other
    ?lnil ?lcons ?nil ?cons).1
  case name =>
    intro id m v hc hp
    simp only [convert, Except.ok.injEq] at hc
    subst hc
    simpa [evalPy, evalMath] using hp
  case const =>
    intro c m v hc hp
    cases c with
    | num q => simp [convert, convertConst] at hc; subst hc; simpa [evalPy, evalMath] using hp
    | bool b =>
      cases b <;> simp [convert, convertConst] at hc <;> subst hc <;> simpa [evalPy, evalMath] using hp
    | other => simp [convert, convertConst] at hc
  case unary =>
    intro op e ih m v hc hp
    simp only [convert] at hc
    obtain ⟨m1, h1, hc⟩ := except_bind_ok hc
    obtain ⟨t, ht, hc⟩ := except_bind_ok hc
    simp only [pure, Except.pure, Except.ok.injEq] at hc
    subst hc
    simp only [evalPy] at hp
    obtain ⟨v1, hv1, hp⟩ := option_bind_some hp
    obtain ⟨hl, ha⟩ := unaryOp_sound I ht hp
    rw [evalMath_strict I env t _ hl]
    simp [evalMathList, ih m1 v1 h1 hv1, ha]
  case binop =>
    intro op l r ihl ihr m v hc hp
    simp only [convert] at hc
    obtain ⟨a, ha, hc⟩ := except_bind_ok hc
    obtain ⟨b, hb, hc⟩ := except_bind_ok hc
    obtain ⟨t, ht, hc⟩ := except_bind_ok hc
    simp only [pure, Except.pure, Except.ok.injEq] at hc
    subst hc
    simp only [evalPy] at hp
    obtain ⟨va, hva, hp⟩ := option_bind_some hp
    obtain ⟨vb, hvb, hp⟩ := option_bind_some hp
    simp only [Option.map_eq_some_iff] at hp
    obtain ⟨q, hq, rfl⟩ := hp
    obtain ⟨hl, hs⟩ := binOp_sound I ht hq
    rw [evalMath_strict I env t _ hl]
    simp [evalMathList, ihl a va ha hva, ihr b vb hb hvb, hs]
  case compare =>
    intro l op r rest ihl ihr ihrest m v hc hp
    simp only [convert] at hc
    obtain ⟨t, ht, hc⟩ := except_bind_ok hc
    obtain ⟨a, ha, hc⟩ := except_bind_ok hc
    obtain ⟨b, hb, hc⟩ := except_bind_ok hc
    obtain ⟨tl, htl, hc⟩ := except_bind_ok hc
    simp only [evalPy] at hp
    obtain ⟨va, hva, hp⟩ := option_bind_some hp
    obtain ⟨vb, hvb, hp⟩ := option_bind_some hp
    obtain ⟨ok, hok, hp⟩ := option_bind_some hp
    obtain ⟨hl, hs⟩ := cmpOp_sound I ht hok
    have hfirst : evalMath I env (.apply t [a, b]) = some (.bool ok) := by
      rw [evalMath_strict I env t _ hl]
      simp [evalMathList, ihl a va ha hva, ihr b vb hb hvb, hs]
    cases tl with
    | nil =>
      simp only [pure, Except.pure, Except.ok.injEq] at hc
      subst hc
      cases rest with
      | nil =>
        cases ok <;> simp [evalPyLinks] at hp <;> subst hp <;> exact hfirst
      | cons lk rest' =>
        obtain ⟨op', e'⟩ := lk
        simp only [convertLinks] at htl
        obtain ⟨_, _, htl⟩ := except_bind_ok htl
        obtain ⟨_, _, htl⟩ := except_bind_ok htl
        obtain ⟨_, _, htl⟩ := except_bind_ok htl
        simp [pure, Except.pure] at htl
    | cons x xs =>
      simp only [pure, Except.pure, Except.ok.injEq] at hc
      subst hc
      rw [evalMath_and, evalAnd_cons, hfirst]
      cases ok with
      | false => simp at hp; subst hp; simp [Val.truthy]
      | true =>
        simp only [if_true] at hp
        have := ihrest b vb (x :: xs) v (ihr b vb hb hvb) htl hp
        simpa [Val.truthy] using this
  case ifexp =>
    intro t b o iht ihb iho m v hc hp
    simp only [convert] at hc
    obtain ⟨c, hcc, hc⟩ := except_bind_ok hc
    obtain ⟨x, hx, hc⟩ := except_bind_ok hc
    obtain ⟨y, hy, hc⟩ := except_bind_ok hc
    simp only [pure, Except.pure, Except.ok.injEq] at hc
    subst hc
    simp only [evalPy] at hp
    obtain ⟨vc, hvc, hp⟩ := option_bind_some hp
    have hch : ifexpChildren c x y = [x, c, y] := rfl
    rw [evalMath_piecewise, hch, evalPieces_three, iht c vc hcc hvc]
    show (if vc.truthy = true then evalMath I env x else evalMath I env y) = some v
    by_cases htr : vc.truthy = true
    · rw [if_pos htr] at hp ⊢
      exact ihb x v hx hp
    · rw [if_neg htr] at hp ⊢
      exact iho y v hy hp
  case call =>
    intro f args ih m v hc hp
    simp only [convert] at hc
    obtain ⟨name, hname, hc1⟩ := except_bind_ok hc
    clear hc
    obtain ⟨⟨t, k, u⟩, hk, hc2⟩ := except_bind_ok hc1
    clear hc1
    obtain ⟨rfl, fn, rfl, hcases⟩ := callKind_ok hk
    dsimp only at hc2
    obtain ⟨ms, hms, hc3⟩ := except_bind_ok hc2
    simp only [pure, Except.pure, Except.ok.injEq] at hc3
    subst hc3
    simp only [evalPy] at hp
    obtain ⟨vs, hvs, hp⟩ := option_bind_some hp
    simp only [Option.map_eq_some_iff] at hp
    obtain ⟨q, hq, rfl⟩ := hp
    have hargs := ih ms vs hms hvs
    -- the Python meaning is that of the bare function name
    have hsem : (pySem fn).bind (·.eval I (vs.map Val.toNum)) = some q := by
      cases f with
      | direct f' =>
        simp only [calleeName, Except.ok.injEq, Option.some.injEq] at hname
        subst hname
        simpa [pyCall] using hq
      | lib p a =>
        simp only [calleeName, Except.ok.injEq] at hname
        split at hname
        · rename_i hp'
          simp only [Option.some.injEq] at hname
          subst hname
          -- `math.remainder` is not accepted, every other `module.name` means what the bare name means
          have hnot : ¬ (p = "math" ∧ a = "remainder") := by
            rintro ⟨rfl, rfl⟩
            rcases hcases with ⟨_, _, hm⟩ | ⟨_, _, him, _⟩ | ⟨_, hm⟩
            · exact (remainder_not_unary_nary t).1 hm
            · simp [calleeIsMath] at him
            · exact (remainder_not_unary_nary t).2 hm
          simpa [pyCall, libParents_sub hp', pySemLib_eq hnot] using hq
        · simp at hname
      | libDeep => simp [calleeName] at hname
      | other => simp [calleeName] at hname
    have hlen : ms.length = args.length ∧ vs.length = args.length :=
      ⟨convertList_length hms, evalPyList_length hvs⟩
    rcases hcases with ⟨rfl, hn, hm⟩ | ⟨rfl, hn, _, hm⟩ | ⟨rfl, hm⟩
    · -- unary
      obtain ⟨hms1, hvs1⟩ := hlen
      rw [hn] at hms1 hvs1
      match ms, vs, hms1, hvs1 with
      | [m1], [v1], _, _ =>
        obtain ⟨hl, hs⟩ := unary_entry_sound I hm hsem
        rw [evalMath_strict I env t _ hl]
        simp only [if_true, unaryChildren]
        simp only [evalMathList] at hargs
        obtain ⟨w1, hw1, hargs⟩ := option_bind_some hargs
        simp at hargs
        subst hargs
        by_cases hlog : (logWithBase && t == MType.fnLog) = true
        · simp only [hlog, if_true] at hs ⊢
          simp [evalMathList, evalMath, hw1, hs]
        · simp only [hlog] at hs ⊢
          have hs' : applyStrict I t [w1] = some (.num q) := by simpa using hs
          simp [evalMathList, hw1, hs']
    · -- binary
      obtain ⟨hms1, hvs1⟩ := hlen
      rw [hn] at hms1 hvs1
      match ms, vs, hms1, hvs1 with
      | [m1, m2], [v1, v2], _, _ =>
        obtain ⟨hl, hs⟩ := binary_entry_sound I hm hsem
        rw [evalMath_strict I env t _ hl]
        simp [hargs, hs]
    · -- n-ary
      obtain ⟨hl, hs⟩ := nary_entry_sound I hm hsem
      rw [evalMath_strict I env t _ hl]
      simp [hargs, hs]
  case attr =>
    intro p a m v hc hp
    simp only [convert, convertAttr] at hc
    by_cases hp' : libParents.contains p = true
    · rw [if_pos hp'] at hc
      cases hl : attrConstTable.lookup a with
      | none => simp [hl] at hc
      | some m' =>
        simp only [hl, Except.ok.injEq] at hc
        subst hc
        have hm := mem_of_lookup hl
        simp only [attrConstTable, List.mem_cons, List.mem_nil_iff, Prod.mk.injEq, or_false] at hm
        simp only [evalPy, pyAttr, libParents_sub hp', if_true] at hp
        rcases hm with ⟨rfl, rfl⟩ | ⟨rfl, rfl⟩ | ⟨rfl, rfl⟩ | ⟨rfl, rfl⟩ <;>
          simp +decide at hp <;> simp [evalMath, hp]
    · rw [if_neg hp'] at hc
      simp at hc
  case attrDeep => intro m v hc; simp [convert] at hc
  case boolop => intro a vals _ m v hc; simp [convert] at hc
  case other => intro m v hc; simp [convert] at hc
  case lnil =>
    intro pm pv ms v _ hc hp
    simp [convertLinks] at hc
    subst hc
    simpa [evalPyLinks, evalAnd] using hp
  case lcons =>
    intro op e rest ihe ihrest pm pv ms v hpm hc hp
    simp only [convertLinks] at hc
    obtain ⟨t, ht, hc⟩ := except_bind_ok hc
    obtain ⟨b, hb, hc⟩ := except_bind_ok hc
    obtain ⟨tl, htl, hc⟩ := except_bind_ok hc
    simp only [pure, Except.pure, Except.ok.injEq] at hc
    subst hc
    simp only [evalPyLinks] at hp
    obtain ⟨vb, hvb, hp⟩ := option_bind_some hp
    obtain ⟨ok, hok, hp⟩ := option_bind_some hp
    obtain ⟨hl, hs⟩ := cmpOp_sound I ht hok
    have hfirst : evalMath I env (.apply t [pm, b]) = some (.bool ok) := by
      rw [evalMath_strict I env t _ hl]
      simp [evalMathList, hpm, ihe b vb hb hvb, hs]
    rw [evalAnd_cons, hfirst]
    cases ok with
    | false => simp at hp; subst hp; simp [Val.truthy]
    | true =>
      simp only [if_true] at hp
      have := ihrest b vb tl v (ihe b vb hb hvb) htl hp
      simpa [Val.truthy] using this
  case nil =>
    intro ms vs hc hp
    simp [convertList] at hc
    simp [evalPyList] at hp
    subst hc; subst hp
    simp [evalMathList]
  case cons =>
    intro e es ihe ihes ms vs hc hp
    simp only [convertList] at hc
    obtain ⟨m1, hm1, hc⟩ := except_bind_ok hc
    obtain ⟨ms1, hms1, hc⟩ := except_bind_ok hc
    simp only [pure, Except.pure, Except.ok.injEq] at hc
    subst hc
    simp only [evalPyList] at hp
    obtain ⟨v1, hv1, hp⟩ := option_bind_some hp
    obtain ⟨vs1, hvs1, hp⟩ := option_bind_some hp
    simp only [Option.some.injEq] at hp
    subst hp
    simp [evalMathList, ihe m1 v1 hm1 hv1, ihes ms1 vs1 hms1 hvs1]

/-- A construct without MathML counterpart anywhere in an expression makes the export raise. -/
theorem C08_unsupported_raises :
    ∀ e, hasUnsupported e = true → ∃ err, convert e = .error err := by
  refine (renameExpr.mutual_induct
    (motive_1 := fun e => hasUnsupported e = true → ∃ err, convert e = .error err)
    (motive_2 := fun es => hasUnsupportedList es = true → ∃ err, convertList es = .error err)
    (motive_3 := fun rest => hasUnsupportedLinks rest = true → ∀ pm, ∃ err, convertLinks pm rest = .error err)
    ?name ?const ?unary ?binop ?compare ?ifexp ?call ?attr ?attrDeep ?boolop ?other
    ?lnil ?lcons ?nil ?cons).1
  case name => intro id h; simp [hasUnsupported, unsupportedNode] at h
  case const =>
    intro c h
    cases c <;> simp [hasUnsupported, unsupportedNode] at h
    exact exists_err (by simp [convert, convertConst, isErr])
  case unary =>
    intro op e ih h
    cases hx : convert e with
    | error err => exact ⟨err, by simp [convert, hx, bind, Except.bind]⟩
    | ok m1 =>
      cases op with
      | invert =>
        exact exists_err (by simp [convert, hx, bind, Except.bind, lookupE, unaryOpTable_lookup, isErr])
      | usub | not | uadd =>
        simp [hasUnsupported, unsupportedNode] at h
        obtain ⟨err, he⟩ := ih h
        rw [hx] at he
        cases he
  case binop =>
    intro op l r ihl ihr h
    cases hl : convert l with
    | error err => exact ⟨err, by simp [convert, hl, bind, Except.bind]⟩
    | ok a =>
      cases hr : convert r with
      | error err => exact ⟨err, by simp [convert, hl, hr, bind, Except.bind]⟩
      | ok b =>
        cases op <;> simp +decide [hasUnsupported, unsupportedNode] at h <;>
          first
          | (rcases h with h | h
             · obtain ⟨err, he⟩ := ihl h; rw [hl] at he; cases he
             · obtain ⟨err, he⟩ := ihr h; rw [hr] at he; cases he)
          | exact exists_err (by simp [convert, hl, hr, bind, Except.bind, lookupE, binOpTable_lookup, isErr])
  case compare =>
    intro l op r rest ihl ihr ihrest h
    cases ht : lookupE cmpOpTable op "cmpop" with
    | error err => exact ⟨err, by simp [convert, ht, bind, Except.bind]⟩
    | ok t =>
      cases hl : convert l with
      | error err => exact ⟨err, by simp [convert, ht, hl, bind, Except.bind]⟩
      | ok a =>
        cases hr : convert r with
        | error err => exact ⟨err, by simp [convert, ht, hl, hr, bind, Except.bind]⟩
        | ok b =>
          cases hk : convertLinks b rest with
          | error err => exact ⟨err, by simp [convert, ht, hl, hr, hk, bind, Except.bind]⟩
          | ok tl =>
            exfalso
            cases op <;> simp +decide [hasUnsupported, unsupportedNode] at h <;>
              first
              | (simp [lookupE, cmpOpTable_lookup] at ht; done)
              | (rcases h with (h | h) | h
                 · obtain ⟨err, he⟩ := ihl h; rw [hl] at he; cases he
                 · obtain ⟨err, he⟩ := ihr h; rw [hr] at he; cases he
                 · obtain ⟨err, he⟩ := ihrest h b; rw [hk] at he; cases he)
  case ifexp =>
    intro t b o iht ihb iho h
    simp only [hasUnsupported, Bool.or_eq_true] at h
    cases hc : convert t with
    | error err => exact ⟨err, by simp [convert, hc, bind, Except.bind]⟩
    | ok c =>
      cases hx : convert b with
      | error err => exact ⟨err, by simp [convert, hc, hx, bind, Except.bind]⟩
      | ok x =>
        cases hy : convert o with
        | error err => exact ⟨err, by simp [convert, hc, hx, hy, bind, Except.bind]⟩
        | ok y =>
          exfalso
          rcases h with (h | h) | h
          · obtain ⟨err, he⟩ := iht h; rw [hc] at he; cases he
          · obtain ⟨err, he⟩ := ihb h; rw [hx] at he; cases he
          · obtain ⟨err, he⟩ := iho h; rw [hy] at he; cases he
  case call =>
    intro f args ih h
    simp only [hasUnsupported, Bool.or_eq_true] at h
    cases hn : calleeName f with
    | error err => exact ⟨err, by simp [convert, hn, bind, Except.bind]⟩
    | ok name =>
      cases hk : callKind name (calleeIsMath f) args.length with
      | error err => exact ⟨err, by simp [convert, hn, hk, bind, Except.bind]⟩
      | ok r =>
        obtain ⟨t, k, u⟩ := r
        obtain ⟨rfl, fn, rfl, _⟩ := callKind_ok hk
        have hknown := callKind_known hk
        rcases h with h | h
        · exfalso
          cases f with
          | direct f' =>
            simp only [calleeName, Except.ok.injEq, Option.some.injEq] at hn
            subst hn
            simp [unsupportedNode, hknown] at h
          | lib p a =>
            simp only [calleeName, Except.ok.injEq] at hn
            split at hn
            · rename_i hp'
              simp only [Option.some.injEq] at hn
              subst hn
              have := libParents_sub hp'
              simp [unsupportedNode, hknown, this] at h
            · simp at hn
          | libDeep => simp [calleeName] at hn
          | other => simp [calleeName] at hn
        · obtain ⟨err, he⟩ := ih h
          exact ⟨err, by simp [convert, hn, hk, he, bind, Except.bind]⟩
  case attr =>
    intro p a h
    simp only [hasUnsupported, unsupportedNode] at h
    cases hc : convertAttr p a with
    | error err => exact ⟨err, by simp [convert, hc]⟩
    | ok m =>
      exfalso
      simp only [convertAttr] at hc
      split at hc
      · rename_i hp'
        cases hl : attrConstTable.lookup a with
        | none => simp [hl] at hc
        | some m' =>
          have hm := mem_of_lookup hl
          have := libParents_sub hp'
          simp only [attrConstTable, List.mem_cons, List.mem_nil_iff, Prod.mk.injEq, or_false] at hm
          rcases hm with ⟨rfl, _⟩ | ⟨rfl, _⟩ | ⟨rfl, _⟩ | ⟨rfl, _⟩ <;> simp [this] at h
      · simp at hc
  case attrDeep => intro _; exact exists_err (by simp [convert, isErr])
  case boolop => intro a vals _ _; exact exists_err (by simp [convert, isErr])
  case other => intro _; exact exists_err (by simp [convert, isErr])
  case lnil => intro h; simp [hasUnsupportedLinks] at h
  case lcons =>
    intro op e rest ihe ihrest h pm
    cases ht : lookupE cmpOpTable op "cmpop" with
    | error err => exact ⟨err, by simp [convertLinks, ht, bind, Except.bind]⟩
    | ok t =>
      cases he : convert e with
      | error err => exact ⟨err, by simp [convertLinks, ht, he, bind, Except.bind]⟩
      | ok b =>
        cases hk : convertLinks b rest with
        | error err => exact ⟨err, by simp [convertLinks, ht, he, hk, bind, Except.bind]⟩
        | ok tl =>
          exfalso
          cases op <;> simp +decide [hasUnsupportedLinks] at h <;>
            first
            | (simp [lookupE, cmpOpTable_lookup] at ht; done)
            | (rcases h with h | h
               · obtain ⟨err, h'⟩ := ihe h; rw [he] at h'; cases h'
               · obtain ⟨err, h'⟩ := ihrest h b; rw [hk] at h'; cases h')
  case nil => intro h; simp [hasUnsupportedList] at h
  case cons =>
    intro e es ihe ihes h
    simp only [hasUnsupportedList, Bool.or_eq_true] at h
    cases hx : convert e with
    | error err => exact ⟨err, by simp [convertList, hx, bind, Except.bind]⟩
    | ok m1 =>
      rcases h with h | h
      · obtain ⟨err, he⟩ := ihe h; rw [hx] at he; cases he
      · obtain ⟨err, he⟩ := ihes h
        exact ⟨err, by simp [convertList, hx, he, bind, Except.bind]⟩

/-- A model function (a single `return`, called with the model names `f.args`) and its exported math
    agree: the value Python computes from the arguments' values is the value the SBML reading gives the
    exported tree in the model's own environment.  Covers `IdentifierReplacer`, `_handle_body`,
    `_convert_node`. -/
theorem C08_fn_sound (I : Interp) (env : VEnv) (f : PyFn) (e : PyExpr) (m : MathML) (v : Val)
    (hbody : f.body = [.ret (some e)]) (hfree : calleeFree f.params e = true)
    (hx : sbmlifyFn f = .ok m) (hv : callFn I env f = some v) : evalMath I env m = some v := by
  unfold sbmlifyFn at hx
  obtain ⟨σ, hσ, hx⟩ := except_bind_ok hx
  have hσ' := zipStrict_eq hσ
  subst hσ'
  simp only [hbody, List.map, renameStmt, handleBody, handleBodyFrom, convertStmt] at hx
  obtain ⟨c, hc, hx⟩ := except_bind_ok hx
  simp only [Except.ok.injEq] at hx
  subst hx
  unfold callFn at hv
  split at hv
  · simp only [hbody, evalPyBody] at hv
    exact C08_math_sound I env _ _ _ hc (rename_sound I env f.params f.args e v hfree hv)
  · simp at hv

/-- Identifiers of the form `[A-Za-z][A-Za-z0-9_]*` are written unchanged (whatever the prefix). -/
theorem C08_escape_plain (s pre : String) (h : isPlainName s = true) : escapeId s pre = .ok s :=
  escapeId_plain pre h

/-- … hence escaping is injective on them. -/
theorem C08_escape_injective_on_plain (s t pre pre' : String) (hs : isPlainName s = true)
    (ht : isPlainName t = true) (h : escapeId s pre = escapeId t pre') : s = t := by
  rw [escapeId_plain pre hs, escapeId_plain pre' ht] at h
  exact Except.ok.inj h

/-- Numeric coefficient: whatever its sign, the species reference the exporter writes (reactant with
    |q| if negative, product otherwise) has net coefficient `q` under the SBML reading. -/
theorem C08_stoich_sign_numeric (env : VEnv) (d d' : SDoc) (r r' : SRxn) (x sx : String) (q : Rat)
    (h : exportCoef (d, r) (x, .num q) = .ok (d', r')) (hsx : escapeId x "CPD" = .ok sx)
    (hfresh : ∀ s ∈ r.reactants ++ r.products, s.species ≠ sx) :
    d' = d ∧ netCoef env d' r' sx = some q := by
  have hr : ∀ s ∈ r.reactants, s.species ≠ sx := fun s hs => hfresh s (List.mem_append_left _ hs)
  have hp : ∀ s ∈ r.products, s.species ≠ sx := fun s hs => hfresh s (List.mem_append_right _ hs)
  simp only [exportCoef, hsx, bind, Except.bind, pure, Except.pure, Except.ok.injEq, Prod.mk.injEq] at h
  obtain ⟨rfl, rfl⟩ := h
  refine ⟨rfl, ?_⟩
  show netCoef env d (addRef (if q < 0 then negSide else nonnegSide) r ⟨sx, some (absRat q), none⟩) sx = some q
  by_cases hq : q < 0
  · rw [if_pos hq, show negSide = Side.reactant from rfl]
    simp only [addRef, netCoef]
    rw [sideSum_fresh env d hp, sideSum_fresh_add env d ⟨sx, some (absRat q), none⟩ hr rfl]
    simp only [refCoef, absRat, hq, if_true, bind, Option.bind, Option.map]
    congr 1
    grind
  · rw [if_neg hq, show nonnegSide = Side.product from rfl]
    simp only [addRef, netCoef]
    rw [sideSum_fresh env d hr, sideSum_fresh_add env d ⟨sx, some (absRat q), none⟩ hp rfl]
    simp only [refCoef, absRat, hq, if_false, bind, Option.bind, Option.map]
    congr 1
    grind

/-- Computed coefficient: the exporter writes an assignment rule holding the exported function and a
    species reference whose net coefficient is *plus* the value of that rule — the sign of the computed
    value is kept (finding F-C08-1, repaired). -/
theorem C08_stoich_sign_computed (env : VEnv) (d d' : SDoc) (r r' : SRxn) (x sx rid : String) (f : PyFn)
    (h : exportCoef (d, r) (x, .computed f) = .ok (d', r')) (hsx : escapeId x "CPD" = .ok sx)
    (hrid : escapeId (x ++ "ref") "CPD" = .ok rid) (hrid' : escapeId (x ++ "ref") "AR" = .ok rid)
    (hfresh : ∀ s ∈ r.reactants ++ r.products, s.species ≠ sx) :
    (∃ m, sbmlifyFn f = .ok m ∧ lookupLast d'.rules rid = some m) ∧
      netCoef env d' r' sx = (env rid).map Val.toNum := by
  have hr : ∀ s ∈ r.reactants, s.species ≠ sx := fun s hs => hfresh s (List.mem_append_left _ hs)
  have hp : ∀ s ∈ r.products, s.species ≠ sx := fun s hs => hfresh s (List.mem_append_right _ hs)
  simp only [exportCoef, exportRule, hrid', hsx, hrid, bind, Except.bind, pure, Except.pure] at h
  cases hm : sbmlifyFn f with
  | error err => simp [hm] at h
  | ok m =>
    simp only [hm, Except.ok.injEq, Prod.mk.injEq] at h
    obtain ⟨rfl, rfl⟩ := h
    have hl : lookupLast (d.rules ++ [(rid, m)]) rid = some m := lookupLast_append_self _ _ _
    refine ⟨⟨m, rfl, hl⟩, ?_⟩
    show netCoef env _ (addRef computedSide r ⟨sx, none, some rid⟩) sx = _
    rw [show computedSide = Side.product from rfl]
    simp only [addRef, netCoef]
    rw [sideSum_fresh env _ hr, sideSum_fresh_add env _ ⟨sx, none, some rid⟩ hp rfl]
    simp only [refCoef, hl]
    cases env rid with
    | none => rfl
    | some w =>
      simp only [bind, Option.bind, Option.map]
      congr 1
      grind

/-- A whole `rxn.stoichiometry` (keys `[A-Za-z][A-Za-z0-9_]*`, pairwise distinct as dict keys are): after
    `exportCoefs` every species has, under the SBML reading, exactly the coefficient the model gives it —
    the number itself, or plus the value of the rule `<species>ref` for a computed coefficient — and
    species outside the dict keep the net coefficient they had.  (One reaction; across reactions the
    rule names can clash: finding F-C08-7.) -/
theorem C08_reaction_stoich (env : VEnv) :
    ∀ (l : List (String × PyCoef)) (d d' : SDoc) (r r' : SRxn),
      exportCoefs (d, r) l = .ok (d', r') →
      (∀ kv ∈ l, isPlainName kv.1 = true) → (l.map (·.1)).Nodup →
      (∀ kv ∈ l, ∀ s ∈ refsOf r, s.species ≠ kv.1) →
      (∀ kv ∈ l, netCoef env d' r' kv.1 = coefVal env kv) ∧
      (∀ z, (∀ kv ∈ l, kv.1 ≠ z) →
        (∀ kv ∈ l, ∀ s ∈ refsOf r, s.species = z → s.id ≠ some (kv.1 ++ "ref")) →
        netCoef env d' r' z = netCoef env d r z) := by
  intro l
  induction l with
  | nil =>
    intro d d' r r' h _ _ _
    simp only [exportCoefs, Except.ok.injEq, Prod.mk.injEq] at h
    obtain ⟨rfl, rfl⟩ := h
    exact ⟨fun kv hkv => (by cases hkv), fun z _ _ => rfl⟩
  | cons kv rest ih =>
    intro d d' r r' h hplain hnodup hfresh
    obtain ⟨x, c⟩ := kv
    simp only [exportCoefs] at h
    obtain ⟨⟨d1, r1⟩, h1, h2⟩ := except_bind_ok h
    have hx : isPlainName x = true := hplain (x, c) List.mem_cons_self
    have hplain' : ∀ kv ∈ rest, isPlainName kv.1 = true := fun kv hk => hplain kv (List.mem_cons_of_mem _ hk)
    simp only [List.map_cons, List.nodup_cons] at hnodup
    obtain ⟨hxnot, hnodup'⟩ := hnodup
    have hxne : ∀ kv ∈ rest, kv.1 ≠ x := by
      intro kv hk e
      exact hxnot (List.mem_map.mpr ⟨kv, hk, e⟩)
    have hfx : ∀ s ∈ refsOf r, s.species ≠ x := hfresh (x, c) List.mem_cons_self
    -- references of r1: those of r plus one for x whose id is none or x ++ "ref"
    have hrefs : ∀ s ∈ refsOf r1, s ∈ refsOf r ∨ (s.species = x ∧ (s.id = none ∨ s.id = some (x ++ "ref"))) := by
      intro s hs
      rcases exportCoef_shape hx h1 with ⟨q, _, _, hr1⟩ | ⟨f, m, _, _, _, hr1⟩
      · rw [hr1] at hs
        rcases (refsOf_addRef _ _ _ s).mp hs with h | h
        · exact .inl h
        · exact .inr (by rw [h]; exact ⟨rfl, .inl rfl⟩)
      · rw [hr1] at hs
        rcases (refsOf_addRef _ _ _ s).mp hs with h | h
        · exact .inl h
        · exact .inr (by rw [h]; exact ⟨rfl, .inr rfl⟩)
    have hfresh' : ∀ kv ∈ rest, ∀ s ∈ refsOf r1, s.species ≠ kv.1 := by
      intro kv hk s hs
      rcases hrefs s hs with h | ⟨h, _⟩
      · exact hfresh kv (List.mem_cons_of_mem _ hk) s h
      · rw [h]; exact fun e => hxne kv hk e.symm
    obtain ⟨iha, ihb⟩ := ih d1 d' r1 r' h2 hplain' hnodup' hfresh'
    -- the entry itself, right after it has been written
    have hhead1 : netCoef env d1 r1 x = coefVal env (x, c) := by
      have hfr : ∀ s ∈ r.reactants ++ r.products, s.species ≠ x := hfx
      cases c with
      | num q => exact (C08_stoich_sign_numeric env d d1 r r1 x x q h1 (escapeId_plain "CPD" hx) hfr).2
      | computed f =>
        have hxr := isPlainName_append_ref hx
        exact (C08_stoich_sign_computed env d d1 r r1 x x (x ++ "ref") f h1 (escapeId_plain "CPD" hx)
          (escapeId_plain "CPD" hxr) (escapeId_plain "AR" hxr) hfr).2
    refine ⟨?_, ?_⟩
    · intro kv hk
      rcases List.mem_cons.mp hk with rfl | hk'
      · -- later entries do not disturb it
        have := ihb x hxne (by
          intro kv' hk' s hs hsx
          rcases hrefs s hs with h | ⟨_, hid | hid⟩
          · exact absurd hsx (hfx s h)
          · rw [hid]; exact fun e => by cases e
          · rw [hid]
            intro e
            exact hxne kv' hk' (append_ref_inj (Option.some.inj e)).symm)
        rw [this]
        exact hhead1
      · exact iha kv hk'
    · intro z hz hid
      have hxz : x ≠ z := hz (x, c) List.mem_cons_self
      have h1z := netCoef_frame env hx h1 hxz (hid (x, c) List.mem_cons_self)
      have := ihb z (fun kv hk => hz kv (List.mem_cons_of_mem _ hk)) (by
        intro kv' hk' s hs hsz
        rcases hrefs s hs with h | ⟨h, _⟩
        · exact hid kv' (List.mem_cons_of_mem _ hk') s h hsz
        · exact absurd (h.symm.trans hsz) hxz)
      rw [this, h1z]

/-! ### names (finding F-C08-5: known) -/

/-- Full statement: every component name comes back under its name (write the id, read it through the
    importer's identifier mapping).  False of the code: -/
theorem C08_names_roundtrip_fails :
    ¬ ∀ s pre : String, (escapeId s pre).map nameToPy = .ok s := by
  intro h
  have := congrArg Except.toOption (h "x.c" "CPD")
  revert this
  decide

/-- escaping alone is not injective either: a legal Python-side name collides with an escaped one -/
theorem C08_escape_not_injective :
    (escapeId "a.b" "CPD").toOption = (escapeId "a__46__b" "CPD").toOption ∧ "a.b" ≠ "a__46__b" := by
  decide

/-- `_partial`: names `[A-Za-z][A-Za-z0-9_]*` without a double underscore that are not Python keywords
    do come back unchanged. -/
theorem C08_names_roundtrip_partial (s pre : String) (h : isRoundTripName s = true) :
    (escapeId s pre).map nameToPy = .ok s := by
  have hp : isPlainName s = true := by
    simp only [isRoundTripName, Bool.and_eq_true] at h
    exact h.1.1
  rw [escapeId_plain pre hp]
  simp [Except.map, nameToPy_plain s h]

example : isRoundTripName "ATP_c" = true := by decide
example : isRoundTripName "x.c" = false := by decide
example : isRoundTripName "lambda" = false := by decide

/-! ### species-reference ids (finding F-C08-7: known) -/

/-- two reactions, each with a computed coefficient on `y` -/
def clashModel : PyModel :=
  let coef (c : Rat) : PyFn := ⟨["p"], [.ret (some (.binop .mult (.name "p") (.const (.num c))))], ["k"]⟩
  let rate (v : String) : PyFn := ⟨["a", "b"], [.ret (some (.binop .mult (.name "a") (.name "b")))], ["k", v]⟩
  { params := [("k", .val 3)], vars := [("x", .val 2), ("y", .val 3)], derived := [],
    rxns := [⟨"r1", rate "x", [("x", .num (-1)), ("y", .computed (coef 2))]⟩,
             ⟨"r2", rate "y", [("y", .computed (coef 3))]⟩] }

/-- Full statement at model level — the derivative of every variable survives the round trip — is
    false of the code: both reactions write the rule `yref`, the importer keeps the later one. -/
theorem C08_roundtrip_rhs_fails :
    ¬ ∀ (m : PyModel) (d : SDoc) (st : List (String × Rat)) (x : String),
        exportModel m = .ok d → docRhs (fun _ _ => none) d st x = pyRhs (fun _ _ => none) m st x := by
  intro h
  have hd : ∃ d, exportModel clashModel = .ok d ∧
      docRhs (fun _ _ => none) d [("x", 2), ("y", 3)] "y" ≠
        pyRhs (fun _ _ => none) clashModel [("x", 2), ("y", 3)] "y" := by
    refine ⟨_, rfl, ?_⟩
    decide +kernel
  obtain ⟨d, hd1, hd2⟩ := hd
  exact hd2 (h clashModel d _ _ hd1)

/-! ### facts about the tables and structural choices read from `_export.py` -/

theorem C08_tables :
    ifexpOrder = [.body, .test, .orelse] ∧ computedSide = .product ∧ negSide = .reactant ∧
    nonnegSide = .product ∧ unknownCallRaises = true ∧ arityChecked = true ∧ logWithBase = true ∧
    iaSetterExists = true ∧ libParents = pyLibs ∧ binaryNumpyOnly = true := by
  decide

/-- why `math.remainder` must not be exported as `rem` (finding F-C08-11, repaired): the IEEE remainder
    of 5 by 3 is −1, the MathML / numpy one is 2 -/
theorem C08_math_remainder_differs (I : Interp) :
    Sem.eval I .ieeeRem [5, 3] = some (-1) ∧ Sem.eval I .rem [5, 3] = some 2 := by
  have h1 : Sem.eval (fun _ _ => none) .ieeeRem [5, 3] = some (-1) := by decide +kernel
  have h2 : Sem.eval (fun _ _ => none) .rem [5, 3] = some 2 := by decide +kernel
  exact ⟨h1, h2⟩

/-- no function name is in two of the UNARY / BINARY / NARY tables (the order of the lookups is immaterial) -/
theorem C08_tables_disjoint :
    (unaryTable.map (·.1)).all (fun k => !(binaryTable.map (·.1)).contains k && !(naryTable.map (·.1)).contains k) = true ∧
    (binaryTable.map (·.1)).all (fun k => !(naryTable.map (·.1)).contains k) = true := by
  decide

end Mxl.C08
