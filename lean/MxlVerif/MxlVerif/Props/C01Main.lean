/-
C01 — headline statement under the single hypothesis `WFnames` (all component names distinct —
what `Model._ids` enforces — and surrogates returning one value per declared output).
Helper lemmas: Lemmas/{WFNames,Total,StaticHolds,Tables,Final,NamesFinal}.lean.
-/
import MxlVerif.Lemmas.NamesFinal
import MxlVerif.Lemmas.Total
namespace Mxl.C01
open Mxl

/-- **Derivatives = stoichiometry × rates over fully resolved values.**
    For every content with distinct names (any declaration order, any mix of plain and
    assignment-defined parameters and variables, derived quantities chained to any depth, reactions
    with numeric / computed coefficients, multi-output surrogates, time dependence), every time `t`
    and every state `xs`: whenever the positional call returns `d`, there is one argument
    environment `env` — the one `_get_args` builds — such that
    * `d` has one entry per variable, in declaration order, and the entry of `x` is
      `totalOf env x c.allStoich` = Σ over all reaction and surrogate fluxes of Σ over that flux's
      stoichiometry entries naming `x` of (coefficient, evaluated in `env` if computed) × (flux value
      in `env`) — `0` for a variable nothing touches (empty sum);
    * every derived quantity (static or dynamic) is its function applied to the values its
      arguments have in `env`; so is every reaction rate and every surrogate (`cache.dynOrder`);
    * every name not produced by a dynamic component — `time`, the supplied state, parameters —
      has the supplied / cached value. -/
theorem C01_rhs_is_Nv {c : Content} (hn : WFnames c)
    (hflux : (omKeys c.allStoich).Nodup)
    (hcpd : ∀ flux s, (flux, s) ∈ c.allStoich → (omKeys s).Nodup)
    {t : Rat} {xs d : List Rat} (h : callRhs c t xs = .ok d) :
    ∃ cache env, createCache c = .ok cache ∧
      getArgsEnv c cache (cache.varNames.zip xs) t = .ok env ∧
      d = (omKeys c.vars).map (fun x => totalOf env x c.allStoich) ∧
      (∀ k dq, c.derived.lookup k = some dq → (Comp.fn dq).Holds k env) ∧
      (∀ k ∈ cache.dynOrder, ∀ comp, c.containers.lookup k = some comp → comp.Holds k env) ∧
      (∀ n, n ∉ cache.dynOrder.flatMap (providedOf c.containers) →
        env.lookup n = (baseEnv cache.allPars (cache.varNames.zip xs) c.data t).lookup n) := by
  have hwf := WFd_of_names c hn
  obtain ⟨cache, env, hc, he, hd⟩ :=
    callRhs_is_Nv hwf (ParNamesDistinct_of_names hn) hflux hcpd h
  obtain ⟨_, _, _, hvn, hlen, _, _, _⟩ := callRhs_stages c t xs d h
  have hc' : createCache c = .ok _ := hc
  have hv : (cache.varNames.zip xs).map (·.1) = omKeys c.vars := by
    obtain ⟨_, _, _, _, _, _, _, _, _, _, _, hcache⟩ := createCache_ok hc
    have hvn' : cache.varNames = omKeys c.vars := by rw [hcache]
    have hl : xs.length = cache.varNames.length := by
      unfold callRhs at h
      simp only [hc, bind, Except.bind] at h
      by_cases hne : (xs.length != cache.varNames.length) = true
      · simp [hne] at h
      · simpa using hne
    rw [← hvn']
    exact zip_keys cache.varNames xs hl
  obtain ⟨hholds, hframe⟩ := getArgs_consistent hwf hc _ hv t he
  exact ⟨cache, env, hc, he, hd,
    fun k dq hk => derived_holds hn hc _ hv t he k dq hk, hholds, hframe⟩

/-- **The argument table exists for every well-formed sortable model** (no spurious failure):
    distinct names and a complete acyclic dependency graph suffice for `_create_cache` and
    `_get_args` to return, for every state and time. -/
theorem C01_args_total (c : Content) (hn : WFnames c) (hs : Sortable c.available c.deps)
    (vars : List (Name × Rat)) (hv : vars.map (·.1) = omKeys c.vars) (t : Rat) :
    ∃ cache env, createCache c = .ok cache ∧ getArgsEnv c cache vars t = .ok env :=
  getArgs_total c hn hs vars hv t

/-- the hypotheses of `C01_rhs_is_Nv` hold on a non-trivial model (evaluated in `Props/C01Args.lean`:
    `callRhs exNVc 1 [2, 1, 9] = ok [-9, 22, 0]`) -/
def exNVc : Content :=
  { vars := [("x", .plain 2), ("y", .plain 1), ("z", .plain 9)], pars := [("p", .plain 3)],
    derived := [("d", ⟨["x", "time"], fun v => v.getD 0 0 + v.getD 1 0⟩)],
    rxns := [("r", ⟨⟨["d", "p"], fun v => v.getD 0 0 * v.getD 1 0⟩,
      [("x", .num (-1)), ("y", .dyn ⟨["x"], fun v => v.getD 0 0⟩)]⟩)],
    surs := [("s", ⟨["x"], ["o1", "f1"], fun v => [v.getD 0 0, 2 * v.getD 0 0],
      [("f1", [("y", .num 1)])]⟩)] }

example : WFnames exNVc :=
  ⟨by decide +kernel, by intro kv h vs; simp [exNVc] at h; subst h; rfl⟩
example : (omKeys exNVc.allStoich).Nodup := by decide +kernel
example : (callRhs exNVc 1 [2, 1, 9]).toOption = some [-9, 22, 0] := by decide +kernel

end Mxl.C01
