/-
C04 — continued simulation: absolute increasing time axis, piecewise-exact states.

All theorems are about `Mxl.C04.run` / `Mxl.C04.step` (Model/C04.lean), the functions the
driver executes, for an arbitrary state type `σ`, flow `S.flow` and override `S.ov`, and for
**every** history of simulate / time-course / steady-state / parameter-update / override / clear
calls (no side condition on the history since the repair of F-C04-2).
`Spec` is the absolute-time specification machine of the same file.

The model reads its comparison operators, `skipfirst` flags, statement orders and defaults from
Generated/C04Facts.lean (written by translate/c04.py from the current simulator.py / int_scipy.py);
`C04_source_facts` lists the values the proofs rest on.
-/
import MxlVerif.Lemmas.C04Hist
import MxlVerif.Lemmas.C04Search
namespace Mxl.C04

/-! ## The facts of the current source the proofs rest on -/

/-- what translate/c04.py has read from simulator.py / int_scipy.py: the refusal tests are `<=`, the overlap
    filter keeps `>=`, both stand before the shift subtraction; `skipfirst` is passed by simulate / time course and
    not by the steady-state run; `integrate` asks for `steps + 1` (default 100) points; `integrate_time_course`
    prepends `t0` when the first point differs; the steady-state search does not reset, starts at `t0`, advances
    `t0` / `y0` on success and steps by a positive `step_size`; `update_variables` re-reads the last row only when
    the simulation advanced; `clear_results` resets shift and errors; `_handle_simulation_results` has the
    modelled shape. -/
theorem C04_source_facts :
    Gen.unsupported = [] ∧
    Gen.simulateRefusal = .le ∧ Gen.timeCourseRefusal = .le ∧ Gen.timeCourseKeep = .ge ∧
    Gen.simulateChecksBeforeShift = true ∧ Gen.timeCourseChecksBeforeShift = true ∧
    Gen.simulateSkipfirst = true ∧ Gen.timeCourseSkipfirst = true ∧ Gen.steadySkipfirst = false ∧
    Gen.stepsPlus = 1 ∧ 2 ≤ Gen.defaultPoints ∧ Gen.prependCmp = .ne ∧
    Gen.steadyResets = false ∧ Gen.steadyStartsAtT0 = true ∧ Gen.steadyAdvances = true ∧ 0 < Gen.stepSize ∧
    Gen.updVarsKeepsAtSameTime = true ∧ Gen.clearResetsShift = true ∧ Gen.clearResetsErrors = true ∧
    Gen.handleShape = true := by decide

/-! ## Refinement: the Simulator *is* the absolute-time machine -/

/-- For every history, the implementation machine (integrator restart
    point, time shift, "prepend t0", `skipfirst`, comparisons, overlap filter) and the
    absolute-time specification machine produce the same per-call outcomes (accepted / exception
    class), the same recorded segments (times, states, parameters), the same parameter values and
    the same failure flag. -/
theorem C04_refines_spec {σ} (S : Sys σ) (p : Pars) (y0 : σ) (ops : List Op) :
    (run S (Sim.init p y0) ops).2 = (Spec.run S (Spec.init p y0) ops).2 ∧
    (after S p y0 ops).segs = (specAfter S p y0 ops).segs ∧
    (after S p y0 ops).pars = (specAfter S p y0 ops).pars ∧
    (decide ((after S p y0 ops).errors > 0)) = (specAfter S p y0 ops).failed := by
  obtain ⟨h1, r⟩ := run_refines S ops _ _ (Rel.init p y0)
  exact ⟨h1, r.segs, r.pars, r.failed⟩

/-- The integrator's state machine (`Scipy.t0` / `y0` through `reset`-free `integrate`, `integrate_time_course`,
    `integrate_to_steady_state`, and re-initialisation by `update_variables` / `clear_results`): after every history
    the integrator's clock is the time reached minus the time shift, and its state is the current state; the shift
    never exceeds the time reached. -/
theorem C04_integrator_clock {σ} (S : Sys σ) (p : Pars) (y0 : σ) (ops : List Op) :
    (after S p y0 ops).integ.t0 + (after S p y0 ops).shift.getD 0 = (specAfter S p y0 ops).now ∧
    (after S p y0 ops).integ.y0 = (specAfter S p y0 ops).cur ∧
    reached? (after S p y0 ops).segs = .ok ((after S p y0 ops).integ.t0 + (after S p y0 ops).shift.getD 0) ∧
    (∀ d, (after S p y0 ops).shift = some d → d ≤ (specAfter S p y0 ops).now) := by
  have r := (run_refines S ops _ _ (Rel.init p y0)).2
  refine ⟨r.sim.1, r.sim.2, ?_, r.shift_le⟩
  show reached? (run S (Sim.init p y0) ops).1.segs = _
  rw [r.reached, ← r.sim.1]
  rfl

/-! ## The time axis -/

/-- The specification machine's axis is strictly increasing after every history whatsoever
    (unsorted or illegal arguments are refused). -/
theorem C04_spec_axis_increasing {σ} (S : Sys σ) (p : Pars) (y0 : σ) (ops : List Op) :
    (times (specAfter S p y0 ops).segs).Pairwise (· < ·) :=
  (Spec.run_axis S ops _ (Spec.Axis.init p y0)).sorted

/-- The accumulated result of the Simulator has a strictly increasing time axis after every history. -/
theorem C04_axis_increasing {σ} (S : Sys σ) (p : Pars) (y0 : σ) (ops : List Op) :
    (times (after S p y0 ops).segs).Pairwise (· < ·) := by
  rw [(C04_refines_spec S p y0 ops).2.1]
  exact C04_spec_axis_increasing S p y0 ops

/-- the two histories that witnessed F-C04-2 before the repair now have increasing axes:
    `steady; simulate(300, 2)` gives `[100, 200, 300]`, `simulate(300, 2); steady` gives `[0, 150, 300, 400]` -/
theorem C04_steady_witnesses_repaired :
    times (after termSys [] STerm.init [.steady (some 0), .simulate 300 (some 2)]).segs = [100, 200, 300] ∧
    times (after termSys [] STerm.init [.simulate 300 (some 2), .steady (some 0)]).segs = [0, 150, 300, 400] := by
  decide +kernel

/-! ## Requested points appear exactly once -/

/-- `simulate_time_course(pts)` accepted after any history: every requested
    point later than the time reached is on the axis afterwards exactly once. -/
theorem C04_requested_once {σ} (S : Sys σ) (p : Pars) (y0 : σ) (ops : List Op) (pts : List Rat)
    (hlive : (after S p y0 ops).errors = 0)
    (hacc : (step S (after S p y0 ops) (.timeCourse pts)).2 = none)
    (T : Rat) (hT : reached? (after S p y0 ops).segs = .ok T) :
    ∀ t ∈ pts, T < t → (times (after S p y0 (ops ++ [.timeCourse pts])).segs).count t = 1 := by
  obtain ⟨r, he, r', _, hspec, hax⟩ := last_step S p y0 ops _
  rw [he] at hacc
  obtain ⟨g', tEnd, c, hmem, _⟩ := continues_of S _ _ (Or.inr ⟨pts, rfl⟩) (live_of r hlive) hacc
  intro t ht hlt
  rw [r'.segs, hspec]
  exact c.once hax t ((hmem pts rfl t).mpr ⟨ht, by rw [← now_of r T hT]; exact hlt⟩)

/-- `simulate(t_end, steps)` accepted after any history: `t_end` is on the
    axis afterwards exactly once. -/
theorem C04_simulate_end_once {σ} (S : Sys σ) (p : Pars) (y0 : σ) (ops : List Op) (t : Rat)
    (n : Option Nat)
    (hlive : (after S p y0 ops).errors = 0)
    (hacc : (step S (after S p y0 ops) (.simulate t n)).2 = none) :
    (times (after S p y0 (ops ++ [.simulate t n])).segs).count t = 1 := by
  obtain ⟨r, he, r', _, hspec, hax⟩ := last_step S p y0 ops _
  rw [he] at hacc
  obtain ⟨g', tEnd, c, _, hend⟩ := continues_of S _ _ (Or.inl ⟨t, n, rfl⟩) (live_of r hlive) hacc
  rw [r'.segs, hspec]
  have := hend t n rfl
  subst this
  exact c.once hax _ (List.mem_of_getLast? c.last)

/-! ## Refusal exactly when the requested end is not later than the time reached -/

/-- `simulate(t_end)` on a live simulator raises ValueError iff `t_end ≤` the time reached
    (absolute time, also after `update_variable(s)`); a call that raises leaves the results
    unchanged. -/
theorem C04_refusal_iff {σ} (S : Sys σ) (p : Pars) (y0 : σ) (ops : List Op) (t : Rat)
    (n : Option Nat)
    (hlive : (after S p y0 ops).errors = 0)
    (T : Rat) (hT : reached? (after S p y0 ops).segs = .ok T) :
    ((step S (after S p y0 ops) (.simulate t n)).2 = some .valueError ↔ t ≤ T) ∧
    ((step S (after S p y0 ops) (.simulate t n)).2 ≠ none →
      (after S p y0 (ops ++ [.simulate t n])).segs = (after S p y0 ops).segs) := by
  obtain ⟨r, he, r', _, hspec, _⟩ := last_step S p y0 ops _
  rw [he, now_of r T hT]
  refine ⟨Spec.simulate_refusal S _ t n (live_of r hlive), ?_⟩
  intro hne
  rw [r'.segs, hspec, r.segs]
  exact congrArg Spec.segs (Spec.simulate_unchanged S _ t n hne)

/-- the same for `simulate_time_course` with a strictly increasing array: refused iff its last
    point is not later than the time reached -/
theorem C04_refusal_iff_timeCourse {σ} (S : Sys σ) (p : Pars) (y0 : σ) (ops : List Op)
    (pts : List Rat) (last : Rat)
    (hlive : (after S p y0 ops).errors = 0)
    (hl : pts.getLast? = some last) (hp : pts.Pairwise (· < ·))
    (T : Rat) (hT : reached? (after S p y0 ops).segs = .ok T) :
    ((step S (after S p y0 ops) (.timeCourse pts)).2 = some .valueError ↔ last ≤ T) ∧
    ((step S (after S p y0 ops) (.timeCourse pts)).2 ≠ none →
      (after S p y0 (ops ++ [.timeCourse pts])).segs = (after S p y0 ops).segs) := by
  obtain ⟨r, he, r', _, hspec, _⟩ := last_step S p y0 ops _
  rw [he, now_of r T hT]
  refine ⟨Spec.timeCourse_refusal S _ pts last (live_of r hlive) hl hp, ?_⟩
  intro hne
  rw [r'.segs, hspec, r.segs]
  exact congrArg Spec.segs (Spec.timeCourse_unchanged S _ pts hne)

/-- the time reached is always defined (no empty frame is ever recorded) and is
    the specification machine's clock -/
theorem C04_reached_defined {σ} (S : Sys σ) (p : Pars) (y0 : σ) (ops : List Op) :
    reached? (after S p y0 ops).segs = .ok (specAfter S p y0 ops).now :=
  (run_refines S ops _ _ (Rel.init p y0)).2.reached

/-! ## Piecewise flow -/

/-- An accepted `simulate` / `simulate_time_course` after any history appends one
    segment: the flow from (time reached, current state) under the parameters in force, sampled on
    a strictly increasing grid that starts at the time reached (that first row is dropped unless the
    result was empty) and ends at the requested end, where the next segment will start.  "Current
    state" is the specification machine's `cur`: see `C04_cur_*` for what it is. -/
theorem C04_piecewise_flow {σ} (S : Sys σ) (p : Pars) (y0 : σ) (ops : List Op) (op : Op)
    (hop : (∃ t n, op = .simulate t n) ∨ (∃ pts, op = .timeCourse pts))
    (hlive : (after S p y0 ops).errors = 0)
    (hacc : (step S (after S p y0 ops) op).2 = none) :
    ∃ g' tEnd, ((specAfter S p y0 ops).now :: g').Pairwise (· < ·) ∧ g'.getLast? = some tEnd ∧
      (after S p y0 (ops ++ [op])).segs = some (appendSeg (after S p y0 ops).segs
        (((specAfter S p y0 ops).now :: g').map fun t =>
          (t, S.flow (after S p y0 ops).pars (t - (specAfter S p y0 ops).now) (specAfter S p y0 ops).cur))
        (after S p y0 ops).pars true) ∧
      (specAfter S p y0 (ops ++ [op])).now = tEnd ∧
      (specAfter S p y0 (ops ++ [op])).cur =
        S.flow (after S p y0 ops).pars (tEnd - (specAfter S p y0 ops).now) (specAfter S p y0 ops).cur := by
  obtain ⟨r, he, r', _, hspec, _⟩ := last_step S p y0 ops _
  rw [he] at hacc
  obtain ⟨g', tEnd, c, _, _⟩ := continues_of S _ _ hop (live_of r hlive) hacc
  obtain ⟨hs, hnow, hcur, _⟩ := c.rows
  refine ⟨g', tEnd, c.pw, c.last, ?_, ?_, ?_⟩
  · rw [r'.segs, hspec, hs, r.segs, r.pars]
  · rw [hspec]; exact hnow
  · rw [hspec, r.pars]; exact hcur

/-- WHICH grid: an accepted `simulate(t_end, steps)` records exactly the points `linspace(reached, t_end, steps + 1)` (default: 100
    points) — every one of them, with the flow from the current state — the first one dropped unless the result was empty.  (For
    `simulate_time_course` the grid is the requested points not earlier than the time reached, the time reached prepended: identified
    in `Spec.timeCourse_cases`, Lemmas/C04Spec.lean, and used by `C04_requested_once`; not restated here.) -/
theorem C04_simulate_grid {σ} (S : Sys σ) (p : Pars) (y0 : σ) (ops : List Op) (t : Rat) (n : Option Nat)
    (hlive : (after S p y0 ops).errors = 0)
    (hacc : (step S (after S p y0 ops) (.simulate t n)).2 = none) :
    (after S p y0 (ops ++ [.simulate t n])).segs = some (appendSeg (after S p y0 ops).segs
      ((linspace (specAfter S p y0 ops).now t (nPoints n)).map fun τ =>
        (τ, S.flow (after S p y0 ops).pars (τ - (specAfter S p y0 ops).now) (specAfter S p y0 ops).cur))
      (after S p y0 ops).pars true) := by
  obtain ⟨r, he, r', _, hspec, _⟩ := last_step S p y0 ops (.simulate t n)
  rw [he] at hacc
  have hf := live_of r hlive
  rcases Spec.simulate_cases S (specAfter S p y0 ops) t n with ⟨_, h | h⟩ | ⟨g', _, hg, c⟩
  · exact absurd hacc h
  · rw [hf] at h; cases h
  · rw [r'.segs, hspec]
    show (Spec.simulate S (specAfter S p y0 ops) t n).1.segs = _
    rw [c.eq, ← hg, r.segs, r.pars]
    rfl

/-- what "current state" is: a fresh simulator starts from `y0` -/
theorem C04_cur_init {σ} (S : Sys σ) (p : Pars) (y0 : σ) : (specAfter S p y0 []).cur = y0 := rfl

/-- … an override acts on the current state (`startStateᵢ₊₁ = override (lastStateᵢ)`), and
    consecutive overrides compose -/
theorem C04_cur_override {σ} (S : Sys σ) (p : Pars) (y0 : σ) (ops : List Op) (ov : Upd) :
    (specAfter S p y0 (ops ++ [.updVars ov])).cur = S.ov ov (specAfter S p y0 ops).cur := by
  unfold specAfter; rw [specRun_snoc]; rfl

/-- … a parameter update leaves it and the recorded segments alone -/
theorem C04_cur_updPars {σ} (S : Sys σ) (p : Pars) (y0 : σ) (ops : List Op) (kvs : Upd) :
    (specAfter S p y0 (ops ++ [.updPars kvs])).cur = (specAfter S p y0 ops).cur ∧
    (specAfter S p y0 (ops ++ [.updPars kvs])).segs = (specAfter S p y0 ops).segs := by
  unfold specAfter; rw [specRun_snoc]; exact ⟨rfl, rfl⟩

/-- With an exact flow (`IsFlow`): the row that `skipfirst` drops is (time reached, current
    state) — a duplicate of what is already recorded, so nothing is lost; and simulating to `t₁`
    and then to `t₂` reaches the same state at the same time as simulating to `t₂` directly. -/
theorem C04_flow_composition {σ} (S : Sys σ) (hS : IsFlow S) (a : Spec σ) (t1 t2 : Rat) (n1 n2 n : Option Nat)
    (hf : a.failed = false) (h1 : a.now < t1) (h2 : t1 < t2)
    (hn1 : 2 ≤ nPoints n1) (hn2 : 2 ≤ nPoints n2) (hn : 2 ≤ nPoints n) :
    (Spec.sample S a (linspace a.now t1 (nPoints n1))).head? = some (a.now, a.cur) ∧
    (Spec.simulate S (Spec.simulate S a t1 n1).1 t2 n2).1.cur = (Spec.simulate S a t2 n).1.cur ∧
    (Spec.simulate S (Spec.simulate S a t1 n1).1 t2 n2).1.now = (Spec.simulate S a t2 n).1.now := by
  have e1 : ¬ t1 ≤ a.now := by grind
  have e2 : ¬ t2 ≤ a.now := by grind
  have e3 : ¬ t2 ≤ t1 := by grind
  have k1 : ¬ nPoints n1 < 2 := by omega
  have k2 : ¬ nPoints n2 < 2 := by omega
  have k : ¬ nPoints n < 2 := by omega
  refine ⟨?_, ?_, ?_⟩
  · obtain ⟨m, hm⟩ : ∃ m, nPoints n1 = m + 1 := ⟨nPoints n1 - 1, by omega⟩
    obtain ⟨rest, hr, _⟩ := linspace_cons a.now t1 m
    rw [hm, hr]
    simp only [Spec.sample, List.map_cons, List.head?_cons]
    have : a.now - a.now = 0 := by grind
    rw [this, hS.zero]
  · simp only [Spec.simulate, hf, e1, e2, e3, k1, k2, k, Spec.record, if_false, Bool.false_eq_true]
    have : t2 - a.now = (t1 - a.now) + (t2 - t1) := by grind
    rw [this, hS.add _ _ _ _ (by grind) (by grind)]
  · simp only [Spec.simulate, hf, e1, e2, e3, k1, k2, k, Spec.record, if_false, Bool.false_eq_true]

/-! ## Steady-state runs -/

/-- `simulate_to_steady_state` on a live simulator after any history is never refused; when the solver's loop
    stops in iteration `k < max_steps` it appends exactly one row, at (time reached + `step_size·(k+1)`), a time
    later than every recorded one, holding the flow from the current state under the parameters in force, and
    the next call continues from there; otherwise (`NoSteadyState`) nothing is recorded and the simulator is
    failed until `clear_results`. -/
theorem C04_steady_continues {σ} (S : Sys σ) (p : Pars) (y0 : σ) (ops : List Op) (res : Option Nat)
    (hlive : (after S p y0 ops).errors = 0) :
    (step S (after S p y0 ops) (.steady res)).2 = none ∧
    (∀ k, steadyIter res = some k →
      0 < steadyDur k ∧
      (after S p y0 (ops ++ [.steady res])).segs = some (appendSeg (after S p y0 ops).segs
        [((specAfter S p y0 ops).now + steadyDur k,
          S.flow (after S p y0 ops).pars (steadyDur k) (specAfter S p y0 ops).cur)] (after S p y0 ops).pars false) ∧
      (specAfter S p y0 (ops ++ [.steady res])).now = (specAfter S p y0 ops).now + steadyDur k ∧
      (specAfter S p y0 (ops ++ [.steady res])).cur =
        S.flow (after S p y0 ops).pars (steadyDur k) (specAfter S p y0 ops).cur) ∧
    (steadyIter res = none →
      (after S p y0 (ops ++ [.steady res])).segs = (after S p y0 ops).segs ∧
      (after S p y0 (ops ++ [.steady res])).errors > 0) := by
  obtain ⟨r, he, r', hafter, hspec, _⟩ := last_step S p y0 ops (.steady res)
  have hf := live_of r hlive
  refine ⟨?_, ?_, ?_⟩
  · rw [he]; simp only [Spec.step, Spec.steady, hf, Bool.false_eq_true, if_false]
    cases steadyIter res <;> rfl
  · intro k hk
    refine ⟨steadyDur_pos k, ?_, ?_, ?_⟩
    · rw [r'.segs, hspec, r.segs, r.pars]
      simp only [Spec.step, Spec.steady, hf, Bool.false_eq_true, if_false, hk]
    · rw [hspec]; simp only [Spec.step, Spec.steady, hf, Bool.false_eq_true, if_false, hk]
    · rw [hspec, r.pars]; simp only [Spec.step, Spec.steady, hf, Bool.false_eq_true, if_false, hk]
  · intro hk
    constructor
    · rw [r'.segs, hspec, r.segs]
      simp only [Spec.step, Spec.steady, hf, Bool.false_eq_true, if_false, hk]
    · have := r'.failed
      rw [hspec] at this
      simp only [Spec.step, Spec.steady, hf, Bool.false_eq_true, if_false, hk] at this
      simpa using this

/-- THE SOLVER'S ANSWER IS NOT A FREE INPUT.  `Op.steady res` takes the iteration at which the steady-state loop stopped as
    an input; this theorem says which: run the C15 loop (`Mxl.C15.ssRun`, with the loop facts read from the source) on the
    flow sampled every `step_size` from the integrator's current state.  If it succeeds at step `n` with state `r`, the
    C04 machine fed with that answer records exactly one row — at the integrator's clock + `n·step_size`, holding `r` — and
    moves the integrator there; if it ends in `NoSteadyState` or `IntegrationFailure`, nothing is recorded and the
    simulator is failed. (`IsFlow`: the solver's steps compose to the flow; any `ok` / `small`.) -/
theorem C04_steady_is_the_search {σ} (S : Sys σ) (hS : IsFlow S) (s : Sim σ) (ok : σ → Bool) (small : σ → σ → Bool)
    (hlive : s.errors = 0) :
    let search := Mxl.C15.ssRun Mxl.C15.Gen.copies Mxl.C15.Gen.checks
      (S.flow s.pars (Mxl.C15.Gen.stepSize : Rat)) ok small Mxl.C15.Gen.maxSteps s.integ.y0
    (∀ n r, search = .steady n r →
      steady S s (resOfSearch search) =
        (handle { s with integ := { s.integ with
            t0 := s.integ.t0 + (n : Rat) * (Mxl.C15.Gen.stepSize : Rat), y0 := r } }
          [(s.integ.t0 + (n : Rat) * (Mxl.C15.Gen.stepSize : Rat), r)] false, none)) ∧
    (Mxl.C15.errOf search ≠ none →
      steady S s (resOfSearch search) = ({ s with errors := s.errors + 1 }, none)) := by
  intro search
  constructor
  · intro n r h
    have h' : Mxl.C15.ssLoop true true (S.flow s.pars (Mxl.C15.Gen.stepSize : Rat)) ok small Mxl.C15.Gen.maxSteps 0
        (.val s.integ.y0) s.integ.y0 = .steady n r := h
    obtain ⟨m, hm, hn, hr, _⟩ := Mxl.C15.ssLoop_copy_steady _ ok small _ 0 s.integ.y0 n r h'
    have hn' : n = m + 1 := by omega
    subst hn'
    have hd : (0 : Rat) ≤ (Mxl.C15.Gen.stepSize : Rat) := Nat.cast_nonneg _
    have hflow := flow_iter S hS s.pars (Mxl.C15.Gen.stepSize : Rat) hd (m + 1) s.integ.y0
    have hit : steadyIter (some m) = some m := by
      have : m < Gen.maxSteps := by rw [gen_search_agree.2]; exact hm
      simp [steadyIter, this]
    have hdur : steadyDur m = ((m + 1 : Nat) : Rat) * (Mxl.C15.Gen.stepSize : Rat) := by
      unfold steadyDur
      rw [gen_search_agree.1]
      push_cast
      ring
    rw [h]
    simp only [resOfSearch, Nat.add_sub_cancel, steady, hlive, Nat.lt_irrefl, if_false, gt_iff_lt,
      integrateToSteadyState_eq, hit, gen_steadySkipfirst, hdur]
    rw [← hflow, ← hr]
  · intro hne
    have hres : resOfSearch search = none := by
      cases hs : search with
      | steady n r => simp [hs, Mxl.C15.errOf] at hne
      | noSteadyState => rfl
      | integrationFailure => rfl
    rw [hres]
    simp [steady, hlive, integrateToSteadyState_eq, steadyIter]

/-- a failed simulator (after `NoSteadyState` or an `IntegrationFailure`) ignores every simulating call: no exception,
    nothing recorded -/
theorem C04_failed_is_inert {σ} (S : Sys σ) (s : Sim σ) (op : Op) (hf : s.errors > 0)
    (hop : (∃ t n, op = .simulate t n) ∨ (∃ pts, op = .timeCourse pts) ∨ (∃ r, op = .steady r) ∨
      (∃ t n, op = .simulateF t n) ∨ (∃ pts, op = .timeCourseF pts)) :
    step S s op = (s, none) := by
  rcases hop with ⟨t, n, rfl⟩ | ⟨pts, rfl⟩ | ⟨r, rfl⟩ | ⟨t, n, rfl⟩ | ⟨pts, rfl⟩ <;>
    simp [step, simulate, timeCourse, steady, simulateF, timeCourseF, hf]

/-! ## A failing solver (`IntegrationFailure`) -/

/-- WHAT A FAILED INTEGRATION LEAVES BEHIND.  `simulate` / `simulate_time_course` whose solver reports failure, in any
    simulator state: the call raises exactly what the succeeding call raises (same class or none); it records
    nothing and leaves parameters, initial values, time shift AND the integrator (`t0`, `y0`) where they were; and
    when it does not raise the simulator is failed afterwards (so by `C04_failed_is_inert` every later simulating call is
    ignored until `clear_results`). -/
theorem C04_solver_failure {σ} (S : Sys σ) (s : Sim σ) (op opF : Op)
    (hop : (∃ t n, op = .simulate t n ∧ opF = .simulateF t n) ∨
           (∃ pts, op = .timeCourse pts ∧ opF = .timeCourseF pts)) :
    (step S s opF).2 = (step S s op).2 ∧
    (step S s opF).1.segs = s.segs ∧ (step S s opF).1.pars = s.pars ∧ (step S s opF).1.y0 = s.y0 ∧
    (step S s opF).1.shift = s.shift ∧ (step S s opF).1.integ = s.integ ∧
    ((step S s opF).2 = none → (step S s opF).1.errors > 0) := by
  have key : ∀ x : Out (Sim σ), (failInstead s x).2 = x.2 ∧ (failInstead s x).1.segs = s.segs ∧
      (failInstead s x).1.pars = s.pars ∧ (failInstead s x).1.y0 = s.y0 ∧ (failInstead s x).1.shift = s.shift ∧
      (failInstead s x).1.integ = s.integ ∧ ((failInstead s x).2 = none → (failInstead s x).1.errors > 0) := by
    intro x
    unfold failInstead
    cases hx : x.2 with
    | some e => simp
    | none =>
      by_cases he : s.errors > 0
      · simp [he]
      · simp [he]
  rcases hop with ⟨t, n, rfl, rfl⟩ | ⟨pts, rfl, rfl⟩
  · simp only [step, simulateF_eq]; exact key _
  · simp only [step, timeCourseF_eq]; exact key _

/-- ... hence after any history on a live simulator a failing `simulate(t)` is refused (ValueError) iff `t ≤` the time
    reached, and otherwise turns the simulator into a failed one with the results it had. -/
theorem C04_solver_failure_refusal_iff {σ} (S : Sys σ) (p : Pars) (y0 : σ) (ops : List Op) (t : Rat)
    (n : Option Nat) (hlive : (after S p y0 ops).errors = 0)
    (T : Rat) (hT : reached? (after S p y0 ops).segs = .ok T) :
    ((step S (after S p y0 ops) (.simulateF t n)).2 = some .valueError ↔ t ≤ T) ∧
    (after S p y0 (ops ++ [.simulateF t n])).segs = (after S p y0 ops).segs ∧
    ((step S (after S p y0 ops) (.simulateF t n)).2 = none →
      (specAfter S p y0 (ops ++ [.simulateF t n])).failed = true) := by
  obtain ⟨h2, hsegs, _, _, _, _, hfail⟩ :=
    C04_solver_failure S (after S p y0 ops) (.simulate t n) (.simulateF t n) (Or.inl ⟨t, n, rfl, rfl⟩)
  obtain ⟨_, _, r', hafter, _, _⟩ := last_step S p y0 ops (.simulateF t n)
  refine ⟨?_, ?_, ?_⟩
  · rw [h2]; exact (C04_refusal_iff S p y0 ops t n hlive T hT).1
  · rw [hafter]; exact hsegs
  · intro hnone
    have := hfail hnone
    rw [← hafter] at this
    rw [← r'.failed]
    simpa using this

/-! ## A rejected call changes nothing -/

/-- EVERY op of the state machine that raises (ValueError of a refused continuation or of unsorted points, IndexError of an
    empty array / zero steps, KeyError of an unknown parameter name in `update_parameter(s)` / `scale_parameter(s)` — also when
    other names of the same call are known) leaves the simulator exactly as it was: results, parameters, initial values,
    time shift, integrator, error list. -/
theorem C04_rejected_op_changes_nothing {σ} (S : Sys σ) (s : Sim σ) (op : Op) (e : Exc)
    (h : (step S s op).2 = some e) : (step S s op).1 = s := by
  cases op with
  | simulate t n =>
    simp only [step, simulate] at h ⊢
    repeat' split at h
    all_goals first | (simp at h; done) | skip
    all_goals (repeat' split) <;> first | rfl | (simp_all; done)
  | timeCourse pts =>
    simp only [step, timeCourse] at h ⊢
    repeat' split at h
    all_goals first | (simp at h; done) | skip
    all_goals (repeat' split) <;> first | rfl | (simp_all; done)
  | steady res =>
    simp only [step, steady] at h
    repeat' split at h
    all_goals simp at h
  | updPars kvs =>
    simp only [step, updPars] at h ⊢
    rw [parsUpdate_err s.pars kvs e h]
  | updVars ov =>
    simp only [step, updVars] at h ⊢
    repeat' split at h
    all_goals first | (simp at h; done) | skip
    all_goals (repeat' split) <;> first | rfl | (simp_all; done)
  | clear => simp [step] at h
  | simulateF t n =>
    simp only [step, simulateF] at h ⊢
    repeat' split at h
    all_goals first | (simp at h; done) | skip
    all_goals (repeat' split) <;> first | rfl | (simp_all; done)
  | timeCourseF pts =>
    simp only [step, timeCourseF] at h ⊢
    repeat' split at h
    all_goals first | (simp at h; done) | skip
    all_goals (repeat' split) <;> first | rfl | (simp_all; done)
  | scalePars kvs =>
    simp only [step, scalePars, parsScale] at h ⊢
    split at h
    · rfl
    · rw [parsUpdate_err s.pars _ e h]

/-! ## Clearing -/

/-- `clear_results` FOLLOWED BY A CONTINUATION: a cleared simulator is a fresh one — `Simulator(model, y0)` with the
    parameters the model has now and the initial values the simulator holds (the last override included) — whatever happened
    before (results, time shift, a failed integration): every later history runs exactly as on that fresh simulator. -/
theorem C04_clear_is_fresh {σ} (S : Sys σ) (s : Sim σ) (ops : List Op) :
    clear s = Sim.init s.pars s.y0 ∧
    run S (step S s .clear).1 ops = run S (Sim.init s.pars s.y0) ops := by
  have h : clear s = Sim.init s.pars s.y0 := by
    simp [clear, Sim.init, reinit]
  exact ⟨h, by simp only [step, h]⟩

/-! ## Scaled parameters -/

/-- `scale_parameter(s)` is `update_parameter(s)` with every named value multiplied by its factor — all factors applied
    to the values the parameters had BEFORE the call, names in the caller's order; an unknown name raises KeyError
    and changes nothing.  (So, like a parameter update, it touches neither the results nor the clock.) -/
theorem C04_scale_is_update {σ} (S : Sys σ) (s : Sim σ) (kvs : Upd) :
    (∀ u, scaledValues s.pars kvs = some u →
      step S s (.scalePars kvs) = step S s (.updPars u) ∧
      u.length = kvs.length ∧
      ∀ i (h : i < kvs.length) (h' : i < u.length), u[i].1 = kvs[i].1 ∧
        ∃ v, s.pars.lookup kvs[i].1 = some v ∧ u[i].2 = v * kvs[i].2) ∧
    (scaledValues s.pars kvs = none →
      step S s (.scalePars kvs) = (s, some .keyError) ∧ ∃ kf ∈ kvs, s.pars.lookup kf.1 = none) := by
  constructor
  · intro u hu
    refine ⟨by simp [step, scalePars, updPars, parsScale, hu], ?_⟩
    exact scaledValues_some s.pars kvs u hu
  · intro hn
    exact ⟨by simp [step, scalePars, parsScale, hn], scaledValues_none s.pars kvs hn⟩

/-! ## Non-vacuity -/

/-- a history with overrides, a parameter change, a refused call, a continued time course, a clear and steady-state
    runs before and after simulations records the axis 0,1,2 | 5/2,9/2,5 | 105 | 106 -/
example : times (after termSys [("k", 1/2)] STerm.init
    [.simulate 2 (some 2), .updVars [("x", 1)], .updPars [("k", 2)], .simulate 1 (some 2),
     .timeCourse [5/2, 9/2, 5], .steady (some 0), .updVars [("z", 3)], .simulate 106 (some 1)]).segs
    = [0, 1, 2, 5/2, 9/2, 5, 105, 106] := by decide +kernel

/-- a steady-state run that does not converge within `max_steps` iterations fails the simulator -/
example : (after termSys [] STerm.init [.steady (some 1000), .simulate 1 none]).errors = 1 ∧
    (after termSys [] STerm.init [.steady (some 1000), .simulate 1 none]).segs = none := by decide +kernel

/-- non-vacuity of `C04_steady_is_the_search`: a system that rests (constant flow) is a flow, and the C15 loop succeeds on it
    at the first step -/
example : IsFlow (⟨fun _ _ y => y, fun _ y => y⟩ : Sys Rat) ∧
    Mxl.C15.ssRun Mxl.C15.Gen.copies Mxl.C15.Gen.checks ((⟨fun _ _ y => y, fun _ y => y⟩ : Sys Rat).flow [] 100)
      (fun _ => true) (fun a b => a == b) Mxl.C15.Gen.maxSteps (3 : Rat) = .steady 1 3 :=
  ⟨⟨fun _ _ => rfl, fun _ _ _ _ _ _ => rfl⟩, by decide +kernel⟩

end Mxl.C04
