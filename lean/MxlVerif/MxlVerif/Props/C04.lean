import MxlVerif.Model.C04
namespace Mxl.C04
theorem placeholder : True := trivial
end Mxl.C04
