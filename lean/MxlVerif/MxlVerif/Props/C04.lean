/-
C04 — continued simulation: absolute increasing time axis, piecewise-exact states.

All theorems are about `Mxl.C04.run` / `Mxl.C04.step` (Model/C04.lean), the functions the
driver executes, for an arbitrary state type `σ`, flow `S.flow` and override `S.ov`.
`Spec` is the absolute-time specification machine of the same file.

The unchanged code violates the property on histories in which `simulate_to_steady_state`
meets an integrator that has advanced, or is followed by another simulation (F-C04-2):
`*_full_fails` are the negations with concrete witnesses, `*_partial` the statements under
the decidable hypothesis `okHist`.
-/
import MxlVerif.Lemmas.C04Hist
namespace Mxl.C04

/-! ## Refinement: outside F-C04-2 the Simulator *is* the absolute-time machine -/

/-- For every history accepted by `okHist`, the implementation machine (integrator restart
    point, time shift, "prepend t0", `skipfirst`, comparisons, overlap filter) and the
    absolute-time specification machine produce the same per-call outcomes (accepted / exception
    class), the same recorded segments (times, states, parameters), the same parameter values and
    the same failure flag. -/
theorem C04_refines_spec_partial {σ} (S : Sys σ) (p : Pars) (y0 : σ) (ops : List Op)
    (hok : okHist HSt.start ops = true) :
    (run S (Sim.init p y0) ops).2 = (Spec.run S (Spec.init p y0) ops).2 ∧
    (after S p y0 ops).segs = (specAfter S p y0 ops).segs ∧
    (after S p y0 ops).pars = (specAfter S p y0 ops).pars ∧
    (decide ((after S p y0 ops).errors > 0)) = (specAfter S p y0 ops).failed := by
  obtain ⟨h1, h', r⟩ := run_refines S ops HSt.start _ _ (Rel.init p y0) hok
  exact ⟨h1, r.segs, r.pars, r.failed⟩

/-! ## The time axis -/

/-- The specification machine's axis is strictly increasing after every history whatsoever
    (unsorted or illegal arguments are refused), provided the steady-state solver reports a
    time later than its start. -/
theorem C04_spec_axis_increasing {σ} (S : Sys σ) (p : Pars) (y0 : σ) (ops : List Op)
    (hpos : ops.all steadyPos = true) :
    (times (specAfter S p y0 ops).segs).Pairwise (· < ·) :=
  (Spec.run_axis S ops _ (Spec.Axis.init p y0) hpos).sorted

/-- The accumulated result of the Simulator has a strictly increasing time axis after every
    history outside the F-C04-2 class. -/
theorem C04_axis_increasing_partial {σ} (S : Sys σ) (p : Pars) (y0 : σ) (ops : List Op)
    (hok : okHist HSt.start ops = true) :
    (times (after S p y0 ops).segs).Pairwise (· < ·) := by
  rw [(C04_refines_spec_partial S p y0 ops hok).2.1]
  exact C04_spec_axis_increasing S p y0 ops (okHist_steadyPos ops _ hok)

/-- F-C04-2, witness 1: a simulation after a steady-state run restarts at time 0 while the axis
    continues from the reported steady-state time (axis `[200, 150, 300]`).  So the unrestricted
    statement is false of the code. -/
theorem C04_axis_increasing_full_fails :
    ¬ ∀ (ops : List Op), ops.all steadyPos = true →
        (times (after termSys [] STerm.init ops).segs).Pairwise (· < ·) := by
  intro h
  have h1 := h [.steady (some 200), .simulate 300 (some 2)] (by decide)
  rw [← strictInc_iff] at h1
  revert h1
  decide +kernel

/-- F-C04-2, witness 2: a steady-state run after a simulation reports a time measured from the
    integrator's reset point, not from the time reached (axis `[0, 150, 300, 200]`). -/
theorem C04_axis_increasing_full_fails' :
    ¬ (times (after termSys [] STerm.init [.simulate 300 (some 2), .steady (some 200)]).segs).Pairwise
        (· < ·) := by
  rw [← strictInc_iff]
  decide +kernel

/-! ## Requested points appear exactly once -/

/-- `simulate_time_course(pts)` accepted after any history outside F-C04-2: every requested
    point later than the time reached is on the axis afterwards exactly once. -/
theorem C04_requested_once_partial {σ} (S : Sys σ) (p : Pars) (y0 : σ) (ops : List Op) (pts : List Rat)
    (hok : okHist HSt.start (ops ++ [.timeCourse pts]) = true)
    (hlive : (after S p y0 ops).errors = 0)
    (hacc : (step S (after S p y0 ops) (.timeCourse pts)).2 = none)
    (T : Rat) (hT : reached? (after S p y0 ops).segs = .ok T) :
    ∀ t ∈ pts, T < t → (times (after S p y0 (ops ++ [.timeCourse pts])).segs).count t = 1 := by
  obtain ⟨h1, h2, r, he, r', _, hspec, hax⟩ := last_step S p y0 ops _ hok
  rw [he] at hacc
  obtain ⟨g', tEnd, c, hmem, _⟩ := continues_of S _ _ (Or.inr ⟨pts, rfl⟩) (live_of r hlive) hacc
  intro t ht hlt
  rw [r'.segs, hspec]
  exact c.once hax t ((hmem pts rfl t).mpr ⟨ht, by rw [← now_of r T hT]; exact hlt⟩)

/-- `simulate(t_end, steps)` accepted after any history outside F-C04-2: `t_end` is on the
    axis afterwards exactly once. -/
theorem C04_simulate_end_once_partial {σ} (S : Sys σ) (p : Pars) (y0 : σ) (ops : List Op) (t : Rat)
    (n : Option Nat) (hok : okHist HSt.start (ops ++ [.simulate t n]) = true)
    (hlive : (after S p y0 ops).errors = 0)
    (hacc : (step S (after S p y0 ops) (.simulate t n)).2 = none) :
    (times (after S p y0 (ops ++ [.simulate t n])).segs).count t = 1 := by
  obtain ⟨h1, h2, r, he, r', _, hspec, hax⟩ := last_step S p y0 ops _ hok
  rw [he] at hacc
  obtain ⟨g', tEnd, c, _, hend⟩ := continues_of S _ _ (Or.inl ⟨t, n, rfl⟩) (live_of r hlive) hacc
  rw [r'.segs, hspec]
  have := hend t n rfl
  subst this
  exact c.once hax _ (List.mem_of_getLast? c.last)

/-! ## Refusal exactly when the requested end is not later than the time reached -/

/-- `simulate(t_end)` on a live simulator raises ValueError iff `t_end ≤` the time reached
    (absolute time, also after `update_variable(s)`); a call that raises leaves the results
    unchanged. -/
theorem C04_refusal_iff_partial {σ} (S : Sys σ) (p : Pars) (y0 : σ) (ops : List Op) (t : Rat)
    (n : Option Nat) (hok : okHist HSt.start (ops ++ [.simulate t n]) = true)
    (hlive : (after S p y0 ops).errors = 0)
    (T : Rat) (hT : reached? (after S p y0 ops).segs = .ok T) :
    ((step S (after S p y0 ops) (.simulate t n)).2 = some .valueError ↔ t ≤ T) ∧
    ((step S (after S p y0 ops) (.simulate t n)).2 ≠ none →
      (after S p y0 (ops ++ [.simulate t n])).segs = (after S p y0 ops).segs) := by
  obtain ⟨h1, h2, r, he, r', _, hspec, _⟩ := last_step S p y0 ops _ hok
  rw [he, now_of r T hT]
  refine ⟨Spec.simulate_refusal S _ t n (live_of r hlive), ?_⟩
  intro hne
  rw [r'.segs, hspec, r.segs]
  exact congrArg Spec.segs (Spec.simulate_unchanged S _ t n hne)

/-- the same for `simulate_time_course` with a strictly increasing array: refused iff its last
    point is not later than the time reached -/
theorem C04_refusal_iff_timeCourse_partial {σ} (S : Sys σ) (p : Pars) (y0 : σ) (ops : List Op)
    (pts : List Rat) (last : Rat) (hok : okHist HSt.start (ops ++ [.timeCourse pts]) = true)
    (hlive : (after S p y0 ops).errors = 0)
    (hl : pts.getLast? = some last) (hp : pts.Pairwise (· < ·))
    (T : Rat) (hT : reached? (after S p y0 ops).segs = .ok T) :
    ((step S (after S p y0 ops) (.timeCourse pts)).2 = some .valueError ↔ last ≤ T) ∧
    ((step S (after S p y0 ops) (.timeCourse pts)).2 ≠ none →
      (after S p y0 (ops ++ [.timeCourse pts])).segs = (after S p y0 ops).segs) := by
  obtain ⟨h1, h2, r, he, r', _, hspec, _⟩ := last_step S p y0 ops _ hok
  rw [he, now_of r T hT]
  refine ⟨Spec.timeCourse_refusal S _ pts last (live_of r hlive) hl hp, ?_⟩
  intro hne
  rw [r'.segs, hspec, r.segs]
  exact congrArg Spec.segs (Spec.timeCourse_unchanged S _ pts hne)

/-- under `okHist` the time reached is always defined (no empty frame is ever recorded) and is
    the specification machine's clock -/
theorem C04_reached_defined_partial {σ} (S : Sys σ) (p : Pars) (y0 : σ) (ops : List Op)
    (hok : okHist HSt.start ops = true) :
    reached? (after S p y0 ops).segs = .ok (specAfter S p y0 ops).now := by
  obtain ⟨_, h', r⟩ := run_refines S ops HSt.start _ _ (Rel.init p y0) hok
  exact r.reached

/-! ## Piecewise flow -/

/-- An accepted `simulate` / `simulate_time_course` after any history outside F-C04-2 appends one
    segment: the flow from (time reached, current state) under the parameters in force, sampled on
    a strictly increasing grid that starts at the time reached (that first row is dropped unless the
    result was empty) and ends at the requested end, where the next segment will start.  "Current
    state" is the specification machine's `cur`: see `C04_cur_*` for what it is. -/
theorem C04_piecewise_flow_partial {σ} (S : Sys σ) (p : Pars) (y0 : σ) (ops : List Op) (op : Op)
    (hop : (∃ t n, op = .simulate t n) ∨ (∃ pts, op = .timeCourse pts))
    (hok : okHist HSt.start (ops ++ [op]) = true)
    (hlive : (after S p y0 ops).errors = 0)
    (hacc : (step S (after S p y0 ops) op).2 = none) :
    ∃ g' tEnd, ((specAfter S p y0 ops).now :: g').Pairwise (· < ·) ∧ g'.getLast? = some tEnd ∧
      (after S p y0 (ops ++ [op])).segs = some (appendSeg (after S p y0 ops).segs
        (((specAfter S p y0 ops).now :: g').map fun t =>
          (t, S.flow (after S p y0 ops).pars (t - (specAfter S p y0 ops).now) (specAfter S p y0 ops).cur))
        (after S p y0 ops).pars true) ∧
      (specAfter S p y0 (ops ++ [op])).now = tEnd ∧
      (specAfter S p y0 (ops ++ [op])).cur =
        S.flow (after S p y0 ops).pars (tEnd - (specAfter S p y0 ops).now) (specAfter S p y0 ops).cur := by
  obtain ⟨h1, h2, r, he, r', _, hspec, _⟩ := last_step S p y0 ops _ hok
  rw [he] at hacc
  obtain ⟨g', tEnd, c, _, _⟩ := continues_of S _ _ hop (live_of r hlive) hacc
  obtain ⟨hs, hnow, hcur, _⟩ := c.rows
  refine ⟨g', tEnd, c.pw, c.last, ?_, ?_, ?_⟩
  · rw [r'.segs, hspec, hs, r.segs, r.pars]
  · rw [hspec]; exact hnow
  · rw [hspec, r.pars]; exact hcur

/-- what "current state" is: a fresh simulator starts from `y0` -/
theorem C04_cur_init {σ} (S : Sys σ) (p : Pars) (y0 : σ) : (specAfter S p y0 []).cur = y0 := rfl

/-- … an override acts on the current state (`startStateᵢ₊₁ = override (lastStateᵢ)`), and
    consecutive overrides compose -/
theorem C04_cur_override {σ} (S : Sys σ) (p : Pars) (y0 : σ) (ops : List Op) (ov : Upd) :
    (specAfter S p y0 (ops ++ [.updVars ov])).cur = S.ov ov (specAfter S p y0 ops).cur := by
  unfold specAfter; rw [specRun_snoc]; rfl

/-- … a parameter update leaves it and the recorded segments alone -/
theorem C04_cur_updPars {σ} (S : Sys σ) (p : Pars) (y0 : σ) (ops : List Op) (kvs : Upd) :
    (specAfter S p y0 (ops ++ [.updPars kvs])).cur = (specAfter S p y0 ops).cur ∧
    (specAfter S p y0 (ops ++ [.updPars kvs])).segs = (specAfter S p y0 ops).segs := by
  unfold specAfter; rw [specRun_snoc]; exact ⟨rfl, rfl⟩

/-- With an exact flow (`IsFlow`): the row that `skipfirst` drops is (time reached, current
    state) — a duplicate of what is already recorded, so nothing is lost; and simulating to `t₁`
    and then to `t₂` reaches the same state at the same time as simulating to `t₂` directly. -/
theorem C04_flow_composition {σ} (S : Sys σ) (hS : IsFlow S) (a : Spec σ) (t1 t2 : Rat) (n1 n2 n : Option Nat)
    (hf : a.failed = false) (h1 : a.now < t1) (h2 : t1 < t2)
    (hn1 : 2 ≤ nPoints n1) (hn2 : 2 ≤ nPoints n2) (hn : 2 ≤ nPoints n) :
    (Spec.sample S a (linspace a.now t1 (nPoints n1))).head? = some (a.now, a.cur) ∧
    (Spec.simulate S (Spec.simulate S a t1 n1).1 t2 n2).1.cur = (Spec.simulate S a t2 n).1.cur ∧
    (Spec.simulate S (Spec.simulate S a t1 n1).1 t2 n2).1.now = (Spec.simulate S a t2 n).1.now := by
  have e1 : ¬ t1 ≤ a.now := by grind
  have e2 : ¬ t2 ≤ a.now := by grind
  have e3 : ¬ t2 ≤ t1 := by grind
  have k1 : ¬ nPoints n1 < 2 := by omega
  have k2 : ¬ nPoints n2 < 2 := by omega
  have k : ¬ nPoints n < 2 := by omega
  refine ⟨?_, ?_, ?_⟩
  · obtain ⟨m, hm⟩ : ∃ m, nPoints n1 = m + 1 := ⟨nPoints n1 - 1, by omega⟩
    obtain ⟨rest, hr, _⟩ := linspace_cons a.now t1 m
    rw [hm, hr]
    simp only [Spec.sample, List.map_cons, List.head?_cons]
    have : a.now - a.now = 0 := by grind
    rw [this, hS.zero]
  · simp only [Spec.simulate, hf, e1, e2, e3, k1, k2, k, Spec.record, if_false, Bool.false_eq_true]
    have : t2 - a.now = (t1 - a.now) + (t2 - t1) := by grind
    rw [this, hS.add _ _ _ _ (by grind) (by grind)]
  · simp only [Spec.simulate, hf, e1, e2, e3, k1, k2, k, Spec.record, if_false, Bool.false_eq_true]

/-! ## Non-vacuity -/

/-- a history with an override, a parameter change, a refused call and a continued time course
    is in the class the `_partial` theorems cover -/
example : okHist HSt.start
    [.simulate 2 (some 2), .updVars [("x", 1)], .updVars [("z", 3)], .updPars [("k", 2)],
     .simulate 1 (some 2), .timeCourse [5/2, 9/2, 5], .clear, .steady (some 200),
     .updVars [("x", 0)], .simulate 201 none] = true := by decide +kernel

/-- and on it the model really records two segments with the axis 0,1,2 | 5/2,9/2,5 -/
example : times (after termSys [("k", 1/2)] STerm.init
    [.simulate 2 (some 2), .updVars [("x", 1)], .updPars [("k", 2)], .timeCourse [5/2, 9/2, 5]]).segs
    = [0, 1, 2, 5/2, 9/2, 5] := by decide +kernel

end Mxl.C04
