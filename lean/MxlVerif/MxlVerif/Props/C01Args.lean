/-
C01 — "every way of asking returns the same numbers": the full argument table with its nine
`include_*` flags, the readout pass, and `get_fluxes` as a selection of it.
About `getArgsSel` / `getArgNames` / `evalReadouts` / `getFluxes`, the functions the driver runs
(queries `argsf`, `argnames`, `argsftc`, `fluxes`).  Helper lemmas: Lemmas/ArgsSel.lean.
-/
import MxlVerif.Lemmas.ArgsSel
import MxlVerif.Lemmas.StoichRow
import MxlVerif.Lemmas.TimeCourse
namespace Mxl.C01
open Mxl

/-- **The selected argument table.**  Whenever `get_args(variables, time, **flags)` returns, the
    table lists exactly `get_arg_names(**flags)` in that order, and every value is read from one
    dict `raw` which
    * agrees with the environment `_get_args` built (the one of `C01_rhs_is_Nv`) on every name that is
      neither a data set nor — when readouts are requested — a readout;
    * when readouts are requested, holds for every readout the value it has in a final scope that
      differs from `raw | data` only on the readouts, and in which every readout that names neither
      itself nor a readout declared after it equals its function applied to the values its arguments
      have there (readouts may name data sets and earlier readouts). -/
theorem C01_args_selected {c : Content} {vars : Option (List (Name × Rat))} {t : Rat}
    {f : ArgFlags} {l : List (Name × Rat)} (hro : (omKeys c.readouts).Nodup)
    (h : getArgsSel c vars t f = .ok l) :
    ∃ (cache : Cache) (env raw : Env), createCache c = .ok cache ∧
      getArgsEnv c cache (resolveVars cache vars) t = .ok env ∧
      l.map (·.1) = getArgNames c cache f ∧ (∀ kv ∈ l, raw.lookup kv.1 = some kv.2) ∧
      (∀ n, n ∉ omKeys c.data → (f.readouts = false ∨ n ∉ omKeys c.readouts) →
        raw.lookup n = env.lookup n) ∧
      (f.readouts = true → ∃ scope' : Env,
        (∀ n, n ∉ omKeys c.readouts →
          scope'.lookup n = (dropData (omKeys c.data) env ++ c.data).lookup n) ∧
        (∀ k ∈ omKeys c.readouts, raw.lookup k = scope'.lookup k ∧ (scope'.lookup k).isSome) ∧
        (∀ pre k ro suf, c.readouts = pre ++ (k, ro) :: suf →
          (∀ a ∈ ro.args, a ≠ k ∧ a ∉ omKeys suf) → (Comp.fn ro).Holds k scope')) := by
  obtain ⟨cache, env, raw, h1, h2, h3, hk, hv⟩ := getArgsSel_ok h
  refine ⟨cache, env, raw, h1, h2, hk, hv, ?_, ?_⟩
  · intro n hnd hn
    unfold readoutPass at h3
    by_cases hf : f.readouts = true
    · rw [if_pos hf] at h3
      obtain ⟨scope', hfr, _, _⟩ := evalReadouts_spec _ _ _ _ hro h3
      have hnr : n ∉ omKeys c.readouts := by
        rcases hn with hn | hn
        · rw [hf] at hn; cases hn
        · exact hn
      rw [(hfr n hnr).2, dropData_lookup _ _ _ hnd]
    · rw [if_neg hf] at h3
      simp only [pure, Except.pure, Except.ok.injEq] at h3
      rw [← h3, dropData_lookup _ _ _ hnd]
  · intro hf
    unfold readoutPass at h3
    rw [if_pos hf] at h3
    obtain ⟨scope', hfr, hro', hholds⟩ := evalReadouts_spec _ _ _ _ hro h3
    exact ⟨scope', fun n hn => (hfr n hn).1, hro', hholds⟩

/-- **`get_fluxes` is `get_args` restricted to the reaction and surrogate-flux groups** (no flux is
    named like a data set — the shared name space). -/
theorem C01_fluxes_are_selected_args (c : Content) (vars : Option (List (Name × Rat))) (t : Rat)
    (hflux : ∀ k ∈ c.fluxNames, k ∉ omKeys c.data) :
    getArgsSel c vars t fluxFlags = getFluxes c vars t :=
  getFluxes_eq_getArgsSel c vars t hflux

/-- **The derived groups of `get_arg_names` are `get_derived_variable_names` and
    `get_derived_parameter_names`** (in this order), so the split is the one characterised in C13. -/
theorem C01_arg_names_derived_groups (c : Content) (cache : Cache) (dp dv : List Name)
    (hc : createCache c = .ok cache) (h : getClasses c = .ok (dp, dv)) :
    getArgNames c cache ⟨false, false, false, true, true, false, false, false, false⟩ = dv ++ dp := by
  unfold getClasses at h
  simp only [hc, bind, Except.bind, pure, Except.pure, Except.ok.injEq, Prod.mk.injEq] at h
  obtain ⟨rfl, rfl⟩ := h
  simp [getArgNames]

/-- **`get_stoichiometries_of_variable` is the variable's row of `get_stoichiometries`**: whenever the
    table query answers, the row query answers with that variable's row (`KeyError` for a variable no
    stoichiometry mentions) — computed coefficients evaluated at the same state and time. -/
theorem C01_stoich_row_is_table_row {c : Content} (vars : Option (List (Name × Rat))) (t : Rat)
    (x : Name) {tbl : List (Name × List (Name × Rat))} (h : getStoich c vars t = .ok tbl) :
    getStoichOfVar c x vars t =
      match tbl.lookup x with
      | some row => .ok row
      | none => .error (.keyError x) :=
  getStoichOfVar_is_row vars t x h

/-- **The time-course form is the pointwise form, row by row**: `get_args_time_course(df, **flags)`
    is `get_args(row, index, **flags)` without the `time` column, for each row of the table. -/
theorem C01_time_course_is_pointwise (c : Content) (cache : Cache) (hc : createCache c = .ok cache)
    (rows : List (Rat × List (Name × Rat))) (f : ArgFlags) :
    getArgsSelTC c rows f =
      rows.mapM (fun r => getArgsSel c (some r.2) r.1 { f with time := false }) :=
  getArgsSelTC_pointwise c cache hc rows f

/-- the named right-hand side query with an explicit state is `get_right_hand_side` -/
theorem C01_rhs_query_is_getRhs (c : Content) (vars : List (Name × Rat)) (t : Rat) :
    getRhsQ c (some vars) t = getRhs c vars t := rfl

/-! ### non-vacuity: a model with a readout over a data set and an earlier readout -/

def exRo : Content :=
  { vars := [("x", .plain 2)], pars := [("p", .plain 3)],
    rxns := [("r", ⟨⟨["x", "p"], fun v => v.getD 0 0 * v.getD 1 0⟩, [("x", .num (-1))]⟩)],
    data := [("dat", 5)],
    readouts := [("a", ⟨["r", "dat"], fun v => v.getD 0 0 + v.getD 1 0⟩),
                 ("b", ⟨["a"], fun v => 2 * v.getD 0 0⟩)] }

deriving instance DecidableEq for Except

example : getArgsSel exRo none 0 { readouts := true } =
    .ok [("time", 0), ("x", 2), ("p", 3), ("r", 6), ("a", 11), ("b", 22)] := by decide +kernel

example : getArgsSel exRo none 0 fluxFlags = .ok [("r", 6)] := by decide +kernel

/-- F-C01-3 (known finding), witnessed on the model: a readout naming a readout declared AFTER it is
    rejected with `KeyError`, the other declaration order of the same two readouts returns numbers —
    which is why `C01_args_selected` promises `Holds` only for readouts that name no later readout. -/
def exLater : Content :=
  { exRo with readouts := [("b", ⟨["a"], fun v => 2 * v.getD 0 0⟩),
                            ("a", ⟨["r", "dat"], fun v => v.getD 0 0 + v.getD 1 0⟩)] }

example : getArgsSel exLater none 0 { readouts := true } = .error (.keyError "a") := by decide +kernel
example : (getArgsSel exRo none 0 { readouts := true }).toOption.isSome = true := by decide +kernel

end Mxl.C01
