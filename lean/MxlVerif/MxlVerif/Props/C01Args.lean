/-
C01 — "every way of asking returns the same numbers": the full argument table with its nine
`include_*` flags, the readout pass, and `get_fluxes` as a selection of it.
About `getArgsSel` / `getArgNames` / `evalReadouts` / `getFluxes`, the functions the driver runs
(queries `argsf`, `argnames`, `argsftc`, `fluxes`).  Helper lemmas: Lemmas/ArgsSel.lean.
-/
import MxlVerif.Lemmas.ArgsSel
import MxlVerif.Lemmas.ReadoutsSorted
import MxlVerif.Lemmas.StoichRow
import MxlVerif.Lemmas.TimeCourse
namespace Mxl.C01
open Mxl

/-- **The selected argument table.**  Whenever `get_args(variables, time, **flags)` returns, the
    table lists exactly `get_arg_names(**flags)` in that order, and every value is read from one
    dict `raw` which
    * agrees with the environment `_get_args` built (the one of `C01_rhs_is_Nv`) on every name that is
      neither a data set nor — when readouts are requested — a readout;
    * when readouts are requested (their names distinct from each other and from everything else in
      the table — the shared name space), holds for every readout the value it has in a final scope
      that differs from `raw | data` only on the readouts and in which EVERY readout equals its
      function applied to the values its arguments have there — readouts may name data sets and
      other readouts declared before or after them (the readouts are evaluated in dependency order,
      after the repair of F-C01-3). -/
theorem C01_args_selected {c : Content} {vars : Option (List (Name × Rat))} {t : Rat}
    {f : ArgFlags} {l : List (Name × Rat)} (hro : (omKeys c.readouts).Nodup)
    (h : getArgsSel c vars t f = .ok l) :
    ∃ (cache : Cache) (env raw : Env), createCache c = .ok cache ∧
      getArgsEnv c cache (resolveVars cache vars) t = .ok env ∧
      l.map (·.1) = getArgNames c cache f ∧ (∀ kv ∈ l, raw.lookup kv.1 = some kv.2) ∧
      (f.readouts = false → ∀ n, n ∉ omKeys c.data → raw.lookup n = env.lookup n) ∧
      (f.readouts = true →
        (∀ k ∈ omKeys c.readouts, k ∉ (dropData (omKeys c.data) env ++ c.data).map (·.1)) →
        ∃ scope' : Env,
          (∀ n, n ∉ omKeys c.readouts →
            scope'.lookup n = (dropData (omKeys c.data) env ++ c.data).lookup n ∧
            (n ∉ omKeys c.data → raw.lookup n = env.lookup n)) ∧
          (∀ k ∈ omKeys c.readouts, raw.lookup k = scope'.lookup k ∧ (scope'.lookup k).isSome) ∧
          (∀ k ro, c.readouts.lookup k = some ro → (Comp.fn ro).Holds k scope')) := by
  obtain ⟨cache, env, raw, h1, h2, h3, hk, hv⟩ := getArgsSel_ok h
  refine ⟨cache, env, raw, h1, h2, hk, hv, ?_, ?_⟩
  · intro hf n hnd
    unfold readoutPass at h3
    rw [if_neg (by simp [hf])] at h3
    simp only [pure, Except.pure, Except.ok.injEq] at h3
    rw [← h3, dropData_lookup _ _ _ hnd]
  · intro hf hfresh
    obtain ⟨scope', hfr, hro', hholds⟩ := readoutPass_all_hold hro hfresh hf h3
    refine ⟨scope', fun n hn => ⟨(hfr n hn).1, fun hnd => ?_⟩, hro', hholds⟩
    rw [(hfr n hn).2, dropData_lookup _ _ _ hnd]

/-- **`get_fluxes` is `get_args` restricted to the reaction and surrogate-flux groups** (no flux is
    named like a data set — the shared name space). -/
theorem C01_fluxes_are_selected_args (c : Content) (vars : Option (List (Name × Rat))) (t : Rat)
    (hflux : ∀ k ∈ c.fluxNames, k ∉ omKeys c.data) :
    getArgsSel c vars t fluxFlags = getFluxes c vars t :=
  getFluxes_eq_getArgsSel c vars t hflux

/-- **The derived groups of `get_arg_names` are `get_derived_variable_names` and
    `get_derived_parameter_names`** (in this order), so the split is the one characterised in C13. -/
theorem C01_arg_names_derived_groups (c : Content) (cache : Cache) (dp dv : List Name)
    (hc : createCache c = .ok cache) (h : getClasses c = .ok (dp, dv)) :
    getArgNames c cache ⟨false, false, false, true, true, false, false, false, false⟩ = dv ++ dp := by
  unfold getClasses at h
  simp only [hc, bind, Except.bind, pure, Except.pure, Except.ok.injEq, Prod.mk.injEq] at h
  obtain ⟨rfl, rfl⟩ := h
  simp [getArgNames]

/-- **`get_stoichiometries_of_variable` is the variable's row of `get_stoichiometries`**: whenever the
    table query answers, the row query answers with that variable's row (`KeyError` for a variable no
    stoichiometry mentions) — computed coefficients evaluated at the same state and time. -/
theorem C01_stoich_row_is_table_row {c : Content} (vars : Option (List (Name × Rat))) (t : Rat)
    (x : Name) {tbl : List (Name × List (Name × Rat))} (h : getStoich c vars t = .ok tbl) :
    getStoichOfVar c x vars t =
      match tbl.lookup x with
      | some row => .ok row
      | none => .error (.keyError x) :=
  getStoichOfVar_is_row vars t x h

/-- **The time-course form is the pointwise form, row by row**: `get_args_time_course(df, **flags)`
    is `get_args(row, index, **flags)` without the `time` column, for each row of the table. -/
theorem C01_time_course_is_pointwise (c : Content) (cache : Cache) (hc : createCache c = .ok cache)
    (rows : List (Rat × List (Name × Rat))) (f : ArgFlags) :
    getArgsSelTC c rows f =
      rows.mapM (fun r => getArgsSel c (some r.2) r.1 { f with time := false }) :=
  getArgsSelTC_pointwise c cache hc rows f

/-- the named right-hand side query with an explicit state is `get_right_hand_side` -/
theorem C01_rhs_query_is_getRhs (c : Content) (vars : List (Name × Rat)) (t : Rat) :
    getRhsQ c (some vars) t = getRhs c vars t := rfl

/-! ### non-vacuity: a model with a readout over a data set and an earlier readout -/

def exRo : Content :=
  { vars := [("x", .plain 2)], pars := [("p", .plain 3)],
    rxns := [("r", ⟨⟨["x", "p"], fun v => v.getD 0 0 * v.getD 1 0⟩, [("x", .num (-1))]⟩)],
    data := [("dat", 5)],
    readouts := [("a", ⟨["r", "dat"], fun v => v.getD 0 0 + v.getD 1 0⟩),
                 ("b", ⟨["a"], fun v => 2 * v.getD 0 0⟩)] }

deriving instance DecidableEq for Except

example : getArgsSel exRo none 0 { readouts := true } =
    .ok [("time", 0), ("x", 2), ("p", 3), ("r", 6), ("a", 11), ("b", 22)] := by decide +kernel

example : getArgsSel exRo none 0 fluxFlags = .ok [("r", 6)] := by decide +kernel

/-- F-C01-3 (repaired): a readout naming a readout declared AFTER it gets the same numbers as in the
    other declaration order (only the order of the readout group in the table follows the declaration) -/
def exLater : Content :=
  { exRo with readouts := [("b", ⟨["a"], fun v => 2 * v.getD 0 0⟩),
                            ("a", ⟨["r", "dat"], fun v => v.getD 0 0 + v.getD 1 0⟩)] }

example : getArgsSel exLater none 0 { readouts := true } =
    .ok [("time", 0), ("x", 2), ("p", 3), ("r", 6), ("b", 22), ("a", 11)] := by decide +kernel

/-! ### the fluxes are read from the dict `_get_args` returned (data sets popped) -/

/-- **`guardFlux` changes nothing whenever `get_fluxes` answers** — i.e. whenever every reaction name and
    every surrogate stoichiometry key is bound in the popped dict (always the case when the keys are
    surrogate outputs, which the shared name space keeps apart from the data sets).  This is the exact
    hypothesis under which the unguarded `callRhs` / `getRhs` / `getFluxes` / `getArgs` / `getStoich` of the
    other theorems are what the driver answers. -/
theorem C01_flux_guard_transparent {α} (c : Content) (vars : Option (List (Name × Rat))) (t : Rat)
    (r : Except Err α) {fl : List (Name × Rat)} (h : getArgsSel c vars t fluxFlags = .ok fl) :
    guardFlux c vars t r = r := by
  simp [guardFlux, h]

/-- **a flux the popped dict does not hold is a `KeyError` at every entry point that reads fluxes**
    (a surrogate stoichiometry key that is a data-set name or no output at all): no numbers -/
theorem C01_unbound_flux_rejected {α} (c : Content) (vars : Option (List (Name × Rat))) (t : Rat)
    (r : Except Err α) {e : Err} (h : getArgsSel c vars t fluxFlags = .error e) :
    guardFlux c vars t r = .error e := by
  simp [guardFlux, h]

/-- the cross-audit's witness: the stoichiometry key of the surrogate is the data set `dat` -/
def exDatFlux : Content :=
  { vars := [("x", .plain 1)], data := [("dat", 3)],
    surs := [("s", ⟨["x"], ["o1"], fun _ => [0], [("dat", [("x", .num 1)])]⟩)] }

example : callRhs exDatFlux 0 [5] = .ok [3] := by decide +kernel
example : guardFlux exDatFlux (some [("x", 5)]) 0 (callRhs exDatFlux 0 [5]) = .error (.keyError "dat") := by
  decide +kernel

/-- non-vacuity of `C01_rhs_is_Nv` on a NON-trivial model: a derived quantity over the state and time,
    a reaction with a numeric and a state-dependent coefficient, a two-output surrogate with one flux,
    an untouched variable: `d = x + t = 3`, `r = d·p = 9`, `dx = −9`, `dy = x·r + f1 = 18 + 4`, `dz = 0` -/
def exNV : Content :=
  { vars := [("x", .plain 2), ("y", .plain 1), ("z", .plain 9)], pars := [("p", .plain 3)],
    derived := [("d", ⟨["x", "time"], fun v => v.getD 0 0 + v.getD 1 0⟩)],
    rxns := [("r", ⟨⟨["d", "p"], fun v => v.getD 0 0 * v.getD 1 0⟩,
      [("x", .num (-1)), ("y", .dyn ⟨["x"], fun v => v.getD 0 0⟩)]⟩)],
    surs := [("s", ⟨["x"], ["o1", "f1"], fun v => [v.getD 0 0, 2 * v.getD 0 0],
      [("f1", [("y", .num 1)])]⟩)] }

example : callRhs exNV 1 [2, 1, 9] = .ok [-9, 22, 0] := by decide +kernel
example : (omKeys exNV.allStoich).Nodup := by decide +kernel
example : guardFlux exNV (some [("x", 2), ("y", 1), ("z", 9)]) 1 (callRhs exNV 1 [2, 1, 9]) =
    .ok [-9, 22, 0] := by decide +kernel

end Mxl.C01
