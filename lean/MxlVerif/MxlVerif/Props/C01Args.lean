/-
C01 — "every way of asking returns the same numbers": the full argument table with its nine
`include_*` flags, the readout pass, and `get_fluxes` as a selection of it.
About `getArgsSel` / `getArgNames` / `evalReadouts` / `getFluxes`, the functions the driver runs
(queries `argsf`, `argnames`, `argsftc`, `fluxes`).  Helper lemmas: Lemmas/ArgsSel.lean.
-/
import MxlVerif.Lemmas.ArgsSel
import MxlVerif.Lemmas.ReadoutsSorted
import MxlVerif.Lemmas.StoichRow
import MxlVerif.Lemmas.TimeCourse
namespace Mxl.C01
open Mxl

/-- **The selected argument table.**  Whenever `get_args(variables, time, **flags)` returns, the
    table lists exactly `get_arg_names(**flags)` in that order, and every value is read from one
    dict `raw` which
    * agrees with the environment `_get_args` built (the one of `C01_rhs_is_Nv`) on every name that is
      neither a data set nor — when readouts are requested — a readout;
    * when readouts are requested (their names distinct from each other and from everything else in
      the table — the shared name space), holds for every readout the value it has in a final scope
      that differs from `raw | data` only on the readouts and in which EVERY readout equals its
      function applied to the values its arguments have there — readouts may name data sets and
      other readouts declared before or after them (the readouts are evaluated in dependency order,
      after the repair of F-C01-3). -/
theorem C01_args_selected {c : Content} {vars : Option (List (Name × Rat))} {t : Rat}
    {f : ArgFlags} {l : List (Name × Rat)} (hro : (omKeys c.readouts).Nodup)
    (h : getArgsSel c vars t f = .ok l) :
    ∃ (cache : Cache) (env raw : Env), createCache c = .ok cache ∧
      getArgsEnv c cache (resolveVars cache vars) t = .ok env ∧
      l.map (·.1) = getArgNames c cache f ∧ (∀ kv ∈ l, raw.lookup kv.1 = some kv.2) ∧
      (f.readouts = false → ∀ n, n ∉ omKeys c.data → raw.lookup n = env.lookup n) ∧
      (f.readouts = true →
        (∀ k ∈ omKeys c.readouts, k ∉ (dropData (omKeys c.data) env ++ c.data).map (·.1)) →
        ∃ scope' : Env,
          (∀ n, n ∉ omKeys c.readouts →
            scope'.lookup n = (dropData (omKeys c.data) env ++ c.data).lookup n ∧
            (n ∉ omKeys c.data → raw.lookup n = env.lookup n)) ∧
          (∀ k ∈ omKeys c.readouts, raw.lookup k = scope'.lookup k ∧ (scope'.lookup k).isSome) ∧
          (∀ k ro, c.readouts.lookup k = some ro → (Comp.fn ro).Holds k scope')) := by
  obtain ⟨cache, env, raw, h1, h2, h3, hk, hv⟩ := getArgsSel_ok h
  refine ⟨cache, env, raw, h1, h2, hk, hv, ?_, ?_⟩
  · intro hf n hnd
    unfold readoutPass at h3
    rw [if_neg (by simp [hf])] at h3
    simp only [pure, Except.pure, Except.ok.injEq] at h3
    rw [← h3, dropData_lookup _ _ _ hnd]
  · intro hf hfresh
    obtain ⟨scope', hfr, hro', hholds⟩ := readoutPass_all_hold hro hfresh hf h3
    refine ⟨scope', fun n hn => ⟨(hfr n hn).1, fun hnd => ?_⟩, hro', hholds⟩
    rw [(hfr n hn).2, dropData_lookup _ _ _ hnd]

/-- **`get_fluxes` is `get_args` restricted to the reaction and surrogate-flux groups** (no flux is
    named like a data set — the shared name space). -/
theorem C01_fluxes_are_selected_args (c : Content) (vars : Option (List (Name × Rat))) (t : Rat)
    (hflux : ∀ k ∈ c.fluxNames, k ∉ omKeys c.data) :
    getArgsSel c vars t fluxFlags = getFluxes c vars t :=
  getFluxes_eq_getArgsSel c vars t hflux

/-- **The derived groups of `get_arg_names` are `get_derived_variable_names` and
    `get_derived_parameter_names`** (in this order), so the split is the one characterised in C13. -/
theorem C01_arg_names_derived_groups (c : Content) (cache : Cache) (dp dv : List Name)
    (hc : createCache c = .ok cache) (h : getClasses c = .ok (dp, dv)) :
    getArgNames c cache ⟨false, false, false, true, true, false, false, false, false⟩ = dv ++ dp := by
  unfold getClasses at h
  simp only [hc, bind, Except.bind, pure, Except.pure, Except.ok.injEq, Prod.mk.injEq] at h
  obtain ⟨rfl, rfl⟩ := h
  simp [getArgNames]

/-- **`get_stoichiometries_of_variable` is the variable's row of `get_stoichiometries`**: whenever the
    table query answers, the row query answers with that variable's row (`KeyError` for a variable no
    stoichiometry mentions) — computed coefficients evaluated at the same state and time. -/
theorem C01_stoich_row_is_table_row {c : Content} (vars : Option (List (Name × Rat))) (t : Rat)
    (x : Name) {tbl : List (Name × List (Name × Rat))} (h : getStoich c vars t = .ok tbl) :
    getStoichOfVar c x vars t =
      match tbl.lookup x with
      | some row => .ok row
      | none => .error (.keyError x) :=
  getStoichOfVar_is_row vars t x h

/-- **The time-course form is the pointwise form, row by row**: `get_args_time_course(df, **flags)`
    is `get_args(row, index, **flags)` without the `time` column, for each row of the table. -/
theorem C01_time_course_is_pointwise (c : Content) (cache : Cache) (hc : createCache c = .ok cache)
    (rows : List (Rat × List (Name × Rat))) (f : ArgFlags) :
    getArgsSelTC c rows f =
      rows.mapM (fun r => getArgsSel c (some r.2) r.1 { f with time := false }) :=
  getArgsSelTC_pointwise c cache hc rows f

/-- the named right-hand side query with an explicit state is `get_right_hand_side` -/
theorem C01_rhs_query_is_getRhs (c : Content) (vars : List (Name × Rat)) (t : Rat) :
    getRhsQ c (some vars) t = getRhs c vars t := rfl

/-! ### non-vacuity: a model with a readout over a data set and an earlier readout -/

def exRo : Content :=
  { vars := [("x", .plain 2)], pars := [("p", .plain 3)],
    rxns := [("r", ⟨⟨["x", "p"], fun v => v.getD 0 0 * v.getD 1 0⟩, [("x", .num (-1))]⟩)],
    data := [("dat", 5)],
    readouts := [("a", ⟨["r", "dat"], fun v => v.getD 0 0 + v.getD 1 0⟩),
                 ("b", ⟨["a"], fun v => 2 * v.getD 0 0⟩)] }

deriving instance DecidableEq for Except

example : getArgsSel exRo none 0 { readouts := true } =
    .ok [("time", 0), ("x", 2), ("p", 3), ("r", 6), ("a", 11), ("b", 22)] := by decide +kernel

example : getArgsSel exRo none 0 fluxFlags = .ok [("r", 6)] := by decide +kernel

/-- F-C01-3 (repaired): a readout naming a readout declared AFTER it gets the same numbers as in the
    other declaration order (only the order of the readout group in the table follows the declaration) -/
def exLater : Content :=
  { exRo with readouts := [("b", ⟨["a"], fun v => 2 * v.getD 0 0⟩),
                            ("a", ⟨["r", "dat"], fun v => v.getD 0 0 + v.getD 1 0⟩)] }

example : getArgsSel exLater none 0 { readouts := true } =
    .ok [("time", 0), ("x", 2), ("p", 3), ("r", 6), ("b", 22), ("a", 11)] := by decide +kernel

end Mxl.C01
