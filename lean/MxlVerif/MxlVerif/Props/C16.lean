/-
C16 — the linear label model tracks the isotopomer model's positional enrichment.
Theorems are about `MxlVerif/Model/C16.lean` (linear mapper) and `MxlVerif/Model/C05.lean`
(isotopomer mapper), the `def`s the driver runs.
-/
import MxlVerif.Model.C16
import MxlVerif.Lemmas.C05
namespace Mxl.C16
open Mxl.C05

/-- the reading of a map that `LabelMapper` and the documentation use: product position `i` is fed
    by (padded) substrate position `labelmap[i]` -/
def documentedSources (subs : List Slot) (labelmap : List Nat) : List Slot :=
  labelmap.map fun i => subs.getD i Slot.ext

/-- the full statement "both mappers read a map in the same direction" is false of the code as it
    stands (finding F-C16-1): with the 3-cycle `[2, 0, 1]` the linear mapper feeds product positions
    0,1,2 from substrate positions 1,2,0, the documented reading is 2,0,1 -/
theorem C16_same_direction_fails :
    ∃ (subs : List Slot) (lm : List Nat) (res : List Slot),
      mapSubstratesToLabelmap subs lm = .ok res ∧ res ≠ documentedSources subs lm :=
  ⟨[.pos "A" 0, .pos "A" 1, .pos "A" 2], [2, 0, 1], _, rfl, by decide⟩

end Mxl.C16
