/-
C16 — the linear label model tracks the isotopomer model's positional enrichment.
Theorems are about `MxlVerif/Model/C16.lean` (linear mapper) and `MxlVerif/Model/C05.lean`
(isotopomer mapper), the `def`s the driver runs.  Only property theorems and non-vacuity
examples live here.
-/
import MxlVerif.Lemmas.C16
namespace Mxl.C16
open Mxl.C05

/-- the full statement "both mappers read a map in the same direction" is false of the code as it
    stands (finding F-C16-1): with the 3-cycle `[2, 0, 1]` the linear mapper feeds product positions
    0,1,2 from substrate positions 1,2,0, the documented reading (and `LabelMapper`'s) is 2,0,1 -/
theorem C16_same_direction_fails :
    ∃ (subs : List Slot) (lm : List Nat) (res : List Slot),
      mapSubstratesToLabelmap subs lm = .ok res ∧ res ≠ documentedSources subs lm :=
  ⟨[.pos "A" 0, .pos "A" 1, .pos "A" 2], [2, 0, 1], _, rfl, by decide⟩

/-- for a map that is its own inverse the linear mapper feeds product position `i` from substrate
    position `labelmap[i]`, as `LabelMapper` does (`C05_position_map`) -/
theorem C16_same_direction_partial (subs : List Slot) (lm : List Nat)
    (h : InvolutiveMap subs.length lm) :
    mapSubstratesToLabelmap subs lm = .ok (documentedSources subs lm) :=
  mapSubstratesToLabelmap_involutive subs lm h

/-- non-vacuity: the triose-phosphate-isomerase map of the documentation is involutive, so is a
    merge map that swaps two one-carbon substrates -/
example : InvolutiveMap 3 [2, 1, 0] ∧ InvolutiveMap 2 [1, 0] := by decide

/-- what the linear mapper does with any permutation map: substrate position `j` goes to product
    position `labelmap[j]`; every (padded) substrate position is used exactly once -/
theorem C16_linear_reading (subs : List Slot) (lm : List Nat) (h : PermMap subs.length lm) :
    ∃ res, mapSubstratesToLabelmap subs lm = .ok res ∧ res.Perm subs ∧
      ∀ j, j < subs.length → res[lm.getD j 0]? = subs[j]? := by
  obtain ⟨res, hok, _, hj⟩ := mapSubstratesToLabelmap_perm subs lm h
  exact ⟨res, hok, mapSubstratesToLabelmap_perm_count subs lm h hok, hj⟩

/-- the per-position reactions of one base reaction (all of whose compounds carry labels): the
    padded positions are paired with the sources chosen by `_map_substrates_to_labelmap`; a map
    of the wrong length is rejected with `ValueError` -/
theorem C16_linear_reactions (lv : List (Name × Nat)) (r : BRxn) (lm : List Nat)
    (baseRxns : List (Name × List (Name × Int))) (hlk : baseRxns.lookup r.name = some r.stoich)
    (hlab : ∀ c ∈ subsOf r ++ prodsOf r, (lv.lookup c).isSome) :
    linRxnsOf (isosOf lv) baseRxns r.name lm =
      if lm.length < max (nSub lv r) (nProd lv r) then .error .valueError
      else (mapSubstratesToLabelmap (paddedSubs lv r) lm).map
        (fun res => slotRxns r.name 0 res (paddedProds lv r)) :=
  linRxnsOf_eq lv r lm baseRxns hlk hlab

/-- **label flux per position** (mass-action rate, distinct labelled occurrences, non-zero pools):
    in the isotopomer model the rates of the reactions whose substrate pattern is labelled at padded
    substrate position `l` add up to (enrichment of that position) × (base flux at the totals) —
    the rate `_relative_label_flux(enrichment, flux)` the linear model gives a per-position reaction
    reading position `l` -/
theorem C16_position_flux_partial {lv : List (Name × Nat)} {r : BRxn} {lm : List Nat}
    {rs : List LRxn} (hok : isotopomerReactions lv r lm = .ok rs)
    (hm : MassAction lv r) (hd : DistinctOccurrences lv r) (σ : LName → Rat)
    (hC : ∀ c ∈ subsOf r, labelsOf lv c > 0 → totalOf σ c (labelsOf lv c) ≠ 0)
    (l : Nat) (hl : l < max (nSub lv r) (nProd lv r)) :
    (rs.map fun rx => ind ((suffixOf rx).getD l false) * rx.rate σ).sum
      = LinRxn.rate (enrichOf lv σ) (fun _ => r.rate (totalsEnv lv σ))
          ⟨r.name, 0, (paddedSubs lv r).getD l Slot.ext, Slot.ext⟩ :=
  position_flux hok hm hd σ hC l hl

/-- **marginal** (mass-action rate, distinct labelled occurrences, non-zero substrate pools,
    involutive map): with enrichments, pool sizes and flux taken from an isotopomer state, the
    derivative the linear model's per-position reactions of one base reaction give to position
    `(x, i)` is the derivative its isotopomer reactions give to the amount of `x` labelled at `i`,
    divided by the pool of `x`.  (Both models' right-hand sides are sums of such contributions
    over the base reactions.) -/
theorem C16_marginal_partial (lv : List (Name × Nat)) (r : BRxn) (lm : List Nat)
    (baseRxns : List (Name × List (Name × Int))) (rs : List LRxn) (lrs : List LinRxn)
    (hlk : baseRxns.lookup r.name = some r.stoich)
    (hlab : ∀ c ∈ subsOf r ++ prodsOf r, (lv.lookup c).isSome)
    (hiso : isotopomerReactions lv r lm = .ok rs)
    (hlin : linRxnsOf (isosOf lv) baseRxns r.name lm = .ok lrs)
    (hm : MassAction lv r) (hd : DistinctOccurrences lv r)
    (hinv : InvolutiveMap (max (nSub lv r) (nProd lv r)) lm) (σ : LName → Rat)
    (hC : ∀ c ∈ subsOf r, labelsOf lv c > 0 → totalOf σ c (labelsOf lv c) ≠ 0)
    (C : Name → Rat) (x : Name) (i : Nat) :
    linRhs lrs (enrichOf lv σ) (fun _ => r.rate (totalsEnv lv σ)) C (Slot.pos x i)
      = (1 / C x) * ((labelledAt x (labelsOf lv x) i).map (rhsOf rs σ)).sum := by
  rw [linRxnsOf_eq lv r lm baseRxns hlk hlab, if_neg (by rw [hinv.1.length]; omega)] at hlin
  have hinv' : InvolutiveMap (paddedSubs lv r).length lm := by rw [paddedSubs_length]; exact hinv
  rw [mapSubstratesToLabelmap_involutive _ lm hinv'] at hlin
  simp only [Except.map, Except.ok.injEq] at hlin
  subst hlin
  exact marginal_full hiso hm hd hinv σ hC C x i

/-- without the involution hypothesis the statement is false of the code as it stands (finding
    F-C16-1): A → B (three positions each, rate `k·A`) with the 3-cycle `[2, 0, 1]`; half of the
    A pool labelled at position 0 only.  In the isotopomer model position 2 of B is fed by
    position 1 of A (unlabelled): no label arrives; the linear model feeds it from position 0. -/
theorem C16_marginal_fails :
    ∃ (lv : List (Name × Nat)) (r : BRxn) (lm : List Nat) (rs : List LRxn) (lrs : List LinRxn)
      (σ : LName → Rat) (C : Name → Rat) (x : Name) (i : Nat),
      isotopomerReactions lv r lm = .ok rs ∧
      linRxnsOf (isosOf lv) [(r.name, r.stoich)] r.name lm = .ok lrs ∧
      MassAction lv r ∧ DistinctOccurrences lv r ∧ PermMap (max (nSub lv r) (nProd lv r)) lm ∧
      linRhs lrs (enrichOf lv σ) (fun _ => r.rate (totalsEnv lv σ)) C (Slot.pos x i)
        ≠ (1 / C x) * ((labelledAt x (labelsOf lv x) i).map (rhsOf rs σ)).sum := by
  refine ⟨[("A", 3), ("B", 3)],
    { name := "v", fn := listProd, args := ["k", "A"], stoich := [("A", -1), ("B", 1)] },
    [2, 0, 1], _, _,
    (fun n => if n = ⟨"A", some [true, false, false]⟩ then 1
      else if n = ⟨"A", some [false, false, false]⟩ then 1
      else if n = ⟨"B", some [false, false, false]⟩ then 2
      else if n = plain "k" then 1 else 0),
    (fun _ => 2), "B", 2, rfl, rfl, ⟨fun _ => rfl, ?_⟩, by decide, by decide, ?_⟩
  · intro a ha
    by_cases e : a = "A"
    · subst e; decide
    · by_cases e2 : a = "B"
      · subst e2; decide
      · exfalso
        have e1 : (a == "A") = false := by simpa using e
        have e3 : (a == "B") = false := by simpa using e2
        simp [labelsOf, List.lookup, e1, e3] at ha
  · decide +kernel

/-- non-vacuity of `C16_marginal_partial`'s structural hypotheses: A + B → C with the swap map -/
example : DistinctOccurrences [("A", 1), ("B", 1), ("C", 2)]
      { name := "v", fn := listProd, args := ["k", "A", "B"], stoich := [("A", -1), ("B", -1), ("C", 1)] }
    ∧ InvolutiveMap 2 [1, 0] := by decide

/-- **uniform enrichment** (any permutation map, either reading): if every position and the
    external pool have enrichment `e`, one base reaction contributes
    (net stoichiometry of the compound) · e · flux / pool to each of the compound's positions … -/
theorem C16_uniform_contribution (lv : List (Name × Nat)) (r : BRxn) (lm : List Nat)
    (baseRxns : List (Name × List (Name × Int))) (lrs : List LinRxn)
    (hlk : baseRxns.lookup r.name = some r.stoich)
    (hlab : ∀ c ∈ subsOf r ++ prodsOf r, (lv.lookup c).isSome)
    (hperm : PermMap (max (nSub lv r) (nProd lv r)) lm)
    (hlin : linRxnsOf (isosOf lv) baseRxns r.name lm = .ok lrs)
    (e : Rat) (v C : Name → Rat) (x : Name) (i : Nat) (hi : i < labelsOf lv x) :
    linRhs lrs (fun _ => e) v C (Slot.pos x i)
      = (netStoich r.stoich x : Rat) * (1 / C x) * (e * v r.name) := by
  rw [linRxnsOf_eq lv r lm baseRxns hlk hlab, if_neg (by rw [hperm.length]; omega)] at hlin
  have hperm' : PermMap (paddedSubs lv r).length lm := by rw [paddedSubs_length]; exact hperm
  obtain ⟨res, hres, hrl, _⟩ := mapSubstratesToLabelmap_perm _ lm hperm'
  rw [hres] at hlin
  simp only [Except.map, Except.ok.injEq] at hlin
  subst hlin
  rw [linRhs_slotRxns, sum_pairTerm_const e (v r.name) C (Slot.pos x i) (by simp) res
    (paddedProds lv r) (by rw [hrl, paddedSubs_length, paddedProds_length])]
  have hc := (mapSubstratesToLabelmap_perm_count _ lm hperm' hres).count_eq (Slot.pos x i)
  rw [hc]
  simp only [paddedSubs, paddedProds, count_append_ext, count_slotsFlat, hi, if_true, Slot.base]
  have := unpack_net r.stoich x
  simp only [subsOf, prodsOf] at this ⊢
  rw [this]

/-- … so at a steady state of the base model (net production of every compound zero at the given
    fluxes) uniform enrichment equal to the external pool is stationary in the linear model:
    the contributions of the base reactions cancel -/
theorem C16_uniform_stationary (lv : List (Name × Nat))
    (baseRxns : List (Name × List (Name × Int))) (rl : List (BRxn × List Nat × List LinRxn))
    (hall : ∀ t ∈ rl, baseRxns.lookup t.1.name = some t.1.stoich ∧
      (∀ c ∈ subsOf t.1 ++ prodsOf t.1, (lv.lookup c).isSome) ∧
      PermMap (max (nSub lv t.1) (nProd lv t.1)) t.2.1 ∧
      linRxnsOf (isosOf lv) baseRxns t.1.name t.2.1 = .ok t.2.2)
    (e : Rat) (v C : Name → Rat) (x : Name) (i : Nat) (hi : i < labelsOf lv x)
    (hsteady : (rl.map fun t => (netStoich t.1.stoich x : Rat) * v t.1.name).sum = 0) :
    linRhs (rl.map (·.2.2)).flatten (fun _ => e) v C (Slot.pos x i) = 0 := by
  have hadd : ∀ (gs : List (List LinRxn)),
      linRhs gs.flatten (fun _ => e) v C (Slot.pos x i)
        = (gs.map fun g => linRhs g (fun _ => e) v C (Slot.pos x i)).sum := by
    intro gs
    induction gs with
    | nil => simp [linRhs]
    | cons g gs ih =>
      simp only [List.flatten_cons, List.map_cons, List.sum_cons, ← ih]
      simp [linRhs, List.map_append, List.sum_append]
  rw [hadd, List.map_map]
  have : ∀ t ∈ rl, ((fun g => linRhs g (fun _ => e) v C (Slot.pos x i)) ∘ (·.2.2)) t
      = ((netStoich t.1.stoich x : Rat) * v t.1.name) * ((1 / C x) * e) := by
    intro t ht
    obtain ⟨h0, h1, h2, h3⟩ := hall t ht
    simp only [Function.comp]
    rw [C16_uniform_contribution lv t.1 t.2.1 baseRxns t.2.2 h0 h1 h2 h3 e v C x i hi]
    grind
  rw [List.map_congr_left this, sum_map_mul_right, hsteady]
  grind

/-- with no external label and no label in the system none appears: every derivative of the linear
    model is zero when all enrichments (external pool included) are zero -/
theorem C16_no_label_stays_none (lrs : List LinRxn) (v C : Name → Rat) (x : Slot) :
    linRhs lrs (fun _ => 0) v C x = 0 := by
  induction lrs with
  | nil => simp [linRhs]
  | cons rx lrs ih =>
    simp only [linRhs, List.map_cons, List.sum_cons] at ih ⊢
    rw [ih]
    simp only [LinRxn.rate]
    grind

end Mxl.C16
