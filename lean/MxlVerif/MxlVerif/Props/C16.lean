/-
C16 — the linear label model tracks the isotopomer model's positional enrichment.
Theorems are about `MxlVerif/Model/C16.lean` (linear mapper) and `MxlVerif/Model/C05.lean`
(isotopomer mapper), the `def`s the driver runs.  Only property theorems and non-vacuity
examples live here.
-/
import MxlVerif.Lemmas.C16Int
import MxlVerif.Lemmas.C05Raw
import MxlVerif.Lemmas.C16Py
import MxlVerif.Lemmas.C16Bridge
import MxlVerif.Generated.C16Facts
namespace Mxl.C16
open Mxl.C05

/-- **both mappers read a map in the same direction, the one documented**: `build_model`'s
    `_map_labelmap_to_substrates` feeds product position `i` from (padded) substrate position
    `labelmap[i]` — `documentedSources`, the reading of `LabelMapper` (`C05_position_map`) — and
    accepts exactly the maps of the padded length whose indices are positions.  (Unconditional after
    repo commit "fix: LinearLabelMapper.build_model reads a label map like LabelMapper ...";
    before it this held for involutive maps only, finding F-C16-1.) -/
theorem C16_same_direction (subs : List Slot) (lm : List Nat) (res : List Slot) :
    mapLabelmapToSubstrates subs lm = .ok res ↔
      lm.length = subs.length ∧ (∀ p ∈ lm, p < subs.length) ∧ res = documentedSources subs lm :=
  mapLabelmapToSubstrates_iff subs lm res

/-- non-vacuity, on the former witness of F-C16-1: the 3-cycle `[2, 0, 1]` feeds product positions
    0,1,2 from substrate positions 2,0,1; the helper `_map_substrates_to_labelmap`, which a unit test
    pins and `build_model` no longer calls, gives 1,2,0 -/
example :
    mapLabelmapToSubstrates [.pos "A" 0, .pos "A" 1, .pos "A" 2] [2, 0, 1]
        = .ok [.pos "A" 2, .pos "A" 0, .pos "A" 1] ∧
      mapSubstratesToLabelmap [.pos "A" 0, .pos "A" 1, .pos "A" 2] [2, 0, 1]
        = .ok [.pos "A" 1, .pos "A" 2, .pos "A" 0] := ⟨rfl, rfl⟩

/-- what the pinned helper `_map_substrates_to_labelmap` does with any permutation map: substrate
    position `j` goes to product position `labelmap[j]` (the inverse reading); it agrees with the
    documented reading exactly when the map is its own inverse -/
theorem C16_linear_reading (subs : List Slot) (lm : List Nat) (h : PermMap subs.length lm) :
    ∃ res, mapSubstratesToLabelmap subs lm = .ok res ∧ res.Perm subs ∧
      (∀ j, j < subs.length → res[lm.getD j 0]? = subs[j]?) ∧
      (InvolutiveMap subs.length lm → res = documentedSources subs lm) := by
  obtain ⟨res, hok, _, hj⟩ := mapSubstratesToLabelmap_perm subs lm h
  refine ⟨res, hok, mapSubstratesToLabelmap_perm_count subs lm h hok, hj, ?_⟩
  intro hinv
  have := mapSubstratesToLabelmap_involutive subs lm hinv
  rw [hok] at this
  cases this; rfl

/-- the per-position reactions of one base reaction (all of whose compounds carry labels): the
    padded positions are paired with the sources chosen by `_map_labelmap_to_substrates`; a map
    of the wrong length is rejected with `ValueError` -/
theorem C16_linear_reactions (lv : List (Name × Nat)) (r : BRxn) (lm : List Nat)
    (baseRxns : List (Name × List (Name × Int))) (hlk : baseRxns.lookup r.name = some r.stoich)
    (hlab : ∀ c ∈ subsOf r ++ prodsOf r, (lv.lookup c).isSome) :
    linRxnsOf (isosOf lv) baseRxns r.name lm =
      if lm.length < max (nSub lv r) (nProd lv r) then .error .valueError
      else (mapLabelmapToSubstrates (paddedSubs lv r) lm).map
        (fun res => slotRxns r.name 0 res (paddedProds lv r)) :=
  linRxnsOf_eq lv r lm baseRxns hlk hlab

/-- **label flux per position** (mass-action rate — a compound may take part more than once —,
    non-zero substrate pools): in the isotopomer model the rates of the reactions whose substrate
    pattern is labelled at padded substrate position `l` add up to (enrichment of that position) ×
    (base flux at the totals) — the rate `_relative_label_flux(enrichment, flux)` the linear model
    gives a per-position reaction reading position `l` -/
theorem C16_position_flux {lv : List (Name × Nat)} {r : BRxn} {lm : List Nat}
    {rs : List LRxn} (hok : isotopomerReactions lv r lm = .ok rs)
    (hm : MassAction lv r) (σ : LName → Rat)
    (hC : ∀ c ∈ subsOf r, labelsOf lv c > 0 → totalOf σ c (labelsOf lv c) ≠ 0)
    (l : Nat) (hl : l < max (nSub lv r) (nProd lv r)) :
    (rs.map fun rx => ind ((suffixOf rx).getD l false) * rx.rate σ).sum
      = LinRxn.rate (enrichOf lv σ) (fun _ => r.rate (totalsEnv lv σ))
          ⟨r.name, 0, (paddedSubs lv r).getD l Slot.ext, Slot.ext⟩ :=
  position_flux_full hok hm σ hC l hl

/-- **marginal** (mass-action rate, non-zero substrate pools, the map a permutation of the padded
    positions — the maps for which a per-position model exists at all): with enrichments, pool sizes
    and flux taken from an isotopomer state, the derivative the linear model's per-position
    reactions of one base reaction give to position `(x, i)` is the derivative its isotopomer
    reactions give to the amount of `x` labelled at `i`, divided by the pool of `x`.  (Both models'
    right-hand sides are sums of such contributions over the base reactions.)  Unconditional in the
    map's direction and in repeated compounds after the two repo fixes; before them the statement
    needed `InvolutiveMap` (F-C16-1) and `DistinctOccurrences` (F-C05-1). -/
theorem C16_marginal (lv : List (Name × Nat)) (r : BRxn) (lm : List Nat)
    (baseRxns : List (Name × List (Name × Int))) (rs : List LRxn) (lrs : List LinRxn)
    (hlk : baseRxns.lookup r.name = some r.stoich)
    (hlab : ∀ c ∈ subsOf r ++ prodsOf r, (lv.lookup c).isSome)
    (hiso : isotopomerReactions lv r lm = .ok rs)
    (hlin : linRxnsOf (isosOf lv) baseRxns r.name lm = .ok lrs)
    (hm : MassAction lv r)
    (hpm : PermMap (max (nSub lv r) (nProd lv r)) lm) (σ : LName → Rat)
    (hC : ∀ c ∈ subsOf r, labelsOf lv c > 0 → totalOf σ c (labelsOf lv c) ≠ 0)
    (C : Name → Rat) (x : Name) (i : Nat) (_hCx : C x ≠ 0) :
    linRhs lrs (enrichOf lv σ) (fun _ => r.rate (totalsEnv lv σ)) C (Slot.pos x i)
      = (1 / C x) * ((labelledAt x (labelsOf lv x) i).map (rhsOf rs σ)).sum := by
  rw [linRxnsOf_eq lv r lm baseRxns hlk hlab, if_neg (by rw [hpm.length]; omega)] at hlin
  have hpm' : PermMap (paddedSubs lv r).length lm := by rw [paddedSubs_length]; exact hpm
  rw [mapLabelmapToSubstrates_perm _ lm hpm'] at hlin
  simp only [Except.map, Except.ok.injEq] at hlin
  subst hlin
  exact marginal_full hiso hm hpm σ hC C x i

/-- **without `PermMap` the identity is false of the code (finding F-C16-3).**  Both mappers accept any map of the
    padded length with indices in range (`C16_same_direction`, `C05_builds_iff`), permutation or not.  A → B, two
    positions each, rate `k·A`, map `[0, 0]`, A⁰¹ = A⁰⁰ = 1, B⁰⁰ = 2, pools 2: position `(A, 1)` is never drained in
    the linear model (derivative 0; position 0 is paired twice) while the isotopomer model drains it (−1/2) -/
theorem C16_marginal_fails_without_perm :
    ∃ (lv : List (Name × Nat)) (r : BRxn) (lm : List Nat) (rs : List LRxn) (lrs : List LinRxn)
      (σ : LName → Rat) (C : Name → Rat),
      isotopomerReactions lv r lm = .ok rs ∧
      linRxnsOf (isosOf lv) [(r.name, r.stoich)] r.name lm = .ok lrs ∧
      ¬ PermMap (max (nSub lv r) (nProd lv r)) lm ∧ C "A" ≠ 0 ∧
      linRhs lrs (enrichOf lv σ) (fun _ => r.rate (totalsEnv lv σ)) C (Slot.pos "A" 1) = 0 ∧
      (1 / C "A") * ((labelledAt "A" (labelsOf lv "A") 1).map (rhsOf rs σ)).sum = -1/2 := by
  refine ⟨[("A", 2), ("B", 2)],
    { name := "v", fn := listProd, args := ["k", "A"], stoich := [("A", -1), ("B", 1)] },
    [0, 0], _, _,
    (fun n => if n = ⟨"A", some [false, true]⟩ then 1
      else if n = ⟨"A", some [false, false]⟩ then 1
      else if n = ⟨"B", some [false, false]⟩ then 2
      else if n = plain "k" then 1 else 0),
    (fun _ => 2), rfl, rfl, by decide, by decide, ?_, ?_⟩
  · decide +kernel
  · decide +kernel

/-- the statement on the former witness of F-C16-1 (kernel-checked): A → B, three positions each,
    rate `k·A`, the 3-cycle `[2, 0, 1]`, half of the A pool labelled at position 0 only; position 2
    of B is fed by position 1 of A in both models -/
example :
    ∃ (lv : List (Name × Nat)) (r : BRxn) (lm : List Nat) (rs : List LRxn) (lrs : List LinRxn)
      (σ : LName → Rat) (C : Name → Rat),
      isotopomerReactions lv r lm = .ok rs ∧
      linRxnsOf (isosOf lv) [(r.name, r.stoich)] r.name lm = .ok lrs ∧
      PermMap (max (nSub lv r) (nProd lv r)) lm ∧ ¬ InvolutiveMap (max (nSub lv r) (nProd lv r)) lm ∧
      ∀ i ∈ [0, 1, 2], linRhs lrs (enrichOf lv σ) (fun _ => r.rate (totalsEnv lv σ)) C (Slot.pos "B" i)
        = (1 / C "B") * ((labelledAt "B" (labelsOf lv "B") i).map (rhsOf rs σ)).sum := by
  refine ⟨[("A", 3), ("B", 3)],
    { name := "v", fn := listProd, args := ["k", "A"], stoich := [("A", -1), ("B", 1)] },
    [2, 0, 1], _, _,
    (fun n => if n = ⟨"A", some [true, false, false]⟩ then 1
      else if n = ⟨"A", some [false, false, false]⟩ then 1
      else if n = ⟨"B", some [false, false, false]⟩ then 2
      else if n = plain "k" then 1 else 0),
    (fun _ => 2), rfl, rfl, by decide, by decide, ?_⟩
  decide +kernel

/-- non-vacuity of `C16_marginal`'s structural hypotheses with a compound that takes part twice:
    2 A → B with rate `k·A·A` and the non-involutive 3-cycle -/
example : PermMap 3 [1, 2, 0] ∧ ¬ InvolutiveMap 3 [1, 2, 0] := by decide

/-- the set of isotopomers `C16_marginal` sums over — those of `x` labelled at position `i` — is
    what the public query `LabelMapper.get_isotopomers_of_at_position(x, i)` returns -/
theorem C16_marginal_set_is_query (lv : List (Name × Nat)) (x : Name) (n i : Nat)
    (h : lv.lookup x = some n) (hi : i < n) :
    isotopomersAtPosition lv x [i] = .ok (labelledAt x n i) := by
  have hn : n ≠ 0 := by omega
  have hd : decide (n ≤ i) = false := by simp; omega
  simp [isotopomersAtPosition, labelCount, h, bind, Except.bind, pure, Except.pure, hd, hn, labelledAt]

/-- **uniform enrichment** (any permutation map): if every position and the
    external pool have enrichment `e`, one base reaction contributes
    (net stoichiometry of the compound) · e · flux / pool to each of the compound's positions … -/
theorem C16_uniform_contribution (lv : List (Name × Nat)) (r : BRxn) (lm : List Nat)
    (baseRxns : List (Name × List (Name × Int))) (lrs : List LinRxn)
    (hlk : baseRxns.lookup r.name = some r.stoich)
    (hlab : ∀ c ∈ subsOf r ++ prodsOf r, (lv.lookup c).isSome)
    (hperm : PermMap (max (nSub lv r) (nProd lv r)) lm)
    (hlin : linRxnsOf (isosOf lv) baseRxns r.name lm = .ok lrs)
    (e : Rat) (v C : Name → Rat) (x : Name) (i : Nat) (hi : i < labelsOf lv x) :
    linRhs lrs (fun _ => e) v C (Slot.pos x i)
      = (netStoich r.stoich x : Rat) * (1 / C x) * (e * v r.name) := by
  rw [linRxnsOf_eq lv r lm baseRxns hlk hlab, if_neg (by rw [hperm.length]; omega)] at hlin
  have hperm' : PermMap (paddedSubs lv r).length lm := by rw [paddedSubs_length]; exact hperm
  rw [mapLabelmapToSubstrates_perm _ lm hperm'] at hlin
  simp only [Except.map, Except.ok.injEq] at hlin
  subst hlin
  rw [linRhs_slotRxns, sum_pairTerm_const e (v r.name) C (Slot.pos x i) (by simp)
    (documentedSources (paddedSubs lv r) lm)
    (paddedProds lv r) (by simp [documentedSources, hperm.length, paddedProds_length])]
  have hc := (documentedSources_perm _ lm hperm').count_eq (Slot.pos x i)
  rw [hc]
  simp only [paddedSubs, paddedProds, count_append_ext, count_slotsFlat, hi, if_true, Slot.base]
  have := unpack_net r.stoich x
  simp only [subsOf, prodsOf] at this ⊢
  rw [this]

/-- … so at a steady state of the base model (net production of every compound zero at the given
    fluxes) uniform enrichment equal to the external pool is stationary in the linear model:
    the contributions of the base reactions cancel -/
theorem C16_uniform_stationary (lv : List (Name × Nat))
    (baseRxns : List (Name × List (Name × Int))) (rl : List (BRxn × List Nat × List LinRxn))
    (hall : ∀ t ∈ rl, baseRxns.lookup t.1.name = some t.1.stoich ∧
      (∀ c ∈ subsOf t.1 ++ prodsOf t.1, (lv.lookup c).isSome) ∧
      PermMap (max (nSub lv t.1) (nProd lv t.1)) t.2.1 ∧
      linRxnsOf (isosOf lv) baseRxns t.1.name t.2.1 = .ok t.2.2)
    (e : Rat) (v C : Name → Rat) (x : Name) (i : Nat) (hi : i < labelsOf lv x)
    (hsteady : (rl.map fun t => (netStoich t.1.stoich x : Rat) * v t.1.name).sum = 0) :
    linRhs (rl.map (·.2.2)).flatten (fun _ => e) v C (Slot.pos x i) = 0 := by
  have hadd : ∀ (gs : List (List LinRxn)),
      linRhs gs.flatten (fun _ => e) v C (Slot.pos x i)
        = (gs.map fun g => linRhs g (fun _ => e) v C (Slot.pos x i)).sum := by
    intro gs
    induction gs with
    | nil => simp [linRhs]
    | cons g gs ih =>
      simp only [List.flatten_cons, List.map_cons, List.sum_cons, ← ih]
      simp [linRhs, List.map_append, List.sum_append]
  rw [hadd, List.map_map]
  have : ∀ t ∈ rl, ((fun g => linRhs g (fun _ => e) v C (Slot.pos x i)) ∘ (·.2.2)) t
      = ((netStoich t.1.stoich x : Rat) * v t.1.name) * ((1 / C x) * e) := by
    intro t ht
    obtain ⟨h0, h1, h2, h3⟩ := hall t ht
    simp only [Function.comp]
    rw [C16_uniform_contribution lv t.1 t.2.1 baseRxns t.2.2 h0 h1 h2 h3 e v C x i hi]
    grind
  rw [List.map_congr_left this, sum_map_mul_right, hsteady]
  grind

/-- with no external label and no label in the system none appears: every derivative of the linear
    model is zero when all enrichments (external pool included) are zero -/
theorem C16_no_label_stays_none (lrs : List LinRxn) (v C : Name → Rat) (x : Slot) :
    linRhs lrs (fun _ => 0) v C x = 0 := by
  induction lrs with
  | nil => simp [linRhs]
  | cons rx lrs ih =>
    simp only [linRhs, List.map_cons, List.sum_cons] at ih ⊢
    rw [ih]
    simp only [LinRxn.rate]
    grind

/-- **whole model**: the base model's reactions are a dict (names pairwise distinct), `label_maps`
    is a dict, every base reaction has a map that is a permutation of its padded positions and a
    mass-action rate law, both mappers built their model from the same label counts and maps (so
    every compound carries labels — the linear mapper raises `KeyError` otherwise), pools non-zero.
    With enrichments and pools taken from an isotopomer state `σ` and the fluxes those of the base
    model at the totals (`fluxAtTotals`), the derivative `LinearLabelMapper.build_model`'s model
    gives label position `(x, i)` equals the derivative `LabelMapper.build_model`'s model gives the
    amount of `x` labelled at `i`, divided by the pool — for every state, every position, whatever
    the order of `label_maps` (at a base steady state this is d/dt of the positional enrichment) -/
theorem C16_model_marginal {b : Base} {lv : List (Name × Nat)} {maps : List (Name × List Nat)}
    {il il' : List (Name × List Nat)} {m : LModel} {lmod : LinModel}
    (hiso : buildModel b lv maps il = .ok m)
    (hlin : linearBuild (b.rxns.map fun r => (r.name, r.stoich)) lv maps il' = .ok lmod)
    (hnd : (b.rxns.map (·.name)).Nodup) (hkd : (maps.map (·.1)).Nodup)
    (hall : ∀ r ∈ b.rxns, LinOk lv maps r)
    (σ : LName → Rat) (hC : ∀ c, labelsOf lv c > 0 → totalOf σ c (labelsOf lv c) ≠ 0)
    (C : Name → Rat) (x : Name) (i : Nat) (_hCx : C x ≠ 0) :
    linRhs lmod.rxns (enrichOf lv σ) (fluxAtTotals b lv σ) C (Slot.pos x i)
      = (1 / C x) * ((labelledAt x (labelsOf lv x) i).map (rhsOf m.rxns σ)).sum :=
  model_marginal hiso hlin hnd hkd hall σ hC C x i

/-- non-vacuity of `C16_model_marginal`: a two-reaction chain with the non-involutive 3-cycle, both
    mappers build, every base reaction satisfies `LinOk` -/
example :
    ∃ (b : Base) (lv : List (Name × Nat)) (maps : List (Name × List Nat)) (m : LModel) (lmod : LinModel),
      buildModel b lv maps [] = .ok m ∧
      linearBuild (b.rxns.map fun r => (r.name, r.stoich)) lv maps [] = .ok lmod ∧
      lmod.rxns.length = 6 ∧ m.rxns.length = 9 ∧
      (maps.map (·.1)).Nodup ∧ (b.rxns.map (·.name)).Nodup ∧
      ∀ r ∈ b.rxns, ∃ l, maps.lookup r.name = some l ∧ PermMap (max (nSub lv r) (nProd lv r)) l := by
  refine ⟨{ pars := [("k", 1)], vars := [("A", 1), ("B", 1)], derived := [],
            rxns := [{ name := "v1", fn := listProd, args := ["k", "A"], stoich := [("A", -1), ("B", 1)] },
                     { name := "v0", fn := listProd, args := ["k"], stoich := [("A", 1)] }] },
    [("A", 3), ("B", 3)], [("v0", [0, 1, 2]), ("v1", [2, 0, 1])], _, _, rfl, rfl,
    by decide, by decide, by decide, by decide, ?_⟩
  intro r hr
  simp only [List.mem_cons, List.not_mem_nil, or_false] at hr
  rcases hr with rfl | rfl
  · exact ⟨[2, 0, 1], rfl, by decide⟩
  · exact ⟨[0, 1, 2], rfl, by decide⟩

/-- **uniform enrichment is stationary, whole model**: for the model `build_model` returns (base
    reactions a dict, every `label_maps` entry a permutation of its reaction's padded positions), if
    every position and the external pool have enrichment `e` — any `e`, i.e. any `external_label` —
    and the fluxes balance every compound over the mapped reactions (a steady state of the base
    model), every derivative of the linear model is zero -/
theorem C16_model_uniform_stationary {b : Base} {lv : List (Name × Nat)}
    {maps : List (Name × List Nat)} {il : List (Name × List Nat)} {lmod : LinModel}
    (hlin : linearBuild (b.rxns.map fun r => (r.name, r.stoich)) lv maps il = .ok lmod)
    (hnd : (b.rxns.map (·.name)).Nodup)
    (hperm : ∀ km ∈ maps, ∀ r ∈ b.rxns, r.name = km.1 → PermMap (max (nSub lv r) (nProd lv r)) km.2)
    (e : Rat) (v C : Name → Rat) (x : Name) (i : Nat) (hi : i < labelsOf lv x)
    (hsteady : (maps.map fun km => (netOf b km.1 x : Rat) * v km.1).sum = 0) :
    linRhs lmod.rxns (fun _ => e) v C (Slot.pos x i) = 0 := by
  obtain ⟨_, groups, hg, hr, _⟩ := linearBuild_ok hlin
  have hfa := mapM_ok_forall₂ _ _ _ hg
  rw [hr, linRhs_flatten]
  have : (groups.map fun g => linRhs g (fun _ => e) v C (Slot.pos x i)).sum
      = (maps.map fun km => ((netOf b km.1 x : Rat) * v km.1) * ((1 / C x) * e)).sum := by
    refine forall₂_map_sum _ _ hfa ?_
    intro km lrs hkm hlrs
    obtain ⟨st, hst⟩ := linRxnsOf_known hlrs
    obtain ⟨r, hrm, hrn⟩ := lookup_baseRxns_some hst
    have hpm := hperm km hkm r hrm hrn
    rw [← hrn] at hlrs ⊢
    have hlk := lookup_baseRxns hnd hrm
    rw [C16_uniform_contribution lv r km.2 _ lrs hlk (linRxnsOf_labelled hlk hlrs) hpm hlrs e v C x i hi]
    simp only [netOf, find_of_mem_nodup hnd hrm]
    grind
  rw [this, sum_map_mul_right, hsteady]
  grind

/-- **no external and no initial label ⇒ none appears, whole model**: built without
    `initial_labels`, every label position starts at enrichment 0 (and the variables are exactly the
    positions of the listed compounds); with `external_label = 0` every derivative at an all-zero
    state is zero, whatever the fluxes and pools — so the all-zero state is kept -/
theorem C16_model_no_label {baseRxns : List (Name × List (Name × Int))} {lv : List (Name × Nat)}
    {maps : List (Name × List Nat)} {lmod : LinModel}
    (hlin : linearBuild baseRxns lv maps [] = .ok lmod) :
    lmod.vars.map (·.1) = lv.flatMap (fun kn => (List.range kn.2).map (Slot.pos kn.1)) ∧
    (∀ kv ∈ lmod.vars, kv.2 = 0) ∧
    ∀ (v C : Name → Rat) (x : Slot), linRhs lmod.rxns (fun _ => 0) v C x = 0 := by
  obtain ⟨_, _, _, _, hv⟩ := linearBuild_ok hlin
  refine ⟨?_, ?_, fun v C x => C16_no_label_stays_none _ v C x⟩
  · rw [hv]
    simp [linInitVars, isosOf, List.map_map, Function.comp_def, List.flatMap_map]
  · rw [hv]
    intro kv hkv
    simp only [linInitVars, List.foldl_nil, List.mem_map] at hkv
    obtain ⟨_, _, rfl⟩ := hkv
    rfl

/-- the error classes of the linear mapper's `build_model`, stage by stage: a listed compound with 0
    positions is a `ValueError` (before anything else); a `label_maps` key that is no reaction of
    the base model is a `KeyError` -/
theorem C16_build_errors (baseRxns : List (Name × List (Name × Int))) (lv : List (Name × Nat))
    (maps : List (Name × List Nat)) (il : List (Name × List Nat)) :
    ((∃ kn ∈ lv, kn.2 = 0) → linearBuild baseRxns lv maps il = .error .valueError) ∧
    (∀ isos rxn lm, baseRxns.lookup rxn = none →
      linRxnsOf isos baseRxns rxn lm = .error (.keyError rxn)) :=
  ⟨linearBuild_zero_labels, fun isos rxn lm h => linRxnsOf_unknown isos baseRxns rxn lm h⟩

/-- **integer maps** (what the driver runs): `_map_labelmap_to_substrates` reads `substrates[pos]`
    with Python's index rule (`C05_index_rule`); with every index in `-len ≤ i < len` it is the
    front-counted map's reading (so `C16_same_direction` applies), an index outside that range in a
    map of the right length is an `IndexError`; a `label_maps` entry with an integer map gives the
    per-position reactions of its front-counted form, counted over the padded length — which, for a
    reaction whose compounds carry labels, is the length of `LabelMapper`'s rate suffix: both mappers
    resolve a negative index to the same position.  A map without negative indices is read unchanged. -/
theorem C16_integer_maps (lv : List (Name × Nat)) (baseRxns : List (Name × List (Name × Int))) :
    (∀ (subs : List Slot) (lm : List Int) (lm' : List Nat), normMap subs.length lm = .ok lm' →
      mapLabelmapToSubstratesI subs lm = mapLabelmapToSubstrates subs lm') ∧
    (∀ (subs : List Slot) (lm : List Int), lm.length = subs.length →
      (∃ e, normMap subs.length lm = .error e) →
      mapLabelmapToSubstratesI subs lm = .error .indexError) ∧
    (∀ isos rxn (lm : List Int) (lm' : List Nat), normMap (padLen isos baseRxns rxn) lm = .ok lm' →
      linRxnsOfI isos baseRxns rxn lm = linRxnsOf isos baseRxns rxn lm') ∧
    (∀ r : BRxn, baseRxns.lookup r.name = some r.stoich →
      (∀ c ∈ subsOf r ++ prodsOf r, (lv.lookup c).isSome) →
      padLen (isosOf lv) baseRxns r.name = max (nSub lv r) (nProd lv r)) ∧
    (∀ (maps : List (Name × List Nat)) il,
      linearBuildI baseRxns lv (maps.map fun km => (km.1, km.2.map Int.ofNat)) il
        = linearBuild baseRxns lv maps il) :=
  ⟨fun subs lm lm' h => pickSlotsI_eq subs subs lm lm' h,
   fun subs lm hl h => pickSlotsI_index_error subs subs lm hl.symm h,
   fun isos rxn lm lm' h => linRxnsOfI_eq isos baseRxns rxn lm lm' h,
   fun r hlk hlab => padLen_eq lv r baseRxns hlk hlab,
   fun maps il => linearBuildI_nat baseRxns lv maps il⟩

/-- non-vacuity: `[-1, 0, 1]` on three positions is the rotation `[2, 0, 1]`; `[-4, 0, 1]` raises -/
example :
    mapLabelmapToSubstratesI [.pos "A" 0, .pos "A" 1, .pos "A" 2] [-1, 0, 1]
        = .ok [.pos "A" 2, .pos "A" 0, .pos "A" 1] ∧
    mapLabelmapToSubstratesI [.pos "A" 0, .pos "A" 1, .pos "A" 2] [-4, 0, 1]
        = .error .indexError := ⟨rfl, rfl⟩

/-- **coefficients as the base model stores them** (`int | float | Derived`; what the driver runs,
    `linearBuildP`).  After repo commit "fix: LinearLabelMapper refuses a fractional stoichiometric
    coefficient ..." the linear mapper's `_unpack_stoichiometries` reads every whole number the same
    way, whether written `-1` or `-1.0` — exactly like `LabelMapper`'s (`C05_raw_coefficients`), so
    both mappers see the same integer stoichiometry —; the only rejections are a `Derived`
    (`NotImplementedError`) and a fractional float (`ValueError`: before the repair `int()` silently
    truncated 5/2 to 2 and 1/2 to 0), whichever comes first; with no raw coefficients listed the entry
    point is `linearBuildI` -/
theorem C16_raw_coefficients :
    (∀ l : List ((Name × Int) × Bool),
      unpackLinRaw (l.map fun x => asRaw x.1 x.2) = .ok (unpackLin (l.map (·.1))) ∧
      intCoefs (l.map fun x => asRaw x.1 x.2) = .ok (l.map (·.1))) ∧
    (∀ (st : List (Name × Coef)) e, unpackLinRaw st = .error e →
      e = .notImplementedError ∨ e = .valueError) ∧
    (∀ (pre : List ((Name × Int) × Bool)) k post,
      unpackLinRaw ((pre.map fun x => asRaw x.1 x.2) ++ (k, Coef.derived) :: post)
        = .error .notImplementedError) ∧
    (∀ (pre : List ((Name × Int) × Bool)) k q post, ((pyTrunc q : Int) : Rat) ≠ q →
      unpackLinRaw ((pre.map fun x => asRaw x.1 x.2) ++ (k, Coef.float q) :: post) = .error .valueError) ∧
    (∀ baseRxns lv maps il, linearBuildP baseRxns lv maps [] il = linearBuildI baseRxns lv maps il) :=
  ⟨fun l => ⟨unpackLinRaw_integral l, intCoefs_integral l⟩, fun st e h => unpackLinRaw_error h,
   fun pre k post => (unpackLinRaw_first_bad pre k .derived post).1 rfl,
   fun pre k q post hq => (unpackLinRaw_first_bad pre k (.float q) post).2 q rfl hq,
   linearBuildP_nil⟩

/-- **initial labels are placed where requested** (for `build_model`'s result; `initial_labels` a
    dict, i.e. each compound once): every requested position `(k, p)` starts at enrichment
    `1/len(positions of k)` — so the requested positions of a compound share one unit of label —,
    every slot no entry names keeps its start value: 0 for a position of a listed compound, and it is
    no variable otherwise (a requested position outside the listed positions becomes a variable of
    its own: the code does not look) -/
theorem C16_initial_labels {baseRxns : List (Name × List (Name × Int))} {lv : List (Name × Nat)}
    {maps : List (Name × List Nat)} {il : List (Name × List Nat)} {lmod : LinModel}
    (hlin : linearBuild baseRxns lv maps il = .ok lmod) (hnd : (il.map (·.1)).Nodup) :
    (∀ k ps p, (k, ps) ∈ il → p ∈ ps → lmod.vars.lookup (Slot.pos k p) = some (1 / (ps.length : Rat))) ∧
    (∀ s, (∀ kp ∈ il, s ∉ kp.2.map (Slot.pos kp.1)) →
      lmod.vars.lookup s = if s ∈ (isosOf lv).flatMap (·.2) then some 0 else none) := by
  obtain ⟨_, _, _, _, hv⟩ := linearBuild_ok hlin
  rw [hv]
  exact ⟨fun k ps p hk hp => linInitVars_requested lv il hnd k ps hk p hp,
    fun s h => linInitVars_unrequested lv il s h⟩

/-- **evaluation at a zero pool** (`linRhsChecked`, what the driver evaluates): the coefficients
    `∓1/pool` are computed for every per-position reaction, so the right-hand side exists exactly
    when no pool of a compound with a per-position reaction is zero (Python: `ZeroDivisionError`
    otherwise, no guard), and then it is `linRhs` — the theorems above are about that case -/
theorem C16_zero_pool (rxs : List LinRxn) (E : Slot → Rat) (v C : Name → Rat) :
    (linRhsChecked rxs E v C = none ↔ ∃ c ∈ poolsOf rxs, C c = 0) ∧
    (∀ f, linRhsChecked rxs E v C = some f → f = linRhs rxs E v C ∧ ∀ c ∈ poolsOf rxs, C c ≠ 0) :=
  ⟨linRhsChecked_none_iff rxs E v C, fun f h => linRhsChecked_some rxs E v C f h⟩

/-- **what the driver runs is the model the theorems are about**: `label_maps` entries with integer
    indices inside their reaction's padded positions (`nmaps` = the same entries counted from the
    front, same order), no raw coefficients ⇒ the driver's entry point `linearBuildP` is
    `linearBuild` — the model of `C16_model_marginal`, `C16_model_uniform_stationary`,
    `C16_initial_labels` -/
theorem C16_model_integer_maps (baseRxns : List (Name × List (Name × Int))) (lv : List (Name × Nat))
    (maps : List (Name × List Int)) (nmaps : List (Name × List Nat)) (il : List (Name × List Nat))
    (h : Fa2 (fun km nkm => nkm.1 = km.1 ∧
      normMap (padLen (isosOf lv) baseRxns km.1) km.2 = .ok nkm.2) maps nmaps) :
    linearBuildP baseRxns lv maps [] il = linearBuild baseRxns lv nmaps il := by
  rw [linearBuildP_nil, linearBuildI_eq_nat baseRxns lv maps nmaps il h]

/-- the facts regenerated from the current `linear_label_map.py` by `translate/c16.py` are the ones
    the model is written for: every mirrored function has its modelled statement shape (no decorator,
    no further dataclass field — the mapper keeps no state between builds); the external pool is the
    parameter `EXT` (`Slot.ext`), position variables are `compound__i` (`Slot.pos`), the default
    external enrichment is 1, and `build_model` reads a map through `_map_labelmap_to_substrates`
    (`mapLabelmapToSubstrates`, the documented direction) -/
theorem C16_source_facts :
    Mxl.C16.Gen.shapeOk = true ∧ Mxl.C16.Gen.ext = "EXT" ∧ Mxl.C16.Gen.sep = "__" ∧
    Mxl.C16.Gen.extDefault = 1 ∧ Mxl.C16.Gen.documentedDirection = true := by decide

end Mxl.C16
