/-
C05 — isotopomer expansion preserves base structure, totals and dynamics.
All theorems are about the executable model `MxlVerif/Model/C05.lean` (the same `def`s the
driver runs).  Only property theorems and non-vacuity examples live here.
-/
import MxlVerif.Lemmas.C05Int
import MxlVerif.Lemmas.C05Raw
import MxlVerif.Lemmas.C05Py
import MxlVerif.Lemmas.C16Bridge
import MxlVerif.Generated.C05Facts
namespace Mxl.C05

/-- exactly one isotopomer reaction per labelling pattern of the substrates: `2 ^ Σ labels`
    reactions, named `rate__<pattern><external 1s>`, pairwise distinct, in pattern order -/
theorem C05_count {lv : List (Name × Nat)} {r : BRxn} {lm : List Nat} {rs : List LRxn}
    (h : isotopomerReactions lv r lm = .ok rs) :
    rs.length = 2 ^ nSub lv r ∧
    rs.map (·.name) = (patterns (nSub lv r)).map (fun w => ⟨r.name, some (w ++ extOf lv r)⟩) ∧
    (rs.map (·.name)).Nodup := by
  obtain ⟨_, hfa⟩ := isotopomerReactions_ok h
  have hnames : rs.map (·.name)
      = (patterns (nSub lv r)).map (fun w => (⟨r.name, some (w ++ extOf lv r)⟩ : LName)) :=
    forall₂_map_eq _ _ hfa (by rintro w rx _ ⟨ps, _, rfl⟩; rfl)
  refine ⟨by rw [forall₂_length hfa, patterns_length], hnames, ?_⟩
  rw [hnames]
  exact nodup_map_inj (by
    intro a b hab
    simp only [LName.mk.injEq, Option.some.injEq, true_and] at hab
    exact List.append_cancel_right hab) (patterns_nodup _)

/-- `_split_label_string` cuts the label into consecutive pieces of the requested lengths -/
theorem C05_split_join (l : Label) (ns : List Nat) :
    (splitLabel l ns).flatten = l.take ns.sum ∧
    (ns.sum ≤ l.length → (splitLabel l ns).map List.length = ns) := by
  induction ns generalizing l with
  | nil => simp [splitLabel]
  | cons n ns ih =>
    obtain ⟨h1, h2⟩ := ih (l.drop n)
    refine ⟨?_, ?_⟩
    · simp only [splitLabel, List.flatten_cons, h1, List.sum_cons, List.take_add]
    · intro hle
      simp only [List.sum_cons] at hle
      simp only [splitLabel, List.map_cons, List.length_take]
      rw [h2 (by simp; omega), Nat.min_eq_left (by omega)]

/-- every generated reaction belongs to one substrate pattern `w`; its rate suffix is `w` followed
    by 1s (positions beyond the substrates enter labelled); product position `i` carries the
    suffix character the map names for `i`; substrates are cut from `w`, products from the mapped
    string, and the stoichiometry is the repacked occurrence count -/
theorem C05_position_map {lv : List (Name × Nat)} {r : BRxn} {lm : List Nat} {rs : List LRxn}
    (h : isotopomerReactions lv r lm = .ok rs) :
    ∀ rx ∈ rs, ∃ w ∈ patterns (nSub lv r), ∃ ps : Label,
      rx.name = ⟨r.name, some (w ++ extOf lv r)⟩ ∧
      (∀ j, nSub lv r ≤ j → j < (w ++ extOf lv r).length → (w ++ extOf lv r)[j]? = some true) ∧
      (w ++ extOf lv r).length = max (nSub lv r) (nProd lv r) ∧
      ps.length = lm.length ∧
      (∀ i, i < lm.length → ps[i]? = (w ++ extOf lv r)[lm.getD i 0]?) ∧
      rx.stoich = repack
        (assignLabels (subsOf r) (splitLabel w (labelsPer lv (subsOf r))))
        (assignLabels (prodsOf r) (splitLabel ps (labelsPer lv (prodsOf r)))) := by
  intro rx hrx
  obtain ⟨w, hw, ps, hps, rfl⟩ := gen_of_mem h rx hrx
  have hlen : w.length = nSub lv r := mem_patterns.mp hw
  obtain ⟨hall, hpseq⟩ := (msp_ok_iff _ _ _).mp hps
  refine ⟨w, hw, ps, rfl, ?_, ?_, ?_, ?_, ?_⟩
  · intro j hj hj2
    rw [List.getElem?_append_right (by omega)]
    simp only [extOf, externalLabels, List.length_append, List.length_replicate] at hj2 ⊢
    rw [List.getElem?_replicate]
    simp; omega
  · simp only [extOf, externalLabels, List.length_append, List.length_replicate, hlen]; omega
  · rw [hpseq]; simp
  · intro i hi
    have hi' : lm.getD i 0 = lm[i] := by simp [List.getD_eq_getElem?_getD, List.getElem?_eq_getElem hi]
    have hlt : lm[i] < (w ++ extOf lv r).length := hall _ (List.getElem_mem hi)
    rw [hpseq, hi']
    simp [List.getElem?_map, List.getElem?_eq_getElem hi, List.getD_eq_getElem?_getD,
      List.getElem?_eq_getElem hlt]
  · simp only [isoRxnOf]
    rw [splitLabel_append w _ _ (by rw [hlen]; exact Nat.le_refl _)]

/-- the coefficient of a name in a repacked stoichiometry: −1 per substrate occurrence, +1 per
    product occurrence (net), each name listed once -/
theorem C05_repack_coef (ns np : List LName) (n : LName) :
    coefOf (repack ns np) n = (np.count n : Int) - (ns.count n : Int) ∧
    ((repack ns np).map (·.1)).Nodup :=
  ⟨repack_coef ns np n, repack_keys_nodup ns np⟩

/-- summed over the isotopomers of a compound, every generated reaction has the compound's base
    coefficient (for a map that covers the product atoms) -/
theorem C05_unit_stoich {lv : List (Name × Nat)} {r : BRxn} {lm : List Nat} {rs : List LRxn}
    (h : isotopomerReactions lv r lm = .ok rs) (hwf : nProd lv r ≤ lm.length) :
    ∀ rx ∈ rs, ∀ x : Name,
      ((binaryLabels x (labelsOf lv x)).map (coefOf rx.stoich)).sum = netStoich r.stoich x := by
  intro rx hrx x
  obtain ⟨w, hw, ps, hps, rfl⟩ := gen_of_mem h rx hrx
  exact unit_stoich_isoRxnOf lv r lm w ps hw hps hwf x

/-- a map shorter than the substrates' label positions is rejected with `ValueError`, and
    nothing else is -/
theorem C05_short_map_rejected (lv : List (Name × Nat)) (r : BRxn) (lm : List Nat) :
    lm.length < nSub lv r ↔ isotopomerReactions lv r lm = .error .valueError := by
  rw [isotopomerReactions_eq]
  constructor
  · intro h; rw [if_pos h]
  · intro h
    split at h
    · assumption
    · exfalso
      obtain ⟨w, _, hw⟩ := mapM_error_exists _ _ _ h
      have := isoReaction_error hw
      cases this

/-- the only other way to fail is an index beyond the rate suffix (`IndexError`); a map with all
    indices inside the suffix and long enough always builds -/
theorem C05_builds_iff (lv : List (Name × Nat)) (r : BRxn) (lm : List Nat) :
    (∃ rs, isotopomerReactions lv r lm = .ok rs) ↔
      nSub lv r ≤ lm.length ∧ ∀ i ∈ lm, i < max (nSub lv r) (nProd lv r) := by
  rw [isotopomerReactions_eq]
  have hsl : ∀ w ∈ patterns (nSub lv r), (w ++ extOf lv r).length = max (nSub lv r) (nProd lv r) := by
    intro w hw
    simp only [extOf, externalLabels, List.length_append, List.length_replicate,
      mem_patterns.mp hw]; omega
  constructor
  · rintro ⟨rs, h⟩
    split at h
    · cases h
    · refine ⟨by omega, ?_⟩
      have hfa := mapM_ok_forall₂ _ _ _ h
      have hne : patterns (nSub lv r) ≠ [] := by
        intro e; have := patterns_length (nSub lv r); rw [e] at this
        have : 0 < 2 ^ nSub lv r := Nat.two_pow_pos _
        simp_all
      cases hp : patterns (nSub lv r) with
      | nil => exact absurd hp hne
      | cons w ws =>
        rw [hp] at hfa
        cases hfa with
        | cons hxy _ =>
          obtain ⟨ps, hps, _⟩ := isoReaction_ok hxy
          have := ((msp_ok_iff _ _ _).mp hps).1
          rw [hsl w (by rw [hp]; exact List.mem_cons_self)] at this
          exact this
  · rintro ⟨h1, h2⟩
    rw [if_neg (by omega)]
    refine ⟨_, mapM_ok_of_forall _ (fun w => isoRxnOf r (subsOf r) (prodsOf r)
      (labelsPer lv (subsOf r)) (labelsPer lv (prodsOf r)) (extOf lv r) w
      (lm.map fun i => (w ++ extOf lv r).getD i false)) _ ?_⟩
    intro w hw
    have hm : mapSubstratesToProducts (w ++ extOf lv r) lm
        = .ok (lm.map fun i => (w ++ extOf lv r).getD i false) :=
      (msp_ok_iff _ _ _).mpr ⟨by rw [hsl w hw]; exact h2, rfl⟩
    unfold isoReaction
    dsimp only
    rw [hm]
    rfl

/-- the initial amount of every base variable is preserved: its block of the labelled initial
    state lists exactly its isotopomers, the amounts add up to the base amount, and all of it sits
    on the isotopomer labelled at exactly the requested positions (unlabelled when none is
    requested) -/
theorem C05_totals_preserved (lv : List (Name × Nat)) (initLabels : List (Name × List Nat))
    (k : Name) (v : Rat) :
    (initBlock lv initLabels k v).map (·.1) = binaryLabels k (labelsOf lv k) ∧
    ((initBlock lv initLabels k v).map (·.2)).sum = v ∧
    ∃ target, (initBlock lv initLabels k v).lookup target = some v ∧
      (∀ p ∈ initBlock lv initLabels k v, p.1 ≠ target → p.2 = 0) ∧
      (∀ n pos, lv.lookup k = some n → initLabels.lookup k = some pos →
        target = assignLabel k (initSuffix n pos) ∧ (initSuffix n pos).length = n ∧
        ∀ idx, idx < n → (initSuffix n pos)[idx]? = some (pos.contains idx)) ∧
      (∀ n, lv.lookup k = some n → initLabels.lookup k = none →
        target = assignLabel k (List.replicate n false)) := by
  obtain ⟨target, hmem, heq, h1, h2⟩ := initBlock_eq lv initLabels k v
  refine ⟨?_, ?_, target, ?_, ?_, ?_, h2⟩
  · rw [heq]; simp [Function.comp_def]
  · rw [heq]; simp only [List.map_map, Function.comp_def]
    exact sum_indicator_rat _ (binaryLabels_nodup _ _) _ hmem v
  · rw [heq]
    have : ∀ (L : List LName), target ∈ L →
        (L.map fun n => (n, if n = target then v else (0 : Rat))).lookup target = some v := by
      intro L hL
      induction L with
      | nil => simp at hL
      | cons a L ih =>
        by_cases e : a = target
        · subst e; simp
        · have hb : (target == a) = false := by simpa using fun h => e h.symm
          have : target ∈ L := by
            rcases List.mem_cons.mp hL with h | h
            · exact absurd h.symm e
            · exact h
          simp only [List.map_cons, List.lookup, hb]
          exact ih this
    exact this _ hmem
  · rw [heq]
    intro p hp hne
    obtain ⟨n, _, rfl⟩ := List.mem_map.mp hp
    simp only at hne ⊢
    rw [if_neg hne]
  · intro n pos hl hi
    refine ⟨h1 n pos hl hi, initSuffix_length n pos, ?_⟩
    intro idx hidx
    simp [initSuffix, List.getElem?_map, List.getElem?_range hidx]

/-- **collapse**: for a mass-action reaction (one factor per substrate occurrence of every labelled
    compound — a compound may take part more than once, 2 A → B with rate k·A·A), the rates of its
    isotopomer reactions sum to the base rate evaluated at the isotopomer totals, at every state.
    (Unconditional after repo commit "fix: isotopomer reactions of a compound that takes part more
    than once ..."; before it the statement needed `DistinctOccurrences`, finding F-C05-1.) -/
theorem C05_collapse {lv : List (Name × Nat)} {r : BRxn} {lm : List Nat} {rs : List LRxn}
    (hok : isotopomerReactions lv r lm = .ok rs)
    (hm : MassAction lv r) (σ : LName → Rat) :
    (rs.map (·.rate σ)).sum = r.rate (totalsEnv lv σ) :=
  collapse_full hok hm σ

/-- hence (map covering the product atoms) the summed derivative contribution to the isotopomers of
    any compound `x` is the base contribution at the totals -/
theorem C05_dynamics {lv : List (Name × Nat)} {r : BRxn} {lm : List Nat} {rs : List LRxn}
    (hok : isotopomerReactions lv r lm = .ok rs) (hwf : nProd lv r ≤ lm.length)
    (hm : MassAction lv r) (σ : LName → Rat) (x : Name) :
    ((binaryLabels x (labelsOf lv x)).map (rhsOf rs σ)).sum
      = (netStoich r.stoich x : Rat) * r.rate (totalsEnv lv σ) :=
  dynamics_full hok hwf hm σ x

/-- **whole model** (every mapped reaction mass action with a map covering the product atoms;
    unmapped reactions do not touch labelled compounds; the environment reads `X__total` as the sum
    of the isotopomers of `X`): for every compound the derivatives of its isotopomers in the model
    `build_model` returns add up to the base model's derivative evaluated at the totals -/
theorem C05_model_dynamics {b : Base} {lv : List (Name × Nat)}
    {maps : List (Name × List Nat)} {il : List (Name × List Nat)} {m : LModel}
    (hb : buildModel b lv maps il = .ok m) (hr : ∀ r ∈ b.rxns, RxnOk lv maps r) (σ : LName → Rat)
    (hσ : ∀ k n, lv.lookup k = some n → σ (plain (k ++ "__total")) = totalOf σ k n) (x : Name) :
    ((binaryLabels x (labelsOf lv x)).map (rhsOf m.rxns σ)).sum
      = baseRhsOf b.rxns (fun a => σ (totalName lv a)) x := by
  obtain ⟨groups, hg, hrx, _, _⟩ := buildModel_rxns hb
  rw [hrx, rhsOf_flatten_sum]
  unfold baseRhsOf
  have hfa := mapM_ok_forall₂ _ _ _ hg
  exact forall₂_map_sum _ _ hfa (fun r grp hmem hgr => group_dynamics hgr (hr r hmem) σ hσ x)

/-- the environment the driver evaluates the labelled model in (`LModel.env`: state variables,
    parameters, totals, derived) satisfies the hypothesis of `C05_model_dynamics_partial`: it reads
    `X__total` as the sum of the isotopomers of `X` -/
theorem C05_env_totals (m : LModel) (st : List (LName × Rat)) (k : Name) (n : Nat)
    (hst : ∀ iso ∈ binaryLabels k n, (st.lookup iso).isSome)
    (hnot : st.lookup (plain (k ++ "__total")) = none)
    (hp : m.pars.lookup (k ++ "__total") = none)
    (ht : m.totals.lookup (plain (k ++ "__total")) = some (binaryLabels k n)) :
    m.env st (plain (k ++ "__total")) = totalOf (m.env st) k n :=
  env_totals m st k n hst hnot hp ht

/-- the rate arguments of a reaction in which a compound takes part twice: 2 A → B with rate
    `k·A·A`, pattern `[a₁, a₂]` — the first mention of A reads the first occurrence's isotopomer,
    the second mention the second's (the former finding F-C05-1: both read the last one) -/
example :
    ∃ rs, isotopomerReactions [("A", 1), ("B", 2)]
        { name := "v", fn := listProd, args := ["k", "A", "A"], stoich := [("A", -2), ("B", 1)] }
        [0, 1] = .ok rs ∧
      rs.map (·.args)
        = [[plain "k", ⟨"A", some [false]⟩, ⟨"A", some [false]⟩],
           [plain "k", ⟨"A", some [false]⟩, ⟨"A", some [true]⟩],
           [plain "k", ⟨"A", some [true]⟩, ⟨"A", some [false]⟩],
           [plain "k", ⟨"A", some [true]⟩, ⟨"A", some [true]⟩]] := ⟨_, rfl, by decide +kernel⟩

/-- non-vacuity of `MassAction` with a repeated labelled compound, and the collapse on the former
    witness of F-C05-1 (A⁰ = 1, A¹ = 3, k = 1): the four isotopomer rates sum to 16 = 1·4·4 -/
example :
    ∃ (lv : List (Name × Nat)) (r : BRxn) (lm : List Nat) (rs : List LRxn) (σ : LName → Rat),
      isotopomerReactions lv r lm = .ok rs ∧ MassAction lv r ∧ ¬ DistinctOccurrences lv r ∧
      (rs.map (·.rate σ)).sum = 16 ∧ r.rate (totalsEnv lv σ) = 16 := by
  refine ⟨[("A", 1), ("B", 2)],
    { name := "v", fn := listProd, args := ["k", "A", "A"], stoich := [("A", -2), ("B", 1)] },
    [0, 1], _,
    (fun n => if n = ⟨"A", some [false]⟩ then 1 else if n = ⟨"A", some [true]⟩ then 3
      else if n = plain "k" then 1 else 0), rfl, ⟨fun _ => rfl, ?_⟩, by decide, ?_, ?_⟩
  · intro a ha
    by_cases e : a = "A"
    · subst e; decide
    · by_cases e2 : a = "B"
      · subst e2; decide
      · exfalso
        have e1 : (a == "A") = false := by simpa using e
        have e3 : (a == "B") = false := by simpa using e2
        simp [labelsOf, List.lookup, e1, e3] at ha
  · decide +kernel
  · decide +kernel

/-- the isotopomers the public query `get_isotopomers` hands out are exactly the names the totals
    `X__total` of the built model sum over -/
theorem C05_query_isotopomers_are_totals {b : Base} {lv : List (Name × Nat)}
    {maps : List (Name × List Nat)} {il : List (Name × List Nat)} {m : LModel}
    (hb : buildModel b lv maps il = .ok m) :
    m.totals = (getIsotopomers lv).map fun kv => (plain (kv.1 ++ "__total"), kv.2) := by
  unfold buildModel at hb
  cases hg : b.rxns.mapM (buildRxn lv maps) with
  | error e => rw [hg] at hb; simp [bind, Except.bind] at hb
  | ok groups =>
    rw [hg] at hb
    simp only [bind, Except.bind, pure, Except.pure, Except.ok.injEq] at hb
    subst hb
    simp [getIsotopomers, List.map_map, Function.comp_def]

/-- `get_isotopomers_of_at_position`: unknown compound → `KeyError`; a position beyond the compound's
    label positions → `IndexError`; otherwise exactly the isotopomers labelled at every requested
    position (none for a compound without positions), in isotopomer order -/
theorem C05_query_at_position (lv : List (Name × Nat)) (x : Name) (ps : List Nat) :
    (lv.lookup x = none → isotopomersAtPosition lv x ps = .error (.keyError x)) ∧
    (∀ n, lv.lookup x = some n →
      ((∃ p ∈ ps, n ≤ p) → isotopomersAtPosition lv x ps = .error .indexError) ∧
      ((∀ p ∈ ps, p < n) → ∃ l, isotopomersAtPosition lv x ps = .ok l ∧
        l.Sublist (binaryLabels x n) ∧
        ∀ m, m ∈ l ↔ ∃ u, n > 0 ∧ u.length = n ∧ m = ⟨x, some u⟩ ∧ ∀ p ∈ ps, u[p]? = some true)) := by
  refine ⟨?_, ?_⟩
  · intro h
    simp [isotopomersAtPosition, labelCount, h, bind, Except.bind]
  · intro n h
    refine ⟨?_, ?_⟩
    · rintro ⟨p, hp, hle⟩
      have : (ps.any fun p => decide (n ≤ p)) = true := List.any_eq_true.mpr ⟨p, hp, by simpa using hle⟩
      simp [isotopomersAtPosition, labelCount, h, bind, Except.bind, this]
    · intro hall
      have hany : (ps.any fun p => decide (n ≤ p)) = false := by
        rw [List.any_eq_false]
        intro p hp; have := hall p hp; simp; omega
      by_cases hn : n = 0
      · subst hn
        have hps : ps = [] := by
          cases ps with
          | nil => rfl
          | cons p ps => exact absurd (hall p List.mem_cons_self) (by omega)
        subst hps
        refine ⟨[], by simp [isotopomersAtPosition, labelCount, h, bind, Except.bind, pure, Except.pure],
          List.nil_sublist _, ?_⟩
        intro m; simp
      · have hpos : n > 0 := Nat.pos_of_ne_zero hn
        refine ⟨((patterns n).filter fun u => ps.all fun p => u.getD p false).map fun u => ⟨x, some u⟩,
          by simp only [isotopomersAtPosition, labelCount, h, bind, Except.bind, hany, hn,
            Bool.false_eq_true, if_false, pure, Except.pure], ?_, ?_⟩
        · simp only [binaryLabels, hpos, if_true]
          exact List.Sublist.map _ List.filter_sublist
        · intro m
          simp only [List.mem_map, List.mem_filter, List.all_eq_true, mem_patterns]
          constructor
          · rintro ⟨u, ⟨hu, hb⟩, rfl⟩
            refine ⟨u, hpos, hu, rfl, ?_⟩
            intro p hp
            have hlt : p < u.length := by rw [hu]; exact hall p hp
            have := hb p hp
            simp only [List.getD_eq_getElem?_getD, List.getElem?_eq_getElem hlt, Option.getD_some] at this
            rw [List.getElem?_eq_getElem hlt, this]
          · rintro ⟨u, _, hu, rfl, hb⟩
            refine ⟨u, ⟨hu, ?_⟩, rfl⟩
            intro p hp
            simp [List.getD_eq_getElem?_getD, hb p hp]

/-- **label patterns**: `it.product(("0","1"), repeat=n)` lists every string of `n` label characters
    exactly once — `2 ^ n` of them — for every `n`; `_generate_binary_labels` therefore names every
    isotopomer of a compound once (and a compound without positions keeps its bare name) -/
theorem C05_patterns_complete (n : Nat) (x : Name) :
    (∀ w : Label, w ∈ patterns n ↔ w.length = n) ∧ (patterns n).Nodup ∧ (patterns n).length = 2 ^ n ∧
    (binaryLabels x n).Nodup ∧
    (n > 0 → ∀ m, m ∈ binaryLabels x n ↔ ∃ w : Label, w.length = n ∧ m = ⟨x, some w⟩) ∧
    binaryLabels x 0 = [plain x] := by
  refine ⟨fun w => mem_patterns, patterns_nodup n, patterns_length n, binaryLabels_nodup x n, ?_, rfl⟩
  intro hn m
  simp only [binaryLabels, hn, if_true, List.mem_map, mem_patterns]
  constructor
  · rintro ⟨w, hw, rfl⟩; exact ⟨w, hw, rfl⟩
  · rintro ⟨w, hw, rfl⟩; exact ⟨w, hw, rfl⟩

/-- `_unpack_stoichiometries` lists a compound once per unit of base stoichiometry: product
    occurrences minus substrate occurrences is the net coefficient (coefficients of any magnitude,
    reversible pairs, a compound listed on both sides) -/
theorem C05_unpack_net (st : List (Name × Int)) (x : Name) :
    (((unpackStoich st).2.count x : Int)) - ((unpackStoich st).1.count x : Int) = netStoich st x :=
  unpack_net st x

/-- **Python's index rule** (`rate_suffix[i]`, `substrates[pos]`): `-len ≤ i < len` reads position
    `i` resp. `len + i`; every other integer raises `IndexError` -/
theorem C05_index_rule (len : Nat) (i : Int) :
    (∀ j, pyIndex len i = .ok j ↔
      (0 ≤ i ∧ i < len ∧ (j : Int) = i) ∨ (i < 0 ∧ -(len : Int) ≤ i ∧ (j : Int) = len + i)) ∧
    (∀ e, pyIndex len i = .error e → e = .indexError) :=
  ⟨pyIndex_iff len i, fun _ h => pyIndex_error h⟩

/-- **integer maps** (what the driver runs): `_create_isotopomer_reactions` with any list of
    integers as the map raises `ValueError` when the map is shorter than the substrates' label
    positions, else `IndexError` when some index lies outside `-N ≤ i < N` (`N` = length of the rate
    suffix), else does exactly what it does with the map counted from the front — so every theorem
    stated for `isotopomerReactions` holds for the integer entry point at the normalised map; a map
    without negative indices is read unchanged -/
theorem C05_integer_maps (lv : List (Name × Nat)) (r : BRxn) (lm : List Int) :
    isotopomerReactionsI lv r lm =
      (if lm.length < nSub lv r then .error .valueError
       else (normMap (max (nSub lv r) (nProd lv r)) lm).bind (isotopomerReactions lv r)) ∧
    (∀ e, normMap (max (nSub lv r) (nProd lv r)) lm = .error e → e = .indexError) ∧
    (∀ lm' : List Nat, lm = lm'.map Int.ofNat →
      isotopomerReactionsI lv r lm = isotopomerReactions lv r lm') := by
  refine ⟨isotopomerReactionsI_eq lv r lm, ?_, ?_⟩
  · intro e h
    obtain ⟨i, _, hi⟩ := mapM_error_exists _ _ _ h
    exact pyIndex_error hi
  · rintro lm' rfl
    exact isotopomerReactionsI_nat lv r lm'

/-- non-vacuity: `[-1, 0]` on A(2) → B(2) is the swap `[1, 0]`; `[-3, 0]` is an `IndexError` -/
example :
    isotopomerReactionsI [("A", 2), ("B", 2)]
        { name := "v", fn := listProd, args := ["A"], stoich := [("A", -1), ("B", 1)] } [-1, 0]
      = isotopomerReactions [("A", 2), ("B", 2)]
        { name := "v", fn := listProd, args := ["A"], stoich := [("A", -1), ("B", 1)] } [1, 0] ∧
    isotopomerReactionsI [("A", 2), ("B", 2)]
        { name := "v", fn := listProd, args := ["A"], stoich := [("A", -1), ("B", 1)] } [-3, 0]
      = .error .indexError := ⟨rfl, rfl⟩

/-- **structure of the built model** (integer maps): the reactions are the base reactions' groups in
    base order — one reaction under its own name, reading totals, for a reaction without a map, the
    isotopomer reactions for a mapped one —; parameters are kept; the variables are the blocks of
    `C05_totals_preserved` in base order; one total `X__total` per listed compound summing exactly
    its isotopomers -/
theorem C05_model_structure {b : Base} {lv : List (Name × Nat)} {maps : List (Name × List Int)}
    {il : List (Name × List Nat)} {m : LModel} (hb : buildModelI b lv maps il = .ok m) :
    ∃ groups, b.rxns.mapM (buildRxnI lv maps) = .ok groups ∧ m.rxns = groups.flatten ∧
      (∀ r ∈ b.rxns, maps.lookup r.name = none → buildRxnI lv maps r = .ok [unmappedRxn lv r]) ∧
      (∀ r ∈ b.rxns, ∀ lm, maps.lookup r.name = some lm →
        buildRxnI lv maps r = isotopomerReactionsI lv r lm) ∧
      m.vars = b.vars.flatMap (fun kv => initBlock lv il kv.1 kv.2) ∧ m.pars = b.pars ∧
      m.totals = lv.map (fun kn => (plain (kn.1 ++ "__total"), binaryLabels kn.1 kn.2)) := by
  obtain ⟨groups, hg, hr, hv, hp, ht⟩ := buildModelI_rxns hb
  refine ⟨groups, hg, hr, ?_, ?_, hv, hp, ht⟩
  · intro r _ hl; simp [buildRxnI, hl, pure, Except.pure]
  · intro r _ lm hl; simp [buildRxnI, hl]

/-- **whole model, integer maps** (`C05_model_dynamics` for what the driver runs): every mapped
    reaction mass action with a map covering the product atoms, unmapped reactions not touching
    labelled compounds, the environment reading `X__total` as the sum of the isotopomers — the
    derivatives of a compound's isotopomers add up to the base derivative at the totals -/
theorem C05_model_dynamics_int {b : Base} {lv : List (Name × Nat)}
    {maps : List (Name × List Int)} {il : List (Name × List Nat)} {m : LModel}
    (hb : buildModelI b lv maps il = .ok m) (hr : ∀ r ∈ b.rxns, RxnOkI lv maps r) (σ : LName → Rat)
    (hσ : ∀ k n, lv.lookup k = some n → σ (plain (k ++ "__total")) = totalOf σ k n) (x : Name) :
    ((binaryLabels x (labelsOf lv x)).map (rhsOf m.rxns σ)).sum
      = baseRhsOf b.rxns (fun a => σ (totalName lv a)) x := by
  obtain ⟨groups, hg, hrx, _⟩ := buildModelI_rxns hb
  rw [hrx, rhsOf_flatten_sum]
  unfold baseRhsOf
  have hfa := mapM_ok_forall₂ _ _ _ hg
  exact forall₂_map_sum _ _ hfa (fun r grp hmem hgr => group_dynamicsI hgr (hr r hmem) σ hσ x)

/-- **coefficients as the base model stores them** (`int | float | Derived`; what the driver runs,
    `buildModelP`).  After repo commit "fix: LabelMapper accepts whole-number float coefficients ..."
    `_unpack_stoichiometries` reads every whole number the same way, whether written `-1` or `-1.0`
    (`intCoefs` on any such spelling returns the integers, and it succeeds on nothing else); the only
    rejections are a `Derived` (`TypeError`) and a fractional float (`ValueError`), whichever comes
    first, before the map is looked at; an unmapped reaction is passed through without being
    unpacked; a mapped reaction whose coefficients are whole numbers gives exactly the isotopomer
    reactions of the integer stoichiometry (so every theorem above applies to it); with no raw
    coefficients listed the entry point is `buildModelI` -/
theorem C05_raw_coefficients (lv : List (Name × Nat)) (maps : List (Name × List Int))
    (raw : List (Name × List (Name × Coef))) (r : BRxn) :
    (∀ l : List ((Name × Int) × Bool), intCoefs (l.map fun x => asRaw x.1 x.2) = .ok (l.map (·.1))) ∧
    (∀ st ist, intCoefs st = .ok ist →
      ∃ fl : List Bool, fl.length = ist.length ∧ st = (ist.zip fl).map fun x => asRaw x.1 x.2) ∧
    (∀ st e, intCoefs st = .error e → e = .typeError ∨ e = .valueError) ∧
    (∀ (pre : List ((Name × Int) × Bool)) k post,
      intCoefs ((pre.map fun x => asRaw x.1 x.2) ++ (k, Coef.derived) :: post) = .error .typeError) ∧
    (∀ (pre : List ((Name × Int) × Bool)) k q post, ((pyTrunc q : Int) : Rat) ≠ q →
      intCoefs ((pre.map fun x => asRaw x.1 x.2) ++ (k, Coef.float q) :: post) = .error .valueError) ∧
    (∀ lm st e, maps.lookup r.name = some lm → raw.lookup r.name = some st → intCoefs st = .error e →
      buildRxnP lv maps raw r = .error e) ∧
    (∀ lm (l : List ((Name × Int) × Bool)), maps.lookup r.name = some lm →
      raw.lookup r.name = some (l.map fun x => asRaw x.1 x.2) →
      buildRxnP lv maps raw r = isotopomerReactionsI lv { r with stoich := l.map (·.1) } lm) ∧
    (maps.lookup r.name = none → buildRxnP lv maps raw r = .ok [unmappedRxn lv r]) ∧
    (∀ b il, buildModelP b lv maps [] il = buildModelI b lv maps il) := by
  refine ⟨intCoefs_integral, fun st ist h => intCoefs_ok h, fun st e h => intCoefs_error h,
    fun pre k post => (intCoefs_first_bad pre k .derived post).1 rfl,
    fun pre k q post hq => (intCoefs_first_bad pre k (.float q) post).2 q rfl hq,
    ?_, ?_, ?_, fun b il => buildModelP_nil b lv maps il⟩
  · intro lm st e hl hr he
    simp only [buildRxnP, hl, hr, he, bind, Except.bind]
  · intro lm l hl hr
    simp only [buildRxnP, hl, hr, intCoefs_integral, bind, Except.bind]
  · intro hl
    simp [buildRxnP, hl, pure, Except.pure]

/-- non-vacuity: `{"A": -1.0, "B": 1}` is read as `{"A": -1, "B": 1}`; `5/2` is refused with
    `ValueError`, a `Derived` with `TypeError` -/
example :
    intCoefs [("A", .float (-1)), ("B", .int 1)] = .ok [("A", -1), ("B", 1)] ∧
    intCoefs [("A", .int (-1)), ("B", .float (5/2))] = .error .valueError ∧
    intCoefs [("A", .derived), ("B", .float (5/2))] = .error .typeError := by
  have h : ((pyTrunc (5/2) : Int) : Rat) ≠ 5/2 := by decide +kernel
  refine ⟨by rfl, ?_, by rfl⟩
  simp [intCoefs, h, bind, Except.bind]

/-- **position queries with integer arguments** (what the driver runs): an unknown compound is a
    `KeyError` first; `get_isotopomers_of_at_position` assigns `label_positions[position]`, so a
    position in `-n ≤ p < n` is read from the front (`C05_index_rule`) and then the query is the
    natural-number one of `C05_query_at_position`, any other position is an `IndexError`;
    `get_isotopomers_of_with_n_labels` raises `ValueError` for a negative count, is the
    natural-number query otherwise and returns no name when more labels are asked for than the
    compound has positions -/
theorem C05_query_integer_arguments (lv : List (Name × Nat)) (x : Name) :
    (lv.lookup x = none → ∀ ps k, isotopomersAtPositionI lv x ps = .error (.keyError x) ∧
      isotopomersWithNLabelsI lv x k = .error (.keyError x)) ∧
    (∀ n, lv.lookup x = some n →
      (∀ ps, isotopomersAtPositionI lv x ps = (normMap n ps).bind (isotopomersAtPosition lv x)) ∧
      (∀ ps e, normMap n ps = .error e → e = .indexError) ∧
      (∀ k : Int, (k < 0 → isotopomersWithNLabelsI lv x k = .error .valueError) ∧
        (0 ≤ k → isotopomersWithNLabelsI lv x k = isotopomersWithNLabels lv x k.toNat) ∧
        ((n : Int) < k → isotopomersWithNLabelsI lv x k = .ok []))) := by
  refine ⟨fun h ps k => ⟨atPositionI_unknown lv x ps h, (withNLabelsI_spec lv x k).1 h⟩, ?_⟩
  intro n h
  refine ⟨fun ps => atPositionI_known lv x ps n h, ?_, fun k => (withNLabelsI_spec lv x k).2 n h⟩
  intro ps e he
  obtain ⟨i, _, hi⟩ := mapM_error_exists _ _ _ he
  exact pyIndex_error hi

/-- non-vacuity: position `-1` of a compound with 3 positions is position 2; `-4` raises -/
example :
    isotopomersAtPositionI [("A", 3)] "A" [-1] = isotopomersAtPosition [("A", 3)] "A" [2] ∧
    isotopomersAtPositionI [("A", 3)] "A" [-4] = .error .indexError := ⟨rfl, rfl⟩

/-- **`initial_labels` is never rejected**: the suffix is built from `idx in label_pos` for
    `idx = 0..n-1`, so negative positions and positions `≥ n` match nothing (they are silently
    ignored, an all-ignored request leaves the amount on the unlabelled isotopomer); the dict is read
    with `.get(k)` per labelled base variable, so entries for unknown or unlabelled compounds are
    never read.  (`buildModelPy` is `buildModelP` on the positions that can match.) -/
theorem C05_initial_labels_read (lv : List (Name × Nat)) (n : Nat) :
    (∀ pos : List Int, initSuffixI n pos = initSuffix n (natPositions pos)) ∧
    (∀ pos : List Nat, initSuffix n pos = initSuffix n (pos.filter (· < n))) ∧
    (∀ (il il' : List (Name × List Nat)) (vars : List (Name × Rat)),
      (∀ kv ∈ vars, (lv.lookup kv.1).isSome → il.lookup kv.1 = il'.lookup kv.1) →
      buildVars lv il vars = buildVars lv il' vars) ∧
    (∀ b maps raw (il : List (Name × List Int)),
      buildModelPy b lv maps raw il = buildModelP b lv maps raw (il.map fun kp => (kp.1, natPositions kp.2))) :=
  ⟨initSuffixI_eq n, initSuffix_filter n, buildVars_congr lv, fun _ _ _ _ => rfl⟩

/-- **a reaction without a label map** is handed to `add_reaction` under its own name with its own
    function, its labelled arguments reading the totals, and its stoichiometry untouched — fractional
    and `Derived` coefficients included, no compound renamed (`unmappedRaw`; with integer coefficients
    this is `unmappedRxn`).  Hence a compound with label positions that such a reaction changes
    (`danglingOf`) is named by the labelled model's stoichiometry but is none of its variables: the
    labelled model builds and then raises `KeyError` when it is evaluated (observation F-C05-4) -/
theorem C05_unmapped_passthrough (lv : List (Name × Nat)) (r : BRxn) :
    (unmappedRaw lv r.name r.args (r.stoich.map fun kv => (kv.1, Coef.int kv.2))).args = (unmappedRxn lv r).args ∧
    (unmappedRaw lv r.name r.args (r.stoich.map fun kv => (kv.1, Coef.int kv.2))).stoich.map (·.1)
      = r.stoich.map (·.1) ∧
    (∀ st c, c ∈ danglingOf lv st ↔ c ∈ st.map (·.1) ∧ labelsOf lv c > 0) ∧
    (∀ il vars c, labelsOf lv c > 0 → plain c ∉ (buildVars lv il vars).map (·.1)) := by
  refine ⟨rfl, ?_, mem_danglingOf lv, fun il vars c hc => plain_not_var lv il vars c hc⟩
  simp [unmappedRaw, List.map_map, Function.comp_def]

/-- **what the driver runs is the model the theorems are about**: for integer maps whose indices lie
    inside their reaction's positions (`nmaps` = the maps counted from the front), no raw
    coefficients and natural-number initial positions, the driver's entry point `buildModelPy` is
    `buildModel` — so `C05_model_dynamics`, `C05_query_isotopomers_are_totals` and C16's model-level
    theorems speak about the model the correspondence compares with the real `build_model` -/
theorem C05_model_integer_maps {b : Base} {lv : List (Name × Nat)} {maps : List (Name × List Int)}
    {nmaps : List (Name × List Nat)} {il : List (Name × List Nat)}
    (h0 : ∀ r ∈ b.rxns, maps.lookup r.name = none → nmaps.lookup r.name = none)
    (hn : ∀ r ∈ b.rxns, ∀ lm, maps.lookup r.name = some lm →
      ∃ lm', normMap (max (nSub lv r) (nProd lv r)) lm = .ok lm' ∧ nmaps.lookup r.name = some lm') :
    buildModelPy b lv maps [] (il.map fun kp => (kp.1, kp.2.map Int.ofNat)) = buildModel b lv nmaps il := by
  have hpos : ∀ l : List Nat, natPositions (l.map Int.ofNat) = l := by
    intro l
    induction l with
    | nil => rfl
    | cons a l ih => simp [natPositions] at ih ⊢; exact ih
  unfold buildModelPy
  rw [buildModelP_nil, ← buildModelI_eq_nat b lv maps nmaps il h0 hn]
  congr 1
  rw [List.map_map]
  conv => rhs; rw [← List.map_id il]
  apply List.map_congr_left
  intro kp _
  simp [hpos]

/-- the facts regenerated from the current `label_map.py` by `translate/c05.py` are the ones the
    model is written for: every mirrored function has its modelled statement shape (no decorator,
    no further dataclass field); names are `base ++ "__" ++ bits`; `it.product` enumerates '0'
    before '1' (`patterns`: `false` before `true`); positions beyond the substrates get '1'
    (`externalLabels`: `true`); requested initial positions are '1'; totals are `X__total`; rate
    arguments are replaced per occurrence (`replaceArgs`) -/
theorem C05_source_facts :
    Gen.shapeOk = true ∧ Gen.sep = "__" ∧ Gen.alphabet = ['0', '1'] ∧ Gen.extChar = '1' ∧
    Gen.oneChar = '1' ∧ Gen.zeroChar = '0' ∧ Gen.totalSuffix = "__total" ∧
    Gen.positionalArgs = true := by decide

end Mxl.C05
