/-
C02 — dependency resolution is order-independent; bad graphs are rejected.
Property theorems only; helper lemmas are in `Lemmas/Sort.lean`, `Lemmas/SortMissing.lean`.
All statements are about `Mxl.sortDeps`, the function the driver executes, which follows
`model.py::_sort_dependencies` after the repair of F-C02-1.
-/
import MxlVerif.Lemmas.Sort
import MxlVerif.Lemmas.SortMissing
import MxlVerif.Lemmas.Unique
import MxlVerif.Lemmas.PermInvariant
import MxlVerif.Lemmas.PermArgs
import MxlVerif.Lemmas.Reject
import MxlVerif.Lemmas.PermRhs
namespace Mxl.C02
open Mxl

/-- Every complete, acyclic graph is sorted — in whatever order its components were declared —
    into a permutation of the component names in which each component is placed only after
    everything it requires.  In particular the iteration cap `len(elements)**2` is never what
    rejects an acyclic graph (termination itself is by construction: `sortLoop` is structurally
    recursive on the remaining budget). -/
theorem C02_acyclic_sorts (av : List Name) (els : List Dep)
    (hnd : (els.map (·.name)).Nodup) (hs : Sortable av els) :
    ∃ o, sortDeps av els = .ok o ∧ o.Perm (els.map (·.name)) ∧ Sched els av o := by
  have hchk : checkSortable av els = .ok () := (checkSortable_ok_iff av els).mpr (sortable_complete hs)
  have hinv := qinv_sortInv hs
  obtain ⟨o, ho⟩ := sortLoop_ok hinv els (Generated.C02.maxIterations els.length) av els none [] els []
    ⟨fun d hd => hd, hnd, fun a ha => ha, fun d hd hnd' => absurd hd hnd'⟩ (by simp) (by simp)
    (by intro x hx; cases hx) (by simpa using tri_le_cap els.length)
  obtain ⟨tail, hot, hsched, hperm⟩ := sortLoop_sound els _ av els none [] o (fun d hd => hd) ho
  refine ⟨o, ?_, ?_, ?_⟩
  · simp [sortDeps, hchk, ho, bind, Except.bind]
  · simpa [hot] using hperm
  · simpa [hot] using hsched

/-- Whatever `sortDeps` returns normally is a valid schedule of all components, hence the
    graph was complete and acyclic. -/
theorem C02_ok_is_schedule (av : List Name) (els : List Dep)
    (hnd : (els.map (·.name)).Nodup) (o : List Name) (h : sortDeps av els = .ok o) :
    o.Perm (els.map (·.name)) ∧ Sched els av o ∧ Sortable av els :=
  sortDeps_ok_sched av els hnd o h

/-- Any dependency cycle — including a component naming itself — and any missing name is
    rejected: no order (hence no numbers) is returned. -/
theorem C02_unsortable_rejected (av : List Name) (els : List Dep)
    (hnd : (els.map (·.name)).Nodup) (h : ¬ Sortable av els) :
    ∃ e, sortDeps av els = .error e ∧ ((∃ m, e = .missing m ∧ m ≠ []) ∨ ∃ u, e = .circular u) := by
  cases hres : sortDeps av els with
  | ok o => exact absurd (C02_ok_is_schedule av els hnd o hres).2.2 h
  | error e => exact ⟨e, rfl, sortDeps_error_kinds av els e hres⟩

/-- A complete graph (every required name exists somewhere) that is not acyclic is rejected
    with the circular-dependency error specifically. -/
theorem C02_cycle_is_circular_error (av : List Name) (els : List Dep)
    (hnd : (els.map (·.name)).Nodup)
    (hcomplete : ∀ d ∈ els, ∀ r ∈ d.required, r ∈ allAvailable av els)
    (h : ¬ Sortable av els) : ∃ u, sortDeps av els = .error (.circular u) := by
  obtain ⟨e, he, hk⟩ := C02_unsortable_rejected av els hnd h
  rcases hk with ⟨m, rfl, _⟩ | ⟨u, rfl⟩
  · exfalso
    have hchk : checkSortable av els = .ok () := (checkSortable_ok_iff av els).mpr hcomplete
    unfold sortDeps at he
    simp only [hchk, bind, Except.bind] at he
    obtain ⟨u, hu⟩ := sortLoop_error_circular els _ av els none [] _ he
    cases hu
  · exact ⟨u, he⟩

/-- A component that requires a name only it provides (a self-loop) makes the graph unsortable. -/
theorem C02_self_loop_unsortable (av : List Name) (els : List Dep) (d : Dep) (r : Name)
    (hd : d ∈ els) (hr : r ∈ d.required) (hav : r ∉ av)
    (honly : ∀ p ∈ els, r ∈ p.provided → p = d) : ¬ Sortable av els := by
  rintro ⟨rank, hrank⟩
  rcases hrank d hd r hr with h | ⟨p, hp, hrp, hlt⟩
  · exact hav h
  · have := honly p hp hrp
    subst this
    omega

/-- A component naming something that does not exist is rejected with the missing-dependency
    error, whose payload lists, per offending component (in declaration order), exactly the
    names it requires that nothing provides — sorted, each once. -/
theorem C02_missing_exact (av : List Name) (els : List Dep) (hnd : (els.map (·.name)).Nodup)
    (hmiss : ∃ d ∈ els, ∃ r ∈ d.required, r ∉ allAvailable av els) :
    sortDeps av els = .error (.missing
      (els.filterMap fun d =>
        if ready (allAvailable av els) d then none
        else some (d.name, missingOf (allAvailable av els) d))) ∧
    (∀ d m, m ∈ missingOf (allAvailable av els) d ↔ m ∈ d.required ∧ m ∉ allAvailable av els) := by
  refine ⟨?_, fun d m => mem_missingOf _ d m⟩
  have hns := notSolvable_eq_filterMap av els hnd
  have hne : notSolvable av els ≠ [] := by
    rw [hns]
    obtain ⟨d, hd, r, hr, hnot⟩ := hmiss
    intro hnil
    have hmem : (d.name, missingOf (allAvailable av els) d) ∈
        els.filterMap (fun d => if ready (allAvailable av els) d then none
          else some (d.name, missingOf (allAvailable av els) d)) := by
      refine List.mem_filterMap.mpr ⟨d, hd, ?_⟩
      have : ready (allAvailable av els) d = false :=
        (ready_false_iff _ d).mpr ⟨r, hr, hnot⟩
      simp [this]
    rw [hnil] at hmem; cases hmem
  unfold sortDeps checkSortable
  have : (notSolvable av els).isEmpty = false := by
    cases hh : notSolvable av els with
    | nil => exact absurd hh hne
    | cons _ _ => rfl
  rw [hns] at this
  simp [hns, this, bind, Except.bind]

/-- Sortability, and therefore acceptance, does not depend on declaration order. -/
theorem C02_order_independent_acceptance (av : List Name) (els els' : List Dep)
    (hperm : els'.Perm els) (hnd : (els.map (·.name)).Nodup) :
    (∃ o, sortDeps av els = .ok o) ↔ (∃ o, sortDeps av els' = .ok o) := by
  have hnd' : (els'.map (·.name)).Nodup := (hperm.map _).nodup_iff.mpr hnd
  have hiff : Sortable av els ↔ Sortable av els' := by
    constructor
    · rintro ⟨rank, h⟩
      refine ⟨rank, fun d hd r hr => ?_⟩
      rcases h d (hperm.mem_iff.mp hd) r hr with h1 | ⟨p, hp, h2, h3⟩
      · exact Or.inl h1
      · exact Or.inr ⟨p, hperm.mem_iff.mpr hp, h2, h3⟩
    · rintro ⟨rank, h⟩
      refine ⟨rank, fun d hd r hr => ?_⟩
      rcases h d (hperm.mem_iff.mpr hd) r hr with h1 | ⟨p, hp, h2, h3⟩
      · exact Or.inl h1
      · exact Or.inr ⟨p, hperm.mem_iff.mp hp, h2, h3⟩
  constructor
  · rintro ⟨o, ho⟩
    obtain ⟨o', ho', _⟩ := C02_acyclic_sorts av els' hnd' (hiff.mp (C02_ok_is_schedule av els hnd o ho).2.2)
    exact ⟨o', ho'⟩
  · rintro ⟨o, ho⟩
    obtain ⟨o', ho', _⟩ := C02_acyclic_sorts av els hnd (hiff.mpr (C02_ok_is_schedule av els' hnd' o ho).2.2)
    exact ⟨o', ho'⟩

/-- **Order independence of the values.**  Two models with the same components (as a
    name ↦ component map) and the same plain values, declared in any two orders, evaluate every
    name to the same value at time zero — each component having seen the finished values of
    everything it names (`createCache_consistent`) — so every variable gets the same initial value. -/
theorem C02_order_independent_values {c c' : Content}
    (hts : ∀ k, c'.toSort.lookup k = c.toSort.lookup k)
    (hbase : ∀ n, (baseEnv (plainOf c'.pars) (plainOf c'.vars) c'.data 0).lookup n =
      (baseEnv (plainOf c.pars) (plainOf c.vars) c.data 0).lookup n)
    (hav : ∀ r, r ∈ c'.available ↔ r ∈ c.available)
    (hwf : WFc c) (hwf' : WFc c') {cache cache' : Cache}
    (h : createCache c = .ok cache) (h' : createCache c' = .ok cache') :
    ∀ kv ∈ cache.init, ∀ kv' ∈ cache'.init, kv.1 = kv'.1 → kv.2 = kv'.2 :=
  createCache_init_unique hts hbase hav hwf hwf' h h'

/-- **Declaration order is irrelevant — for the executable pipeline itself.**  `c'` declares the
    same variables, parameters, derived quantities, reactions, surrogates and data as `c`, each
    container in any other order (`SameContent`).  If `_create_cache` (= `_sort_dependencies` +
    one evaluation pass + classification) returns for `c`, it returns for `c'`, and the two caches
    are equal as maps: every variable has the same initial value, every parameter / assignment-
    defined parameter / derived parameter the same value, the same components are re-evaluated per
    state, and the two time-zero environments agree on every name. -/
theorem C02_declaration_order_irrelevant {c c' : Content} (hn : WFnames c)
    (hsame : SameContent c' c) {cache : Cache} (hc : createCache c = .ok cache) :
    ∃ cache', createCache c' = .ok cache' ∧
      (∀ k, cache'.init.lookup k = cache.init.lookup k) ∧
      (∀ k, cache'.allPars.lookup k = cache.allPars.lookup k) ∧
      (∀ k, k ∈ cache'.dynOrder ↔ k ∈ cache.dynOrder) ∧
      ∃ dep dep',
        evalInOrder c.toSort cache.order
          (baseEnv (plainOf c.pars) (plainOf c.vars) c.data 0) = .ok dep ∧
        evalInOrder c'.toSort cache'.order
          (baseEnv (plainOf c'.pars) (plainOf c'.vars) c'.data 0) = .ok dep' ∧
        ∀ n, dep'.lookup n = dep.lookup n :=
  createCache_perm_invariant hn hsame hc

/-- **… and so is every later answer.**  For the two caches of `C02_declaration_order_irrelevant`,
    the same state (given as a map over the variables, listed in each content's own declaration
    order) and the same time yield argument tables — the dict `_get_args` builds, from which
    `get_args`, `get_fluxes`, the right-hand side and the time-course forms are read — that agree
    on every name. -/
theorem C02_argument_table_order_independent {c c' : Content} (hn : WFnames c)
    (hsame : SameContent c' c) {cache cache' : Cache}
    (hc : createCache c = .ok cache) (hc' : createCache c' = .ok cache')
    (vars vars' : List (Name × Rat)) (hv : vars.map (·.1) = omKeys c.vars)
    (hv' : vars'.map (·.1) = omKeys c'.vars) (hvv : ∀ k, vars'.lookup k = vars.lookup k) (t : Rat)
    {env env' : Env} (he : getArgsEnv c cache vars t = .ok env)
    (he' : getArgsEnv c' cache' vars' t = .ok env') : ∀ n, env'.lookup n = env.lookup n := by
  obtain ⟨cache'', hc'', _, hpars, hdyn, _⟩ := createCache_perm_invariant hn hsame hc
  rw [hc'] at hc''; cases hc''
  exact getArgsEnv_perm_invariant hn hsame hc hc' hpars hdyn vars vars' hv hv' hvv t he he'

/-- **… down to the derivatives.**  The positional right-hand side `Model.__call__` of a well-named
    content and of any re-declaration of it in another order, asked at the same state (as a map
    variable ↦ value; each vector listed in its own content's variable order) and time, returns the
    same derivative for every variable (flux names distinct, each stoichiometry naming a compound
    once — dict keys — as in `C01_rhs_is_Nv`). -/
theorem C02_derivatives_order_independent {c c' : Content} (hn : WFnames c)
    (hsame : SameContent c' c) (hflux : (omKeys c.allStoich).Nodup)
    (hcpd : ∀ flux s, (flux, s) ∈ c.allStoich → (omKeys s).Nodup)
    {t : Rat} {xs xs' d d' : List Rat}
    (hstate : ∀ k, ((omKeys c'.vars).zip xs').lookup k = ((omKeys c.vars).zip xs).lookup k)
    (h : callRhs c t xs = .ok d) (h' : callRhs c' t xs' = .ok d') :
    ∀ x, ((omKeys c'.vars).zip d').lookup x = ((omKeys c.vars).zip d).lookup x :=
  callRhs_perm_invariant hn hsame hflux hcpd hstate h h'

/-- **The verdict is a function of the graph alone**: acyclic and complete → an order; some
    required name provided by nothing → the missing-dependency error; complete but not acyclic →
    the circular-dependency error.  (The three graph conditions are exhaustive and exclusive.) -/
theorem C02_verdict_by_graph (av : List Name) (els : List Dep) (hnd : (els.map (·.name)).Nodup) :
    (Sortable av els → ∃ o, sortDeps av els = .ok o) ∧
    (Incomplete av els → ∃ m, sortDeps av els = .error (.missing m)) ∧
    (¬ Incomplete av els → ¬ Sortable av els → ∃ u, sortDeps av els = .error (.circular u)) :=
  sortDeps_verdict av els hnd

/-- **Rejection is order independent as well**: re-declaring the same content in another order
    never turns numbers into an error, an error into numbers, or one error class into the other. -/
theorem C02_outcome_order_independent {c c' : Content} (hn : WFnames c)
    (hsame : SameContent c' c) : outcome (createCache c') = outcome (createCache c) :=
  outcome_perm_invariant hn hsame

/-- **In neither case are numbers returned — at any entry point.**  When `_create_cache` rejects the
    graph, initial conditions, parameter values, derived-name lists, the argument table (any flags),
    fluxes, the named and the positional right-hand side and the stoichiometry table all fail with
    that same error. -/
theorem C02_rejected_everywhere {c : Content} {e : Err} (h : createCache c = .error e) :
    getInit c = .error e ∧ getParameterValues c = .error e ∧ getClasses c = .error e ∧
    (∀ vars t, getArgs c vars t = .error e) ∧ (∀ vars t, getFluxes c vars t = .error e) ∧
    (∀ vars t, getRhsQ c vars t = .error e) ∧ (∀ t xs, callRhs c t xs = .error e) ∧
    (∀ vars t, getStoich c vars t = .error e) ∧
    (∀ vars t f, getArgsSel c vars t f = .error e) :=
  queries_reject h

/-- **The missing-dependency error at the model level**: for a well-named content in which some
    component requires a name nothing provides, `_create_cache` (hence every query) fails with the
    missing-dependency error listing, per offending component in declaration order, exactly the
    required names that are neither initially available nor provided by any component. -/
theorem C02_missing_exact_at_cache {c : Content} (hn : WFnames c)
    (hmiss : Incomplete c.available c.deps) :
    createCache c = .error (.missing
      (c.deps.filterMap fun d =>
        if ready (allAvailable c.available c.deps) d then none
        else some (d.name, missingOf (allAvailable c.available c.deps) d))) :=
  createCache_missing_exact hn hmiss

/-! ### non-vacuity: concrete graphs meeting the hypotheses -/

deriving instance DecidableEq for Except

/-- reverse-declared chain: sortable, names distinct -/
example : Sortable ["p"] [⟨"c", ["b"], ["c"]⟩, ⟨"b", ["a"], ["b"]⟩, ⟨"a", ["p"], ["a"]⟩] := by
  refine ⟨fun n => if n = "a" then 0 else if n = "b" then 1 else 2, ?_⟩
  intro d hd r hr
  simp at hd
  rcases hd with rfl | rfl | rfl <;> simp at hr <;> subst hr <;> simp

example : sortDeps ["p"] [⟨"c", ["b"], ["c"]⟩, ⟨"b", ["a"], ["b"]⟩, ⟨"a", ["p"], ["a"]⟩]
    = .ok ["a", "b", "c"] := by decide

/-- self-loop and 2-cycle are rejected with the circular error, a missing name with the missing error -/
example : sortDeps ["p"] [⟨"d", ["d"], ["d"]⟩] = .error (.circular [("d", ["d"])]) := by decide
example : sortDeps [] [⟨"a", ["b"], ["a"]⟩, ⟨"b", ["a"], ["b"]⟩]
    = .error (.circular [("b", ["a"]), ("a", ["b"])]) := by decide
example : sortDeps ["p"] [⟨"a", ["zz", "p", "yy"], ["a"]⟩]
    = .error (.missing [("a", ["yy", "zz"])]) := by decide

/-- a content and its reverse declaration: `SameContent`, well-named, and both build -/
def exC : Content :=
  { vars := [("x", .plain 2), ("y", .ia ⟨["d"], fun v => v.getD 0 0⟩)],
    pars := [("p", .plain 3), ("q", .ia ⟨["p"], fun v => 2 * v.getD 0 0⟩)],
    derived := [("d", ⟨["q"], fun v => v.getD 0 0 + 1⟩), ("e", ⟨["d", "x"], fun v => v.getD 0 0 * v.getD 1 0⟩)],
    rxns := [("r", ⟨⟨["e"], fun v => v.getD 0 0⟩, [("x", .num (-1))]⟩)] }

def exC' : Content :=
  { exC with vars := exC.vars.reverse, pars := exC.pars.reverse, derived := exC.derived.reverse }

example : SameContent exC' exC :=
  ⟨List.reverse_perm _, List.reverse_perm _, List.reverse_perm _, .refl _, .refl _, .refl _⟩

example : WFnames exC := ⟨by decide +kernel, by intro kv h; cases h⟩

example : (createCache exC).toOption.map (·.init) = some [("x", 2), ("y", 7)] := by decide +kernel
example : (createCache exC').toOption.map (·.init) = some [("y", 7), ("x", 2)] := by decide +kernel

end Mxl.C02
