/-
C13 — initial assignments resolve once at t = 0; derived parameters are state-free.
Property theorems only (helper lemmas: Lemmas/{Eval,Init,Classify,Args}.lean).
All statements are about `Mxl.createCache` / `Mxl.classify` / `Mxl.getInit`, the functions
the driver executes.
-/
import MxlVerif.Lemmas.Args
import MxlVerif.Lemmas.ClassifyComplete
import MxlVerif.Model.Queries
namespace Mxl.C13
open Mxl

/-- **Initial values are resolved once, at time zero, after everything they name.**
    Whenever `_create_cache` returns (for any declaration order), there is one environment
    `dep` — the one evaluated at `time = 0` from the declared plain values — in which every
    initial assignment (of a variable or a parameter), derived quantity, reaction rate and
    surrogate output equals its function applied to the values of the names it mentions
    (`Comp.Holds`), in which nothing else was changed, and from which the reported initial
    conditions (one per variable, in declaration order) are read. -/
theorem C13_init_resolved {c : Content} (hwf : WFc c) {cache : Cache}
    (h : createCache c = .ok cache) :
    ∃ dep : Env,
      (∀ k comp, c.toSort.lookup k = some comp → comp.Holds k dep) ∧
      (∀ n, n ∉ (omKeys c.toSort).flatMap (providedOf c.toSort) →
        dep.lookup n = (baseEnv (plainOf c.pars) (plainOf c.vars) c.data 0).lookup n) ∧
      cache.init.map (·.1) = omKeys c.vars ∧
      (∀ kv ∈ cache.init, dep.lookup kv.1 = some kv.2) := by
  obtain ⟨dep, h1, h2, h3, h4, _⟩ := createCache_consistent hwf h
  exact ⟨dep, h1, h2, h3, h4⟩

/-- **What simulations start from by default.** `Simulator(model).y0` is
    `model.get_initial_conditions()`, i.e. exactly the cache's resolved initial conditions. -/
theorem C13_default_y0 (c : Content) (cache : Cache) (h : createCache c = .ok cache) :
    getInit c = .ok cache.init := by
  simp [getInit, h, bind, Except.bind, pure, Except.pure]

/-- **Static classification is sound.**  Every derived quantity that the one-pass
    classification adds to the parameter set depends, through any chain, only on parameters
    (`OnlyParams`), whatever the order in which the names are visited. -/
theorem C13_static_sound (c : Content) (order : List Name) (k : Name)
    (hk : k ∈ (classify c order [] [] (omKeys c.pars)).2.2) :
    k ∈ omKeys c.pars ∨ OnlyParams c k := by
  obtain ⟨S, D, A, heq, _, _, _, _, _, _, hg, _⟩ :=
    classify_spec c order [] [] (omKeys c.pars) (fun a ha => Or.inl ha)
  rw [heq] at hk
  exact hg k hk

/-- **A derived quantity is a derived parameter exactly when it depends, through any chain, only on
    parameters.**  For the cache `_create_cache` builds (any declaration order), a sorted name is in
    the parameter-name closure iff it is a parameter or satisfies `OnlyParams`. -/
theorem C13_static_iff {c : Content} (hwf : WFd c) (hdist : DerivedDistinct c)
    {cache : Cache} (h : createCache c = .ok cache) {k : Name} (hk : k ∈ cache.order) :
    k ∈ (classify c cache.order [] [] (omKeys c.pars)).2.2 ↔
      k ∈ omKeys c.pars ∨ OnlyParams c k :=
  createCache_classify_exact hwf hdist h hk

/-- **Dynamic classification is sound.**  A derived quantity put on the dynamic list has an
    argument that was not (yet) a parameter or derived parameter when it was visited; reactions
    and surrogates are always dynamic. -/
theorem C13_dynamic_sound (c : Content) (order : List Name) (k : Name)
    (hk : k ∈ (classify c order [] [] (omKeys c.pars)).2.1) :
    isRS c k = true ∨ (isVP c k = false ∧ ∃ d, c.derived.lookup k = some d ∧
      ∃ a ∈ d.args, a ∉ omKeys c.pars) := by
  obtain ⟨S, D, A, heq, _, _, _, hdyn, _, _, _, _⟩ :=
    classify_spec c order [] [] (omKeys c.pars) (fun a ha => Or.inl ha)
  rw [heq] at hk
  simp only [List.reverse_nil, List.nil_append] at hk
  exact hdyn k hk

/-- **Derived parameters and assignment-defined parameters keep their value; everything else is
    recomputed from the supplied state.**  For any supplied state and time, in the argument table
    `_get_args` builds: every name that is not produced by a dynamic component — `time`, the state,
    plain parameters, assignment-defined parameters and derived parameters (`cache.allPars`) — has
    exactly the supplied / cached value, independent of the state; and every dynamic component
    (reaction, surrogate, derived quantity outside the parameter closure, in `cache.dynOrder`) is its
    function applied to the values its arguments have at that state. -/
theorem C13_frozen_and_recomputed {c : Content} (hwf : WFd c) {cache : Cache}
    (hc : createCache c = .ok cache) (vars : List (Name × Rat))
    (hv : vars.map (·.1) = omKeys c.vars) (t : Rat) {env : Env}
    (h : getArgsEnv c cache vars t = .ok env) :
    (∀ n, n ∉ cache.dynOrder.flatMap (providedOf c.containers) →
      env.lookup n = (baseEnv cache.allPars vars c.data t).lookup n) ∧
    (∀ k ∈ cache.dynOrder, ∀ comp, c.containers.lookup k = some comp → comp.Holds k env) :=
  let ⟨h1, h2⟩ := getArgs_consistent hwf hc vars hv t h
  ⟨h2, h1⟩

/-! ### non-vacuity -/

/-- a content with an assignment-defined parameter `q = p + x`, a static derived `d = 2q`,
    a dynamic derived `e = d·x` and a reaction — declared in reverse dependency order -/
def exampleContent : Content :=
  { vars := [("x", .plain 2)],
    pars := [("q", .ia ⟨["p", "x"], fun v => v.getD 0 0 + v.getD 1 0⟩), ("p", .plain 3)],
    derived := [("e", ⟨["d", "x"], fun v => v.getD 0 0 * v.getD 1 0⟩),
                ("d", ⟨["q"], fun v => 2 * v.getD 0 0⟩)],
    rxns := [("r", ⟨⟨["e"], fun v => v.getD 0 0⟩, [("x", .num (-1))]⟩)] }

example : WFc exampleContent := by
  refine ⟨by decide +kernel, by decide +kernel, by decide +kernel, ?_⟩
  intro k s h
  have := mem_of_lookup h
  simp [exampleContent, Content.toSort, omUnion, omInsert, iaOf] at this

example : (createCache exampleContent).toOption.map (·.init) = some [("x", 2)] := by decide +kernel
example : (createCache exampleContent).toOption.map (·.dynOrder) = some ["e", "r"] := by decide +kernel
example : (createCache exampleContent).toOption.map (·.allPars) =
    some [("p", 3), ("q", 5), ("d", 10)] := by decide +kernel

end Mxl.C13
