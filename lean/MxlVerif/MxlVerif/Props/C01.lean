/-
C01 — derivatives = stoichiometry × rates over fully resolved values.
Property theorems only (helper lemmas: Lemmas/{Env,Eval,Init,Rhs}.lean).  All statements are about
`Mxl.callRhs` / `Mxl.getRhs` / `Mxl.createCache`, the functions the driver executes.
-/
import MxlVerif.Lemmas.Rhs
import MxlVerif.Lemmas.Args
import MxlVerif.Model.Queries
namespace Mxl.C01
open Mxl

theorem mapM_get_eq {dxdt : List (Name × Rat)} {g : Name → Rat} :
    ∀ (vn : List Name) (d : List Rat), vn.mapM (Env.get dxdt) = .ok d →
      (∀ x ∈ vn, dxdt.lookup x = some (g x)) → d = vn.map g := by
  intro vn
  induction vn with
  | nil => intro d h _; simp [pure, Except.pure] at h; simp [h]
  | cons x xs ih =>
    intro d h hg
    rw [List.mapM_cons] at h
    obtain ⟨v, h1, h⟩ := bind_ok h
    obtain ⟨vs, h2, h⟩ := bind_ok h
    simp only [pure, Except.pure, Except.ok.injEq] at h
    subst h
    have hv := (get_ok_iff dxdt x v).mp h1
    rw [hg x (by simp)] at hv
    cases hv
    simp [ih vs h2 (fun y hy => hg y (List.mem_cons_of_mem _ hy))]

theorem callRhs_stages (c : Content) (t : Rat) (xs d : List Rat) (h : callRhs c t xs = .ok d) :
    ∃ cache dep dxdt, createCache c = .ok cache ∧ cache.varNames = omKeys c.vars ∧
      xs.length = cache.varNames.length ∧
      getArgsEnv c cache (cache.varNames.zip xs) t = .ok dep ∧
      rhsFromArgs cache cache.varNames dep = .ok dxdt ∧
      cache.varNames.mapM (Env.get dxdt) = .ok d := by
  unfold callRhs at h
  obtain ⟨cache, h1, h⟩ := bind_ok h
  have hvn : cache.varNames = omKeys c.vars := by
    obtain ⟨_, _, _, _, _, _, _, _, _, _, _, hc⟩ := createCache_ok h1
    rw [hc]
  by_cases hlen : (xs.length != cache.varNames.length) = true
  · simp [hlen] at h
  · simp only [hlen, Bool.false_eq_true, if_false] at h
    obtain ⟨dep, h2, h⟩ := bind_ok h
    obtain ⟨dxdt, h3, h⟩ := bind_ok h
    exact ⟨cache, dep, dxdt, h1, hvn, by simpa using hlen, h2, h3, h⟩

/-- **The vector handed to integrators.**  Whenever `Model.__call__(time, variables)` returns, it
    returns one number per variable, in declaration order; the entry of variable `x` is the sum,
    over the cache's static coefficient table and its state-dependent coefficient table, of
    coefficient × flux, all read from the one argument environment `dep` that `_get_args` built for
    this state and time; a variable no reaction touches gets the empty sum `0`. -/
theorem C01_rhs_is_sum (c : Content) (t : Rat) (xs d : List Rat) (h : callRhs c t xs = .ok d) :
    ∃ cache dep, createCache c = .ok cache ∧ cache.varNames = omKeys c.vars ∧
      xs.length = cache.varNames.length ∧
      getArgsEnv c cache (cache.varNames.zip xs) t = .ok dep ∧
      d = (omKeys c.vars).map (fun x =>
        contribS dep x cache.stoich + contribD dep x cache.dynStoich) := by
  obtain ⟨cache, dep, dxdt, h1, hvn, hlen, h2, h3, h4⟩ := callRhs_stages c t xs d h
  refine ⟨cache, dep, h1, hvn, hlen, h2, ?_⟩
  rw [← hvn]
  apply mapM_get_eq _ _ h4
  intro x hx
  rw [rhsFromArgs_lookup h3 x]
  simp [hx]

/-- **Fluxes, derived quantities and state-dependent coefficients are functions of the values
    their named arguments have at that state.**  In the argument environment behind every entry
    point (`__call__`, `get_right_hand_side`, `get_fluxes`, `get_args`), each dynamic component
    holds: its value is its function applied to the environment's values of its arguments; all
    other names keep the supplied state / time / cached parameter values. -/
theorem C01_args_resolve {c : Content} (hwf : WFd c) {cache : Cache}
    (hc : createCache c = .ok cache) (vars : List (Name × Rat))
    (hv : vars.map (·.1) = omKeys c.vars) (t : Rat) {env : Env}
    (h : getArgsEnv c cache vars t = .ok env) :
    (∀ k ∈ cache.dynOrder, ∀ comp, c.containers.lookup k = some comp → comp.Holds k env) ∧
    (∀ n, n ∉ cache.dynOrder.flatMap (providedOf c.containers) →
      env.lookup n = (baseEnv cache.allPars vars c.data t).lookup n) :=
  getArgs_consistent hwf hc vars hv t h

/-- a variable that appears in neither coefficient table gets exactly 0 -/
theorem C01_untouched_zero (dep : Env) (x : Name)
    (st : List (Name × List (Name × Rat))) (dst : List (Name × List (Name × Fn)))
    (h1 : x ∉ st.map (·.1)) (h2 : x ∉ dst.map (·.1)) :
    contribS dep x st + contribD dep x dst = 0 := by
  have hs : contribS dep x st = 0 := by
    induction st with
    | nil => rfl
    | cons e rest ih =>
      obtain ⟨k, r⟩ := e
      simp only [List.map_cons, List.mem_cons, not_or] at h1
      have : ¬ k = x := fun h => h1.1 h.symm
      simp [contribS, this, ih h1.2, Rat.add_zero]
  have hd : contribD dep x dst = 0 := by
    induction dst with
    | nil => rfl
    | cons e rest ih =>
      obtain ⟨k, r⟩ := e
      simp only [List.map_cons, List.mem_cons, not_or] at h2
      have : ¬ k = x := fun h => h2.1 h.symm
      simp [contribD, this, ih h2.2, Rat.add_zero]
  rw [hs, hd, Rat.add_zero]

/-- **Every way of asking returns the same numbers (positional vs named).**  If the positional
    call returns `d`, the named right-hand side for the same state and time returns a table whose
    entry for the i-th declared variable is `d[i]`. -/
theorem C01_entry_points_agree (c : Content) (t : Rat) (xs d : List Rat)
    (h : callRhs c t xs = .ok d) :
    ∃ dxdt, getRhs c ((omKeys c.vars).zip xs) t = .ok dxdt ∧
      (omKeys c.vars).map (fun x => dxdt.lookup x) = d.map some := by
  obtain ⟨cache, dep, dxdt, h1, hvn, _, h2, h3, h4⟩ := callRhs_stages c t xs d h
  rw [hvn] at h2 h3 h4
  refine ⟨dxdt, ?_, ?_⟩
  · simp [getRhs, h1, h2, h3, bind, Except.bind]
  · have hd := mapM_get_eq (g := fun x => contribS dep x cache.stoich + contribD dep x cache.dynStoich)
      _ _ h4 (by intro x hx; rw [rhsFromArgs_lookup h3 x]; simp [hx])
    rw [hd, List.map_map]
    apply List.map_congr_left
    intro x hx
    rw [rhsFromArgs_lookup h3 x]
    simp [hx]

/-- the fluxes table and the full argument table are read from the same environment as the
    derivatives (`get_fluxes` is `get_args` restricted to flux names) -/
theorem C01_fluxes_from_args (c : Content) (vars : Option (List (Name × Rat))) (t : Rat)
    (fl : List (Name × Rat)) (h : getFluxes c vars t = .ok fl) :
    ∃ cache dep, createCache c = .ok cache ∧
      getArgsEnv c cache (resolveVars cache vars) t = .ok dep ∧
      fl.map (·.1) = c.fluxNames ∧ ∀ kv ∈ fl, dep.lookup kv.1 = some kv.2 := by
  unfold getFluxes at h
  obtain ⟨cache, h1, h⟩ := bind_ok h
  obtain ⟨dep, h2, h⟩ := bind_ok h
  obtain ⟨hk, hv⟩ := mapM_get_spec dep _ _ h
  exact ⟨cache, dep, h1, h2, hk, hv⟩

end Mxl.C01
