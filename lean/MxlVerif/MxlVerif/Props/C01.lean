import MxlVerif.Model.Queries
namespace Mxl.C01
theorem placeholder : True := trivial
end Mxl.C01
