/-
C03 — edit histories: answers depend only on the model's current content.

All statements are about `Mxl.C03.step`, `Mxl.C03.query`, `Mxl.C03.run` — the same definitions the driver
executes (op "c03") — over ALL op histories, all names, all (opaque) functions and all rational values.
`step` reads, per public mutator of `model.py`, whether it carries `@_invalidate_cache`, the order of its id
and container updates and the number of rejecting checks before its first write from
`Generated/C03Mutators.lean`; the obligations on that table are discharged by computation on the generated
definitions (`C03_table_*`), so a removed decorator or a moved `_remove_id` breaks this file on the next run.
-/
import MxlVerif.Lemmas.C03Rebuild
namespace Mxl.C03
open Mxl

/-! ## the generated-table obligations -/

/-- every mutator whose own body writes something `createCache` reads carries `@_invalidate_cache` -/
theorem C03_table_invalidates (m : Gen.Mut) (h : mustInvalidate m = true) : Gen.invalidates m = true :=
  table_invalidates m h

/-- Why `mustInvalidate` is the right list, from the source: `_create_cache` reads (directly or through calls on
    `self`) ALL seven dictionaries, so every write matters; every mutator whose own body writes a dictionary or a
    component stored in one is in `mustInvalidate` (hence decorated, `C03_table_invalidates`); the others write
    nothing themselves — their script consists of checks, loads, rejecting statements and calls of other mutators. -/
theorem C03_table_must_invalidate :
    Gen.cacheReads = ["_data", "_derived", "_parameters", "_reactions", "_readouts", "_surrogates", "_variables"] ∧
    (∀ m, writesItself m = true → mustInvalidate m = true) ∧
    (∀ m, mustInvalidate m = false → ∀ e ∈ Gen.script m,
      (match e with | .check _ | .call _ | .load _ | .guard _ => true | _ => false) = true) ∧
    (∀ m, ∀ c ∈ Gen.containers m, c ∈ Gen.cacheReads) := by
  refine ⟨rfl, ?_, ?_, ?_⟩
  · intro m; cases m <;> decide
  · intro m; cases m <;> decide
  · intro m; cases m <;> decide

/-- the id is taken before the container is written in every `add_*`; the own container is consulted
    before the id is freed in every `remove_*`; the validating forms validate before they write -/
theorem C03_table_order :
    (∀ m ∈ [Gen.Mut.add_parameter, .add_variable, .add_derived, .add_reaction, .add_readout, .add_data],
        Gen.idOrder m = .idFirst) ∧
    (∀ m ∈ [Gen.Mut.remove_parameter, .remove_variable, .remove_derived, .remove_reaction, .remove_readout,
            .remove_data, .remove_surrogate], Gen.idOrder m = .containerFirst) ∧
    Gen.firstWrite .remove_variable = .container ∧
    Gen.checksBeforeWrites .update_data ≥ 1 ∧ Gen.checksBeforeWrites .add_surrogate ≥ 1 ∧
    Gen.checksBeforeWrites .update_surrogate ≥ 2 ∧ Gen.checksBeforeWrites .make_parameter_dynamic ≥ 1 ∧
    (∀ m ∈ [Gen.Mut.add_parameters, .remove_parameters, .update_parameters, .add_variables, .remove_variables,
            .update_variables], Gen.checksBeforeWrites m ≥ 1) :=
  ⟨table_add_order, table_remove_order, table_remove_variable_first, table_update_data_checks,
   table_add_surrogate_checks, table_update_surrogate_checks, table_make_parameter_dynamic_checks,
   table_plural_checks⟩

/-- the public mutators found in the source are exactly the thirty the model has an `Op` for -/
theorem C03_table_mutators :
    Gen.Mut.all = [.add_parameter, .add_parameters, .remove_parameter, .remove_parameters, .update_parameter,
      .update_parameters, .scale_parameter, .scale_parameters, .make_parameter_dynamic, .add_variable,
      .add_variables, .remove_variable, .remove_variables, .update_variable, .update_variables,
      .make_variable_static, .add_derived, .update_derived, .remove_derived, .add_reaction, .update_reaction,
      .remove_reaction, .add_readout, .remove_readout, .add_surrogate, .update_surrogate, .remove_surrogate,
      .add_data, .update_data, .remove_data] := rfl

/-- the composite and plural forms call exactly the public mutators the model composes them from
    (so the decorators of the callees are the ones that act) -/
theorem C03_table_delegates :
    (Gen.delegates .add_parameters).eraseDups = [.add_parameter] ∧
    (Gen.delegates .remove_parameters).eraseDups = [.remove_parameter] ∧
    (Gen.delegates .update_parameters).eraseDups = [.update_parameter] ∧
    Gen.delegates .scale_parameters = [.update_parameters] ∧
    (Gen.delegates .add_variables).eraseDups = [.add_variable] ∧
    (Gen.delegates .remove_variables).eraseDups = [.remove_variable] ∧
    (Gen.delegates .update_variables).eraseDups = [.update_variable] ∧
    (Gen.delegates .scale_parameter).eraseDups = [.update_parameter] ∧
    Gen.delegates .make_parameter_dynamic = [.remove_parameter, .add_variable] ∧
    Gen.delegates .make_variable_static = [.remove_variable, .add_derived, .add_parameter] := by
  decide

/-- Statement order of every mutator, as read from the source: which id operation, which own container (and
    how: item assignment / `del` / `pop`), which component writes, which rejecting statements (with the classes
    they raise), which `_check_*` helpers, which delegated mutators and which subscript loads, in order.  The
    model's `step` is written after exactly these scripts; any reordering, added or dropped statement in a
    mutator body makes this obligation fail on the next run. -/
theorem C03_table_scripts :
    Gen.Mut.all.map Gen.script =
    [ [.ins "parameter", .cwrite "_parameters" "set"],
      [.check "_check_new_ids", .call .add_parameter, .call .add_parameter],
      [.cwrite "_parameters" "pop", .rem],
      [.check "_check_known_names", .call .remove_parameter],
      [.guard "KeyError", .load "_parameters", .write, .write, .write],
      [.check "_check_known_names", .call .update_parameter, .call .update_parameter],
      [.call .update_parameter],
      [.call .update_parameters],
      [.load "_parameters", .guard "KeyError", .call .remove_parameter, .call .add_variable, .write, .write,
       .guard "KeyError"],
      [.ins "variable", .cwrite "_variables" "set"],
      [.check "_check_new_ids", .call .add_variable, .call .add_variable],
      [.cwrite "_variables" "del", .rem, .write, .write],
      [.check "_check_known_names", .call .remove_variable],
      [.guard "KeyError", .load "_variables", .write, .write, .write],
      [.check "_check_known_names", .call .update_variable, .call .update_variable],
      [.load "_variables", .call .remove_variable, .call .add_derived, .call .add_parameter],
      [.ins "derived", .cwrite "_derived" "set"],
      [.load "_derived", .write, .write, .write],
      [.cwrite "_derived" "pop", .rem],
      [.ins "reaction", .cwrite "_reactions" "set"],
      [.load "_reactions", .write, .write, .write, .write],
      [.cwrite "_reactions" "pop", .rem],
      [.ins "readout", .cwrite "_readouts" "set"],
      [.cwrite "_readouts" "del", .rem],
      [.check "_check_new_ids", .ins "surrogate", .write, .write, .write, .write, .ins "surrogate",
       .cwrite "_surrogates" "set"],
      [.guard "KeyError", .load "_surrogates", .load "_surrogates", .check "_check_new_ids", .write, .write, .write,
       .write, .rem, .ins "surrogate", .cwrite "_surrogates" "set"],
      [.cwrite "_surrogates" "pop", .rem, .rem],
      [.ins "data", .cwrite "_data" "set"],
      [.guard "KeyError", .cwrite "_data" "set"],
      [.cwrite "_data" "pop", .rem] ] := by decide

/-- The rejecting statements of the mutator bodies WITH their conditions, as read from the source: the four
    `update_*` forms reject a name that is not a key of their own container; `make_parameter_dynamic` rejects, BEFORE it
    converts the parameter, every flux name that is neither a reaction nor a surrogate flux with a NON-EMPTY
    stoichiometry (`surrogate.stoichiometries.get(name)` truthy — the model's `isFlux` / `surHasFlux`), and its writing
    loop looks for exactly the same targets (`:=` … truthy), so that its late `raise` cannot fire
    (`makeParameterDynamic_good`).  No other mutator has an explicit rejecting statement.  A reworded condition makes
    this fail on the next run. -/
theorem C03_table_guards :
    Gen.guards .update_parameter = ["if v0 not in self._parameters:; raise KeyError"] ∧
    Gen.guards .update_variable = ["if v0 not in self._variables:; raise KeyError"] ∧
    Gen.guards .update_surrogate = ["if v0 not in self._surrogates:; raise KeyError"] ∧
    Gen.guards .update_data = ["if v0 not in self._data:; raise KeyError"] ∧
    Gen.guards .make_parameter_dynamic =
      ["for v4 in v2 or {}:; if not any((v5.stoichiometries.get(v4) for v5 in self._surrogates.values())) and v4 not in self._reactions:; raise KeyError",
       "if v2 is not None:; for v4, v3 in v2.items():; v6 = False; if (v7 := self._reactions.get(v4)) is not None:; v6 = True; v7.stoichiometry[v0] = v3; else:; for v5 in self._surrogates.values():; if (v8 := v5.stoichiometries.get(v4)):; v6 = True; v8[v0] = v3; if not v6:; raise KeyError"] ∧
    (∀ m, m ∉ [Gen.Mut.update_parameter, .update_variable, .update_surrogate, .update_data, .make_parameter_dynamic] →
      Gen.guards m = []) := by
  refine ⟨rfl, rfl, rfl, rfl, rfl, ?_⟩
  intro m hm
  cases m <;> first | rfl | (exact absurd (by decide) hm)

/-- The arguments the `_check_*` helpers are called with: the plural forms pass ALL their names (and their own
    container); `add_surrogate` passes the surrogate's name followed by the outputs that will be registered (the
    `outputs=` keyword when given, else the object's own); `update_surrogate` passes the new outputs and, as `replaced`, the
    outputs registered so far — the model's `checkNewIds (ids without old.outs) new.outs`. -/
theorem C03_table_check_args :
    Gen.checkArgs .add_parameters = ["_check_new_ids(names=v0)"] ∧
    Gen.checkArgs .add_variables = ["_check_new_ids(names=v0)"] ∧
    Gen.checkArgs .remove_parameters = ["_check_known_names(container=self._parameters, names=v0)"] ∧
    Gen.checkArgs .update_parameters = ["_check_known_names(container=self._parameters, names=v0)"] ∧
    Gen.checkArgs .remove_variables = ["_check_known_names(container=self._variables, names=v0)"] ∧
    Gen.checkArgs .update_variables = ["_check_known_names(container=self._variables, names=v0)"] ∧
    Gen.checkArgs .add_surrogate = ["_check_new_ids(names=[v0, *(v1.outputs if v3 is None else v3)])"] ∧
    Gen.checkArgs .update_surrogate = ["_check_new_ids(names=v1.outputs if v3 is None else v3, replaced=v5)"] ∧
    (∀ m, m ∉ [Gen.Mut.add_parameters, .add_variables, .remove_parameters, .update_parameters, .remove_variables,
        .update_variables, .add_surrogate, .update_surrogate] → Gen.checkArgs m = []) := by
  refine ⟨rfl, rfl, rfl, rfl, rfl, rfl, rfl, rfl, ?_⟩
  intro m hm
  cases m <;> first | rfl | (exact absurd (by decide) hm)

/-- The three surrogate mutators statement by statement (normal form).  `add_surrogate`: all names checked, the
    surrogate's id, the keyword overrides written INTO the object, one id per output of the overridden object, store.
    `update_surrogate`: unknown name rejected, the old outputs remembered BEFORE the object is replaced / overridden, new
    outputs checked against the ids minus the old ones, overrides, old ids removed, new ids inserted, store.
    `remove_surrogate`: pop (KeyError for an unknown name) before any id is freed, then the name and every output.
    In both forms the passed object is COPIED before the overrides are written (`v1 = copy.copy(v1)`): the caller's
    object keeps its content, and the stoichiometry dictionaries (edited in place by `remove_variable` /
    `make_parameter_dynamic`) are the model's own — the value semantics of the model's `Sur` arguments (F-C03-12).
    These are the bodies `addSurrogate` / `SurUpd.over`, `updateSurrogate` / `SurUpd.apply`, `removeSurrogate` follow. -/
theorem C03_table_surrogate_bodies :
    Gen.surrogateBodies =
    [
  ("add_surrogate", ["self._check_new_ids(names=[v0, *(v1.outputs if v3 is None else v3)], ctx='surrogate')", "self._insert_id(name=v0, ctx='surrogate')", "v1 = copy.copy(v1)", "if v2 is not None:; v1.args = v2", "if v3 is not None:; v1.outputs = v3", "if v4 is not None:; v1.stoichiometries = v4", "v1.stoichiometries = {v5: dict(v6) for v5, v6 in v1.stoichiometries.items()}", "for v7 in v1.outputs:; self._insert_id(name=v7, ctx='surrogate')", "self._surrogates[v0] = v1", "return self"]),
  ("update_surrogate", ["if v0 not in self._surrogates:; raise KeyError", "v5 = list(self._surrogates[v0].outputs)", "v1 = self._surrogates[v0] if v1 is None else copy.copy(v1)", "self._check_new_ids(names=v1.outputs if v3 is None else v3, ctx='surrogate', replaced=v5)", "if v2 is not None:; v1.args = v2", "if v3 is not None:; v1.outputs = v3", "if v4 is not None:; v1.stoichiometries = v4", "v1.stoichiometries = {v6: dict(v7) for v6, v7 in v1.stoichiometries.items()}", "for v8 in v5:; self._remove_id(name=v8)", "for v8 in v1.outputs:; self._insert_id(name=v8, ctx='surrogate')", "self._surrogates[v0] = v1", "return self"]),
  ("remove_surrogate", ["v1 = self._surrogates.pop(v0)", "self._remove_id(name=v0)", "for v2 in v1.outputs:; self._remove_id(name=v2)", "return self"])] := rfl

/-- "validate first": no mutator has a rejecting statement after its first write, except the final
    `if not target: raise` of `make_parameter_dynamic` (which the model carries as `setStoich`'s failure and
    `makeParameterDynamic_good` proves unreachable after the up-front check); and every method that the model
    rejects through a dictionary lookup does subscript its own container before it writes. -/
theorem C03_table_validate_first :
    (∀ m, m ≠ Gen.Mut.make_parameter_dynamic → Gen.lateGuards m = 0) ∧
    Gen.lateGuards .make_parameter_dynamic = 1 ∧
    Gen.loadsBefore .update_derived = ["_derived"] ∧ Gen.loadsBefore .update_reaction = ["_reactions"] ∧
    Gen.loadsBefore .make_variable_static = ["_variables"] ∧
    Gen.loadsBefore .make_parameter_dynamic = ["_parameters"] ∧
    (∀ m, ∀ x ∈ Gen.raisesBefore m, x = "KeyError") := by
  refine ⟨?_, rfl, rfl, rfl, rfl, rfl, ?_⟩
  · intro m hm; cases m <;> first | rfl | exact absurd rfl hm
  · intro m; cases m <;> decide

/-- every `add_*` writes the container of its own kind and registers the id under the matching `ctx`, every
    `remove_*` / `update_*` touches the same container (so ids values and containers cannot drift apart) -/
theorem C03_table_containers :
    Gen.Mut.all.map (fun m => (Gen.ctx m, Gen.containers m)) =
    [ (["parameter"], ["_parameters"]), ([], []), ([], ["_parameters"]), ([], []), ([], []), ([], []), ([], []),
      ([], []), ([], []),
      (["variable"], ["_variables"]), ([], []), ([], ["_variables"]), ([], []), ([], []), ([], []), ([], []),
      (["derived"], ["_derived"]), ([], []), ([], ["_derived"]),
      (["reaction"], ["_reactions"]), ([], []), ([], ["_reactions"]),
      (["readout"], ["_readouts"]), ([], ["_readouts"]),
      (["surrogate", "surrogate"], ["_surrogates"]), (["surrogate"], ["_surrogates"]), ([], ["_surrogates"]),
      (["data"], ["_data"]), ([], ["_data"]), ([], ["_data"]) ] := by decide

/-- the generated `__eq__` of the dataclass compares the ids and the seven containers and NOT the cache -/
theorem C03_table_eq_fields :
    Gen.eqFields = ["_ids", "_variables", "_parameters", "_derived", "_readouts", "_reactions", "_surrogates",
      "_data"] := rfl

/-! ## the whole public surface of `class Model` -/

/-- Every public function the class body defines is one of the 30 mutators (`C03_table_mutators`), or a reader the
    model answers, or a reader named as out of scope with its reason — and every name listed exists in the source.
    (The translator has already refused the source if any non-mutator writes `_ids` or a container, directly or
    through a call on `self`, or writes `_cache` outside `_create_cache`.)  A NEW public method makes this fail. -/
theorem C03_table_surface :
    (∀ r ∈ Gen.readers, r.1 ∈ modelledEntries ∨ r.1 ∈ outOfScope.map (·.1)) ∧
    (∀ n ∈ modelledEntries ++ outOfScope.map (·.1), n = "__eq__" ∨ n ∈ Gen.readers.map (·.1)) ∧
    -- … in exactly one of the two lists, each name once
    (∀ n ∈ modelledEntries, n ∉ outOfScope.map (·.1)) ∧ modelledEntries.Nodup ∧ (outOfScope.map (·.1)).Nodup ∧
    (Gen.readers.map (·.1)).Nodup ∧
    Gen.properties = ["ids", "parameters", "variables", "derived", "reactions"] ∧
    Gen.privates = ["_create_cache", "_insert_id", "_check_new_ids", "_check_known_names", "_remove_id",
      "_scaled_value", "_sorted_readouts", "_get_args", "_get_args_time_course", "_get_right_hand_side"] ∧
    -- the only places where one of the model's own dictionaries leaves a non-mutator uncopied: the
    -- `as_copy=False` escape of `get_raw_*` and a local alias that is only read
    Gen.liveRefs = [("get_raw_parameters", "_parameters"), ("get_raw_variables", "_variables"),
      ("get_raw_derived", "_derived"), ("get_derived_variables", "_derived"), ("get_derived_parameters", "_derived"),
      ("get_raw_reactions", "_reactions"), ("get_raw_readouts", "_readouts"), ("get_raw_surrogates", "_surrogates")] := by
  refine ⟨by decide, by decide, by decide, by decide, by decide, by decide, rfl, rfl, rfl⟩

/-- The model's classification of the query forms agrees with the source: a form the model answers from the cache
    stands for a method that does reach `self._cache`; a form the model answers WITHOUT a cache stands for a method
    that cannot reach it (so it cannot be stale) — except `get_arg_names`, which reaches it only under the two
    derived flags, and `==`, which is the dataclass' own. -/
theorem C03_query_entry (q : Query) :
    q.entry ∈ modelledEntries ∧
    (q.needsCache = true → Gen.readers.lookup q.entry = some true) ∧
    (q.needsCache = false →
      q.entry = "get_arg_names" ∨ q.entry = "__eq__" ∨ Gen.readers.lookup q.entry = some false) := by
  cases q with
  | names nq => cases nq <;> first | decide | exact ⟨by simp [Query.entry, modelledEntries], fun h => (by cases h), fun _ => Or.inr (Or.inr rfl)⟩
  | argNames fl => exact ⟨by simp [Query.entry, modelledEntries], fun _ => rfl, fun _ => Or.inl rfl⟩
  | rawStoich x => exact ⟨by simp [Query.entry, modelledEntries], fun h => (by cases h), fun _ => Or.inr (Or.inr rfl)⟩
  | eqFresh => decide
  | init => decide
  | pvals => decide
  | classes => decide
  | _ => exact ⟨by simp [Query.entry, modelledEntries], fun _ => rfl, fun h => (by cases h)⟩

/-- The private helpers the model's `insertId`, `removeId`, `checkNewIds`, `checkKnown`, `scaledValue` and `inval` are
    written after, statement by statement as read from the source (messages dropped, locals renamed by first
    appearance): `_insert_id` rejects "time", then a taken name, then stores; `_check_new_ids` starts from the ids
    minus `replaced` and adds each accepted name; `_check_known_names` rejects an unknown or repeated name;
    `_scaled_value` reads the parameter, goes through the cache only for an initial assignment and writes nothing;
    the `@_invalidate_cache` wrapper clears `_cache` unconditionally before it calls the method. -/
theorem C03_table_helpers :
    Gen.helperBodies =
    [ ("_insert_id", ["if v0 == 'time':; raise KeyError", "if v0 in self._ids:; raise NameError",
        "self._ids[v0] = v1"]),
      ("_remove_id", ["del self._ids[v0]"]),
      ("_check_new_ids", ["v3 = set(self._ids).difference(v2)",
        "for v4 in v0:; if v4 == 'time':; raise KeyError; if v4 in v3:; raise NameError; v3.add(v4)"]),
      ("_check_known_names", ["v3 = set()",
        "for v4 in v0:; if v4 in v3 or v4 not in v1:; raise KeyError; v3.add(v4)"]),
      ("_scaled_value", ["v2 = self._parameters[v0].value",
        "if isinstance(v2, InitialAssignment):; if (v3 := self._cache) is None:; v3 = self._create_cache(); v2 = v3.all_parameter_values[v0]",
        "return v2 * v1"]),
      ("_invalidate_cache", ["self = v0[0]", "self._cache = None", "return METHOD(*v0, **v1)"]) ] := rfl

/-! ## the cache is never stale -/

/-- After ANY history of mutators and queries the cache is empty or is exactly what `_create_cache` builds
    from the current content. -/
theorem C03_cache_valid (h : List HOp) : CacheOK (run init h) := by
  suffices ∀ s, CacheOK s → CacheOK (run s h) from this init (Or.inl rfl)
  induction h with
  | nil => intro s hs; exact hs
  | cons o rest ih =>
    intro s hs
    simp only [run, List.foldl_cons]
    apply ih
    cases o with
    | edit op given => exact stepS_cacheOK s op given hs
    | ask q => exact query_cacheOK s q hs
    | fork => exact hs

/-- Hence every query, after any history, answers exactly as a model freshly built from the current
    content (`freshAnswer` runs `createCache` on the content and answers from that). -/
theorem C03_fresh_equiv (h : List HOp) (q : Query) (hq : q ≠ .eqFresh) :
    (query (run init h) q).2 = freshAnswer (run init h).sigs (run init h).content q := by
  have hc := C03_cache_valid h
  generalize run init h = s at hc
  unfold query freshAnswer
  split
  · exact absurd rfl hq
  · split
    · unfold ensureCache
      rcases hc with hn | ⟨c, h1, h2⟩
      · rw [hn]
        simp only
        cases hcc : buildCache s.sigs s.content with
        | ok c => simp [bind, Except.bind]
        | error e => simp [bind, Except.bind]
      · rw [h2, h1]
        simp [bind, Except.bind]
    · rfl

/-- The entry points that do not go through `_create_cache` do not look at a cache at all (so the placeholder
    the model hands them is never read): names of variables / parameters / reactions / readouts / surrogate
    outputs and fluxes, unused parameters, raw stoichiometries, and `get_arg_names` without the two derived flags. -/
theorem C03_cachefree_queries (c : Content) (k1 k2 : Cache) (q : Query) (hq : q.needsCache = false) :
    answer c k1 q = answer c k2 q := by
  cases q with
  | names nq => cases nq <;> rfl
  | rawStoich x => rfl
  | eqFresh => rfl
  | argNames fl =>
    simp only [Query.needsCache, Bool.or_eq_false_iff] at hq
    simp only [answer, argNames, argNamesOf, hq.1, hq.2]
    rfl
  | _ => simp [Query.needsCache] at hq

/-- `model == other` for a newly built `other` with the same content: after ANY history the answer is `True`,
    whether or not a query has filled the cache — the generated `__eq__` does not compare `_cache`
    (fact read from the dataclass fields of the current source). -/
theorem C03_eq_fresh (h : List HOp) : (query (run init h) .eqFresh).2 = .ok (.bool true) := by
  have : ∀ s : State, eqFresh s = true := by
    intro s
    unfold eqFresh
    rw [C03_table_eq_fields]
    rfl
  simp only [query, this]

/-- A query edits nothing: content and ids are exactly as before (only the cache may have been filled). -/
theorem C03_query_is_pure (h : List HOp) (q : Query) :
    (query (run init h) q).1.content = (run init h).content ∧ (query (run init h) q).1.ids = (run init h).ids :=
  query_same _ q

/-- `freshAnswer` is the shared core's query (the function C01 is about), here for the right-hand side.
    (The shared core does not model the final `args.pop(data)` of `_get_args`; without data sets the two
    coincide.) -/
theorem C03_fresh_is_core_rhs (c : Content) (hd : c.data = []) (vals : List Rat) (t : Rat) :
    freshAnswer [] c (.rhs (some vals) t)
      = (Mxl.getRhsQ c (some (cycle vals 0 (omKeys c.vars))) t).map Ans.assoc := by
  have hn : (Query.rhs (some vals) t).needsCache = true := rfl
  have ha : arityOK [] c = true := by
    unfold arityOK
    exact List.all_eq_true.mpr (fun na _ => rfl)
  unfold freshAnswer buildCache
  rw [if_pos hn, if_pos ha]
  unfold Mxl.getRhsQ answer stateOf resolveVars rawArgs
  cases createCache c with
  | error e => rfl
  | ok cache =>
    simp only [bind, Except.bind, Option.getD_some, Except.map, hd]
    cases getArgsEnv c cache (cycle vals 0 (omKeys c.vars)) t with
    | error e => rfl
    | ok dep =>
      have : List.filter (fun kv : Name × Rat => !(omKeys ([] : List (Name × Rat))).contains kv.1) dep = dep := by
        apply List.filter_eq_self.mpr
        intro kv _
        rfl
      simp only [pure, Except.pure, this, List.append_nil, rhsFromArgs2_same]

/-! ## the sanity checks of `_create_cache` (function arities) -/

/-- what the translator read: the sanity-check loop walks initial assignments, derived quantities, reactions AND
    readouts, raises `ArityMismatchError`, and runs before the dependency sort -/
theorem C03_table_arity :
    Gen.arityChecked = ["initial_assignments", "_derived", "_reactions", "_readouts"] ∧
    Gen.arityError = "ArityMismatchError" ∧ Gen.arityBeforeSort = true := ⟨rfl, rfl, rfl⟩

/-- `_check_function_arity` as generated from the source: a function whose positional parameters are exactly
    the model arguments is accepted, so is any `*args` function; a plain function (no defaults, no keyword-only
    parameters, no `*args`) is accepted ONLY in that case. -/
theorem C03_check_function_arity (sig : Gen.Sig) (arity : Nat) :
    (sig.nargs = arity → Gen.checkFunctionArity sig arity = true) ∧
    (sig.varargs = true → Gen.checkFunctionArity sig arity = true) ∧
    (sig.defaults = none → sig.varargs = false →
      (Gen.checkFunctionArity sig arity = true ↔ sig.nargs = arity)) := by
  refine ⟨fun h => ?_, fun h => ?_, fun hd hv => ?_⟩
  · unfold Gen.checkFunctionArity; simp [h]
  · unfold Gen.checkFunctionArity; simp [h]
  · unfold Gen.checkFunctionArity; simp [hd, hv]

/-- A mismatch anywhere among the checked functions makes EVERY cache-building entry point raise
    `ArityMismatchError` — on the edited model exactly as on a freshly built one (`C03_fresh_equiv`) — whatever
    else is wrong with the content (it wins over a missing dependency). -/
theorem C03_arity_mismatch_raises (h : List HOp) (q : Query) (hq : q.needsCache = true)
    (hbad : arityOK (run init h).sigs (run init h).content = false) :
    (query (run init h) q).2 = .error (.other "ArityMismatchError") := by
  have hne : q ≠ .eqFresh := by intro he; rw [he] at hq; cases hq
  rw [C03_fresh_equiv h q hne]
  unfold freshAnswer buildCache
  rw [if_pos hq, hbad]
  rfl

/-- A raising call records no signature: content, ids AND the functions' signatures are those of before. -/
theorem C03_rejected_records_nothing (s : State) (op : Op) (given) (e : Err)
    (hr : (stepS s op given).2 = .error e) : (stepS s op given).1 = (step s op).1 := by
  unfold stepS at hr ⊢
  simp only at hr ⊢
  split
  · rename_i hok; rw [hok] at hr; cases hr
  · rfl

/-! ## one name space, kept exact by every edit -/

/-- After ANY history: `ids` holds exactly the declared names — the keys of the seven containers plus every
    surrogate's outputs — as multisets, no name occurs twice, and "time" is never a name. -/
theorem C03_ids_exact (h : List HOp) : Exact (run init h) := by
  suffices ∀ s, Exact s → Exact (run s h) from this init exact_init
  induction h with
  | nil => intro s hs; exact hs
  | cons o rest ih =>
    intro s hs
    simp only [run, List.foldl_cons]
    apply ih
    cases o with
    | edit op given => exact exact_of_same (stepS_same s op given) (step_exact s op hs)
    | ask q => exact exact_of_same (query_same s q) hs
    | fork => exact hs

/-- the same, as a permutation plus duplicate-freeness (all kinds of component share one name space) -/
theorem C03_one_name_space (h : List HOp) :
    (omKeys (run init h).ids).Perm (contentNames (run init h).content) ∧
    (contentNames (run init h).content).Nodup := by
  obtain ⟨he, hle, _⟩ := C03_ids_exact h
  refine ⟨List.perm_iff_count.mpr he, ?_⟩
  rw [List.nodup_iff_count]
  intro a
  have := he a
  have := hle a
  unfold idc cc at *
  omega

/-- A rejected edit changes nothing: after any history, ANY public mutator that raises — singular, composite
    or one of the seven forms taking several names — leaves content and ids exactly as they were (only the
    cache may have been cleared or filled). -/
theorem C03_rejected_is_noop (h : List HOp) (op : Op) (e : Err)
    (hr : (step (run init h) op).2 = .error e) :
    (step (run init h) op).1.content = (run init h).content ∧ (step (run init h) op).1.ids = (run init h).ids :=
  (step_good op _ (C03_ids_exact h)).2 e hr

/-- A name freed by a removal can be used again, for a component of any kind. -/
theorem C03_freed_name_reusable (h : List HOp) (rm : Op) (n : Name)
    (hrm : rm = .remove_parameter n ∨ rm = .remove_variable n true ∨ rm = .remove_variable n false ∨
      rm = .remove_derived n ∨ rm = .remove_reaction n ∨ rm = .remove_readout n ∨ rm = .remove_data n ∨
      rm = .remove_surrogate n)
    (hok : (step (run init h) rm).2 = .ok ()) :
    n ≠ "time" ∧ n ∉ omKeys (step (run init h) rm).1.ids ∧
    ∀ v, (step (step (run init h) rm).1 (.add_parameter n v)).2 = .ok () ∧
         (step (step (run init h) rm).1 (.add_variable n v)).2 = .ok () := by
  have hs := C03_ids_exact h
  generalize run init h = s at *
  have hs' : Exact (step s rm).1 := step_exact s rm hs
  -- the removed name was an id, so it is not "time"; after the removal it is no id any more
  have key : n ∈ omKeys s.ids ∧ n ∉ omKeys (step s rm).1.ids := by
    have hcnt : ∀ {β} (L : Lens β) (hL : LensLaw L) (m) (hm : Gen.idOrder m = .containerFirst),
        (removeG m L n (inval m s)).2 = .ok () →
        n ∈ omKeys s.ids ∧ n ∉ omKeys (removeG m L n (inval m s)).1.ids := by
      intro β L hL m hm hok
      have hs0 := exact_of_same (inval_same m s) hs
      rw [removeG_closed hm hL n hs0] at hok ⊢
      by_cases hmem : n ∈ omKeys (L.get (inval m s).content)
      · simp only [hmem, if_true]
        refine ⟨?_, ?_⟩
        · have := mem_ids_of_mem_keys hL hs0 hmem
          rwa [inval_ids] at this
        · intro hm2
          have h1 := List.count_pos_iff.mpr hm2
          have h2 := count_omKeys_omErase (inval m s).ids n n
          simp_all
      · simp [hmem] at hok
    rcases hrm with rfl | rfl | rfl | rfl | rfl | rfl | rfl | rfl
    · exact hcnt parsL parsL_law .remove_parameter (table_remove_order _ (by simp)) hok
    · have hmem : n ∈ omKeys s.content.vars := by
        by_cases hm : n ∈ omKeys s.content.vars
        · exact hm
        · have hc := removeVariable_closed n true hs
          have hm0 : n ∉ omKeys (inval .remove_variable s).content.vars := by rw [inval_content]; exact hm
          simp only [hm0, if_false] at hc
          simp only [step] at hok
          rw [hc] at hok; cases hok
      obtain ⟨s1, h1, _, hn1⟩ := removeVariable_ok_spec n true hs hmem
      simp only [step]
      rw [h1]
      exact ⟨mem_ids_of_mem_keys varsL_law hs hmem, hn1⟩
    · have hmem : n ∈ omKeys s.content.vars := by
        by_cases hm : n ∈ omKeys s.content.vars
        · exact hm
        · have hc := removeVariable_closed n false hs
          have hm0 : n ∉ omKeys (inval .remove_variable s).content.vars := by rw [inval_content]; exact hm
          simp only [hm0, if_false] at hc
          simp only [step] at hok
          rw [hc] at hok; cases hok
      obtain ⟨s1, h1, _, hn1⟩ := removeVariable_ok_spec n false hs hmem
      simp only [step]
      rw [h1]
      exact ⟨mem_ids_of_mem_keys varsL_law hs hmem, hn1⟩
    · exact hcnt derivedL derivedL_law .remove_derived (table_remove_order _ (by simp)) hok
    · exact hcnt rxnsL rxnsL_law .remove_reaction (table_remove_order _ (by simp)) hok
    · exact hcnt readoutsL readoutsL_law .remove_readout (table_remove_order _ (by simp)) hok
    · exact hcnt dataL dataL_law .remove_data (table_remove_order _ (by simp)) hok
    · by_cases hmem : n ∈ omKeys s.content.surs
      · obtain ⟨s3, h3, _, hn3⟩ := removeSurrogate_ok_spec n hs hmem
        have hin : n ∈ omKeys s.ids := by
          have h3' := keys_surs_le s n
          have h4 := hs.1 n
          have h5 := List.count_pos_iff.mpr hmem
          exact List.count_pos_iff.mp (by unfold idc at h4; omega)
        show n ∈ omKeys s.ids ∧ n ∉ omKeys (removeSurrogate n s).1.ids
        rw [h3]
        exact ⟨hin, hn3⟩
      · obtain ⟨e, he⟩ := removeSurrogate_rejected n hmem
        have hok' : (removeSurrogate n s).2 = .ok () := hok
        rw [he] at hok'; cases hok'
  have hnt := ne_time_of_mem_ids hs key.1
  refine ⟨hnt, key.2, fun v => ⟨?_, ?_⟩⟩
  · obtain ⟨s2, h2, _⟩ := addParameter_ok_spec n v hs' hnt key.2
    show (addParameter n v (step s rm).1).2 = .ok ()
    rw [h2]
  · obtain ⟨s2, h2, _⟩ := addVariable_ok_spec n v hs' hnt key.2
    show (addVariable n v (step s rm).1).2 = .ok ()
    rw [h2]

/-! ## one name space, operationally -/

/-- A name that is taken — by a component of ANY kind, or as a surrogate output — is refused by the `add_*` of EVERY
    kind with `NameError` (so, by `C03_rejected_is_noop`, nothing changes). -/
theorem C03_taken_name_rejected (h : List HOp) (n : Name) (hn : n ∈ omKeys (run init h).ids) :
    (∀ v, (step (run init h) (.add_parameter n v)).2 = .error (.nameError n)) ∧
    (∀ v, (step (run init h) (.add_variable n v)).2 = .error (.nameError n)) ∧
    (∀ f, (step (run init h) (.add_derived n f)).2 = .error (.nameError n)) ∧
    (∀ r, (step (run init h) (.add_reaction n r)).2 = .error (.nameError n)) ∧
    (∀ f, (step (run init h) (.add_readout n f)).2 = .error (.nameError n)) ∧
    (∀ v, (step (run init h) (.add_data n v)).2 = .error (.nameError n)) ∧
    (∀ su, (step (run init h) (.add_surrogate n su)).2 = .error (.nameError n)) := by
  have hs := C03_ids_exact h
  generalize run init h = s at *
  have hnt := ne_time_of_mem_ids hs hn
  have key : ∀ {β} (m) (hm : Gen.idOrder m = .idFirst) (L : Lens β) (k) (v : β),
      (addG m L k n v (inval m s)).2 = .error (.nameError n) := by
    intro β m hm L k v
    rw [addG_closed hm]
    simp [hnt, inval_ids, hn]
  refine ⟨fun v => key _ (table_add_order _ (by simp)) parsL _ v,
          fun v => key _ (table_add_order _ (by simp)) varsL _ v,
          fun f => key _ (table_add_order _ (by simp)) derivedL _ f,
          fun r => key _ (table_add_order _ (by simp)) rxnsL _ r,
          fun f => key _ (table_add_order _ (by simp)) readoutsL _ f,
          fun v => key _ (table_add_order _ (by simp)) dataL _ v, fun su => ?_⟩
  show (addSurrogate n su s).2 = _
  unfold addSurrogate
  simp [table_add_surrogate_checks, checkNewIds, hnt, inval_ids, hn, fail]

/-- …and a freed name can be used again for a component of EVERY kind (parameters and variables:
    `C03_freed_name_reusable`): derived quantity, reaction, readout, data set, and surrogate (with outputs that are
    free themselves). -/
theorem C03_freed_name_any_kind (h : List HOp) (rm : Op) (n : Name)
    (hrm : rm = .remove_parameter n ∨ rm = .remove_variable n true ∨ rm = .remove_variable n false ∨
      rm = .remove_derived n ∨ rm = .remove_reaction n ∨ rm = .remove_readout n ∨ rm = .remove_data n ∨
      rm = .remove_surrogate n)
    (hok : (step (run init h) rm).2 = .ok ()) :
    (∀ f, (step (step (run init h) rm).1 (.add_derived n f)).2 = .ok ()) ∧
    (∀ r, (step (step (run init h) rm).1 (.add_reaction n r)).2 = .ok ()) ∧
    (∀ f, (step (step (run init h) rm).1 (.add_readout n f)).2 = .ok ()) ∧
    (∀ v, (step (step (run init h) rm).1 (.add_data n v)).2 = .ok ()) ∧
    (∀ su, (∀ x ∈ su.outs, x ≠ "time" ∧ x ≠ n ∧ x ∉ omKeys (step (run init h) rm).1.ids) → su.outs.Nodup →
      (step (step (run init h) rm).1 (.add_surrogate n su)).2 = .ok ()) := by
  obtain ⟨hnt, hnot, _⟩ := C03_freed_name_reusable h rm n hrm hok
  have hs' : Exact (step (run init h) rm).1 := step_exact _ rm (C03_ids_exact h)
  generalize (step (run init h) rm).1 = s at *
  have cc0 : ∀ x, x ∉ omKeys s.ids → cc s x = 0 := by
    intro x hx
    have := hs'.1 x
    have h0 : idc s x = 0 := List.count_eq_zero.mpr hx
    omega
  refine ⟨fun f => (addG_ok_content (table_add_order .add_derived (by simp)) derivedL_law _ n f hs' hnt (cc0 n hnot)).1,
          fun r => (addG_ok_content (table_add_order .add_reaction (by simp)) rxnsL_law _ n r hs' hnt (cc0 n hnot)).1,
          fun f => (addG_ok_content (table_add_order .add_readout (by simp)) readoutsL_law _ n f hs' hnt (cc0 n hnot)).1,
          fun v => (addG_ok_content (table_add_order .add_data (by simp)) dataL_law _ n v hs' hnt (cc0 n hnot)).1,
          fun su hout hnd => ?_⟩
  refine (addSurrogate_ok_content n su hs' ?_ ?_).1
  · intro x hx
    rcases List.mem_cons.mp hx with rfl | hx
    · exact ⟨hnt, cc0 _ hnot⟩
    · exact ⟨(hout x hx).1, cc0 x (hout x hx).2.2⟩
  · exact List.nodup_cons.mpr ⟨fun hm => (hout n hm).2.1 rfl, hnd⟩

/-! ## the future depends on the content only; a rejected edit cannot be seen, now or later -/

/-- Two histories that end with the same content (and the same function objects) answer EVERY query alike —
    whatever was added, removed, queried or rejected on the way. -/
theorem C03_content_determines_answers (h1 h2 : List HOp)
    (hc : (run init h1).content = (run init h2).content) (hg : (run init h1).sigs = (run init h2).sigs)
    (q : Query) : (query (run init h1) q).2 = (query (run init h2) q).2 := by
  by_cases hq : q = .eqFresh
  · subst hq; rw [C03_eq_fresh h1, C03_eq_fresh h2]
  · rw [C03_fresh_equiv h1 q hq, C03_fresh_equiv h2 q hq, hc, hg]

/-- …and they have the same future: continued by ANY common history (edits accepted or rejected, queries, deep
    copies) they keep the same content, ids and signatures, answer every query alike and accept / reject every
    mutator call alike.  The memoised cache — the only thing in which the two models may differ — never shows. -/
theorem C03_same_content_same_future (h1 h2 : List HOp)
    (hc : (run init h1).content = (run init h2).content) (hi : (run init h1).ids = (run init h2).ids)
    (hg : (run init h1).sigs = (run init h2).sigs) (h : List HOp) :
    (run init (h1 ++ h)).content = (run init (h2 ++ h)).content ∧
    (run init (h1 ++ h)).ids = (run init (h2 ++ h)).ids ∧
    (run init (h1 ++ h)).sigs = (run init (h2 ++ h)).sigs ∧
    (∀ q, (query (run init (h1 ++ h)) q).2 = (query (run init (h2 ++ h)) q).2) ∧
    (∀ op given, (stepS (run init (h1 ++ h)) op given).2 = (stepS (run init (h2 ++ h)) op given).2) := by
  have hsim : Sim (run init h1) (run init h2) :=
    ⟨forget_eq_iff.mpr ⟨hc, hi, hg⟩, C03_cache_valid h1, C03_cache_valid h2⟩
  rw [run_append, run_append]
  exact sim_obs (run_sim h hsim)

/-- A rejected edit changes NOTHING a user can see: content, ids and the stored functions' signatures are exactly
    as before and the cache is still valid (empty or what `_create_cache` builds) — for every mutator, after any
    history. -/
theorem C03_rejected_state (h : List HOp) (op : Op) (given) (e : Err)
    (hr : (stepS (run init h) op given).2 = .error e) :
    (stepS (run init h) op given).1.content = (run init h).content ∧
    (stepS (run init h) op given).1.ids = (run init h).ids ∧
    (stepS (run init h) op given).1.sigs = (run init h).sigs ∧
    CacheOK (stepS (run init h) op given).1 := by
  have hs := rejected_sim (C03_cache_valid h) (C03_ids_exact h) op given e hr
  obtain ⟨hc, hi, hg, _⟩ := sim_obs hs
  exact ⟨hc, hi, hg, hs.2.1⟩

/-- Histories that MIX rejected edits: a rejected call can be deleted from any history without changing anything
    that comes later — final content, ids, signatures, every answer, every later acceptance or rejection. -/
theorem C03_rejected_transparent (h : List HOp) (op : Op) (given) (e : Err)
    (hr : (stepS (run init h) op given).2 = .error e) (h' : List HOp) :
    (run init (h ++ .edit op given :: h')).content = (run init (h ++ h')).content ∧
    (run init (h ++ .edit op given :: h')).ids = (run init (h ++ h')).ids ∧
    (run init (h ++ .edit op given :: h')).sigs = (run init (h ++ h')).sigs ∧
    (∀ q, (query (run init (h ++ .edit op given :: h')) q).2 = (query (run init (h ++ h')) q).2) ∧
    (∀ op' g', (stepS (run init (h ++ .edit op given :: h')) op' g').2
      = (stepS (run init (h ++ h')) op' g').2) := by
  have hs := rejected_sim (C03_cache_valid h) (C03_ids_exact h) op given e hr
  rw [run_append, run_append]
  exact sim_obs (run_sim h' hs)

/-- the same for a query that raised (missing dependency, arity mismatch, unknown label …): asking is invisible too -/
theorem C03_query_transparent (h : List HOp) (q0 : Query) (h' : List HOp) :
    (run init (h ++ .ask q0 :: h')).content = (run init (h ++ h')).content ∧
    (run init (h ++ .ask q0 :: h')).ids = (run init (h ++ h')).ids ∧
    (∀ q, (query (run init (h ++ .ask q0 :: h')) q).2 = (query (run init (h ++ h')) q).2) ∧
    (∀ op' g', (stepS (run init (h ++ .ask q0 :: h')) op' g').2 = (stepS (run init (h ++ h')) op' g').2) := by
  have hs : Sim (query (run init h) q0).1 (run init h) := by
    refine ⟨?_, query_cacheOK _ q0 (C03_cache_valid h), C03_cache_valid h⟩
    rcases query_fst (run init h) q0 with h1 | h1
    · rw [h1]
    · rw [h1]
      exact forget_eq_iff.mpr ⟨(ensureCache_same _).1, (ensureCache_same _).2, ensureCache_sigs _⟩
  rw [run_append, run_append]
  obtain ⟨hc, hi, _, ha, ho⟩ := sim_obs (run_sim h' hs)
  exact ⟨hc, hi, ha, ho⟩

/-! ## refinement: the edited model IS a freshly built model with the same content, up to the cache -/

/-- The central statement as a refinement.  Take ANY history (edits accepted or rejected, queries, deep copies) and
    the state `s` it ends in.  Build a new model from scratch by the `add_*` calls of `rebuild` (one per component of
    `s.content`, container by container — the same calls the harness' fresh-model oracle makes on the real code).
    Then the new model has EXACTLY the content of `s` (so none of the calls was rejected: a rejected call leaves its
    component out, `C03_rejected_is_noop`), its `_ids` are those of `s` up to order, its name space is exact, its cache is valid, and it answers every query exactly as `s` does.
    (`freshAnswer`, the right-hand side of `C03_fresh_equiv`, is therefore what an actual freshly built model
    answers: `C03_fresh_is_rebuilt`.) -/
theorem C03_refines_fresh (h : List HOp) :
    (freshState (run init h)).content = (run init h).content ∧
    (omKeys (freshState (run init h)).ids).Perm (omKeys (run init h).ids) ∧
    Exact (freshState (run init h)) ∧ CacheOK (freshState (run init h)) ∧
    (∀ q, (query (freshState (run init h)) q).2 = (query (run init h) q).2) := by
  have hs := C03_ids_exact h
  obtain ⟨hx, hc, hg⟩ := rebuild_spec hs
  have hok : CacheOK (freshState (run init h)) := C03_cache_valid _
  refine ⟨hc, ?_, hx, hok, fun q => ?_⟩
  · have p1 := (C03_one_name_space (rebuild (run init h).sigs (run init h).content)).1
    have p2 := (C03_one_name_space h).1
    have e : (run init (rebuild (run init h).sigs (run init h).content)).content = (run init h).content := hc
    rw [e] at p1
    exact p1.trans p2.symm
  · by_cases hq : q = .eqFresh
    · subst hq
      rw [C03_eq_fresh h]
      exact C03_eq_fresh (rebuild (run init h).sigs (run init h).content)
    · have e1 := C03_fresh_equiv (rebuild (run init h).sigs (run init h).content) q hq
      have e2 := C03_fresh_equiv h q hq
      have hc' : (run init (rebuild (run init h).sigs (run init h).content)).content = (run init h).content := hc
      have hg' : (run init (rebuild (run init h).sigs (run init h).content)).sigs
          = sigFold (run init h).sigs (fnKeys (run init h).content) [] := hg
      rw [hc', hg', freshAnswer_rebuilt] at e1
      exact e1.trans e2.symm

/-- `freshAnswer` is not only a definition: it is what the model built from scratch answers -/
theorem C03_fresh_is_rebuilt (h : List HOp) (q : Query) (hq : q ≠ .eqFresh) :
    (query (freshState (run init h)) q).2 = freshAnswer (run init h).sigs (run init h).content q := by
  rw [(C03_refines_fresh h).2.2.2.2 q]
  exact C03_fresh_equiv h q hq

/-! ## non-vacuity -/

/-- an explicit history — build, query, update, remove, re-add the freed name under another kind, query —
    that ends with a filled cache -/
def demoRate : Fn := { args := ["x", "k"], fn := fun xs => (xs.getD 0 0) * (xs.getD 1 0) }

def demoHistory : List HOp :=
  [ .edit (.add_variable "x" (.plain 1)),
    .edit (.add_parameter "k" (.plain 2)),
    .edit (.add_reaction "r" { rate := demoRate, stoich := [("x", .num (-1))] }),
    .ask (.rhs none 0),
    .edit (.update_parameter "k" (some (.plain 3))),
    .edit (.remove_parameter "k"),
    .edit (.add_variable "k" (.plain 5)),
    .ask (.rhs none 0) ]

example : (run init demoHistory).cache.isSome = true := by decide +kernel

example : omKeys (run init demoHistory).ids = ["x", "r", "k"] := by decide +kernel

/-- rejected edits exist: a wrong-kind removal, and a batch whose second element is taken (the former
    finding F-C03-10: it used to keep `n1`) -/
example : (step (run init [.edit (.add_parameter "k" (.plain 2))]) (.remove_variable "k" true)).2
      = .error (.keyError "k") := rfl

example :
    (step (run init [.edit (.add_parameter "k" (.plain 3))])
      (.add_parameters [("n1", .plain 1), ("k", .plain 2)])).2 = .error (.nameError "k") ∧
    omKeys (step (run init [.edit (.add_parameter "k" (.plain 3))])
      (.add_parameters [("n1", .plain 1), ("k", .plain 2)])).1.ids = ["k"] := ⟨rfl, by decide +kernel⟩

/-- the arity path is live: a readout whose function takes two parameters for one argument makes the next
    query raise; removing the readout repairs the model (this is the history of finding F-C03-9) -/
def badReadout : List HOp :=
  [ .edit (.add_variable "x" (.plain 1)),
    .ask .init,
    .edit (.add_readout "ro" { args := ["x"], fn := fun xs => xs.getD 0 0 }) [("ro", { nargs := 2 })] ]

example : (match (query (run init badReadout) .init).2 with
    | .error (.other e) => e == "ArityMismatchError" | _ => false) = true := by decide +kernel

example : (match (query (run init (badReadout ++ [.edit (.remove_readout "ro")])) .init).2 with
    | .ok (.assoc l) => l == [("x", (1 : Rat))] | _ => false) = true := by decide +kernel

example : arityOK (run init badReadout).sigs (run init badReadout).content = false := by decide +kernel

/-- `C03_rejected_transparent` is not vacuous: a rejected call inside a history (here after a query filled the cache,
    and the rejected call carries `@_invalidate_cache`, so the two runs really differ in their caches) -/
example : (match (stepS (run init (demoHistory.take 4)) (.add_parameter "x" (.plain 7)) []).2 with
    | .error (.nameError n) => n == "x" | _ => false) = true := by decide +kernel

example : (run init (demoHistory.take 4 ++ [.edit (.add_parameter "x" (.plain 7))])).cache.isNone = true ∧
    (run init (demoHistory.take 4)).cache.isSome = true := by decide +kernel

end Mxl.C03
