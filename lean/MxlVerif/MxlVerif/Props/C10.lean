/-
C10 — result views are consistent functions of states and segment parameters.

All theorems are about the executable model the driver runs (`Model/C10.lean`:
`read`, `runHistory`, `normSplit`, …) and the executable stateless specification
(`Model/C10Spec.lean`: `specRead`, `specHistory`).  Hypotheses:

* `WF res m0`: every parameter snapshot lists exactly the plain (not assignment-defined)
  parameters of the model content `m0` the result was made from, and the times within a
  segment are distinct (what the `Simulator` records);
* `Inv res m0 st`: the state of the result object — its shared model is `m0` up to the
  numbers in plain parameters (anything `update_parameters` with numbers can do), its
  memo cell is empty or filled;
* `createCache m0 = .ok k0`: the model evaluates at its own initial state.
-/
import MxlVerif.Lemmas.C10RhsNames
namespace Mxl.C10

/-! ## the refinement: every read answers what the stateless pointwise specification says -/

/-- **Main theorem (full: no query is excluded since the repair of F-C10-2).**  Whatever was read before, in
    whatever order, and whatever numbers the shared model's parameters hold now: a read that
    succeeds returns exactly `specRead res m0 q` — row `(i, t)` evaluated pointwise under
    segment `i`'s parameters, normalised per global row, stacked in order, scaled producers /
    consumers multiplied by the coefficient at the row's own state and time — leaves the
    object in a state where this holds again, and hands the shared model back exactly as
    it found it. -/
theorem C10_read_refines_spec {res : Res} {m0 : Content} {k0 : Cache} {st st' : St}
    {q : Query} {v : View} (wf : WF res m0) (hm0 : createCache m0 = .ok k0)
    (hi : Inv res m0 st)
    (h : read res q st = .ok (v, st')) :
    specRead res m0 q = .ok v ∧ Inv res m0 st' ∧ st'.model = st.model := by
  cases q with
  | args f n cc => exact getArgsV_spec wf hm0 hi h
  | vars dv ro sv n cc => exact getVariablesV_spec wf hm0 hi h
  | fluxes sur n cc => exact getFluxesV_spec wf hm0 hi h
  | variablesProp => exact getVariablesV_spec wf hm0 hi h
  | fluxesProp => exact getFluxesV_spec wf hm0 hi h
  | combined => exact getCombinedV_spec wf hm0 hi h
  | rhs n cc => exact getRhsV_spec wf hi h
  | prodCons prod x sc n cc => exact getProdConsV_spec wf hm0 hi h
  | newY0 => exact getNewY0V_spec hi h

/-! ### the witness of the former finding F-C10-2 (a state-dependent coefficient), now answered as specified -/

/-- one variable `x` whose coefficient in `r2` is the state `x` itself -/
def witnessContent : Content :=
  { vars := [("x", .plain 1), ("y", .plain 2)],
    pars := [("k", .plain 2)],
    rxns := [("r2", { rate := { args := ["k", "y"], fn := fun xs => xs.getD 0 0 * xs.getD 1 0 },
                      stoich := [("x", .dyn { args := ["x"], fn := fun xs => xs.getD 0 0 }),
                                 ("y", .num (-1))] })] }

def witnessRes : Res :=
  { rawVars := [[(0, [("x", 1), ("y", 3)]), (1, [("x", 2), ("y", 4)])]],
    rawPars := [[("k", 2)]] }

/-- entry `r2` of the second row of a concatenated view -/
def viewEntry : View → Option Rat
  | .frame t => (t.getD 1 default).2.lookup "r2"
  | _ => none

theorem witness_wf : WF witnessRes witnessContent := by
  refine ⟨?_, ?_, ?_⟩
  · intro p hp a ha _
    simp [witnessRes] at hp; subst hp
    simp [witnessContent] at ha; subst ha
    simp [omKeys]
  · intro p hp a ha _
    simp [witnessContent] at ha; subst ha
    trivial
  · intro tbl ht
    simp [witnessRes] at ht; subst ht
    decide

/-- the former witness of F-C10-2: scaled producers of `x` (coefficient = the state `x` itself) report, in the row
    where `x = 2`, the flux times the coefficient AT THAT ROW, `8 · 2 = 16` — in the model and in the
    specification (the pinned code multiplied by the coefficient at the model's initial state: 8) -/
theorem C10_scaled_uses_row_coefficient :
    (match read witnessRes (.prodCons true "x" true .none true) { model := witnessContent } with
      | .ok (v, _) => viewEntry v
      | .error _ => none) = some 16 ∧
    (match specRead witnessRes witnessContent (.prodCons true "x" true .none true) with
      | .ok v => viewEntry v
      | .error _ => none) = some 16 := by
  constructor <;> decide +kernel

/-- non-vacuity: the scaled consumers of `y` (constant coefficient `-1`) on the same model: the read succeeds -/
example :
    (match read witnessRes (.prodCons false "y" true (.list [2, 4]) true) { model := witnessContent } with
      | .ok (v, _) => viewEntry v
      | .error _ => none) = some 2 := by
  decide +kernel

/-- non-vacuity of the main theorem on a two-segment result with a parameter change
    between the segments (`k = 2`, then `k = -3`), read after the owner of the model set
    `k = 5`: the read succeeds and its last row is the specification's -/
example :
    let res : Res :=
      { rawVars := [[(0, [("x", 1), ("y", 3)])], [(1, [("x", 5), ("y", 1)]), (2, [("x", 2), ("y", 4)])]],
        rawPars := [[("k", 2)], [("k", -3)]] }
    let st : St := { model := { witnessContent with pars := [("k", .plain 5)] } }
    (match read res (.rhs .none true) st with
      | .ok (.frame t, st') => (t.getLast?.map (·.2), st'.model.pars.map (·.1))
      | _ => (none, [])) = (some [("x", -24), ("y", 12)], ["k"]) ∧
    (match specRead res witnessContent (.rhs .none true) with
      | .ok (.frame t) => t.getLast?.map (·.2)
      | _ => none) = some [("x", -24), ("y", 12)] := by
  refine ⟨?_, ?_⟩ <;> decide +kernel

/-! ## reading repeatedly, in any order, after any parameter change -/

def eventOk (res : Res) (m0 : Content) : Event → Prop
  | .read _ => True
  | .setPars p => PlainOnly m0 p
  | .modelPars => True

/-- **Idempotence / order independence / no side effect on the model.**  In any history of
    reads, numeric parameter changes on the shared model and looks at the model's
    parameters: every event that succeeds returns what the specification returns — reads
    are answered from `(res, m0)` alone (neither the history nor the model's current
    parameter values are mentioned), and the model's owner sees exactly the parameters he
    set (`cur` is only changed by `setPars`). -/
theorem C10_idempotent {res : Res} {m0 : Content} {k0 : Cache} (wf : WF res m0)
    (hm0 : createCache m0 = .ok k0) :
    ∀ (evs : List Event) (st : St), Inv res m0 st → (∀ e ∈ evs, eventOk res m0 e) →
      All₂ (fun r s => ∀ v, r = .ok v → s = .ok v)
        (runHistory res evs st) (specHistory res m0 st.model evs) := by
  intro evs
  induction evs with
  | nil => intro st _ _; exact .nil
  | cons e rest ih =>
    intro st hi hok
    have hrest : ∀ e' ∈ rest, eventOk res m0 e' := fun e' he' => hok e' (by simp [he'])
    cases e with
    | read q =>
      simp only [runHistory, specHistory]
      split
      · exact .cons (fun v hv => by cases hv) (ih st hi hrest)
      · rename_i v st' hr
        obtain ⟨hs, hi', hm⟩ := C10_read_refines_spec wf hm0 hi hr
        have := ih st' hi' hrest
        rw [hm] at this
        exact .cons (fun v' hv' => by cases hv'; exact hs) this
    | setPars p =>
      have hp : PlainOnly m0 p := hok (.setPars p) (by simp)
      simp only [runHistory, specHistory]
      split
      · rename_i e' he'
        rw [he']
        exact .cons (fun v hv => by cases hv) (ih st hi hrest)
      · rename_i c hw
        rw [hw]
        exact .cons (fun v hv => hv) (ih _ (hi.setPars hp hw) hrest)
    | modelPars =>
      simp only [runHistory, specHistory]
      exact .cons (fun v hv => hv) (ih st hi hrest)

/-- **A read does not change the model it shares with its owner** (after `fix: restore the
    model's parameters …`; before it, every read left the last segment's parameters
    behind — finding F-C10-5). -/
theorem C10_read_leaves_model_untouched {res : Res} {q : Query} {st st' : St} {v : View}
    (h : read res q st = .ok (v, st')) : st'.model = st.model := read_model h

/-- two successful reads of the same query return the same view, whatever the two
    histories of the object were -/
theorem C10_same_answer_any_history {res : Res} {m0 : Content} {k0 : Cache} {q : Query}
    {st1 st1' st2 st2' : St} {v1 v2 : View} (wf : WF res m0) (hm0 : createCache m0 = .ok k0)
    (h1 : Inv res m0 st1) (h2 : Inv res m0 st2)
    (r1 : read res q st1 = .ok (v1, st1')) (r2 : read res q st2 = .ok (v2, st2')) :
    v1 = v2 := by
  have a := (C10_read_refines_spec wf hm0 h1 r1).1
  have b := (C10_read_refines_spec wf hm0 h2 r2).1
  rw [a] at b
  cases b
  rfl

/-- later numeric parameter changes on the shared model keep the object in a good state:
    by the main theorem they cannot alter any view -/
theorem C10_model_pars_irrelevant {res : Res} {m0 : Content} {st : St} {p : Pars} {c : Content}
    (hi : Inv res m0 st) (hp : PlainOnly m0 p) (hw : withPars st.model p = .ok c) :
    Inv res m0 { st with model := c } := hi.setPars hp hw

/-- re-applying a snapshot erases whatever numbers the shared model held: the mechanism
    behind the previous theorem -/
theorem C10_snapshot_absorbs {m0 c : Content} {p : Pars} (h : PlainEq m0 c) (hc : Covers m0 p) :
    withPars c p = withPars m0 p := withPars_absorb h hc

/-! ## what a view row is -/

/-- **Row `(i, j)` of an argument view** (any flag combination) is the core's pointwise
    row under the model with *segment `i`'s* snapshot applied, at that row's state and time,
    restricted to the requested names — independent of the shared model's current
    parameter values and of everything read before. -/
theorem C10_view_at_segment_pars {res : Res} {m0 : Content} {k0 : Cache} {st st' : St}
    {f : Flags} {F : List Table} (wf : WF res m0) (hm0 : createCache m0 = .ok k0)
    (hi : Inv res m0 st) (h : read res (.args f .none false) st = .ok (.frames F, st')) :
    ∃ names, selectNames m0 f = .ok names ∧
      ∀ (i : Nat) (tbl : Table) (p : Pars), res.rawVars[i]? = some tbl → res.rawPars[i]? = some p →
        ∃ c Fi, withPars m0 p = .ok c ∧ F[i]? = some Fi ∧
          ∀ (j : Nat) (r : Rat × Row), tbl[j]? = some r →
            ∃ full row, pointRow c r.1 r.2 = .ok full ∧ selectRow names full = .ok row ∧
              Fi[j]? = some (r.1, row) := by
  have hs := (getArgsV_spec (f := f) (n := .none) (cc := false) wf hm0 hi h).1
  unfold specArgsView specSelected at hs
  split at hs
  · cases hs
  · rename_i sel hsel
    split at hsel
    · cases hsel
    · rename_i T hT
      split at hsel
      · cases hsel
      · rename_i names hn
        rw [specAdjust_none] at hs
        simp only [Bool.false_eq_true, if_false] at hs
        cases hs
        refine ⟨names, hn, ?_⟩
        intro i tbl p htbl hp
        obtain ⟨a, hTa, hseg⟩ := zipWithE_get hT i tbl p htbl hp
        rw [specSegArgs_eq] at hseg
        split at hseg
        · cases hseg
        · rename_i c hw
          obtain ⟨Fi, hFi, hselT⟩ := mapE_get hsel i a hTa
          refine ⟨c, Fi, hw, hFi, ?_⟩
          intro j r hr
          obtain ⟨b, hb, hrow⟩ := mapE_get hseg j r hr
          unfold specRowFn at hrow
          split at hrow
          · cases hrow
          · rename_i full hfull
            cases hrow
            unfold selectTable at hselT
            obtain ⟨o, ho, hsr⟩ := mapE_get hselT j _ hb
            split at hsr
            · cases hsr
            · rename_i row hrow'
              cases hsr
              exact ⟨full, row, hfull, hrow', ho⟩

/-! ## stoichiometry × reported fluxes = reported derivatives -/

/-- **Row `(i, j)` of the derivative view** is the core's `N·v` accumulation
    (`rhsFromArgs`: static coefficients from segment `i`'s cache, computed coefficients
    evaluated on the row) applied to the *reported* full row `(i, j)` and its time. -/
theorem C10_Nv_eq_dxdt {res : Res} {m0 : Content} {st st' : St} {D : List Table}
    (wf : WF res m0) (hi : Inv res m0 st)
    (h : read res (.rhs .none false) st = .ok (.frames D, st')) :
    ∀ (i : Nat) (tbl : Table) (p : Pars), res.rawVars[i]? = some tbl → res.rawPars[i]? = some p →
      ∃ c cache Di, withPars m0 p = .ok c ∧ createCache c = .ok cache ∧ D[i]? = some Di ∧
        ∀ (j : Nat) (r : Rat × Row), tbl[j]? = some r →
          ∃ full d, pointRow c r.1 r.2 = .ok full ∧
            rhsFromArgs cache (omKeys c.vars) ((("time", r.1) :: full) ++ c.data) = .ok d ∧
            Di[j]? = some (r.1, d) := by
  have hs := (getRhsV_spec (n := .none) (cc := false) wf hi h).1
  unfold specRhs at hs
  split at hs
  · cases hs
  · rename_i ds hds
    rw [specAdjust_none] at hs
    simp only [Bool.false_eq_true, if_false] at hs
    cases hs
    intro i tbl p htbl hp
    obtain ⟨Di, hDi, hseg⟩ := zipWithE_get hds i tbl p htbl hp
    rw [specSegRhs_eq] at hseg
    split at hseg
    · cases hseg
    · rename_i c hw
      split at hseg
      · cases hseg
      · rename_i cache hc
        refine ⟨c, cache, Di, hw, hc, hDi, ?_⟩
        intro j r hr
        obtain ⟨b, hb, hrow⟩ := mapE_get hseg j r hr
        unfold specRhsRowFn at hrow
        split at hrow
        · cases hrow
        · rename_i full hfull
          split at hrow
          · cases hrow
          · rename_i d hd
            cases hrow
            exact ⟨full, d, hfull, hd, hb⟩

/-- … and that is the core's `get_right_hand_side(state, time)` at the row's state under
    the segment's parameters, whenever the reported row agrees with the core's environment
    on every name the stoichiometry reads (`rhsNames`: the fluxes and the arguments of the
    computed coefficients) — true when those are reported names or `time` -/
theorem C10_rhs_row_is_core_rhs {c : Content} {cache : Cache} {t : Rat} {s full : Row} {dep : Env}
    (hc : createCache c = .ok cache) (hdep : getArgsEnv c cache s t = .ok dep)
    (hagree : ∀ k ∈ rhsNames cache, Env.get ((("time", t) :: full) ++ c.data) k = Env.get dep k) :
    rhsFromArgs cache (omKeys c.vars) ((("time", t) :: full) ++ c.data) = getRhsQ c (some s) t := by
  unfold getRhsQ
  simp only [bind, Except.bind, hc, resolveVars, Option.getD_some, hdep]
  exact rhsFromArgs_congr hagree

/-- the hypothesis of the previous theorem, discharged from structural facts about the
    model (`RhsNamesOk`, computable as `rhsNamesOkB`: every name the stoichiometry reads is
    `time` or a reported column, none is a readout or a data set, nothing computed is called
    `time`): **the reported derivative is the core's derivative at the row's state and time
    under the segment's parameters** -/
theorem C10_reported_derivative_is_core_derivative {c : Content} {cache : Cache} {t : Rat}
    {s full : Row} (hok : rhsNamesOkB c cache = true) (hc : createCache c = .ok cache)
    (hfull : pointRow c t s = .ok full) :
    rhsFromArgs cache (omKeys c.vars) ((("time", t) :: full) ++ c.data) = getRhsQ c (some s) t := by
  cases hg : getArgsEnv c cache s t with
  | error e => simp [pointRow, hc, pointEnv, hg] at hfull
  | ok dep =>
    have hok' := rhsNamesOk_of_B hok
    refine C10_rhs_row_is_core_rhs hc hg ?_
    intro k hk
    rw [get_append_of_not_key _ _ (hok'.notData k hk)]
    exact row_agrees hok' hc hg hfull k hk

/-- non-vacuity: the structural check holds for the witness model (which has a
    state-dependent computed coefficient) -/
example : (match createCache witnessContent with
    | .ok cache => rhsNamesOkB witnessContent cache
    | .error _ => false) = true := by decide +kernel

/-! ## concatenated view = per-segment views stacked in order -/

/-- **Concatenated = stacked.**  For the argument views (hence variables and fluxes) and
    the derivative view: the concatenated call returns exactly the rows of the
    per-segment frames, in segment order, and leaves the same state. -/
theorem C10_concat_is_stack_args {res : Res} {f : Flags} {n : Norm} {st st' : St} {v : View} :
    getArgsV res f n true st = .ok (v, st') ↔
      ∃ F, getArgsV res f n false st = .ok (.frames F, st') ∧ F ≠ [] ∧ v = .frame F.flatten := by
  unfold getArgsV
  cases computeArgs res st with
  | error e => simp
  | ok x =>
    obtain ⟨tabs, st1⟩ := x
    simp only
    cases selectData st1.model f tabs with
    | error e => simp
    | ok sel =>
      simp only
      constructor
      · intro h
        split at h
        · cases h
        · rename_i v' hv
          cases h
          obtain ⟨F, hF, hne, rfl⟩ := adjust_concat.1 hv
          exact ⟨F, by rw [hF], hne, rfl⟩
      · intro ⟨F, hF, hne, hv⟩
        split at hF
        · cases hF
        · rename_i v' hv'
          cases hF
          rw [adjust_concat.2 ⟨F, hv', hne, hv⟩]

theorem C10_concat_is_stack_rhs {res : Res} {n : Norm} {st st' : St} {v : View} :
    getRhsV res n true st = .ok (v, st') ↔
      ∃ F, getRhsV res n false st = .ok (.frames F, st') ∧ F ≠ [] ∧ v = .frame F.flatten := by
  unfold getRhsV
  cases computeArgs res st with
  | error e => simp
  | ok x =>
    obtain ⟨tabs, st1⟩ := x
    simp only
    cases rhsLoop st1.model tabs res.rawPars with
    | error e => simp
    | ok y =>
      obtain ⟨ds, c⟩ := y
      simp only
      constructor
      · intro h
        split at h
        · cases h
        · rename_i v' hv
          cases h
          obtain ⟨F, hF, hne, rfl⟩ := adjust_concat.1 hv
          exact ⟨F, by rw [hF], hne, rfl⟩
      · intro ⟨F, hF, hne, hv⟩
        split at hF
        · cases hF
        · rename_i v' hv'
          cases hF
          rw [adjust_concat.2 ⟨F, hv', hne, hv⟩]

/-- the same for producers / consumers, which concatenate on their own -/
theorem C10_concat_is_stack_prodcons {res : Res} {prod : Bool} {x : Name} {sc : Bool} {n : Norm}
    {st st' : St} {v : View} :
    getProdConsV res prod x sc n true st = .ok (v, st') ↔
      ∃ F, getProdConsV res prod x sc n false st = .ok (.frames F, st') ∧ F ≠ [] ∧
        v = .frame F.flatten := by
  unfold getProdConsV
  cases res.rawPars with
  | nil => simp
  | cons p0 rest =>
    simp only
    cases withPars st.model p0 with
    | error e => simp
    | ok c0 =>
      simp only
      cases stoichOfVar c0 x with
      | error e => simp
      | ok s0 =>
        simp only
        cases getFluxesV res true n false { st with model := c0 } with
        | error e => simp
        | ok y =>
          obtain ⟨view, st1⟩ := y
          cases view with
          | frame t => simp
          | dict d => simp
          | frames tabs =>
            simp only
            cases mapE (selectTable (pickNames prod s0)) tabs with
            | error e => simp
            | ok sel =>
              simp only
              cases (if sc = true then
                  scaleLoop x (pickNames prod s0) (if prod = true then 1 else -1) st1.model sel res.rawVars (p0 :: rest)
                else Except.ok (sel, st1.model)) with
              | error e => simp
              | ok z =>
                obtain ⟨out, c⟩ := z
                simp only [if_true, Bool.false_eq_true, if_false]
                constructor
                · intro h
                  split at h
                  · cases h
                  · rename_i hne
                    cases h
                    exact ⟨out, rfl, by simpa using hne, rfl⟩
                · intro ⟨F, hF, hne, hv⟩
                  cases hF
                  subst hv
                  have : out.isEmpty = false := by cases out <;> simp_all
                  simp [this]

/-! ## normalisation: scalar, per segment, per row -/

/-- a scalar divides every entry -/
theorem C10_normalise_scalar {tabs out : List Table} {f : Rat}
    (h : normSplit tabs (.scalar f) = .ok out) :
    out = tabs.map (fun t => t.map (scaleRow f)) := by
  have hs := normSplit_spec h
  simp only [normSplit] at h
  have h2 := (mapE_ok_iff _ _ _).1 h
  clear h hs
  induction h2 with
  | nil => rfl
  | cons hab _ ih => rw [(divTable_ok hab).1, ih]; rfl

/-- one factor per segment (`len(normalise) == len(results)`): segment `j` is divided by
    `fs[j]` -/
theorem C10_normalise_per_segment {tabs out : List Table} {fs : List Rat}
    (hl : fs.length = tabs.length) (h : normSplit tabs (.list fs) = .ok out) :
    out = List.zipWith (fun f t => t.map (scaleRow f)) fs tabs := by
  simp only [normSplit, if_pos hl] at h
  exact (perSegment_ok h).1

/-- one factor per row: the segment lengths are kept and *global* row `r` (counted across
    segments, offset `Σ_{j<i} |seg_j|`) is divided by `fs[r]` -/
theorem C10_normalise_per_row {tabs out : List Table} {fs : List Rat}
    (hl : fs.length ≠ tabs.length) (h : normSplit tabs (.list fs) = .ok out) :
    out.map List.length = tabs.map List.length ∧
      out.flatten = List.zipWith scaleRow fs tabs.flatten ∧
      totalRows tabs ≤ fs.length := by
  simp only [normSplit, if_neg hl] at h
  obtain ⟨h1, h2, h3, _⟩ := perRow_ok h
  simp only [List.drop_zero, Nat.zero_add, Nat.zero_max] at h2 h3
  exact ⟨h1, h2, h3⟩

/-- the per-row branch succeeds exactly when there are enough non-zero factors (the
    repaired loop neither returns `[]` nor mis-slices) -/
theorem C10_normalise_per_row_total (tabs : List Table) (fs : List Rat) (start : Nat)
    (hlen : start + totalRows tabs ≤ fs.length)
    (hnz : ∀ f ∈ (fs.drop start).take (totalRows tabs), f ≠ 0) :
    ∃ out, perRow tabs fs start = .ok out := by
  induction tabs generalizing start with
  | nil => exact ⟨[], rfl⟩
  | cons t ts ih =>
    have e : totalRows (t :: ts) = t.length + totalRows ts := by simp [totalRows]
    rw [e] at hlen hnz
    have hsl : ((fs.drop start).take t.length).length = t.length := by
      simp [List.length_take]; omega
    have hrows : ∀ (rows : Table) (gs : List Rat), rows.length = gs.length →
        (∀ g ∈ gs, g ≠ 0) → ∃ o, divRows rows gs = .ok o := by
      intro rows
      induction rows with
      | nil => intro gs _ _; exact ⟨[], rfl⟩
      | cons r rs ihr =>
        intro gs hg hz
        cases gs with
        | nil => simp at hg
        | cons g gs =>
          obtain ⟨o, ho⟩ := ihr gs (by simpa using hg) (fun x hx => hz x (by simp [hx]))
          refine ⟨scaleRow g r :: o, ?_⟩
          simp [divRows, divRow, hz g (by simp), ho]
    obtain ⟨t', ht'⟩ := hrows t ((fs.drop start).take t.length) hsl.symm (by
      intro g hg
      apply hnz g
      rw [List.take_add]
      exact List.mem_append_left _ hg)
    obtain ⟨ts', hts'⟩ := ih (start + t.length) (by omega) (by
      intro g hg
      apply hnz g
      rw [List.take_add, List.drop_drop]
      exact List.mem_append_right _ hg)
    refine ⟨t' :: ts', ?_⟩
    unfold perRow
    simp only [hsl, ne_eq, not_true_eq_false, if_false, ht', hts']

/-! ## producers and consumers -/

/-- **Partition.**  Over a stoichiometry dict: no flux is both a producer and a consumer,
    and every flux with a non-zero coefficient is one of the two. -/
theorem C10_producers_consumers_partition (st : List (Name × Rat)) (hn : (omKeys st).Nodup) :
    (∀ k, ¬ (k ∈ pickNames true st ∧ k ∈ pickNames false st)) ∧
    (∀ k x, (k, x) ∈ st → x ≠ 0 → k ∈ pickNames true st ∨ k ∈ pickNames false st) ∧
    (∀ k, k ∈ pickNames true st → ∃ x, (k, x) ∈ st ∧ x > 0) ∧
    (∀ k, k ∈ pickNames false st → ∃ x, (k, x) ∈ st ∧ x < 0) := by
  refine ⟨fun k h => pickNames_disjoint st k ⟨h.1, h.2, hn⟩,
    fun k x h hx => pickNames_cover st k x h hx, ?_, ?_⟩
  · intro k hk
    simp only [pickNames, List.mem_map, List.mem_filter, if_true, decide_eq_true_eq] at hk
    obtain ⟨⟨k', x⟩, ⟨hm, hp⟩, rfl⟩ := hk
    exact ⟨x, hm, hp⟩
  · intro k hk
    simp only [pickNames, List.mem_map, List.mem_filter, Bool.false_eq_true, if_false,
      decide_eq_true_eq] at hk
    obtain ⟨⟨k', x⟩, ⟨hm, hp⟩, rfl⟩ := hk
    exact ⟨x, hm, hp⟩

/-- scaling multiplies exactly the selected columns by (±) their coefficient and leaves
    times, other columns and the row order alone -/
theorem C10_scaled_is_coefficient_times_flux {stoichs : List (Name × Rat)} {names : List Name}
    {sgn : Rat} {t t' : Table} (h : scaleTable stoichs names sgn t = .ok t') :
    ∃ coefs, scaleCoefs stoichs names sgn = .ok coefs ∧ t' = t.map (scaleRowBy coefs) ∧
      omKeys coefs = names ∧
      ∀ k x, (k, x) ∈ coefs → ∃ y, stoichs.lookup k = some y ∧ x = sgn * y := by
  rw [scaleTable_eq] at h
  split at h
  · cases h
  · rename_i coefs hc
    cases h
    refine ⟨coefs, hc, rfl, ?_, ?_⟩
    · unfold scaleCoefs at hc
      have h2 := (mapE_ok_iff _ _ _).1 hc
      clear hc
      induction h2 with
      | nil => rfl
      | cons hab _ ih =>
        split at hab
        · cases hab
        · cases hab; simp [omKeys] at ih ⊢; exact ih
    · unfold scaleCoefs at hc
      have h2 := (mapE_ok_iff _ _ _).1 hc
      clear hc
      intro k x hm
      induction h2 with
      | nil => simp at hm
      | cons hab _ ih =>
        simp only [List.mem_cons] at hm
        rcases hm with hm | hm
        · split at hab
          · cases hab
          · rename_i y hy
            cases hab
            cases hm
            exact ⟨y, hy, rfl⟩
        · exact ih hm

end Mxl.C10
