import MxlVerif.Model.C10Spec
namespace Mxl.C10
end Mxl.C10
