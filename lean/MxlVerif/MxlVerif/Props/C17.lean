/-
C17 — SBML import builds the model the document describes.
The parse / MathML→sympy stage is the third-party pysbml package; the theorems are about the declarative
document semantics (Model/C17Doc.lean, spec) and about mxlpy's own stage: argument lists of the generated
functions, initial assignments, names of generated functions, name of the generated module.
-/
import MxlVerif.Lemmas.C17
namespace Mxl.C17
open Mxl.C08

/-- Argument lists: `_codegen` gives a generated function the free symbols of its expression as parameters, in
    whatever order `free_symbols` (a set) yields them, and registers the same list as the component's `args`.
    For every list that covers the identifiers of the expression, calling the function with the values of
    those names gives the value of the expression in the model's environment. -/
theorem C17_glue_args_sound (I : Interp) (env : VEnv) (m : MathML) (args : List String)
    (hcover : ∀ n ∈ mathNames m, n ∈ args) :
    evalMath I (bindArgs env args args) m = evalMath I env m := by
  apply evalMath_congr
  intro n hn
  simp [bindArgs, lookup_zip_self (hcover n hn)]

/-- … in particular the order of the list does not matter. -/
theorem C17_glue_args_order_irrelevant (I : Interp) (env : VEnv) (m : MathML) (args args' : List String)
    (h : ∀ n ∈ mathNames m, n ∈ args) (h' : ∀ n ∈ mathNames m, n ∈ args') :
    evalMath I (bindArgs env args args) m = evalMath I (bindArgs env args' args') m := by
  rw [C17_glue_args_sound I env m args h, C17_glue_args_sound I env m args' h']

/-- An initial assignment decides the initial value, whatever the `value` / `initialAmount` /
    `initialConcentration` attribute says (`_codegen` overwrites `sym.parameters[key].value`). -/
theorem C17_ia_overrides (I : Interp) (d d' : SDoc) (fuel : Nat) (n : String) (m : MathML)
    (hia : lookupLast d.inits n = some m) (hsame : d'.inits = d.inits)
    (henv : docInit I d' fuel = docInit I d fuel) :
    docInit I d' (fuel + 1) n = docInit I d (fuel + 1) n := by
  simp [docInit, hsame, hia, henv]

/-- amount ↔ symbol conversions are inverse to each other for a compartment of non-zero size -/
theorem C17_amount_sym_inverse (d : Doc) (s : Species) (a : Rat) (hV : compSize d s.comp ≠ 0) :
    amountOfSym d s (symOfAmount d s a) = a := by
  unfold amountOfSym symOfAmount
  by_cases h : s.hosu = true
  · simp [h]
  · simp only [h]
    exact Rat.div_mul_cancel hV

/-! ### names of generated functions (`_free_name`; finding F-C17-1, repaired) -/

/-- the chosen name is not one of the component function names, it is the requested name if that is free,
    and otherwise the requested name followed by underscores only -/
theorem C17_free_name (taken : List String) :
    ∀ (fuel : Nat) (name r : String), freeName taken name fuel = some r →
      taken.contains r = false ∧ (taken.contains name = false → r = name) ∧
        ∃ k, r.toList = name.toList ++ List.replicate k '_' := by
  intro fuel
  induction fuel with
  | zero => intro name r h; simp [freeName] at h
  | succ fuel ih =>
    intro name r h
    simp only [freeName] at h
    by_cases ht : taken.contains name = true
    · rw [if_pos ht] at h
      obtain ⟨h1, _, k, hk⟩ := ih (name ++ "_") r h
      refine ⟨h1, ?_, k + 1, ?_⟩
      · intro hf
        rw [ht] at hf
        cases hf
      · rw [hk, String.toList_append]
        have : "_".toList = ['_'] := by decide
        rw [this, List.append_assoc]
        simp [List.replicate_succ]
    · rw [if_neg ht] at h
      simp only [Option.some.injEq] at h
      subst h
      have hf : taken.contains name = false := by simpa using ht
      exact ⟨hf, fun _ => rfl, 0, by simp⟩

/-- before the repair the name was `init_<x>` unconditionally: with a derived quantity of that name the
    two generated functions coincide (witness of the collision the repair removes) -/
theorem C17_init_name_collision_without_free_name :
    "init_" ++ "k" = "init_k" ∧ freeName ["init_k"] ("init_" ++ "k") 3 = some "init_k_" := by
  decide

/-! ### name of the generated module (`valid_filename` + content digest; finding F-C17-2, repaired) -/

/-- distinct stems can normalise to the same file name … -/
theorem C17_stem_collision :
    normStem "Model-1" = normStem "model 1" ∧ normStem "A" = normStem "a" ∧ normStem "m.v2" = normStem "mv2" ∧
      "Model-1" ≠ "model 1" := by
  decide

/-- … but two generated modules have the same name only if the digests of their documents agree (digests of
    equal length, e.g. the 12 hex digits `read` takes). -/
theorem C17_two_docs_independent (s1 s2 d1 d2 : String) (hlen : d1.length = d2.length)
    (h : moduleName s1 d1 = moduleName s2 d2) : d1 = d2 := by
  unfold moduleName at h
  have h' := congrArg String.toList h
  simp only [String.toList_append] at h'
  have hl : d1.toList.length = d2.toList.length := by rw [String.length_toList, String.length_toList, hlen]
  exact String.ext (List.append_inj_right' h' hl)

end Mxl.C17
