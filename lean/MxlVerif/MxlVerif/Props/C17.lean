/-
C17 — SBML import builds the model the document describes.
The parse / MathML→sympy stage is the third-party pysbml package; the theorems are about the declarative
document semantics (Model/C17Doc.lean, spec) and about mxlpy's own stage: argument lists of the generated
functions, initial assignments, names of generated functions, name of the generated module.
-/
import MxlVerif.Lemmas.C17
import MxlVerif.Lemmas.C17Codegen
import MxlVerif.Lemmas.C17Names
import MxlVerif.Lemmas.C17Rename
import MxlVerif.Lemmas.C17Session
namespace Mxl.C17
open Mxl.C08

/-- Argument lists: `_codegen` gives a generated function the free symbols of its expression as parameters, in
    whatever order `free_symbols` (a set) yields them, and registers the same list as the component's `args`.
    For every list that covers the identifiers of the expression, calling the function with the values of
    those names gives the value of the expression in the model's environment. -/
theorem C17_glue_args_sound (I : Interp) (env : VEnv) (m : MathML) (args : List String)
    (hcover : ∀ n ∈ mathNames m, n ∈ args) :
    evalMath I (bindArgs env args args) m = evalMath I env m := by
  apply evalMath_congr
  intro n hn
  simp [bindArgs, lookup_zip_self (hcover n hn)]

/-- … in particular the order of the list does not matter. -/
theorem C17_glue_args_order_irrelevant (I : Interp) (env : VEnv) (m : MathML) (args args' : List String)
    (h : ∀ n ∈ mathNames m, n ∈ args) (h' : ∀ n ∈ mathNames m, n ∈ args') :
    evalMath I (bindArgs env args args) m = evalMath I (bindArgs env args' args') m := by
  rw [C17_glue_args_sound I env m args h, C17_glue_args_sound I env m args' h']

/-- An initial assignment decides the initial value, whatever the `value` / `initialAmount` /
    `initialConcentration` attribute says (`_codegen` overwrites `sym.parameters[key].value`). -/
theorem C17_ia_overrides (I : Interp) (d d' : SDoc) (fuel : Nat) (n : String) (m : MathML)
    (hia : lookupLast d.inits n = some m) (hsame : d'.inits = d.inits)
    (henv : docInit I d' fuel = docInit I d fuel) :
    docInit I d' (fuel + 1) n = docInit I d (fuel + 1) n := by
  simp [docInit, hsame, hia, henv]

/-- amount ↔ symbol conversions are inverse to each other for a compartment of non-zero size -/
theorem C17_amount_sym_inverse (d : Doc) (s : Species) (a : Rat) (hV : compSize d s.comp ≠ 0) :
    amountOfSym d s (symOfAmount d s a) = a := by
  unfold amountOfSym symOfAmount
  by_cases h : s.hosu = true
  · simp [h]
  · simp only [h]
    exact Rat.div_mul_cancel hV

/-! ### names of generated functions (`_free_name`; finding F-C17-1, repaired) -/

/-- the chosen name is not one of the component function names, it is the requested name if that is free,
    and otherwise the requested name followed by underscores only -/
theorem C17_free_name (taken : List String) :
    ∀ (fuel : Nat) (name r : String), freeName taken name fuel = some r →
      taken.contains r = false ∧ (taken.contains name = false → r = name) ∧
        ∃ k, r.toList = name.toList ++ List.replicate k '_' := by
  intro fuel
  induction fuel with
  | zero => intro name r h; simp [freeName] at h
  | succ fuel ih =>
    intro name r h
    simp only [freeName] at h
    by_cases ht : taken.contains name = true
    · rw [if_pos ht] at h
      obtain ⟨h1, _, k, hk⟩ := ih (name ++ "_") r h
      refine ⟨h1, ?_, k + 1, ?_⟩
      · intro hf
        rw [ht] at hf
        cases hf
      · rw [hk, String.toList_append]
        have : "_".toList = ['_'] := by decide
        rw [this, List.append_assoc]
        simp [List.replicate_succ]
    · rw [if_neg ht] at h
      simp only [Option.some.injEq] at h
      subst h
      have hf : taken.contains name = false := by simpa using ht
      exact ⟨hf, fun _ => rfl, 0, by simp⟩

/-- before the repair the name was `init_<x>` unconditionally: with a derived quantity of that name the
    two generated functions coincide (witness of the collision the repair removes) -/
theorem C17_init_name_collision_without_free_name :
    "init_" ++ "k" = "init_k" ∧ freeName ["init_k"] ("init_" ++ "k") 3 = some "init_k_" := by
  decide

/-! ### name of the generated module (`valid_filename` + content digest; finding F-C17-2, repaired) -/

/-- distinct stems can normalise to the same file name … -/
theorem C17_stem_collision :
    normStem "Model-1" = normStem "model 1" ∧ normStem "A" = normStem "a" ∧ normStem "m.v2" = normStem "mv2" ∧
      "Model-1" ≠ "model 1" := by
  decide

/-- … but two generated modules have the same name only if the digests of their documents agree (digests of
    equal length, e.g. the 12 hex digits `read` takes). -/
theorem C17_two_docs_independent (s1 s2 d1 d2 : String) (hlen : d1.length = d2.length)
    (h : moduleName s1 d1 = moduleName s2 d2) : d1 = d2 := by
  unfold moduleName at h
  have h' := congrArg String.toList h
  simp only [String.toList_append] at h'
  have hl : d1.toList.length = d2.toList.length := by rw [String.length_toList, String.length_toList, hlen]
  exact String.ext (List.append_inj_right' h' hl)

/-! ### boundary / constant species (round 4) — properties of the REFERENCE SEMANTICS `docRhs17`, not of the import code

The two theorems below unfold the declarative document semantics (what the tie compares the imported model with); they say what
that specification prescribes for boundary species.  The clause "derivatives = stoichiometry × kinetic laws, prescribed initial
values" is established for the code by the differential tie (pysbml's parse / transform is third party), not by a theorem. -/

/-- (specification) a boundary / constant species takes part in reactions without being changed by them: its amount has derivative 0
    at every state, whatever the reactions and laws (there are no rate rules in the subset) -/
theorem C17_fixed_species_constant (I : Interp) (d : Doc) (amounts : List (String × Rat)) (x : String) (s : Species)
    (hs : findSpecies d x = some s) (hf : s.fixed = true) : docRhs17 I d amounts x = some 0 := by
  simp [docRhs17, hs, hf]

/-- (specification) … and every other species keeps the reading of the flat document: Σ (products − reactants) · law -/
theorem C17_free_species_rhs (I : Interp) (d : Doc) (amounts : List (String × Rat)) (x : String) (s : Species)
    (hs : findSpecies d x = some s) (hf : s.fixed = false) :
    docRhs17 I d amounts x = docRhs I (toSDoc d) (symState d amounts) x := by
  simp [docRhs17, hs, hf]

/-! ### two documents read in one session do not interfere (Model/C17Session.lean) -/

open Mxl.C17.GenSession in
/-- what `_import.py` writes outside the call is the generated file and the `sys.modules` entry of ITS module name and
    nothing else (`sessionEffects`, regenerated from the source: the translator refuses any other store, `global`,
    decorator, module-level state), the name is `mb_<normalised stem>_<digest>` -/
theorem C17_session_footprint :
    sessionEffects = [.file, .sysModules] ∧
    (∀ d : ReadIn, outName d = moduleName d.stem d.digest) ∧
    (∀ (s : Session) (b : ReadIn) (n : String), n ≠ outName b →
       sourceOf (readDoc s b).1 n = sourceOf s n ∧ loadedOf (readDoc s b).1 n = loadedOf s n) :=
  ⟨rfl, outName_eq, readDoc_frame⟩

/-- **Non-interference.**  Read `a` in any session, then any number of further documents: as long as every later document
    with the same module name has the same generated code (below: the same digest, i.e. the same bytes), the source of the
    functions of `a`'s model and the text its module was loaded from are still `a`'s — whatever the stems, the order, the
    earlier contents of the session. -/
theorem C17_session_noninterference (s : Session) (a : ReadIn) (bs : List ReadIn)
    (h : ∀ b ∈ bs, outName b = outName a → b.code = a.code) :
    sourceOf (readAll (readDoc s a).1 bs).1 (readDoc s a).2 = some a.code ∧
    loadedOf (readAll (readDoc s a).1 bs).1 (readDoc s a).2 = some a.code := by
  obtain ⟨h0, h1, h2⟩ := readDoc_own s a
  rw [h0]
  exact readAll_preserves a (outName a) bs _ h h1 h2

/-- … in terms of the documents: digests of the length `read` takes, and equal digests only for equal generated code
    (sha256 collision-free on the documents of the session, code a function of the content) -/
theorem C17_session_independent (s : Session) (a : ReadIn) (bs : List ReadIn)
    (hlen : ∀ b ∈ bs, b.digest.length = a.digest.length)
    (hcode : ∀ b ∈ bs, b.digest = a.digest → b.code = a.code) :
    sourceOf (readAll (readDoc s a).1 bs).1 (readDoc s a).2 = some a.code ∧
    loadedOf (readAll (readDoc s a).1 bs).1 (readDoc s a).2 = some a.code := by
  apply C17_session_noninterference
  intro b hb hn
  rw [outName_eq, outName_eq] at hn
  exact hcode b hb (C17_two_docs_independent _ _ _ _ (hlen b hb) hn)

/-- **The digest naming, under explicit collision-freeness.**  Let `dg` give digests of one length and be collision-free on
    the contents read in the session (`dg b = dg a → b = a` for the later documents `b`).  Then, whatever the stems:
    (1) reading `a` and then any later files leaves the source and the loaded text under `a`'s handle those of `a`'s content;
    (2) two files with different contents get different module names (`dg c₁ ≠ dg c₂`, any stems);
    (3) the same content under stems that normalise alike gets the same module name and the same code — the second read
        rewrites the file with the text it already has (harmless). -/
theorem C17_session_digest_naming (dg cg : String → String) (N : Nat) (hlen : ∀ c, (dg c).length = N) :
    (∀ (s : Session) (stemA a : String) (bs : List (String × String)),
        (∀ b ∈ bs, dg b.2 = dg a → b.2 = a) →
        let ra := readInOf dg cg stemA a
        let rbs := bs.map fun b => readInOf dg cg b.1 b.2
        sourceOf (readAll (readDoc s ra).1 rbs).1 (readDoc s ra).2 = some (cg a) ∧
        loadedOf (readAll (readDoc s ra).1 rbs).1 (readDoc s ra).2 = some (cg a)) ∧
    (∀ s1 s2 c1 c2, dg c1 ≠ dg c2 → outName (readInOf dg cg s1 c1) ≠ outName (readInOf dg cg s2 c2)) ∧
    (∀ s1 s2 c, normStem s1 = normStem s2 →
        outName (readInOf dg cg s1 c) = outName (readInOf dg cg s2 c) ∧ (readInOf dg cg s1 c).code = (readInOf dg cg s2 c).code) := by
  refine ⟨?_, ?_, ?_⟩
  · intro s stemA a bs hcf
    apply C17_session_independent
    · intro b hb
      obtain ⟨b0, _, rfl⟩ := List.mem_map.mp hb
      simp [readInOf, hlen]
    · intro b hb hd
      obtain ⟨b0, hb0, rfl⟩ := List.mem_map.mp hb
      simp only [readInOf] at hd ⊢
      rw [hcf b0 hb0 hd]
  · intro s1 s2 c1 c2 hne heq
    rw [outName_eq, outName_eq] at heq
    exact hne (C17_two_docs_independent _ _ _ _ (by simp [readInOf, hlen]) heq)
  · intro s1 s2 c hn
    refine ⟨?_, rfl⟩
    rw [outName_eq, outName_eq]
    simp [readInOf, moduleName, hn]

/-- the handles `read` returns are the module names, in order -/
theorem C17_session_handles (s : Session) (ds : List ReadIn) : (readAll s ds).2 = ds.map outName :=
  readAll_handles ds s

/-- without the digest in the name the second document takes the first one's file (F-C17-2, repaired): same name,
    other code — the hypothesis of `C17_session_noninterference` is what fails -/
example : let a : ReadIn := ⟨"Model-1", "", "code A"⟩; let b : ReadIn := ⟨"model 1", "", "code B"⟩
    sourceOf (readAll (readDoc Session.empty a).1 [b]).1 (readDoc Session.empty a).2 = some "code B" := by
  decide +kernel
example : let a : ReadIn := ⟨"Model-1", "0123456789ab", "code A"⟩; let b : ReadIn := ⟨"model 1", "ba9876543210", "code B"⟩
    sourceOf (readAll (readDoc Session.empty a).1 [b, a, b]).1 (readDoc Session.empty a).2 = some "code A" := by
  decide +kernel

/-! ### the naming / glue stage of `generate_mxlpy_code_from_symbolic_repr` and `_codegen` (Model/C17Codegen.lean) -/

/-- `_free_name` terminates: `len(taken) + 1` rounds always suffice (every round meets another element of
    `taken`), and the name it returns is not taken. -/
theorem C17_free_name_terminates (taken : List String) (name : String) :
    freeName taken name (taken.length + 1) = some (freshName taken name) ∧ freshName taken name ∉ taken :=
  ⟨freshName_spec taken name, freshName_not_taken taken name⟩

/-- **Every reference resolves to the definition its component registered.**  Whenever the function names of
    the derived quantities and reactions are pairwise distinct (on the import path they are the keys of the
    document's rules and reactions), executing the emitted module — looking every `fn=<name>` up among the
    module's definitions — builds exactly the calls the representation prescribes: same order, same keys, same
    keyword, and for every initial assignment / derived quantity / reaction / computed stoichiometry the
    (expression, parameter list) of *that* component, called with the same list. -/
theorem C17_codegen_refs_resolve (s : SymRepr) (hnd : (takenOf s).Nodup) (m : Module) (h : genModule s = .ok m) :
    resolveModule m = specCalls s := by
  simp only [genModule, genModuleWith] at h
  split at h
  · cases h
  · split at h
    · cases h
    · simp only [Except.ok.injEq] at h
      subst h
      exact (genState_spec s hnd).2.2

/-- the refusal of two different functions under one name never fires when the function names of derived quantities and
    reactions are pairwise distinct — on the import path they are the ids of the document's rules and reactions -/
theorem C17_names_check_passes_on_distinct (s : SymRepr) (hnd : ((compFns s).map (·.fnName)).Nodup) :
    namesConsistent s = true := by
  simp only [namesConsistent, List.all_eq_true]
  intro f hf
  cases hw : writtenRef (compFns s) f.fnName with
  | none => rfl
  | some g =>
    have hg := List.find?_some hw
    have hmem := List.mem_of_find?_eq_some hw
    simp only [Bool.and_eq_true, beq_iff_eq] at hg
    have := eq_of_name_eq_of_nodup _ hnd f hf g hmem hg.1
    subst this
    simp

/-- the renaming of shadowing parameters (`sympy_to_python_fn`, F-C17-13): as many parameters as arguments, none of them
    a name the body calls, and nothing changes when no argument is such a name — the call sites are positional, so the
    references of `C17_codegen_refs_resolve` are unaffected -/
theorem C17_shadow_rename (called args : List String) :
    (shadowRename called args).length = args.length ∧
    (∀ x ∈ shadowRename called args, called.contains x = false) ∧
    ((∀ a ∈ args, called.contains a = false) → shadowRename called args = args) :=
  shadowGo_spec called args (args ++ called) (fun c hc => List.mem_append_right _ hc)

/-- **No overwrite happens**: the emitted function names are pairwise distinct, and there is one definition per
    function the representation asks for (initial assignments, derived quantities, reactions, computed
    stoichiometries); every definition has pairwise distinct parameters (else the generator raises). -/
theorem C17_codegen_function_names_distinct (s : SymRepr) (hnd : (takenOf s).Nodup) (m : Module)
    (h : genModule s = .ok m) :
    (m.functions.map (·.1)).Nodup ∧ m.functions.length = fnsAsked s ∧ ∀ kv ∈ m.functions, hasDup kv.2.2 = false := by
  simp only [genModule, genModuleWith] at h
  split at h
  · cases h
  · split at h
    · cases h
    · rename_i hdup
      simp only [Except.ok.injEq] at h
      subst h
      refine ⟨(genState_spec s hnd).1, (genState_spec s hnd).2.1, ?_⟩
      intro kv hkv
      simp only [List.any_eq_true, not_exists, not_and, Bool.not_eq_true] at hdup
      exact hdup kv hkv

/-- the witness of F-C17-9: before the repair (names handed out were not added to `taken`) parameters `a` and
    `a_` with initial assignments next to a derived quantity called `init_a` both got `init_a_`; `a` was then
    initialised with the formula of `a_`.  With the repair the same input resolves as prescribed. -/
def wCollide : SymRepr :=
  { variables := []
    parameters := [("a", { value := .fn { fnName := "a", expr := 1, args := ["q"] }, unit := false }),
                   ("a_", { value := .fn { fnName := "a_", expr := 2, args := ["q"] }, unit := false })]
    derived := [("init_a", { fnName := "init_a", expr := 3, args := ["q"] })]
    reactions := [] }

theorem C17_generated_names_collided_before_repair :
    (genModuleWith false wCollide).toOption.map resolveModule ≠ some (specCalls wCollide) ∧
    (genModuleWith false wCollide).toOption.map (·.functions.map (·.1)) = some ["init_a_", "init_a"] ∧
    (genModule wCollide).toOption.map (·.functions.map (·.1)) = some ["init_a_", "init_a__", "init_a"] := by
  decide +kernel

/-- non-vacuity: the witness has pairwise distinct component function names and is accepted -/
example : (takenOf wCollide).Nodup ∧ (genModule wCollide).toBool = true := by decide +kernel

/-- `_codegen`: the function of a derived quantity / reaction is called like its key, so the hypothesis of the two
    theorems above is "the keys of pysbml's `derived` and `reactions` are pairwise distinct". -/
theorem C17_import_refs_resolve (pm : PModel) (hnd : (pm.derived.map (·.1) ++ pm.reactions.map (·.1)).Nodup)
    (m : Module) (h : genModule (importSym pm) = .ok m) :
    resolveModule m = specCalls (importSym pm) ∧ (m.functions.map (·.1)).Nodup :=
  have hnd' : (takenOf (importSym pm)).Nodup := by rw [takenOf_importSym]; exact hnd
  ⟨C17_codegen_refs_resolve _ hnd' m h, (C17_codegen_function_names_distinct _ hnd' m h).1⟩

/-- non-vacuity of `C17_import_refs_resolve` / `C17_import_ia_overrides_value`: a pysbml model with two reactions (one with a
    computed coefficient), a rule-defined quantity and an initial assignment on a parameter -/
def pm₀ : PModel :=
  { variables := [("S1", 1, false), ("S2", 2, false)]
    parameters := [("k", 3, false), ("q", 4, false)]
    derived := [("ratio", ⟨5, ["S1", "k"]⟩)]
    reactions := [("R1", ⟨⟨6, ["S1", "k"]⟩, [("S1", .float 7), ("S2", .other ⟨8, ["q"]⟩)]⟩),
                  ("R2", ⟨⟨9, ["S2", "ratio"]⟩, [("S2", .float 7)]⟩)]
    inits := [("q", ⟨10, ["k"]⟩)] }

example : (pm₀.derived.map (·.1) ++ pm₀.reactions.map (·.1)).Nodup ∧ (pm₀.inits.map (·.1)).Nodup ∧
    (genModule (importSym pm₀)).toBool = true ∧ hasKey pm₀.parameters "q" = true ∧ ("q", (⟨10, ["k"]⟩ : PExpr)) ∈ pm₀.inits ∧
    (importSym pm₀).parameters.lookup "q" = some { value := .fn { fnName := "q", expr := 10, args := ["k"] }, unit := false } := by
  decide +kernel

/-- `_codegen`: an initial assignment on a parameter replaces that parameter's value by the assignment's
    function (named after the key, parameters = its free symbols); on a variable that is no parameter likewise;
    keys, order and units are untouched. -/
theorem C17_import_ia_overrides_value (pm : PModel) (key : String) (e : PExpr) (hnd : (pm.inits.map (·.1)).Nodup)
    (hmem : (key, e) ∈ pm.inits) :
    (hasKey pm.parameters key = true →
      (importSym pm).parameters.lookup key =
        (pm.parameters.lookup key).map fun vu => { value := .fn { fnName := key, expr := e.expr, args := e.free }, unit := vu.2 }) ∧
    (hasKey pm.parameters key = false → hasKey pm.variables key = true →
      (importSym pm).variables.lookup key =
        (pm.variables.lookup key).map fun vu => { value := .fn { fnName := key, expr := e.expr, args := e.free }, unit := vu.2 }) ∧
    (importSym pm).parameters.map (·.1) = pm.parameters.map (·.1) ∧
    (importSym pm).variables.map (·.1) = pm.variables.map (·.1) := by
  have lk : ∀ (l : List (String × ExprId × Bool)),
      (l.map fun kv => (kv.1, ({ value := .num kv.2.1, unit := kv.2.2 } : SymQty))).lookup key =
        (l.lookup key).map fun vu => ({ value := .num vu.1, unit := vu.2 } : SymQty) := by
    intro l
    induction l with
    | nil => rfl
    | cons kv rest ih =>
      simp only [List.map_cons, List.lookup]
      split <;> simp_all
  refine ⟨?_, ?_, ?_, ?_⟩
  · intro hp
    unfold importSym
    rw [applyInits_parameter pm key e hp pm.inits _ hnd hmem]
    simp only [lk]
    cases pm.parameters.lookup key <;> rfl
  · intro hp hv
    unfold importSym
    rw [applyInits_variable pm key e hp hv pm.inits _ hnd hmem]
    simp only [lk]
    cases pm.variables.lookup key <;> rfl
  · unfold importSym
    rw [(applyInits_keys pm pm.inits _).1]
    simp [List.map_map]
  · unfold importSym
    rw [(applyInits_keys pm pm.inits _).2.1]
    simp [List.map_map]

/-- `_codegen`: an initial assignment whose key is neither a parameter nor a variable of the pysbml model is
    dropped without a message (reachable: pysbml keeps the assignment of a species in a non-constant compartment
    under the species' id, which it turns into a derived quantity, next to the one it adds for `<id>_amount`). -/
theorem C17_import_ia_elsewhere_dropped (pm : PModel) (key : String) (e : PExpr) (rest : List (String × PExpr))
    (s : SymRepr) (hp : hasKey pm.parameters key = false) (hv : hasKey pm.variables key = false) :
    applyInits pm ((key, e) :: rest) s = applyInits pm rest s := by
  simp [applyInits, hp, hv]

/-! ### the identifier mapping (pysbml `name_to_py`, modelled as `Mxl.C08.nameToPy`) -/

/-- The hand-written model agrees with what `translate/c17.py` reads from the source on every run: the keyword
    list of the interpreter, SBML_DOT, the `.replace` chain (its first entry turns SBML_DOT into "." which a later
    entry deletes; all other entries have one-character patterns and, applied in order to any character, give
    `replaceChar`), the escape pattern, the suffix for keywords, the prefix for a non-alphabetic first character,
    the order of the steps; and the unused copy inside mxlpy is the same but for the empty-name guard. -/
theorem C17_names_tables_agree :
    pyKeywords = Gen.kwlist ∧ String.ofList sbmlDot = Gen.sbmlDot ∧
    Gen.replaceChain.head? = some (Gen.sbmlDot, ".") ∧ replaceChar '.' = [] ∧
    (∀ c, chainOnChar Gen.replaceChain.tail c = replaceChar c) ∧
    Gen.escapeRegex = "__(\\d+)__" ∧ Gen.escapeIsChr = true ∧ Gen.keywordSuffix = "_" ∧ Gen.leadingPrefix = "_" ∧
    Gen.stepOrder = ["unescape", "keywords", "replace", "empty", "leading"] ∧
    Gen.mxlpyCopyChain = Gen.replaceChain ∧ Gen.mxlpyCopySbmlDot = Gen.sbmlDot ∧
    Gen.mxlpyCopyEscapeRegex = Gen.escapeRegex ∧ Gen.mxlpyCopyKeywordSuffix = Gen.keywordSuffix ∧
    Gen.mxlpyCopyLeadingPrefix = Gen.leadingPrefix ∧
    Gen.mxlpyCopyStepOrder = ["unescape", "keywords", "replace", "leading"] :=
  ⟨by decide +kernel, by decide +kernel, by decide +kernel, by decide +kernel, chain_agrees, by decide +kernel, rfl,
   by decide +kernel, by decide +kernel, by decide +kernel, by decide +kernel, by decide +kernel, by decide +kernel,
   by decide +kernel, by decide +kernel, by decide +kernel⟩

/-- identifiers `[A-Za-z][A-Za-z0-9_]*` without `__` that are not keywords are left as they are -/
theorem C17_name_identity_on_plain (s : String) (h : isRoundTripName s = true) : nameToPy s = s :=
  nameToPy_plain s h

/-- On a legal SBML identifier without `__` (not of the form `<keyword>_`) the mapping does one of three things:
    a keyword gets an underscore appended, an identifier that starts with a letter stays, one that starts with `_`
    gets another `_` in front.  In every case the result starts with a letter or `_`: a usable Python name. -/
theorem C17_name_mapping_shape (s : String) (h : inNameDomain s = true) :
    (s ∈ pyKeywords ∧ (nameToPy s).toList = s.toList ++ ['_'] ∧ ∃ c cs, s.toList = c :: cs ∧ isAsciiAlpha c = true) ∨
    (s ∉ pyKeywords ∧ nameToPy s = s ∧ ∃ c cs, s.toList = c :: cs ∧ isAsciiAlpha c = true) ∨
    (s ∉ pyKeywords ∧ (nameToPy s).toList = '_' :: s.toList ∧ ∃ cs, s.toList = '_' :: cs) :=
  nameToPy_shape s h

/-- **Distinct identifiers stay distinct** on legal SBML identifiers that contain no `__` and are not a keyword
    followed by an underscore … -/
theorem C17_name_mapping_injective (s t : String) (hs : inNameDomain s = true) (ht : inNameDomain t = true)
    (h : nameToPy s = nameToPy t) : s = t :=
  nameToPy_injective s t hs ht h

/-- … and not on all legal identifiers (finding F-C17-10, third party): `if` / `if_`, `a__46__b` / `ab`. -/
theorem C17_name_mapping_not_injective :
    nameToPy "if" = nameToPy "if_" ∧ "if" ≠ "if_" ∧ isSId "if" = true ∧ isSId "if_" = true ∧
    nameToPy "a__46__b" = nameToPy "ab" ∧ "a__46__b" ≠ "ab" ∧ isSId "a__46__b" = true ∧ isSId "ab" = true := by
  decide +kernel

/-- non-vacuity: ordinary identifiers, keywords and underscore-led identifiers are in the domain -/
example : inNameDomain "glc_c" = true ∧ inNameDomain "lambda" = true ∧ inNameDomain "_p" = true ∧
    inNameDomain "if_" = false ∧ inNameDomain "X__1" = false := by decide +kernel

/-- **References still resolve after renaming**, at the level of one expression: a MathML tree whose identifiers
    are renamed by `f`, read in an environment that gives every renamed identifier the value the original one had,
    has the value of the original tree.  (Together with injectivity of `f` on the document's identifiers such an
    environment exists; the document-level statement for `SDoc.mapNames` is exercised by the tie, not proved.) -/
theorem C17_rename_expression_consistent (I : Interp) (f : String → String) (e1 e2 : VEnv) (m : MathML)
    (h : ∀ n ∈ mathNames m, e2 (f n) = e1 n) : evalMath I e2 (mapMath f m) = evalMath I e1 m :=
  evalMath_rename I f e1 e2 m h

/-- **References still resolve after renaming**, at the level of the document: if `f` is injective on the
    identifiers a flat document defines or mentions (`DocIn d D`, `InjOn f D` — for pysbml's mapping: D =
    `inNameDomain`, by `C17_name_mapping_injective`), then the renamed document (`SDoc.mapNames f`: every key and
    every `ci` passed through `f`) gives the renamed identifier the initial value the original document gives the
    original one.  Lookups by key, last-wins lookups, reaction lookups and the math all commute with `f`.
    (The same statement for `docValue` / `docRhs` is not proved: species-reference ids are not renamed by
    pysbml — finding F-C17-5 — and the tie covers them.) -/
theorem C17_rename_docInit_consistent (I : Interp) (f : String → String) (D : String → Prop) (hinj : InjOn f D)
    (d : SDoc) (hd : DocIn d D) (fuel : Nat) (n : String) (hn : D n) :
    docInit I (d.mapNames f) fuel (f n) = docInit I d fuel n ∧ (d.mapNames f).fuel = d.fuel :=
  ⟨docInit_rename I f hinj d hd fuel n hn, fuel_mapNames f d⟩

end Mxl.C17
