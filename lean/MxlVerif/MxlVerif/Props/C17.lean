import MxlVerif.Model.C17Doc
namespace Mxl.C17
theorem placeholder : True := trivial
end Mxl.C17
