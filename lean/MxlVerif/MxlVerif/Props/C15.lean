import MxlVerif.Lemmas.C15Metric
import MxlVerif.Lemmas.C15Rel
import MxlVerif.Lemmas.C15RelNorm
import MxlVerif.Lemmas.C15RelVec
import MxlVerif.Generated.C15Loop
/-!
C15 — steady-state results are steady states; absence is reported as failure.
Theorems about `Mxl.C15.ssRun` / `ssLoop` (Model/C15.lean, the functions the driver executes) with the loop
facts (`Gen.copies`, `Gen.maxSteps`, `Gen.stepSize`) read from the current int_scipy.py by translate/c15.py.
-/
namespace Mxl.C15
variable {σ : Type}

/-- generated-table obligation: the loop rebinds `y1` to a COPY of `y2`, not to the integrator's buffer -/
theorem C15_loop_copies : Gen.copies = true := rfl

/-- generated-table obligation: the loop asks `integ.successful()` after every step and stops with
`IntegrationFailure` instead of comparing the frozen state of a solver that has given up (repair of F-C15-3) -/
theorem C15_loop_checks_solver : Gen.checks = true := rfl

/-- generated-table obligation: the search starts at the integrator's CURRENT (t0, y0) and advances it on success
(no `self.reset()`); what the theorems below call "the state the simulator holds" -/
theorem C15_search_continues : Gen.continues = true := rfl

/-- the library's `simulate_to_steady_state` with the facts read from the source -/
abbrev simSS (step : σ → σ) (ok : σ → Bool) (small : σ → σ → Bool) (s : Sim σ) : Sim σ :=
  simulateToSteadyState Gen.continues Gen.copies Gen.checks step ok small Gen.maxSteps Gen.stepSize s

/-- SUCCESS IS A SMALL STEP: success at `n` means `1 ≤ n ≤ max_steps`, the reported state is the flow after
`n` steps, the `n`-th consecutive difference is below the tolerance and no earlier one was — and the solver reported
success at every one of the `n` steps. -/
theorem C15_success_is_small_step (step : σ → σ) (ok : σ → Bool) (small : σ → σ → Bool) (y0 : σ) (n : Nat) (r : σ)
    (h : ssRun Gen.copies Gen.checks step ok small Gen.maxSteps y0 = .steady n r) :
    1 ≤ n ∧ n ≤ Gen.maxSteps ∧ r = iter step n y0 ∧
    small (iter step n y0) (iter step (n - 1) y0) = true ∧
    (∀ j, 1 ≤ j → j < n → small (iter step j y0) (iter step (j - 1) y0) = false) ∧
    (∀ j, 1 ≤ j → j ≤ n → ok (iter step j y0) = true) := by
  rw [C15_loop_copies, C15_loop_checks_solver] at h
  obtain ⟨m, hm, hn, hr, hs, hall, hok⟩ := ssLoop_copy_steady step ok small _ 0 y0 n r h
  have hn' : n = m + 1 := by omega
  subst hn'
  refine ⟨by omega, by omega, hr, by simpa using hs, ?_, ?_⟩
  · intro j hj1 hjn
    obtain ⟨j', rfl⟩ : ∃ j', j = j' + 1 := ⟨j - 1, by omega⟩
    simpa using hall j' (by omega)
  · intro j hj1 hjn
    obtain ⟨j', rfl⟩ : ∃ j', j = j' + 1 := ⟨j - 1, by omega⟩
    exact hok j' (by omega)

/-- NO FALSE SUCCESS: the run ends in `NoSteadyState` exactly when the solver succeeds at every step of the budget and
every consecutive difference is at or above the tolerance — in particular for constant accumulation and for growth. -/
theorem C15_no_false_success (step : σ → σ) (ok : σ → Bool) (small : σ → σ → Bool) (y0 : σ) :
    ssRun Gen.copies Gen.checks step ok small Gen.maxSteps y0 = .noSteadyState ↔
    ∀ m, m < Gen.maxSteps → ok (iter step (m + 1) y0) = true ∧ small (iter step (m + 1) y0) (iter step m y0) = false := by
  rw [C15_loop_copies, C15_loop_checks_solver]
  exact ssLoop_copy_none step ok small _ 0 y0

/-- A SOLVER THAT GIVES UP IS A FAILURE: the run ends in `IntegrationFailure` exactly when the solver reports failure at
some step within the budget before any consecutive difference was small. -/
theorem C15_solver_failure_iff (step : σ → σ) (ok : σ → Bool) (small : σ → σ → Bool) (y0 : σ) :
    ssRun Gen.copies Gen.checks step ok small Gen.maxSteps y0 = .integrationFailure ↔
    ∃ m, m < Gen.maxSteps ∧ ok (iter step (m + 1) y0) = false ∧
      ∀ j, j < m → ok (iter step (j + 1) y0) = true ∧ small (iter step (j + 1) y0) (iter step j y0) = false := by
  rw [C15_loop_copies, C15_loop_checks_solver]
  exact ssLoop_copy_failure step ok small _ 0 y0

/-- ... hence the state of a solver that has given up — the frozen huge value of a finite-time blow-up — is NEVER
presented as steady: if the solver fails at step `k`, no success is reported at step `k` or later (the loop has returned
at `k`). -/
theorem C15_failed_solver_never_steady (step : σ → σ) (ok : σ → Bool) (small : σ → σ → Bool) (y0 : σ) (k n : Nat)
    (r : σ) (hk1 : 1 ≤ k) (hk : ok (iter step k y0) = false) (hkn : k ≤ n) :
    ssRun Gen.copies Gen.checks step ok small Gen.maxSteps y0 ≠ .steady n r := by
  intro h
  have := (C15_success_is_small_step step ok small y0 n r h).2.2.2.2.2 k hk1 hkn
  rw [hk] at this
  cases this

/-- constant accumulation `y ↦ y + d` (e.g. dx/dt = 1) with ‖d‖ ≥ tol is reported as failure
(the driver's instance: rational vectors, absolute norm). -/
theorem C15_accumulation_fails (d y0 : List Rat) (tol : Rat) (hlen : d.length = y0.length)
    (hd : tol * tol ≤ normSq d) :
    ssRun Gen.copies Gen.checks (fun y => List.zipWith (· + ·) y d) (fun _ => true) (smallAbs tol) Gen.maxSteps y0
      = .noSteadyState := by
  rw [C15_no_false_success]
  intro m _
  refine ⟨rfl, ?_⟩
  rw [iter_succ']
  simp only [smallAbs]
  rw [vsub_add_self _ d (iter_add_length d m y0 hlen.symm)]
  simp only [Bool.and_eq_false_iff, decide_eq_false_iff_not]
  right
  exact Rat.not_lt.mpr hd

/-- ... and EXACTLY (F-C15-4): under the absolute norm constant accumulation is reported as failure if and only if the
drift per search step is at least the tolerance, `‖d‖ ≥ tol`; a slower drift (dx/dt = 2⁻³⁰ at tolerance 1e-6) meets the
criterion at the first step and is reported as a steady state although it never stops moving. -/
theorem C15_accumulation_fails_iff (d y0 : List Rat) (tol : Rat) (hlen : d.length = y0.length) (ht : 0 < tol) :
    ssRun Gen.copies Gen.checks (fun y => List.zipWith (· + ·) y d) (fun _ => true) (smallAbs tol) Gen.maxSteps y0
      = .noSteadyState ↔ accAbsFails tol d = true := by
  simp only [accAbsFails, decide_eq_true_eq]
  constructor
  · intro h
    have h0 := ((C15_no_false_success _ _ _ y0).mp h 0 (by decide)).2
    simp only [iter, smallAbs, vsub_add_self _ d hlen.symm, ht, decide_true, Bool.true_and,
      decide_eq_false_iff_not] at h0
    exact Rat.not_lt.mp h0
  · exact C15_accumulation_fails d y0 tol hlen

/-- F-C15-2, EXACTLY: one variable that accumulates for ever (`y ↦ y + d` per search step, d > 0, from `y0 > 0`: NO steady
state) under the RELATIVE criterion is reported as failure if and only if the relative step is still at or above the
tolerance at the LAST comparison of the budget, `tol·(y0 + (max_steps − 1)·d) ≤ d`.  This is the hypothesis that the
absolute-norm theorem `C15_accumulation_fails` does not need. -/
theorem C15_rel_accumulation_fails_iff (d y0 tol : Rat) (hd : 0 < d) (hy : 0 < y0) (ht : 0 < tol) :
    ssRun Gen.copies Gen.checks (fun y => List.zipWith (· + ·) y [d]) (fun _ => true) (smallRel tol) Gen.maxSteps [y0]
        = .noSteadyState ↔ accRelFails tol d y0 Gen.maxSteps = true := by
  simp only [accRelFails, decide_eq_true_eq]
  rw [C15_loop_copies, C15_loop_checks_solver]
  exact rel_accumulation_none_iff d y0 tol hd hy ht (Gen.maxSteps - 1)

/-- ... and for SEVERAL accumulating variables (all rates and all values positive): the relative step `Σ (d_i/(y_i+m·d_i))²` only
shrinks with `m`, so the search is reported as failure if and only if the LAST comparison of the budget is still not small
(`accRelVecFails`, evaluated by the driver as the class predicate of F-C15-2 in more than one dimension). -/
theorem C15_rel_accumulation_vec_fails_iff (y d : List Rat) (h : posPair y d) (tol : Rat) (ht : 0 < tol) :
    ssRun Gen.copies Gen.checks (accStep d) (fun _ => true) (smallRel tol) Gen.maxSteps y = .noSteadyState ↔
      accRelVecFails tol d y Gen.maxSteps = true := by
  rw [C15_loop_copies, C15_loop_checks_solver]
  have := rel_accumulation_vec_none_iff y d h tol ht (Gen.maxSteps - 1)
  simp only [accRelVecFails, Bool.not_eq_true']
  exact this

/-- ... and the finding itself: dx/dt = 1 (d = 100 per step) from x = 100001 with tolerance 1e-3 is reported as a steady
state at the first step (kernel-evaluated), through `get_result()` as one row at t = 100 with x = 100101. -/
theorem C15_rel_accumulation_false_success :
    ssRun Gen.copies Gen.checks (fun y => List.zipWith (· + ·) y [100]) okState (smallRel (1 / 1000)) Gen.maxSteps
        [100001] = .steady 1 [100101] ∧
    getResult (simSS (fun y => List.zipWith (· + ·) y [100]) okState (smallRel (1 / 1000)) (Sim.fresh [100001]))
      = .ok [(100, [100101])] := by
  constructor <;> decide +kernel

/-- RELATIVE NORM, ZERO COMPONENT: a comparison against a previous state with a component that is exactly 0 is never
"small" (numpy yields inf/nan there) — a variable resting at 0 can delay success, never cause it. -/
theorem C15_rel_norm_zero_component_never_small (tol : Rat) (y2 y1 : List Rat) (h : (0 : Rat) ∈ y1) :
    smallRel tol y2 y1 = false := by
  have : y1.any (· == 0) = true := by
    rw [List.any_eq_true]
    exact ⟨0, h, by simp⟩
  simp [smallRel, this]

/-- CONTRACTION ⇒ CLOSE: if one integrator step contracts distances to the steady state `xs` by a factor
`c < 1` and "small" means `dist y2 y1 < tol`, a reported steady state lies within `c/(1-c)·tol` of `xs`. -/
theorem C15_contraction_close {E : Type} [PseudoMetricSpace E] (step : E → E) (xs y0 : E) (c tol : ℝ)
    (hc0 : 0 ≤ c) (hc1 : c < 1) (hcontr : ∀ z, dist (step z) xs ≤ c * dist z xs)
    (n : Nat) (r : E)
    (ok : E → Bool)
    (h : ssRun Gen.copies Gen.checks step ok (fun y2 y1 => @decide (dist y2 y1 < tol) (Classical.dec _)) Gen.maxSteps y0
          = .steady n r) :
    dist r xs ≤ c / (1 - c) * tol := by
  obtain ⟨h1, _, hr, hs, _⟩ := C15_success_is_small_step step ok _ y0 n r h
  obtain ⟨m, rfl⟩ : ∃ m, n = m + 1 := ⟨n - 1, by omega⟩
  simp only [Nat.add_sub_cancel, decide_eq_true_eq] at hs
  rw [hr, iter_succ'] at *
  exact close_of_small_step step xs (iter step m y0) c tol hc0 hc1 hcontr hs

/-- ... THE SAME FOR A STATE-DEPENDENT THRESHOLD (the relative criterion's form): small = `dist y2 y1 < tol · w y1` ⇒ the
reported state lies within `c/(1−c)·tol·w(previous state)` of `xs`. -/
theorem C15_contraction_close_weighted {E : Type} [PseudoMetricSpace E] (step : E → E) (xs y0 : E) (c tol : ℝ)
    (w : E → ℝ) (hc0 : 0 ≤ c) (hc1 : c < 1) (hcontr : ∀ z, dist (step z) xs ≤ c * dist z xs)
    (ok : E → Bool) (n : Nat) (r : E)
    (h : ssRun Gen.copies Gen.checks step ok
          (fun y2 y1 => @decide (dist y2 y1 < tol * w y1) (Classical.dec _)) Gen.maxSteps y0 = .steady n r) :
    dist r xs ≤ c / (1 - c) * (tol * w (iter step (n - 1) y0)) := by
  obtain ⟨h1, _, hr, hs, _⟩ := C15_success_is_small_step step ok _ y0 n r h
  obtain ⟨m, rfl⟩ : ∃ m, n = m + 1 := ⟨n - 1, by omega⟩
  simp only [Nat.add_sub_cancel, decide_eq_true_eq] at hs ⊢
  rw [hr, iter_succ'] at *
  exact close_of_small_step step xs (iter step m y0) c _ hc0 hc1 hcontr hs

/-- THE RELATIVE CRITERION IN ABSOLUTE TERMS: the driver's `‖(y2 − y1)/y1‖ < tol` implies `‖y2 − y1‖² ≤ tol²·max_i y1_i²`,
i.e. it is a criterion of the form above with `w y1 = max_i |y1_i|` — the scale the harness's relative bound uses. -/
theorem C15_rel_small_is_weighted_abs (tol : Rat) (y2 y1 : List Rat) (h : smallRel tol y2 y1 = true) :
    normSq (vsub y2 y1) ≤ tol * tol * maxSq y1 :=
  smallRel_weighted tol y2 y1 h

/-- non-vacuity of `C15_contraction_close`'s contraction hypothesis: on ℝ the halving relaxation `z ↦ z/2 + 1/2` contracts distances
to its steady state 1 by `c = 1/2` -/
example : ∀ z : ℝ, dist (z / 2 + 1 / 2) 1 ≤ (1 / 2) * dist z 1 := by
  intro z
  rw [Real.dist_eq, Real.dist_eq]
  have : z / 2 + 1 / 2 - 1 = (1 / 2) * (z - 1) := by ring
  rw [this, abs_mul, abs_of_pos (by norm_num : (0 : ℝ) < 1 / 2)]

/-- F-C15-5, THE STROBOSCOPIC CRITERION: the search compares states 100 time units apart, so a state that RETURNS to itself after
one search step — an undamped orbit whose period divides `step_size` — is reported as steady at the first step, for every
criterion that calls a state close to itself (any positive tolerance), although it never stops moving. -/
theorem C15_stroboscopic_false_success (step : σ → σ) (ok : σ → Bool) (small : σ → σ → Bool) (y0 : σ)
    (hper : step y0 = y0) (hok : ok y0 = true) (hrefl : small y0 y0 = true) :
    ssRun Gen.copies Gen.checks step ok small Gen.maxSteps y0 = .steady 1 y0 := by
  rw [C15_loop_copies, C15_loop_checks_solver]
  have : Gen.maxSteps = (Gen.maxSteps - 1) + 1 := by decide
  rw [this]
  simp [ssRun, ssLoop, hper, hok, hrefl]

/-- FAILURE PROPAGATES: when the loop finds no steady state from the state the simulator holds (`NoSteadyState`) or the
solver gives up (`IntegrationFailure`), `simulate_to_steady_state().get_result()` is that error (never a state) and the scan row is the NaN
default — on a fresh simulator and on one that ALREADY HOLDS RESULTS of earlier successful calls (`rows`), after an
override (`shift`), wherever the integrator stands (`g`); the stored rows are never presented as the outcome, and
the integrator is left where it was. -/
theorem C15_failure_propagates (step : σ → σ) (ok : σ → Bool) (small : σ → σ → Bool) (rows : Option (List (Rat × σ)))
    (shift : Option Rat) (g : Integ σ) (e : SimErr)
    (h : errOf (ssRun Gen.copies Gen.checks step ok small Gen.maxSteps g.y0) = some e) :
    let sim := simSS step ok small ⟨[], rows, shift, g⟩
    getResult sim = .error e ∧ workerRow (getResult sim) = none ∧ sim.integ = g := by
  cases hr : ssRun Gen.copies Gen.checks step ok small Gen.maxSteps g.y0 with
  | steady n y => simp [hr, errOf] at h
  | noSteadyState =>
    simp only [hr, errOf, Option.some.injEq] at h
    subst h
    simp [simSS, simulateToSteadyState, integrateToSteadyState, C15_search_continues, hr, handleResult, getResult,
      workerRow]
  | integrationFailure =>
    simp only [hr, errOf, Option.some.injEq] at h
    subst h
    simp [simSS, simulateToSteadyState, integrateToSteadyState, C15_search_continues, hr, handleResult, getResult,
      workerRow]

/-- kept under its old name: `NoSteadyState` on a simulator that already holds results -/
theorem C15_failure_after_results (step : σ → σ) (ok : σ → Bool) (small : σ → σ → Bool) (rows : List (Rat × σ))
    (shift : Option Rat) (g : Integ σ)
    (h : ssRun Gen.copies Gen.checks step ok small Gen.maxSteps g.y0 = .noSteadyState) :
    getResult (simSS step ok small ⟨[], some rows, shift, g⟩) = .error .noSteadyState :=
  (C15_failure_propagates step ok small (some rows) shift g .noSteadyState (by rw [h]; rfl)).1

/-- SUCCESS PROPAGATES, IN ABSOLUTE TIME: when the loop succeeds at step `n` from the state the simulator holds, exactly
one row is appended after the stored ones, at time `t0 + n·step_size` (+ the override shift) with the loop's state; the
scan row is that state; and the integrator moves to (`t0 + n·step_size`, that state), so whatever is simulated next
continues from there. -/
theorem C15_success_after_results (step : σ → σ) (ok : σ → Bool) (small : σ → σ → Bool) (n : Nat) (r : σ)
    (rows : List (Rat × σ)) (shift : Option Rat) (g : Integ σ)
    (h : ssRun Gen.copies Gen.checks step ok small Gen.maxSteps g.y0 = .steady n r) :
    let sim := simSS step ok small ⟨[], some rows, shift, g⟩
    let t := g.t0 + (n : Rat) * (Gen.stepSize : Rat)
    getResult sim = .ok (rows ++ [(t + shift.getD 0, r)]) ∧ workerRow (getResult sim) = some r ∧
      sim.integ = { g with t0 := t, y0 := r } := by
  cases shift <;>
    simp [simSS, simulateToSteadyState, integrateToSteadyState, C15_search_continues, h, handleResult, getResult,
      workerRow]

/-- ... on a fresh simulator: one row, time `n * step_size`, the loop's state. -/
theorem C15_success_propagates (step : σ → σ) (ok : σ → Bool) (small : σ → σ → Bool) (y0 : σ) (n : Nat) (r : σ)
    (h : ssRun Gen.copies Gen.checks step ok small Gen.maxSteps y0 = .steady n r) :
    let sim := simSS step ok small (Sim.fresh y0)
    getResult sim = .ok [((n : Rat) * (Gen.stepSize : Rat), r)] ∧ workerRow (getResult sim) = some r := by
  simp [simSS, Sim.fresh, simulateToSteadyState, integrateToSteadyState, C15_search_continues, h, handleResult,
    getResult, workerRow]

/-- THE REPORTED TIME IS LATER THAN THE START: a success is reported at least one `step_size` after the time the
integrator stood at, so after a time course that ended there the steady-state row comes strictly later. -/
theorem C15_success_time_later (step : σ → σ) (ok : σ → Bool) (small : σ → σ → Bool) (g : Integ σ) (t : Rat) (y : σ) (g' : Integ σ)
    (h : integrateToSteadyState Gen.continues Gen.copies Gen.checks step ok small Gen.maxSteps Gen.stepSize g
          = (.timeCourse t y, g')) :
    g.t0 + (Gen.stepSize : Rat) ≤ t ∧ g'.t0 = t ∧ g'.y0 = y := by
  simp only [integrateToSteadyState, C15_search_continues, if_true] at h
  cases hr : ssRun Gen.copies Gen.checks step ok small Gen.maxSteps g.y0 with
  | noSteadyState => simp [hr] at h
  | integrationFailure => simp [hr] at h
  | steady n r =>
    simp only [hr] at h
    obtain ⟨h1, _⟩ := C15_success_is_small_step step ok small g.y0 n r hr
    injection h with ha hb
    injection ha with ht hy
    subst hb
    refine ⟨?_, ht, hy⟩
    rw [← ht]
    have : (1 : Rat) ≤ (n : Rat) := by exact_mod_cast h1
    have hs : (0 : Rat) ≤ (Gen.stepSize : Rat) := by exact_mod_cast Nat.zero_le _
    nlinarith

/-- an earlier error is never overwritten by a later steady state -/
theorem C15_error_sticks (s : Sim σ) (e : SimErr) (es : List SimErr) (hs : s.errors = e :: es)
    (step : σ → σ) (ok : σ → Bool) (small : σ → σ → Bool) :
    getResult (simSS step ok small s) = .error e ∧ simSS step ok small s = s := by
  simp [simSS, simulateToSteadyState, hs, getResult]

/-- the pinned tree's loop (`y1 = y2`, an alias of the integrator's buffer) reports success at the SECOND
step whatever the dynamics: every later comparison is of the buffer with itself.  (Kept as the reason
the repair exists; `small a a` holds for any positive tolerance.) -/
theorem C15_aliased_loop_false_success (step : σ → σ) (small : σ → σ → Bool) (y0 : σ) (maxSteps : Nat)
    (hrefl : ∀ a, small a a = true) (h1 : small (step y0) y0 = false) (hmax : 2 ≤ maxSteps) :
    ssRun false false step (fun _ => true) small maxSteps y0 = .steady 2 (step (step y0)) := by
  obtain ⟨k, rfl⟩ : ∃ k, maxSteps = k + 2 := ⟨maxSteps - 2, by omega⟩
  simp [ssRun, ssLoop, h1, hrefl]

/-- e.g. dx/dt = 1 from x = 1 with step 100: "steady" x = 201 at t = 200 -/
theorem C15_aliased_loop_witness :
    ssRun false false (fun y => List.zipWith (· + ·) y [100]) okState (smallAbs (1 / 1000000)) 1000 [1]
      = .steady 2 [201] := by
  decide +kernel

/-- non-vacuity: a halving relaxation towards 1 from 5 with tolerance 3/2 converges in the copying loop at
the second step (5 → 3 → 2), and the hypothesis of `C15_success_is_small_step` is met -/
example : ssRun true true (affine [[1 / 2]] [1 / 2]) okState (smallAbs (3 / 2)) 3 [5] = .steady 2 [2] := by
  decide +kernel

/-- F-C15-3, the finding and its repair on the driver's instance (kernel-evaluated): dx/dt = x² from x = 1/250 blows up at
t = 250; the exact flow gives 1/150 at t = 100, 1/50 at t = 200, and the solver gives up in the third step — the
search ends in `IntegrationFailure`, and `get_result()` is that error. -/
theorem C15_blowup_is_failure :
    ssRun Gen.copies Gen.checks (blowStep [] []) okState (smallAbs (1 / 1000)) Gen.maxSteps [1 / 250]
      = .integrationFailure ∧
    iter (blowStep [] []) 2 [1 / 250] = [1 / 50] ∧ okState (iter (blowStep [] []) 3 [1 / 250]) = false ∧
    getResult (simSS (blowStep [] []) okState (smallAbs (1 / 1000)) (Sim.fresh [1 / 250]))
      = .error .integrationFailure := by
  refine ⟨?_, ?_, ?_, ?_⟩ <;> decide +kernel

end Mxl.C15
