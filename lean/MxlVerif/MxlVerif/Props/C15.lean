import MxlVerif.Lemmas.C15Metric
import MxlVerif.Generated.C15Loop
/-!
C15 — steady-state results are steady states; absence is reported as failure.
Theorems about `Mxl.C15.ssRun` / `ssLoop` (Model/C15.lean, the functions the driver executes) with the loop
facts (`Gen.copies`, `Gen.maxSteps`, `Gen.stepSize`) read from the current int_scipy.py by translate/c15.py.
-/
namespace Mxl.C15
variable {σ : Type}

/-- generated-table obligation: the loop rebinds `y1` to a COPY of `y2`, not to the integrator's buffer -/
theorem C15_loop_copies : Gen.copies = true := rfl

/-- SUCCESS IS A SMALL STEP: success at `n` means `1 ≤ n ≤ max_steps`, the reported state is the flow after
`n` steps, the `n`-th consecutive difference is below the tolerance and no earlier one was. -/
theorem C15_success_is_small_step (step : σ → σ) (small : σ → σ → Bool) (y0 : σ) (n : Nat) (r : σ)
    (h : ssRun Gen.copies step small Gen.maxSteps y0 = .steady n r) :
    1 ≤ n ∧ n ≤ Gen.maxSteps ∧ r = iter step n y0 ∧
    small (iter step n y0) (iter step (n - 1) y0) = true ∧
    ∀ j, 1 ≤ j → j < n → small (iter step j y0) (iter step (j - 1) y0) = false := by
  rw [C15_loop_copies] at h
  obtain ⟨m, hm, hn, hr, hs, hall⟩ := ssLoop_copy_steady step small _ 0 y0 n r h
  have hn' : n = m + 1 := by omega
  subst hn'
  refine ⟨by omega, by omega, hr, by simpa using hs, ?_⟩
  intro j hj1 hjn
  obtain ⟨j', rfl⟩ : ∃ j', j = j' + 1 := ⟨j - 1, by omega⟩
  simpa using hall j' (by omega)

/-- NO FALSE SUCCESS: the run fails exactly when every consecutive difference within the budget is at or
above the tolerance — in particular for constant accumulation and for growth. -/
theorem C15_no_false_success (step : σ → σ) (small : σ → σ → Bool) (y0 : σ) :
    ssRun Gen.copies step small Gen.maxSteps y0 = .noSteadyState ↔
    ∀ m, m < Gen.maxSteps → small (iter step (m + 1) y0) (iter step m y0) = false := by
  rw [C15_loop_copies]
  exact ssLoop_copy_none step small _ 0 y0

/-- constant accumulation `y ↦ y + d` (e.g. dx/dt = 1) with ‖d‖ ≥ tol is reported as failure
(the driver's instance: rational vectors, absolute norm). -/
theorem C15_accumulation_fails (d y0 : List Rat) (tol : Rat) (hlen : d.length = y0.length)
    (hd : tol * tol ≤ normSq d) :
    ssRun Gen.copies (fun y => List.zipWith (· + ·) y d) (smallAbs tol) Gen.maxSteps y0
      = .noSteadyState := by
  rw [C15_no_false_success]
  intro m _
  rw [iter_succ']
  simp only [smallAbs]
  rw [vsub_add_self _ d (iter_add_length d m y0 hlen.symm)]
  simp only [Bool.and_eq_false_iff, decide_eq_false_iff_not]
  right
  exact Rat.not_lt.mpr hd

/-- RELATIVE NORM, ZERO COMPONENT: a comparison against a previous state with a component that is exactly 0 is never
"small" (numpy yields inf/nan there) — a variable resting at 0 can delay success, never cause it. -/
theorem C15_rel_norm_zero_component_never_small (tol : Rat) (y2 y1 : List Rat) (h : (0 : Rat) ∈ y1) :
    smallRel tol y2 y1 = false := by
  have : y1.any (· == 0) = true := by
    rw [List.any_eq_true]
    exact ⟨0, h, by simp⟩
  simp [smallRel, this]

/-- CONTRACTION ⇒ CLOSE: if one integrator step contracts distances to the steady state `xs` by a factor
`c < 1` and "small" means `dist y2 y1 < tol`, a reported steady state lies within `c/(1-c)·tol` of `xs`. -/
theorem C15_contraction_close {E : Type} [PseudoMetricSpace E] (step : E → E) (xs y0 : E) (c tol : ℝ)
    (hc0 : 0 ≤ c) (hc1 : c < 1) (hcontr : ∀ z, dist (step z) xs ≤ c * dist z xs)
    (n : Nat) (r : E)
    (h : ssRun Gen.copies step (fun y2 y1 => @decide (dist y2 y1 < tol) (Classical.dec _)) Gen.maxSteps y0
          = .steady n r) :
    dist r xs ≤ c / (1 - c) * tol := by
  obtain ⟨h1, _, hr, hs, _⟩ := C15_success_is_small_step step _ y0 n r h
  obtain ⟨m, rfl⟩ : ∃ m, n = m + 1 := ⟨n - 1, by omega⟩
  simp only [Nat.add_sub_cancel, decide_eq_true_eq] at hs
  rw [hr, iter_succ'] at *
  exact close_of_small_step step xs (iter step m y0) c tol hc0 hc1 hcontr hs

/-- FAILURE PROPAGATES: when the loop finds no steady state, `simulate_to_steady_state().get_result()` of a
fresh simulator is the error `NoSteadyState` (never a state), and the scan row is the NaN default. -/
theorem C15_failure_propagates (step : σ → σ) (small : σ → σ → Bool) (y0 : σ)
    (h : ssRun Gen.copies step small Gen.maxSteps y0 = .noSteadyState) :
    let sim := simulateToSteadyState Gen.stepSize (Sim.fresh : Sim σ)
      (fun _ => ssRun Gen.copies step small Gen.maxSteps y0)
    getResult sim = .error .noSteadyState ∧ workerRow (getResult sim) = none := by
  simp [simulateToSteadyState, Sim.fresh, h, handleResult, getResult, workerRow]

/-- ... also on a simulator that ALREADY HOLDS RESULTS of earlier successful calls (`simulate`, a time course):
a later steady-state search that fails turns `get_result()` into the error; the stored rows are never presented
as the outcome. -/
theorem C15_failure_after_results (step : σ → σ) (small : σ → σ → Bool) (y0 : σ)
    (rows : Option (List (Nat × σ)))
    (h : ssRun Gen.copies step small Gen.maxSteps y0 = .noSteadyState) :
    let sim := simulateToSteadyState Gen.stepSize (⟨[], rows⟩ : Sim σ)
      (fun _ => ssRun Gen.copies step small Gen.maxSteps y0)
    getResult sim = .error .noSteadyState ∧ workerRow (getResult sim) = none := by
  simp [simulateToSteadyState, h, handleResult, getResult, workerRow]

/-- ... and a success is appended after the stored rows -/
theorem C15_success_after_results (step : σ → σ) (small : σ → σ → Bool) (y0 : σ) (n : Nat) (r : σ)
    (rows : List (Nat × σ))
    (h : ssRun Gen.copies step small Gen.maxSteps y0 = .steady n r) :
    getResult (simulateToSteadyState Gen.stepSize (⟨[], some rows⟩ : Sim σ)
      (fun _ => ssRun Gen.copies step small Gen.maxSteps y0)) = .ok (rows ++ [(n * Gen.stepSize, r)]) := by
  simp [simulateToSteadyState, h, handleResult, getResult]

/-- ... and success propagates unchanged: one row, time `n * step_size`, the loop's state. -/
theorem C15_success_propagates (step : σ → σ) (small : σ → σ → Bool) (y0 : σ) (n : Nat) (r : σ)
    (h : ssRun Gen.copies step small Gen.maxSteps y0 = .steady n r) :
    let sim := simulateToSteadyState Gen.stepSize (Sim.fresh : Sim σ)
      (fun _ => ssRun Gen.copies step small Gen.maxSteps y0)
    getResult sim = .ok [(n * Gen.stepSize, r)] ∧ workerRow (getResult sim) = some r := by
  simp [simulateToSteadyState, Sim.fresh, h, handleResult, getResult, workerRow]

/-- an earlier error is never overwritten by a later steady state -/
theorem C15_error_sticks (s : Sim σ) (e : SimErr) (es : List SimErr) (hs : s.errors = e :: es)
    (integ : Unit → Outcome σ) :
    getResult (simulateToSteadyState Gen.stepSize s integ) = .error e := by
  simp [simulateToSteadyState, hs, getResult]

/-- the pinned tree's loop (`y1 = y2`, an alias of the integrator's buffer) reports success at the SECOND
step whatever the dynamics: every later comparison is of the buffer with itself.  (Kept as the reason
the repair exists; `small a a` holds for any positive tolerance.) -/
theorem C15_aliased_loop_false_success (step : σ → σ) (small : σ → σ → Bool) (y0 : σ) (maxSteps : Nat)
    (hrefl : ∀ a, small a a = true) (h1 : small (step y0) y0 = false) (hmax : 2 ≤ maxSteps) :
    ssRun false step small maxSteps y0 = .steady 2 (step (step y0)) := by
  obtain ⟨k, rfl⟩ : ∃ k, maxSteps = k + 2 := ⟨maxSteps - 2, by omega⟩
  simp [ssRun, ssLoop, h1, hrefl]

/-- e.g. dx/dt = 1 from x = 1 with step 100: "steady" x = 201 at t = 200 -/
theorem C15_aliased_loop_witness :
    ssRun false (fun y => List.zipWith (· + ·) y [100]) (smallAbs (1 / 1000000)) 1000 [1]
      = .steady 2 [201] := by
  decide +kernel

/-- non-vacuity: a halving relaxation towards 1 from 5 with tolerance 3/2 converges in the copying loop at
the second step (5 → 3 → 2), and the hypothesis of `C15_success_is_small_step` is met -/
example : ssRun true (affine [[1 / 2]] [1 / 2]) (smallAbs (3 / 2)) 3 [5] = .steady 2 [2] := by
  simp [ssRun, ssLoop, affine, dot, smallAbs, normSq, vsub]
  norm_num

end Mxl.C15
