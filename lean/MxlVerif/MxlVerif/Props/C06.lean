import MxlVerif.Model.C06Hyp
import MxlVerif.Generated.C06Tables
namespace Mxl.C06
theorem placeholder : True := trivial
end Mxl.C06
