/-
C06 — Python → symbolic translation is sound: equal everywhere, or refused.

All statements are about the executable model the driver runs: `fnToSympy` / `trExpr` / `trLoop`
(Model/C06.lean, after `fn_to_sympy` / `_handle_expr` / `_handle_fn_body`) instantiated at the tables
`Generated.tables` that `translate/c06.py` reads from the current `source_tools.py`, the Python semantics
`callFn` and the symbolic semantics `evalS`.

After the repairs of F-C06-1 (branches work on a copy of the symbol table), F-C06-2 (a branch that falls through is
refused unless all that follows is `return <its last name>`) and F-C06-7 (tests must be Booleans) the full statement
holds without any side condition on the program: `C06_sound`, `C06_rename_sound`.  The `example`s at the end replay the
three old witnesses against the *pre-repair* tables (`branchCopies`, `fallThroughChecked`, `testsBoolean` off).
-/
import MxlVerif.Lemmas.C06Rename
namespace Mxl.C06

open Generated in
/-- Every entry of the operator / comparison / known-function tables read from `source_tools.py` has a
symbolic meaning equal to the Python operator's meaning, and the six control facts hold: `subs` is simultaneous,
tuple assignments translate the right-hand side first, unhandled statement kinds are refused, every branch of an `if` is
translated against a copy of the symbol table *and of the function-local import tables*, `_check_branch` guards every
branch, tests go through `_handle_test`, a chained assignment binds every target, `a, b = e` (no tuple display) is refused,
a function-local import binds ints like floats and refuses other objects, positional-only parameters are arguments and
`*args` / keyword-only / `**kw` signatures are refused. -/
theorem C06_table_sound : TablesOk Generated.tables where
  unops := by
    intro op s hmem x v h
    simp only [tables, unops, List.mem_cons, Prod.mk.injEq, List.mem_nil_iff, or_false] at hmem
    rcases hmem with ⟨rfl, rfl⟩ | ⟨rfl, rfl⟩ <;> simp_all [pyUn, symUn]
  binops := by
    intro op s hmem a b v h
    simp only [tables, binops, List.mem_cons, Prod.mk.injEq, List.mem_nil_iff, or_false] at hmem
    rcases hmem with ⟨rfl, rfl⟩ | ⟨rfl, rfl⟩ | ⟨rfl, rfl⟩ | ⟨rfl, rfl⟩ | ⟨rfl, rfl⟩ | ⟨rfl, rfl⟩ | ⟨rfl, rfl⟩ <;>
      simpa [pyBin, symBin] using h
  cmpops := by
    intro op tr hmem
    simp only [tables, cmpops, List.mem_cons, Prod.mk.injEq, List.mem_nil_iff, or_false] at hmem
    rcases hmem with ⟨rfl, rfl⟩ | ⟨rfl, rfl⟩ | ⟨rfl, rfl⟩ | ⟨rfl, rfl⟩ | ⟨rfl, rfl⟩ | ⟨rfl, rfl⟩ <;>
      exact ⟨_, rfl, by intro a b v h; simp [pyCmp] at h; simp [symRel, ← h]⟩
  cmpComplete := by
    intro op hl a b
    cases op <;> first | rfl | (exfalso; revert hl; decide)
  knownFns := knownFns_of_check knownFnsCheck_generated
  substSim := rfl
  tupleSim := rfl
  stmtRefused := rfl
  branchCopies := rfl
  fallChecked := rfl
  testsBool := rfl
  chainAll := rfl
  unpackRefused := rfl
  importsStrict := rfl
  importsCopied := rfl
  sigStrict := rfl
  cmpStrict := rfl

/-- the meaning (as a mathematical constant) of a `KNOWN_CONSTANTS` key / value text -/
def pyConstMeaning : String → Option String
  | "math.e" => some "e" | "math.pi" => some "pi" | "math.nan" => some "nan" | "math.tau" => some "2*pi"
  | "math.inf" => some "inf" | "np.e" => some "e" | "np.pi" => some "pi" | "np.nan" => some "nan"
  | "np.inf" => some "inf" | _ => none

def symConstMeaning : String → Option String
  | "sympy.E" => some "e" | "sympy.pi" => some "pi" | "sympy.nan" => some "nan" | "sympy.pi * 2" => some "2*pi"
  | "sympy.oo" => some "inf" | _ => none

/-- every `KNOWN_CONSTANTS` entry pairs a Python constant with the sympy constant of the same meaning -/
theorem C06_const_table_sound :
    Generated.knownConsts.all (fun ks => (pyConstMeaning ks.1).isSome && pyConstMeaning ks.1 == symConstMeaning ks.2) = true := by
  decide

/-- **Soundness.** For every program and function: if the translator yields an expression `e` for `d` and Python's
`d(vs)` has the value `v`, then `e` evaluates to `v` at the valuation `params ↦ vs`.  No side condition; for every
fuel (= every recursion depth of either side). -/
theorem C06_sound (P : Prog) (d : FnDef) (f1 f2 : Nat) (e : SExpr) (vs : List Val) (v : Val)
    (htr : fnToSympy Generated.tables P f1 d none = .ok e) (hpy : callFn P f2 d vs = some v) :
    evalS (envOf (d.params.zip vs)) e = some v :=
  (sound_all C06_table_sound f1).fnPlain d none e htr (Or.inl rfl) f2 vs v hpy _ (fun _ _ hn => hn)

/-- **Soundness under renaming.** With `model_args = ms` (symbols or expressions, possibly the function's own
parameter names in another order): at any valuation `ρ` of the model symbols where the `ms` evaluate to `vs`, the
substituted expression evaluates to Python's `d(vs)`. -/
theorem C06_rename_sound (P : Prog) (d : FnDef) (f1 f2 : Nat) (ms : List SExpr) (e : SExpr) (vs : List Val) (v : Val)
    (ρ : SEnv) (htr : fnToSympy Generated.tables P f1 d (some ms) = .ok e)
    (hargs : All2 (fun m x => evalS ρ m = some x) ms vs) (hpy : callFn P f2 d vs = some v) :
    evalS ρ e = some v := by
  cases ms with
  | nil =>
    cases hargs
    refine (sound_all C06_table_sound f1).fnPlain d (some []) e htr (Or.inr rfl) f2 [] v hpy ρ ?_
    intro n x hn
    simp at hn
  | cons m ms =>
    exact (sound_all C06_table_sound f1).fnSubst d m ms e htr f2 vs v hpy ρ hargs

/-- **Renaming onto any distinct model names — in particular onto the function's own parameter names in ANOTHER ORDER.**
Let `names` be any list of distinct symbol names as long as the parameter list (every permutation of `d.params` is
one; so is any overlap with them, e.g. a rotation or a shift).  If `fn_to_sympy(d, model_args = names)` yields `e`,
then at the valuation `names[i] ↦ vs[i]` the expression `e` has the value of Python's `d(vs)`: the i-th parameter is
read at the i-th model name, never at a name that merely coincides with another parameter (the substitution is
simultaneous: `C06_table_sound.substSim`; with the sequential `subs` of the unrepaired code this is false,
`C06_substSeq_unsound`). -/
theorem C06_rename_names_sound (P : Prog) (d : FnDef) (f1 f2 : Nat) (names : List String) (e : SExpr) (vs : List Val)
    (v : Val) (hnd : names.Nodup) (hlen : names.length = vs.length)
    (htr : fnToSympy Generated.tables P f1 d (some (names.map SExpr.sym)) = .ok e)
    (hpy : callFn P f2 d vs = some v) :
    evalS (envOf (names.zip vs)) e = some v :=
  C06_rename_sound P d f1 f2 (names.map SExpr.sym) e vs v _ htr
    (all2_syms_of_nodup names vs _ hnd hlen (fun _ _ h => h)) hpy

/-- … stated for permutations: `σ` any permutation of the parameter list (as a list: `σ.Perm d.params`), the function
has distinct parameters (Python refuses a `def` that repeats one). -/
theorem C06_rename_perm_sound (P : Prog) (d : FnDef) (f1 f2 : Nat) (σ : List String) (e : SExpr) (vs : List Val)
    (v : Val) (hperm : σ.Perm d.params) (hnd : d.params.Nodup) (hlen : d.params.length = vs.length)
    (htr : fnToSympy Generated.tables P f1 d (some (σ.map SExpr.sym)) = .ok e)
    (hpy : callFn P f2 d vs = some v) :
    evalS (envOf (σ.zip vs)) e = some v :=
  C06_rename_names_sound P d f1 f2 σ e vs v (hperm.nodup_iff.mpr hnd) (by rw [hperm.length_eq]; exact hlen) htr hpy

/-- **Every comparison operator is translated or refused.**  `Generated.cmpClasses` = the subclasses of `ast.cmpop` of the
running interpreter, `Generated.cmpTranslated` = the classes the `elif` chain of the Compare branch tests, `cmpStrict` = the
chain ends in `else: raise NotImplementedError`.  A chain that contains an operator outside the table (`is`, `is not`, `in`,
`not in`: `CmpOp.other`) is refused whatever its position and whatever else it contains (F-C06-19: the link used to be
dropped, `1.0 if a < b is c else 2.0` became `Piecewise((1.0, a < b), (2.0, True))`).  Soundness for such chains therefore
rests on this refusal and not on `pyCmp .other = none` (the model has no value for identity / membership tests). -/
theorem C06_cmp_other_refused (l r : SExpr) :
    (cmpOne Generated.tables .other l r).toOption = none ∧
    Generated.cmpClasses.all (fun c => Generated.cmpTranslated.contains c || Generated.tables.cmpStrict) = true ∧
    Generated.cmpTranslated.all (Generated.cmpClasses.contains ·) = true := by
  refine ⟨by rfl, by decide, by decide⟩

theorem C06_cmp_chain_with_other_refused (prev : SExpr) (ops1 ops2 : List CmpOp) (rs : List SExpr)
    (hlen : rs.length = (ops1 ++ CmpOp.other :: ops2).length) :
    (cmpChain Generated.tables prev (ops1 ++ CmpOp.other :: ops2) rs).toOption = none := by
  induction ops1 generalizing prev rs with
  | nil =>
    cases rs with
    | nil => simp at hlen
    | cons r rs =>
      simp only [List.nil_append, cmpChain, bind, Except.bind]
      have : cmpOne Generated.tables .other prev r = .error (.refused "NotImplementedError: comparison operator") := rfl
      rw [this]; rfl
  | cons op ops ih =>
    cases rs with
    | nil => simp at hlen
    | cons r rs =>
      simp only [List.cons_append, cmpChain, bind, Except.bind]
      cases hc : cmpOne Generated.tables op prev r with
      | error e => rfl
      | ok c =>
        have := ih r rs (by simpa using hlen)
        simp only []
        cases hcs : cmpChain Generated.tables r (ops ++ CmpOp.other :: ops2) rs with
        | error e => rfl
        | ok cs => rw [hcs] at this; simp [Except.toOption] at this

/-- **What is not a plain module-level `def` is bound soundly or refused** (facts read from the entry of `fn_to_sympy`): a
function object whose source is another function's — a decorator that wraps, `inspect.getsource` follows `__wrapped__` —
is refused (F-C06-17); the free variables of a closure are bound to the numbers in its cells, like function-local
constants, and closing over anything else is refused (F-C06-18).  In the model a closure number is the `importS` binding
of a number (covered by `C06_sound`), the refusals are `unhandled` statements (`C06_unlisted_stmt_refused`); lambdas, nested
`def`s, `functools.partial` objects and calls that rely on default values are refused by the dispatch lists and the strict
`zip` (`C06_unlisted_expr_refused`, `callKw`). -/
theorem C06_entry_facts_generated :
    Generated.wrappedRefused = true ∧ Generated.closuresFromCells = true ∧ Generated.exprStmtConstOnly = true := by decide

/-- **Nested calls.** The translation of `g(args)` is the translation of `g`'s body — started with *empty* import
tables: the callee never sees the caller's function-local imports — with the translated arguments substituted
*simultaneously* for `g`'s parameters.  The function expression is resolved among the caller's function-local
imports first (`I ++ G`). -/
theorem C06_nested_call (P : Prog) (f : Nat) (G : List (String × GVal)) (I : Imps) (ctx : Syms) (g : String)
    (args : List PyExpr) (d : FnDef) (sargs : List SExpr) (e : SExpr) (c' : Syms)
    (func : String) (hres : resolveCall (I ++ G) func = .user g)
    (hfind : P.find g = some d) (hargs : trArgs Generated.tables P (f+1) G I ctx args = .ok sargs)
    (hne : sargs ≠ []) (hlen : sargs.length = d.params.length) (hsig : d.otherParams = false)
    (hbody : trBody Generated.tables P f d.globals [] d.body (d.params.map (fun p => (p, SExpr.sym p))) = .ok (e, c')) :
    trExpr Generated.tables P (f+2) G I ctx (.call func args) = .ok (substSim (d.params.zip sargs) e) := by
  rw [trExpr, hargs]
  simp only [bind, Except.bind, hres, hfind]
  rw [fnToSympy]
  unfold trBody at hbody
  have hs : Generated.tables.sigStrict = true := rfl
  simp only [hs, hsig, Bool.and_false, Bool.false_eq_true, ↓reduceIte]
  rw [hbody]
  simp only [bind, Except.bind]
  cases sargs with
  | nil => exact absurd rfl hne
  | cons m ms =>
    simp only [hlen, ne_eq, not_true_eq_false, ↓reduceIte, pure, Except.pure, applySubst]
    rfl

/-! ### the three shapes the unrepaired `_handle_fn_body` got wrong are refused now -/

/-- `def f(x): y = x; if x > 0: y = 2*x; return y; return y`  (was F-C06-1: translated to 2*x everywhere) -/
def leakFn : FnDef where
  name := "f"
  params := ["x"]
  globals := []
  body := [.assign "y" (.name "x"),
           .ifs (.cmp (.name "x") [.gt] [.num 0])
             [.assign "y" (.bin .mul (.num 2) (.name "x")), .ret (.name "y")] [],
           .ret (.name "y")]

/-- `def f(x): if x > 0: y = 1 else: y = 2; z = y + x; return z`  (was F-C06-2) -/
def afterIfElseFn : FnDef where
  name := "f"
  params := ["x"]
  globals := []
  body := [.ifs (.cmp (.name "x") [.gt] [.num 0]) [.assign "y" (.num 1)] [.assign "y" (.num 2)],
           .assign "z" (.bin .add (.name "y") (.name "x")),
           .ret (.name "z")]

/-- `def f(x): if x: return 1; return 2`  (was F-C06-7) -/
def truthyFn : FnDef where
  name := "f"
  params := ["x"]
  globals := []
  body := [.ifs (.name "x") [.ret (.num 1)] [], .ret (.num 2)]

/-- the old witnesses today: the first is translated correctly (branch copy), the other two are refused -/
theorem C06_old_witnesses_now :
    fnToSympy Generated.tables [leakFn] 20 leakFn none
      = .ok (.pw (.bin .mul (.num 2) (.sym "x")) (.rel .gt (.sym "x") (.num 0))
              (.pw (.sym "x") (.boolLit true) .pwEnd)) ∧
    (fnToSympy Generated.tables [afterIfElseFn] 20 afterIfElseFn none).toOption = none ∧
    (fnToSympy Generated.tables [truthyFn] 20 truthyFn none).toOption = none := by
  decide +kernel

/-- the tables of the code before the three repairs -/
def preRepairTables : Tables :=
  { Generated.tables with cmpStrict := false, branchCopies := false, fallThroughChecked := false, testsBoolean := false }

example :
    fnToSympy preRepairTables [leakFn] 20 leakFn none
      = .ok (.pw (.bin .mul (.num 2) (.sym "x")) (.rel .gt (.sym "x") (.num 0))
              (.pw (.bin .mul (.num 2) (.sym "x")) (.boolLit true) .pwEnd)) ∧
    callFn [leakFn] 20 leakFn [.num (-1)] = some (.num (-1)) ∧
    evalS (envOf [("x", .num (-1))])
        (.pw (.bin .mul (.num 2) (.sym "x")) (.rel .gt (.sym "x") (.num 0))
              (.pw (.bin .mul (.num 2) (.sym "x")) (.boolLit true) .pwEnd)) = some (.num (-2)) := by
  decide +kernel

example :
    fnToSympy preRepairTables [afterIfElseFn] 20 afterIfElseFn none
      = .ok (.pw (.num 1) (.rel .gt (.sym "x") (.num 0)) (.pw (.num 2) (.boolLit true) .pwEnd)) ∧
    callFn [afterIfElseFn] 20 afterIfElseFn [.num 3] = some (.num 4) := by
  decide +kernel

example :
    fnToSympy preRepairTables [truthyFn] 20 truthyFn none
      = .ok (.pw (.num 1) (.sym "x") (.pw (.num 2) (.boolLit true) .pwEnd)) ∧
    callFn [truthyFn] 20 truthyFn [.num 3] = some (.num 1) ∧
    evalS (envOf [("x", .num 3)]) (.pw (.num 1) (.sym "x") (.pw (.num 2) (.boolLit true) .pwEnd)) = none := by
  decide +kernel

/-- each of the repairs is needed: tables without it are not `TablesOk` -/
theorem C06_repairs_needed :
    ¬ TablesOk { Generated.tables with branchCopies := false } ∧
    ¬ TablesOk { Generated.tables with fallThroughChecked := false } ∧
    ¬ TablesOk { Generated.tables with testsBoolean := false } ∧
    ¬ TablesOk { Generated.tables with chainAssignAll := false } ∧
    ¬ TablesOk { Generated.tables with unpackRefused := false } ∧
    ¬ TablesOk { Generated.tables with importsStrict := false } ∧
    ¬ TablesOk { Generated.tables with importsCopied := false } ∧
    ¬ TablesOk { Generated.tables with sigStrict := false } := by
  refine ⟨?_, ?_, ?_, ?_, ?_, ?_, ?_, ?_⟩
  · intro h; exact absurd h.branchCopies (by decide)
  · intro h; exact absurd h.fallChecked (by decide)
  · intro h; exact absurd h.testsBool (by decide)
  · intro h; exact absurd h.chainAll (by decide)
  · intro h; exact absurd h.unpackRefused (by decide)
  · intro h; exact absurd h.importsStrict (by decide)
  · intro h; exact absurd h.importsCopied (by decide)
  · intro h; exact absurd h.sigStrict (by decide)

/-! ### round 3: chained assignment, unpacking, signatures, function-local imports -/

/-- `def f(x): y = x; z = y = 2 * x; return y`  (was F-C06-11: only `z` was bound, the result was `x`) -/
def chainFn : FnDef where
  name := "f"
  params := ["x"]
  globals := []
  body := [.assign "y" (.name "x"), .multiAssign ["z", "y"] (.bin .mul (.num 2) (.name "x")), .ret (.name "y")]

/-- `def f(x, y): x, y = divmod(x, y); return x`  (was F-C06-12: nothing bound, the result was `x`) -/
def unpackFn : FnDef where
  name := "f"
  params := ["x", "y"]
  globals := []
  body := [.unpackAssign ["x", "y"] (.call "divmod" [.name "x", .name "y"]), .ret (.name "x")]

/-- module-level `NI = 2.5`; `def f(x): from g import NI  (an int, 3); return x * NI`  (was F-C06-13: translated with 2.5) -/
def intImportFn : FnDef where
  name := "f"
  params := ["x"]
  globals := [("NI", .flt (5/2))]
  body := [.importS [("NI", .int 3)], .ret (.bin .mul (.name "x") (.name "NI"))]

/-- module-level `a = 7.0`; `def f(a, /, b): return a * b`  (was F-C06-14: translated to 7.0 * b) -/
def posonlyFn : FnDef where
  name := "f"
  params := ["a", "b"]
  nPosonly := 1
  globals := [("a", .flt 7)]
  body := [.ret (.bin .mul (.name "a") (.name "b"))]

/-- `def hg(a, b): return a * b + 1`, `def hh(a, b): return a * b` and
`def f(x, y): from h import hmul; if x > 0: from g import hmul; return hmul(x, y); return hmul(x, y)`
(was F-C06-15: the import made in the branch was visible after it) -/
def hgFn : FnDef := { name := "g:hmul", params := ["a", "b"], globals := [],
                      body := [.ret (.bin .add (.bin .mul (.name "a") (.name "b")) (.num 1))] }
def hhFn : FnDef := { name := "h:hmul", params := ["a", "b"], globals := [],
                      body := [.ret (.bin .mul (.name "a") (.name "b"))] }
def branchImportFn : FnDef where
  name := "f"
  params := ["x", "y"]
  globals := []
  body := [.importS [("hmul", .objs [("hmul", .fn (.user "h:hmul"))])],
           .ifs (.cmp (.name "x") [.gt] [.num 0])
             [.importS [("hmul", .objs [("hmul", .fn (.user "g:hmul"))])], .ret (.call "hmul" [.name "x", .name "y"])] [],
           .ret (.call "hmul" [.name "x", .name "y"])]

/-- the five round-3 witnesses today: translated correctly, or refused -/
theorem C06_round3_witnesses_now :
    fnToSympy Generated.tables [chainFn] 20 chainFn none = .ok (.bin .mul (.num 2) (.sym "x")) ∧
    (fnToSympy Generated.tables [unpackFn] 20 unpackFn none).toOption = none ∧
    fnToSympy Generated.tables [intImportFn] 20 intImportFn none = .ok (.bin .mul (.sym "x") (.num 3)) ∧
    fnToSympy Generated.tables [posonlyFn] 20 posonlyFn none = .ok (.bin .mul (.sym "a") (.sym "b")) ∧
    fnToSympy Generated.tables [hgFn, hhFn, branchImportFn] 20 branchImportFn none
      = .ok (.pw (.bin .add (.bin .mul (.sym "x") (.sym "y")) (.num 1)) (.rel .gt (.sym "x") (.num 0))
              (.pw (.bin .mul (.sym "x") (.sym "y")) (.boolLit true) .pwEnd)) := by
  decide +kernel

/-- … and Python's values of the same functions (the model's Python semantics of the new constructs) -/
example :
    callFn [chainFn] 20 chainFn [.num 3] = some (.num 6) ∧
    callFn [intImportFn] 20 intImportFn [.num 2] = some (.num 6) ∧
    callFn [posonlyFn] 20 posonlyFn [.num 2, .num 3] = some (.num 6) ∧
    callFn [hgFn, hhFn, branchImportFn] 20 branchImportFn [.num 2, .num 3] = some (.num 7) ∧
    callFn [hgFn, hhFn, branchImportFn] 20 branchImportFn [.num (-2), .num 3] = some (.num (-6)) := by
  decide +kernel

/-- the tables of the code before the round-3 repairs -/
def preRound3Tables : Tables :=
  { Generated.tables with chainAssignAll := false, unpackRefused := false, importsStrict := false, sigStrict := false }

example :
    fnToSympy preRound3Tables [chainFn] 20 chainFn none = .ok (.sym "x") ∧
    fnToSympy preRound3Tables [] 20
      { name := "f", params := ["x", "y"], globals := [],
        body := [.unpackAssign ["x", "y"] (.bin .add (.name "x") (.name "y")), .ret (.name "x")] } none = .ok (.sym "x") ∧
    fnToSympy preRound3Tables [intImportFn] 20 intImportFn none = .ok (.bin .mul (.sym "x") (.num (5/2))) ∧
    fnToSympy preRound3Tables [posonlyFn] 20 posonlyFn none = .ok (.bin .mul (.num 7) (.sym "b")) := by
  decide +kernel

/-- a signature with `*args`, keyword-only parameters or `**kw` is refused, whatever the body -/
theorem C06_other_params_refused (P : Prog) (f : Nat) (d : FnDef) (margs : Option (List SExpr))
    (h : d.otherParams = true) : (fnToSympy Generated.tables P f d margs).toOption = none := by
  cases f with
  | zero => rfl
  | succ f =>
    rw [fnToSympy]
    have hs : Generated.tables.sigStrict = true := rfl
    simp [hs, h, Except.toOption]

/-- `a, b = e` where `e` is not a tuple display is refused wherever it stands at the head of the remaining body -/
theorem C06_unpack_refused (P : Prog) (f : Nat) (G : List (String × GVal)) (I : Imps) (body rest : List PyStmt)
    (pieces : List (SExpr × SExpr)) (isElif : Bool) (ctx : Syms) (xs : List String) (e : PyExpr) :
    (trLoop Generated.tables P f G I body pieces (.unpackAssign xs e :: rest) isElif ctx).toOption = none := by
  cases f with
  | zero => rfl
  | succ f =>
    simp only [trLoop]
    have hs : Generated.tables.unpackRefused = true := rfl
    simp [hs, Except.toOption]

/-- **Callee isolation.** A nested call is translated with empty import tables and a fresh symbol table: the result does
not depend on the caller's function-local imports or locals. -/
theorem C06_callee_isolated (P : Prog) (f : Nat) (G : List (String × GVal)) (I₁ I₂ : Imps) (ctx₁ ctx₂ : Syms)
    (func : String) (args : List PyExpr) (sargs : List SExpr)
    (h1 : trArgs Generated.tables P f G I₁ ctx₁ args = .ok sargs)
    (h2 : trArgs Generated.tables P f G I₂ ctx₂ args = .ok sargs)
    (hres : resolveCall (I₁ ++ G) func = resolveCall (I₂ ++ G) func) :
    trExpr Generated.tables P (f+1) G I₁ ctx₁ (.call func args) = trExpr Generated.tables P (f+1) G I₂ ctx₂ (.call func args) := by
  rw [trExpr, trExpr, h1, h2, hres]

/-- why the repair of F-C06-4 was needed: sequential substitution is not substitution.
`(a - b).subs({a: b, b: a})` done one key after the other is `a - a`. -/
theorem C06_substSeq_unsound :
    substSeq [("a", .sym "b"), ("b", .sym "a")] (.bin .sub (.sym "a") (.sym "b"))
      = .bin .sub (.sym "a") (.sym "a") ∧
    substSim [("a", .sym "b"), ("b", .sym "a")] (.bin .sub (.sym "a") (.sym "b"))
      = .bin .sub (.sym "b") (.sym "a") := by
  decide +kernel

/-- why the repair of F-C06-3 was needed: a table that applies Python's `==` to the two sympy objects
(structural equality at translation time) is not sound. -/
theorem C06_structEq_not_ok : ¬ TablesOk { Generated.tables with cmpops := [(.eq, .structEq)] } := by
  intro h
  obtain ⟨r, hr, _⟩ := h.cmpops .eq .structEq (by simp)
  cases hr

/-! ### non-vacuity: programs that are translated to an expression, with every accepted control-flow shape -/

/-- `def g(a): if 1 < a < 2: return a; elif a == 2: t = a / 2; return t; else: return a ** 2` -/
def guardFn : FnDef where
  name := "g"
  params := ["a"]
  globals := []
  body := [.ifs (.cmp (.num 1) [.lt, .lt] [.name "a", .num 2]) [.ret (.name "a")]
             [.ifs (.cmp (.name "a") [.eq] [.num 2])
                [.assign "t" (.bin .div (.name "a") (.num 2)), .ret (.name "t")]
                [.ret (.bin .pow (.name "a") (.num 2))]]]

/-- `def h(a, b): t, u = b, a; return g(t) - u` -/
def callerFn : FnDef where
  name := "h"
  params := ["a", "b"]
  globals := [("g", .fn (.user "g"))]
  body := [.tupleAssign ["t", "u"] [.name "b", .name "a"],
           .ret (.bin .sub (.call "g" [.name "t"]) (.name "u"))]

/-- `def k(a): b = 0; if a > 1: b = a; elif a < 0: return 7; else: b = a**2; return b`  (branches that fall through with
the accepted continuation, re-binding a bound name) -/
def fallFn : FnDef where
  name := "k"
  params := ["a"]
  globals := []
  body := [.assign "b" (.num 0),
           .ifs (.cmp (.name "a") [.gt] [.num 1]) [.assign "b" (.name "a")]
             [.ifs (.cmp (.name "a") [.lt] [.num 0]) [.ret (.num 7)]
                [.assign "b" (.bin .pow (.name "a") (.num 2))]],
           .ret (.name "b")]

example : (fnToSympy Generated.tables [guardFn, callerFn] 20 callerFn
            (some [.sym "b", .sym "a"])).toOption.isSome = true := by decide +kernel

example : callFn [guardFn, callerFn] 20 callerFn [.num 5, .num 2] = some (.num (-4)) := by decide +kernel

example : evalS (envOf [("a", .num 5), ("b", .num 2)])
    ((fnToSympy Generated.tables [guardFn, callerFn] 20 callerFn none).toOption.getD .pwEnd) = some (.num (-4)) := by
  decide +kernel

example : (fnToSympy Generated.tables [fallFn] 20 fallFn none).toOption.isSome = true ∧
    callFn [fallFn] 20 fallFn [.num 3] = some (.num 3) ∧ callFn [fallFn] 20 fallFn [.num (-2)] = some (.num 7) ∧
    callFn [fallFn] 20 fallFn [.num (1/2)] = some (.num (1/4)) ∧
    evalS (envOf [("a", .num (1/2))]) ((fnToSympy Generated.tables [fallFn] 20 fallFn none).toOption.getD .pwEnd)
      = some (.num (1/4)) := by
  decide +kernel

/-! ### facts read from the source text of `_check_branch`, `_handle_expr`, `_handle_fn_body` -/

/-- **`_check_branch` is `branchOk`.** The accepting conditions of `_check_branch`, as `translate/c06.py` reads them from the
current source (`Generated.checkBranchAccept`: each `if <conjunction>: return` before the final `raise`, every conjunct
recognised by its source text), decide exactly the `branchOk` that `trLoop` applies — for every branch and continuation. -/
theorem C06_check_branch_generated (rest b : List PyStmt) :
    checkBranchG Generated.checkBranchAccept rest b = branchOk rest b := by
  unfold branchOk
  rw [assignOnly_eq_plain]
  simp only [checkBranchG, Generated.checkBranchAccept, List.any_cons, List.any_nil, List.all_cons, List.all_nil,
    Bool.and_true, Bool.or_false, cbAtom]
  cases hp : (!b.isEmpty && b.all isPlainAssign) with
  | false => simp
  | true =>
    have hall : b.all isPlainAssign = true := by
      simp only [Bool.and_eq_true] at hp; exact hp.2
    rw [lastAssigned_plain b hall]
    cases rest with
    | nil => simp
    | cons r rs =>
      cases rs with
      | cons r2 rs2 =>
        simp only [List.isEmpty_cons, List.length_cons, Bool.true_and, Bool.false_or]
        cases bodyReturns b <;> simp <;> omega
      | nil =>
        simp only [List.isEmpty_cons, List.length_cons, List.length_nil, List.head?_cons, Bool.true_and, Bool.false_or]
        cases r with
        | ret e =>
          cases e with
          | name n =>
            cases hg : b.getLast? with
            | none => simp
            | some t => cases t <;> simp
          | _ => simp
        | _ => simp

/-- **Every expression class outside the generated list is refused.** `Generated.exprKinds` = the `ast` classes
`_handle_expr` tests with `isinstance` before its final `raise NotImplementedError`; a node of any other class (BoolOp,
Lambda, NamedExpr, Subscript, Tuple, …: the model's `unsupported`) has no translation. -/
theorem C06_unlisted_expr_refused (e : PyExpr) (h : exprClass e ∉ Generated.exprKinds)
    (P : Prog) (f : Nat) (G : List (String × GVal)) (I : Imps) (ctx : Syms) :
    (trExpr Generated.tables P f G I ctx e).toOption = none := by
  cases f with
  | zero => rfl
  | succ f =>
    cases e with
    | unsupported => rw [trExpr]; rfl
    | _ => exact absurd (by simp [exprClass, Generated.exprKinds]) h

/-- … and every listed class has a constructor in the model (no class is dispatched on that the model ignores) -/
theorem C06_expr_kinds_covered :
    Generated.exprKinds.all (fun k => ["Constant", "Name", "Attribute", "UnaryOp", "BinOp", "Compare", "IfExp", "Call"].contains k) = true := by
  decide

/-- **Every statement class outside the generated list is refused** (`for`, `while`, `with`, augmented and annotated
assignment, `try`, `match`, nested `def`, …), wherever it stands. -/
theorem C06_unlisted_stmt_refused (st : PyStmt) (h : stmtClass st ∉ Generated.stmtKinds)
    (P : Prog) (f : Nat) (G : List (String × GVal)) (I : Imps) (body rest : List PyStmt)
    (pieces : List (SExpr × SExpr)) (isElif : Bool) (ctx : Syms) :
    (trLoop Generated.tables P f G I body pieces (st :: rest) isElif ctx).toOption = none := by
  cases f with
  | zero => rfl
  | succ f =>
    have hs : Generated.tables.unknownStmtRefused = true := rfl
    cases st with
    | augAssign x op e => simp only [trLoop, hs]; rfl
    | unhandled => simp only [trLoop, hs]; rfl
    | _ => exact absurd (by simp [stmtClass, Generated.stmtKinds]) h

theorem C06_stmt_kinds_covered :
    Generated.stmtKinds.all (fun k => ["If", "Return", "Assign", "Import", "ImportFrom", "Expr", "Pass"].contains k) = true := by
  decide

/-- non-vacuity of the accepted fall-through shape, and the shape of the round-3 seeded change (the returned name is
assigned in the branch, but not last) is not accepted -/
example :
    branchOk [.ret (.name "v")] [.assign "s" (.num 1), .assign "v" (.num 2)] = true ∧
    branchOk [.ret (.name "v")] [.assign "v" (.num 2), .assign "s" (.num 1)] = false ∧
    branchOk [.ret (.name "v")] [.multiAssign ["v", "s"] (.num 2)] = false := by decide

-- `C06_rename_perm_sound` is not vacuous: `def sub(a, b): return a - b` with `model_args = [b, a]` is translated (to
-- `b - a`), Python's `sub(5, 3)` is 2, and at `b ↦ 5, a ↦ 3` the translation evaluates to 2
example :
    let d : FnDef := { name := "sub", params := ["a", "b"], body := [.ret (.bin .sub (.name "a") (.name "b"))], globals := [] }
    fnToSympy Generated.tables [d] 5 d (some (["b", "a"].map SExpr.sym)) = .ok (.bin .sub (.sym "b") (.sym "a")) ∧
    callFn [d] 5 d [.num 5, .num 3] = some (.num 2) ∧
    evalS (envOf (["b", "a"].zip [.num 5, .num 3])) (.bin .sub (.sym "b") (.sym "a")) = some (.num 2) := by
  decide +kernel

end Mxl.C06
