/-
C14 — protocols: each step's parameter values hold exactly over its interval.

Theorems about `Mxl.C14.makeProtocol`, `simulateProtocol`, `simulateProtocolTC`, `stepP`, `runP`
(Model/C14.lean; the functions the driver executes) on top of the C04 machine.  A protocol is
*well-formed* (`wfSteps`) when its durations are positive — which parameters a step names, and in which
order, is free (steps may name different parameters).  Since the repair of F-C04-2 (root cause of F-C14-2) the history theorems hold
for every history whose protocols are well-formed — also when a protocol follows a steady-state run.
The comparison operators of the refusal test and of the half-open selection are read from the current source
(`Gen.protocolTCRefusal`, `Gen.selectLo`, `Gen.selectHi`; translate/c04.py): see `C14_source_facts`.
-/
import MxlVerif.Lemmas.C14Index
import MxlVerif.Lemmas.C14Rows
namespace Mxl.C14
open Mxl.C04

/-! ## The facts of the current source the proofs rest on -/

/-- `simulate_protocol_time_course` refuses with `time_points[-1] <= t_start` and selects `(t_start, t_end]`
    (`>` and `<=`); defaults: 10 time points per step, absolute time points; a row is applied with its NaN cells
    (parameters the step does not name) skipped -/
theorem C14_source_facts :
    Gen.protocolTCRefusal = .le ∧ Gen.selectLo = .gt ∧ Gen.selectHi = .le ∧
    Gen.defaultTimePointsPerStep = 10 ∧ Gen.defaultRelative = false ∧
    Gen.protocolSkipsUnnamed = true ∧ Gen.protocolTCSkipsUnnamed = true := by decide

/-! ## `make_protocol`: cumulative sums -/

/-- for positive durations `make_protocol` is the table of cumulative end times `d₁, d₁+d₂, …`; row `i` holds
    step `i`'s values (`normSteps`: listed in the table's column order): no row is lost, merged or reordered,
    whatever parameters the steps name and in whatever order -/
theorem C14_make_protocol_cumsum (steps : List PStep) (hwf : wfSteps steps = true) :
    makeProtocol steps = cumRows 0 (normSteps steps) ∧
    ((makeProtocol steps).map (·.1)).Pairwise (· < ·) ∧
    (makeProtocol steps).map (·.2) = (normSteps steps).map (·.2) ∧
    (normSteps steps).map (·.1) = steps.map (·.1) := by
  rw [makeProtocol_wf steps hwf]
  exact ⟨rfl, cumRows_pairwise 0 _ (normSteps_pos steps hwf), cumRows_pars 0 _, by simp [normSteps]⟩

/-- what a row of the table gives to a parameter: the value the step gives it if the step names it, nothing
    otherwise (the NaN cell of a parameter the step does not name is skipped when the row is applied) — so a
    step only changes the parameters it names, and the order in which it lists them is immaterial -/
theorem C14_row_values (cols : List Name) (p : Upd) (k : Name) :
    (rowDict cols p).lookup k = if cols.contains k then p.lookup k else none :=
  rowDict_lookup cols p k

/-- every parameter a step names is a column of the table (so by `C14_row_values` its row carries the value) -/
theorem C14_columns_complete (steps : List PStep) (s : PStep) (hs : s ∈ steps) (k : Name)
    (hk : k ∈ s.2.map (·.1)) : (columns [] (steps.map (·.2))).contains k = true :=
  columns_complete steps s hs k hk

/-- the documented form (every step names the same distinct parameters in the same order): each row is the
    step's own dict -/
theorem C14_rows_of_uniform_steps (steps : List PStep) (hwf : wfSteps steps = true) (huni : uniform steps = true) :
    makeProtocol steps = cumRows 0 steps := by
  rw [makeProtocol_wf steps hwf, normSteps_uniform steps huni]

/-- without positivity the dict-keyed table merges steps: a zero-duration step overwrites the
    values of the step before it (`k = 2` governs `(0, 1]`) -/
theorem C14_make_protocol_zero_duration_merges :
    makeProtocol [(1, [("k", 1)]), (0, [("k", 2)]), (1/2, [("k", 3)])]
      = [(1, [("k", 2)]), (3/2, [("k", 3)])] := by decide +kernel

/-! ## a protocol is a fold of (update parameters; simulate) -/

/-- `simulate_protocol` on a live simulator that has reached `T`: exactly the calls
    `update_parameters(p₁); simulate(T+d₁); update_parameters(p₂); simulate(T+d₁+d₂); …`, stopped at
    the first one that raises (`pᵢ` = step `i`'s values as its table row lists them) -/
theorem C14_protocol_is_fold {σ} (S : Sys σ) (s : Sim σ) (steps : List PStep) (n : Nat) (T : Rat)
    (hwf : wfSteps steps = true) (he : s.errors = 0) (hT : reached? s.segs = .ok T) :
    stepP S s (.protocol steps n) = runStop S s (expandProtocol T n (normSteps steps)) :=
  simulateProtocol_eq S s steps n T hwf he hT

/-- `simulate_protocol_time_course`: after the argument checks (an empty protocol cannot be shifted: TypeError;
    no requested point: IndexError; last requested point not later than `T`: ValueError), exactly the calls
    `update_parameters(pᵢ); simulate_time_course(requested ∩ (Tᵢ₋₁, Tᵢ] ∪ {Tᵢ})` in turn (relative
    points are first shifted by `T`) -/
theorem C14_protocol_tc_is_fold {σ} (S : Sys σ) (s : Sim σ) (steps : List PStep) (pts : List Rat)
    (rel : Bool) (T : Rat) (hwf : wfSteps steps = true) (he : s.errors = 0)
    (hT : reached? s.segs = .ok T) :
    stepP S s (.protocolTC steps pts rel) =
      (if steps.isEmpty then (s, some .typeError) else
       match (if rel then pts.map (· + T) else pts).getLast? with
       | none => (s, some .indexError)
       | some last =>
         if last ≤ T then (s, some .valueError) else
         runStop S s (expandProtocolTC (if rel then pts.map (· + T) else pts) T (normSteps steps))) :=
  simulateProtocolTC_eq S s steps pts rel T hwf he hT

/-- applying row `i` of the table is applying step `i`'s own dict, whatever the parameter values are before: the
    row is the dict in column order, and `update_parameters` of a dict with distinct names does not depend on the
    order (same resulting parameters, same KeyError for an unknown name).  `distinctNames` — every step's names are
    distinct — always holds of Python dicts; it is a condition on the wire format of the model only. -/
theorem C14_row_applies_step_values (steps : List PStep) (hd : distinctNames steps = true) (pars : Pars) :
    ∀ s ∈ steps, parsUpdate pars (rowDict (columns [] (steps.map (·.2))) s.2) = parsUpdate pars s.2 :=
  parsUpdate_normSteps steps hd pars

/-- hence `simulate_protocol` is the fold over the steps *as the caller wrote them*:
    `update_parameters(step₁'s dict); simulate(T+d₁); update_parameters(step₂'s dict); …` — each step's values govern
    its interval, for steps naming any parameters in any order -/
theorem C14_protocol_is_fold_of_steps {σ} (S : Sys σ) (s : Sim σ) (steps : List PStep) (n : Nat) (T : Rat)
    (hwf : wfSteps steps = true) (hd : distinctNames steps = true) (he : s.errors = 0)
    (hT : reached? s.segs = .ok T) :
    stepP S s (.protocol steps n) = runStop S s (expandProtocol T n steps) := by
  rw [C14_protocol_is_fold S s steps n T hwf he hT]
  exact runStop_expand_rows S n _ steps (fun pars => parsUpdate_normSteps steps hd pars) T s

/-- the same for the time-course form (after its argument checks) -/
theorem C14_protocol_tc_is_fold_of_steps {σ} (S : Sys σ) (s : Sim σ) (steps : List PStep) (pts : List Rat)
    (rel : Bool) (T : Rat) (hwf : wfSteps steps = true) (hd : distinctNames steps = true) (he : s.errors = 0)
    (hT : reached? s.segs = .ok T) :
    stepP S s (.protocolTC steps pts rel) =
      (if steps.isEmpty then (s, some .typeError) else
       match (if rel then pts.map (· + T) else pts).getLast? with
       | none => (s, some .indexError)
       | some last =>
         if last ≤ T then (s, some .valueError) else
         runStop S s (expandProtocolTC (if rel then pts.map (· + T) else pts) T steps)) := by
  rw [C14_protocol_tc_is_fold S s steps pts rel T hwf he hT]
  have := runStop_expandTC_rows S (if rel then pts.map (· + T) else pts) _ steps
    (fun pars => parsUpdate_normSteps steps hd pars) T s
  unfold normSteps
  simp only [this]

/-- in the fold, step `i`'s values are applied immediately before the stretch that ends at its
    cumulative end and nothing else happens in between: the head of the expansion is
    `update pᵢ; simulate (T + dᵢ)` and the rest is the expansion from `T + dᵢ` -/
theorem C14_step_interval (T : Rat) (n : Nat) (d : Rat) (p : Upd) (rest : List PStep) (pts : List Rat) :
    expandProtocol T n ((d, p) :: rest)
      = .updPars p :: .simulate (T + d) (some n) :: expandProtocol (T + d) n rest ∧
    expandProtocolTC pts T ((d, p) :: rest)
      = .updPars p :: .timeCourse (stepPoints pts T (T + d)) :: expandProtocolTC pts (T + d) rest :=
  ⟨rfl, rfl⟩

/-- the segment a step records carries that step's parameter values and is the flow under them:
    on the specification machine, `update p` (accepted, giving `p'`) followed by `simulate t` from a
    live state appends one segment with parameters `p'`, sampled from (`now`, `cur`) under `p'` on a
    strictly increasing grid ending at `t`, where the next step starts -/
theorem C14_step_uses_step_pars {σ} (S : Sys σ) (a : Spec σ) (p : Upd) (p' : Pars) (t : Rat) (n : Nat)
    (hf : a.failed = false) (hp : parsUpdate a.pars p = (p', none)) (ht : a.now < t) :
    Spec.updPars a p = ({ a with pars := p' }, none) ∧
    ∃ g', (a.now :: g').Pairwise (· < ·) ∧ g'.getLast? = some t ∧
      (Spec.simulate S { a with pars := p' } t (some (n + 1))).2 = none ∧
      (Spec.simulate S { a with pars := p' } t (some (n + 1))).1.segs =
        some (appendSeg a.segs ((a.now :: g').map fun x => (x, S.flow p' (x - a.now) a.cur)) p' true) ∧
      (Spec.simulate S { a with pars := p' } t (some (n + 1))).1.now = t ∧
      (Spec.simulate S { a with pars := p' } t (some (n + 1))).1.pars = p' := by
  refine ⟨by simp [Spec.updPars, hp], ?_⟩
  have hout : (Spec.simulate S { a with pars := p' } t (some (n + 1))).2 = none := by
    unfold Spec.simulate
    have h1 : ¬ t ≤ a.now := by grind
    have h2 : ¬ (n + 1 + 1 < 2) := by omega
    simp [hf, h1, h2, nPoints_some]
  rcases Spec.simulate_cases S { a with pars := p' } t (some (n + 1)) with ⟨_, h | h⟩ | ⟨g', _, _, c⟩
  · exact absurd hout h
  · simp [hf] at h
  · obtain ⟨hs, hnow, _, hpars⟩ := c.rows
    exact ⟨g', c.pw, c.last, hout, hs, hnow, hpars⟩

/-! ## the time-course form: which points each step asks for -/

/-- half-open partition: the selection `(lo, hi]` of the sorted outer join of protocol index and
    requested points is the requested points in `(lo, hi]` together with the boundary `hi` -/
theorem C14_tc_selection (idx pts : List Rat) (lo hi : Rat) (hhi : hi ∈ idx) (hnd : idx.Nodup)
    (hlo : lo < hi) (honly : ∀ b ∈ idx, lo < b → b ≤ hi → b = hi) :
    select (outerJoin idx pts) lo hi = stepPoints pts lo hi :=
  select_outerJoin idx pts lo hi hhi hnd hlo honly

/-- what a step asks for: `t` is among its points iff it is a requested point in `(lo, hi]` or the
    boundary `hi`; the points are sorted and end with the boundary (so the next step starts
    there); requested points at or before `lo` or beyond `hi` are not asked for by this step -/
theorem C14_tc_index (pts : List Rat) (lo hi : Rat) (hlo : lo < hi) :
    (∀ t, t ∈ stepPoints pts lo hi ↔ (t ∈ pts ∧ lo < t ∧ t ≤ hi) ∨ t = hi) ∧
    (stepPoints pts lo hi).Pairwise (· ≤ ·) ∧
    (stepPoints pts lo hi).getLast? = some hi :=
  ⟨fun t => mem_stepPoints pts lo hi t hlo, stepPoints_sorted pts lo hi, stepPoints_getLast pts lo hi hlo⟩

/-- The index of a whole time-course protocol call (specification machine, live state on a
    strictly increasing axis, positive durations, the call accepted): afterwards the axis is the
    axis before (the start time itself if there was no result) followed by the steps' points; a time
    is among those iff it is a requested point in `(t_start, T_end]` or a step boundary; every such
    time is on the axis exactly once, the axis is strictly increasing, and the clock is at `T_end`.
    (`C14_refines_spec` carries this over to the Simulator.) -/
theorem C14_tc_index_whole_call {σ} (S : Sys σ) (a : Spec σ) (steps : List PStep) (pts : List Rat)
    (hne : steps ≠ []) (hf : a.failed = false) (hax : Spec.Axis a)
    (hpos : steps.all (fun s => decide (0 < s.1)) = true)
    (hacc : (Spec.runStop S a (expandProtocolTC pts a.now steps)).2 = none) :
    let a' := (Spec.runStop S a (expandProtocolTC pts a.now steps)).1
    times a'.segs = axisBase a ++ allStepPoints pts a.now steps ∧
    (∀ t, t ∈ allStepPoints pts a.now steps ↔
      (t ∈ pts ∧ a.now < t ∧ t ≤ totalEnd a.now steps) ∨ t ∈ boundaries a.now steps) ∧
    (times a'.segs).Pairwise (· < ·) ∧
    (∀ t ∈ allStepPoints pts a.now steps, (times a'.segs).count t = 1) ∧
    a'.now = totalEnd a.now steps := by
  intro a'
  obtain ⟨ht, hnow⟩ := Spec.protocolTC_times S pts steps a hf hpos hacc
  have hemp : steps.isEmpty = false := by cases steps <;> simp at hne ⊢
  simp only [hemp, Bool.false_eq_true, if_false] at ht
  have hsorted : (times a'.segs).Pairwise (· < ·) :=
    (Spec.runStop_axis S _ a hax).sorted
  refine ⟨ht, fun t => mem_allStepPoints pts a.now steps hpos t, hsorted, ?_, hnow⟩
  intro t hmem
  apply count_eq_one_of_pairwise _ hsorted
  show t ∈ times a'.segs
  rw [ht]
  exact List.mem_append_right _ hmem

/-! ## histories with protocols -/

/-- every history of simulate / time-course / steady-state / update / clear / protocol calls with
    well-formed protocols: the Simulator and the
    specification machine (protocol = explicit calls on the absolute clock) give the same per-call
    outcomes, the same segments (times, states, `raw_parameters`) and the same parameter values —
    fresh or continued, also after an override or a steady-state run -/
theorem C14_refines_spec {σ} (S : Sys σ) (p : Pars) (y0 : σ) (ops : List OpP)
    (hok : ops.all wfOp = true) :
    (runP S (Sim.init p y0) ops).2 = (Spec.runP S (Spec.init p y0) ops).2 ∧
    (runP S (Sim.init p y0) ops).1.segs = (Spec.runP S (Spec.init p y0) ops).1.segs ∧
    (runP S (Sim.init p y0) ops).1.pars = (Spec.runP S (Spec.init p y0) ops).1.pars := by
  obtain ⟨h1, r⟩ := runP_refines S ops _ _ (Rel.init p y0) hok
  exact ⟨h1, r.segs, r.pars⟩

/-- hence (C04's axis theorem for the spec machine, whose protocol calls are C04 calls) the
    accumulated result of every such history has a strictly increasing time axis -/
theorem C14_axis_increasing {σ} (S : Sys σ) (p : Pars) (y0 : σ) (ops : List OpP)
    (hok : ops.all wfOp = true) :
    (times (runP S (Sim.init p y0) ops).1.segs).Pairwise (· < ·) := by
  rw [(C14_refines_spec S p y0 ops hok).2.1]
  exact (Spec.runP_axis S ops _ (Spec.Axis.init p y0)).sorted

/-- the history that witnessed F-C14-2 before the repair: a protocol after a steady-state run continues from
    the steady state at the reported time (axis `[100, 201/2, 101, 102, 103]`), in model and specification -/
theorem C14_steady_witness_repaired :
    times (runP termSys (Sim.init [("k", 1)] STerm.init)
        [.basic (.steady (some 0)), .protocol [(1, [("k", 1)]), (2, [("k", 2)])] 2]).1.segs
      = [100, 201/2, 101, 102, 103] := by decide +kernel

/-! ## a solver failure INSIDE a protocol call -/

/-- `simulate_protocol` on a live simulator at `T` whose solver fails in step `k` (0-based): exactly the explicit calls
    `update_parameters(p₁); simulate(T+d₁); …` with the `k`-th `simulate` being the failing one — so the steps before `k` are
    recorded as usual, step `k` records nothing and fails the simulator, and the parameter values of ALL LATER steps are
    still applied (their `simulate` is ignored) — except that a FIRST step failing on a simulator without results ends the
    call at once (`if self.variables is None: break`): the later steps' values are then not applied. -/
theorem C14_protocol_failure_is_fold {σ} (S : Sys σ) (s : Sim σ) (steps : List PStep) (n k : Nat) (T : Rat)
    (hwf : wfSteps steps = true) (he : s.errors = 0) (hT : reached? s.segs = .ok T) :
    stepP S s (.protocolF steps n k) =
      runStop S s (if k == 0 && s.segs.isNone then (expandProtocolF T n (some k) (normSteps steps)).take 2
        else expandProtocolF T n (some k) (normSteps steps)) :=
  simulateProtocolF_eq S s steps n k T hwf he hT

/-- the same for `simulate_protocol_time_course` (after its argument checks) -/
theorem C14_protocol_tc_failure_is_fold {σ} (S : Sys σ) (s : Sim σ) (steps : List PStep) (pts : List Rat)
    (rel : Bool) (k : Nat) (T : Rat) (hwf : wfSteps steps = true) (he : s.errors = 0)
    (hT : reached? s.segs = .ok T) :
    stepP S s (.protocolTCF steps pts rel k) =
      (if steps.isEmpty then (s, some .typeError) else
       match (if rel then pts.map (· + T) else pts).getLast? with
       | none => (s, some .indexError)
       | some last =>
         if last ≤ T then (s, some .valueError) else
         runStop S s (if k == 0 && s.segs.isNone
           then (expandProtocolTCF (if rel then pts.map (· + T) else pts) (some k) T (normSteps steps)).take 2
           else expandProtocolTCF (if rel then pts.map (· + T) else pts) (some k) T (normSteps steps))) :=
  simulateProtocolTCF_eq S s steps pts rel k T hwf he hT

/-- what a failed protocol leaves behind (kernel-evaluated): a three-step protocol `k = 1, 2, 3` whose SECOND step fails after
    an earlier `simulate(1)`: the first step is recorded (axis 0, 1, 2), nothing later, the simulator is failed, and the
    model's parameter is left at the LAST step's value 3; the same protocol failing in its FIRST step on a fresh
    simulator records nothing and leaves `k = 1`. -/
theorem C14_protocol_failure_witness :
    (let r := (runP termSys (Sim.init [("k", 5)] STerm.init)
        [.basic (.simulate 1 (some 1)), .protocolF [(1, [("k", 1)]), (1, [("k", 2)]), (1, [("k", 3)])] 1 1]).1
     times r.segs = [0, 1, 2] ∧ r.errors = 1 ∧ r.pars = [("k", 3)]) ∧
    (let r := (runP termSys (Sim.init [("k", 5)] STerm.init)
        [.protocolF [(1, [("k", 1)]), (1, [("k", 2)]), (1, [("k", 3)])] 1 0]).1
     r.segs.isNone = true ∧ r.errors = 1 ∧ r.pars = [("k", 1)]) := by
  constructor <;> decide +kernel

/-! ## Non-vacuity -/

/-- a continued history with an override before a relative time-course protocol is covered -/
example : [OpP.basic (.simulate 2 (some 1)), .basic (.updVars [("x", 1)]), .basic (.steady (some 0)),
     .protocolTC [(1, [("k", 1)]), (2, [("k", 2)])] [1/2, 5/2, 3, 9/2] true,
     .protocol [(1/2, [("k", 2), ("u", 0)]), (1/2, [("k", 1), ("u", 1)])] 4].all wfOp = true := by decide +kernel

/-- steps naming different parameters, in different orders: the rows carry exactly the named values -/
example : makeProtocol [(1, [("k", 1)]), (2, [("u", 3)]), (1, [("u", 1), ("k", 2)])]
    = [(1, [("k", 1)]), (3, [("u", 3)]), (4, [("k", 2), ("u", 1)])] := by decide +kernel

/-- and on it the model records the axis 0,2 | 5/2,3 | 9/2,5 | … with the steps' parameters -/
example : times (runP termSys (Sim.init [("k", 1/2)] STerm.init)
    [.basic (.simulate 2 (some 1)), .basic (.updVars [("x", 1)]),
     .protocolTC [(1, [("k", 1)]), (2, [("k", 2)])] [1/2, 5/2, 3, 9/2] true]).1.segs
    = [0, 2, 5/2, 3, 9/2, 5] := by decide +kernel

end Mxl.C14
