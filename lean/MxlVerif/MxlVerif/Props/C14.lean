import MxlVerif.Model.C14
namespace Mxl.C14
theorem placeholder : True := trivial
end Mxl.C14
