import MxlVerif.Lemmas.C20Cos
import MxlVerif.Lemmas.C20Fit
/-!
C20 — fitting: losses measure discrepancy; fits are honest and spare the input.
The loss definitions are `Mxl.C20.Gen.*`, written by translate/c20.py from the current fit/losses.py; the driver
evaluates the same definitions at `Rat`.  Calling convention of `_Settings.loss`: `loss_fn(data, prediction)`, i.e.
the first parameter (`y_pred`) receives the DATA `d`, the second (`y_true`) the model's PREDICTION `p`.
-/
set_option linter.unusedSectionVars false
namespace Mxl.C20
open Gen

/-- generated-table obligation: the set of shipped losses is exactly the one the theorems below cover -/
theorem C20_shipped_losses_covered :
    Gen.shipped = ["cosine_similarity", "mae", "mean", "mean_absolute_percentage", "mean_squared",
      "mean_squared_logarithmic", "rmse"] ∧ Gen.fitCopiesByDefault = true := ⟨rfl, rfl⟩

section field
variable {α : Type} [Field α] [LinearOrder α] [IsStrictOrderedRing α]

/-- mean_squared: ≥ 0, and 0 exactly when the prediction reproduces the data (any ordered field: ℝ, Rat) -/
theorem C20_mean_squared_nonneg_zero_iff (d p : List α) (hl : d.length = p.length) :
    0 ≤ mean_squared d p ∧ (mean_squared d p = 0 ↔ p = d) := by
  have e : vsquare (vsub d p) = List.zipWith (fun x y => (x - y) * (x - y)) d p := by
    simp [vsquare, vsub, List.map_zipWith]
  have := sep_loss (fun x y : α => (x - y) * (x - y)) (fun _ => True) (fun _ => True)
    (fun x y => mul_self_nonneg _)
    (fun x y _ _ => by simp [sub_eq_zero]) d p hl (fun _ _ => trivial) (fun _ _ => trivial)
  unfold mean_squared
  rw [e]
  exact ⟨this.1, this.2.trans eq_comm⟩

/-- mae: ≥ 0, and 0 exactly when the prediction reproduces the data -/
theorem C20_mae_nonneg_zero_iff [HasAbs α] (habs : ∀ x : α, HasAbs.abs x = |x|)
    (d p : List α) (hl : d.length = p.length) :
    0 ≤ mae d p ∧ (mae d p = 0 ↔ p = d) := by
  have e : vabs (vsub p d) = List.zipWith (fun y x => |y - x|) p d := by
    simp [vabs, vsub, List.map_zipWith, habs]
  have := sep_loss (fun y x : α => |y - x|) (fun _ => True) (fun _ => True)
    (fun x y => abs_nonneg _)
    (fun x y _ _ => by simp [sub_eq_zero]) p d hl.symm (fun _ _ => trivial) (fun _ _ => trivial)
  unfold mae
  rw [e]
  exact this

/-- mean_absolute_percentage (divides by the DATA): on data without zeros, ≥ 0 and 0 exactly at the data -/
theorem C20_mean_absolute_percentage_nonneg_zero_iff [HasAbs α] (habs : ∀ x : α, HasAbs.abs x = |x|)
    (d p : List α) (hl : d.length = p.length) (hd : ∀ x ∈ d, x ≠ 0) :
    0 ≤ mean_absolute_percentage d p ∧ (mean_absolute_percentage d p = 0 ↔ p = d) := by
  have e : vabs (vdiv (vsub p d) d) = List.zipWith (fun y x => |(y - x) / x|) p d := by
    simp only [vabs, vdiv, vsub]
    rw [zipWith_zipWith_right]
    simp [List.map_zipWith, habs]
  have := sep_loss (fun y x : α => |(y - x) / x|) (fun _ => True) (fun x => x ≠ 0)
    (fun x y => abs_nonneg _)
    (fun y x _ hx => by simp [sub_eq_zero, hx]) p d hl.symm (fun _ _ => trivial) hd
  unfold mean_absolute_percentage
  rw [e]
  have h100 : (0 : α) < ((100 : ℕ) : α) := by exact_mod_cast (by norm_num : (0 : ℕ) < 100)
  constructor
  · exact mul_nonneg (le_of_lt h100) this.1
  · rw [mul_eq_zero]
    simp only [ne_of_gt h100, false_or]
    exact this.2

end field

/-- rmse (ℝ): ≥ 0, and 0 exactly when the prediction reproduces the data -/
theorem C20_rmse_nonneg_zero_iff (d p : List ℝ) (hl : d.length = p.length) :
    0 ≤ rmse d p ∧ (rmse d p = 0 ↔ p = d) := by
  have hms := C20_mean_squared_nonneg_zero_iff d p hl
  have e : rmse d p = Real.sqrt (mean_squared d p) := rfl
  rw [e]
  exact ⟨Real.sqrt_nonneg _, (Real.sqrt_eq_zero hms.1).trans hms.2⟩

/-- mean_squared_logarithmic (ℝ): for entries > −1 on both sides, ≥ 0 and 0 exactly at the data -/
theorem C20_mean_squared_logarithmic_nonneg_zero_iff (d p : List ℝ) (hl : d.length = p.length)
    (hd : ∀ x ∈ d, -1 < x) (hp : ∀ y ∈ p, -1 < y) :
    0 ≤ mean_squared_logarithmic d p ∧ (mean_squared_logarithmic d p = 0 ↔ p = d) := by
  have e : vsquare (vsub (vlog (vmap (fun x => x + ((1 : ℕ) : ℝ)) d)) (vlog (vmap (fun x => x + ((1 : ℕ) : ℝ)) p)))
      = List.zipWith (fun x y => (Real.log (x + 1) - Real.log (y + 1)) * (Real.log (x + 1) - Real.log (y + 1))) d p := by
    simp only [vsquare, vsub, vlog, vmap, List.map_zipWith, List.zipWith_map, Nat.cast_one]
    rfl
  have := sep_loss (fun x y : ℝ => (Real.log (x + 1) - Real.log (y + 1)) * (Real.log (x + 1) - Real.log (y + 1)))
    (fun x => -1 < x) (fun y => -1 < y)
    (fun x y => mul_self_nonneg _)
    (fun x y hx hy => by
      simp only [mul_self_eq_zero, sub_eq_zero]
      constructor
      · intro h
        have := Real.log_injOn_pos (show x + 1 ∈ Set.Ioi (0 : ℝ) from by simp; linarith)
          (show y + 1 ∈ Set.Ioi (0 : ℝ) from by simp; linarith) h
        linarith
      · intro h; rw [h]) d p hl hd hp
  unfold mean_squared_logarithmic
  rw [e]
  exact ⟨this.1, this.2.trans eq_comm⟩

theorem C20_mean_squared_not_scale_rewarded (d : List ℝ) :
    ¬ ∃ p : List ℝ, p.length = d.length ∧ ∀ lam : ℝ, 1 < lam → mean_squared d (vmap (lam * ·) p) < mean_squared d d := by
  rintro ⟨p, hp, h⟩
  have h2 := h 2 (by norm_num)
  have hl : d.length = (vmap (fun x : ℝ => 2 * x) p).length := by simp [vmap, hp]
  have := (C20_mean_squared_nonneg_zero_iff d (vmap (fun x : ℝ => 2 * x) p) hl).1
  rw [((C20_mean_squared_nonneg_zero_iff d d rfl).2).mpr rfl] at h2
  exact absurd this (not_le.mpr h2)

theorem C20_rmse_not_scale_rewarded (d : List ℝ) :
    ¬ ∃ p : List ℝ, p.length = d.length ∧ ∀ lam : ℝ, 1 < lam → rmse d (vmap (lam * ·) p) < rmse d d := by
  rintro ⟨p, hp, h⟩
  have h2 := h 2 (by norm_num)
  have hl : d.length = (vmap (fun x : ℝ => 2 * x) p).length := by simp [vmap, hp]
  have := (C20_rmse_nonneg_zero_iff d (vmap (fun x : ℝ => 2 * x) p) hl).1
  rw [((C20_rmse_nonneg_zero_iff d d rfl).2).mpr rfl] at h2
  exact absurd this (not_le.mpr h2)

theorem C20_mae_not_scale_rewarded (d : List ℝ) :
    ¬ ∃ p : List ℝ, p.length = d.length ∧ ∀ lam : ℝ, 1 < lam → mae d (vmap (lam * ·) p) < mae d d := by
  rintro ⟨p, hp, h⟩
  have h2 := h 2 (by norm_num)
  have hl : d.length = (vmap (fun x : ℝ => 2 * x) p).length := by simp [vmap, hp]
  have := (C20_mae_nonneg_zero_iff (fun _ => rfl) d (vmap (fun x : ℝ => 2 * x) p) hl).1
  rw [((C20_mae_nonneg_zero_iff (fun _ => rfl) d d rfl).2).mpr rfl] at h2
  exact absurd this (not_le.mpr h2)

theorem C20_mean_absolute_percentage_not_scale_rewarded (d : List ℝ) (hd : ∀ x ∈ d, x ≠ 0) :
    ¬ ∃ p : List ℝ, p.length = d.length ∧
      ∀ lam : ℝ, 1 < lam → mean_absolute_percentage d (vmap (lam * ·) p) < mean_absolute_percentage d d := by
  rintro ⟨p, hp, h⟩
  have h2 := h 2 (by norm_num)
  have hl : d.length = (vmap (fun x : ℝ => 2 * x) p).length := by simp [vmap, hp]
  have := (C20_mean_absolute_percentage_nonneg_zero_iff (fun _ => rfl) d (vmap (fun x : ℝ => 2 * x) p) hl hd).1
  rw [((C20_mean_absolute_percentage_nonneg_zero_iff (fun _ => rfl) d d rfl hd).2).mpr rfl] at h2
  exact absurd this (not_le.mpr h2)

theorem C20_mean_squared_logarithmic_not_scale_rewarded (d : List ℝ) (hd : ∀ x ∈ d, 0 ≤ x) :
    ¬ ∃ p : List ℝ, p.length = d.length ∧ (∀ y ∈ p, 0 ≤ y) ∧
      ∀ lam : ℝ, 1 < lam → mean_squared_logarithmic d (vmap (lam * ·) p) < mean_squared_logarithmic d d := by
  rintro ⟨p, hp, hpos, h⟩
  have h2 := h 2 (by norm_num)
  have hl : d.length = (vmap (fun x : ℝ => 2 * x) p).length := by simp [vmap, hp]
  have hd' : ∀ x ∈ d, (-1 : ℝ) < x := fun x hx => by have := hd x hx; linarith
  have hp' : ∀ y ∈ vmap (fun x : ℝ => 2 * x) p, (-1 : ℝ) < y := by
    intro y hy
    simp only [vmap, List.mem_map] at hy
    obtain ⟨z, hz, rfl⟩ := hy
    have := hpos z hz
    linarith
  have := (C20_mean_squared_logarithmic_nonneg_zero_iff d _ hl hd' hp').1
  rw [((C20_mean_squared_logarithmic_nonneg_zero_iff d d rfl hd' hd').2).mpr rfl] at h2
  exact absurd this (not_le.mpr h2)

/-! ### cosine_similarity: minus the cosine of the angle between data and prediction (after the repair) -/

/-- what the driver evaluates at `Rat` (`cosineParts`) determines the generated definition: minus the inner
product over the product of the roots of the squared norms -/
theorem C20_cosine_similarity_from_parts (d p : List ℝ) :
    cosine_similarity d p =
      -(cosineParts d p).1 / (Real.sqrt (cosineParts d p).2.1 * Real.sqrt (cosineParts d p).2.2) := rfl

/-- at the data the loss is −1 (any data vector with a non-zero entry) -/
theorem C20_cosine_similarity_at_data (d : List ℝ) (hd : ∃ x ∈ d, x ≠ 0) : cosine_similarity d d = -1 := by
  have hn := norm2_pos d hd
  unfold cosine_similarity
  rw [vmul_self, ← norm2_mul_self d, neg_div, div_self (ne_of_gt (mul_pos hn hn))]

/-- MINIMAL AT THE DATA (Cauchy–Schwarz): no prediction scores below the prediction that reproduces the data.
Zero vectors are excluded on both sides: Python returns NaN there, the totalised division of ℝ would return 0. -/
theorem C20_cosine_similarity_minimal_at_data (d p : List ℝ) (hd : ∃ x ∈ d, x ≠ 0) (hp : ∃ y ∈ p, y ≠ 0) :
    cosine_similarity d d ≤ cosine_similarity d p := by
  rw [C20_cosine_similarity_at_data d hd]
  have hpos : 0 < norm2 d * norm2 p := mul_pos (norm2_pos d hd) (norm2_pos p hp)
  unfold cosine_similarity
  rw [le_div_iff₀ hpos]
  have := inner_le_norm_mul_norm d p
  linarith

/-- SCALE INVARIANT: making the prediction larger by any positive factor does not change the loss … -/
theorem C20_cosine_similarity_scale_invariant (d p : List ℝ) (lam : ℝ) (hlam : 0 < lam) :
    cosine_similarity d (vmap (lam * ·) p) = cosine_similarity d p := by
  unfold cosine_similarity
  rw [norm2_scale lam (le_of_lt hlam), vsum_vmul_scale]
  have : lam ≠ 0 := ne_of_gt hlam
  by_cases h : norm2 d * norm2 p = 0
  · rw [h, show norm2 d * (lam * norm2 p) = lam * (norm2 d * norm2 p) by ring, h]; simp
  · field_simp

/-- … so it is never rewarded below the value at the data -/
theorem C20_cosine_similarity_not_scale_rewarded (d : List ℝ) (hd : ∃ x ∈ d, x ≠ 0) :
    ¬ ∃ p : List ℝ, (∃ y ∈ p, y ≠ 0) ∧
      ∀ lam : ℝ, 1 < lam → cosine_similarity d (vmap (lam * ·) p) < cosine_similarity d d := by
  rintro ⟨p, hp, h⟩
  have h2 := h 2 (by norm_num)
  rw [C20_cosine_similarity_scale_invariant d p 2 (by norm_num)] at h2
  exact absurd (C20_cosine_similarity_minimal_at_data d p hd hp) (not_le.mpr h2)

/-- F-C20-1 (historical, why the repair exists): the pinned tree computed `−‖d‖·‖p‖`; scaling the data-shaped
prediction up by any factor > 1 made the "loss" strictly smaller than at the data — for every non-zero data vector -/
theorem C20_pinned_cosine_rewards_scale (d : List ℝ) (hd : ∃ x ∈ d, x ≠ 0) (lam : ℝ) (hlam : 1 < lam) :
    pinnedCosine d (vmap (lam * ·) d) < pinnedCosine d d := by
  have hn : 0 < norm2 d := norm2_pos d hd
  unfold pinnedCosine
  rw [norm2_scale lam (by linarith)]
  nlinarith [mul_pos hn hn]

/-! ### `mean`: the absolute mean error (after the repair of F-C20-2) -/

section field
variable {α : Type} [Field α] [LinearOrder α] [IsStrictOrderedRing α]

/-- `mean` is never negative and is 0 when the prediction reproduces the data: minimal at the data.  (It is the
absolute BIAS: it is also 0 when errors cancel, `C20_mean_cancels`, so it is not among the zero-based losses.) -/
theorem C20_mean_nonneg_zero_at_data [HasAbs α] (habs : ∀ x : α, HasAbs.abs x = |x|) (d p : List α) :
    0 ≤ mean d p ∧ mean d d = 0 := by
  constructor
  · unfold mean; rw [habs]; exact abs_nonneg _
  · unfold mean vmean; rw [habs, vsum_vsub_self]; simp

/-- F-C20-2 (historical, why the repair exists): the pinned `mean` was the SIGNED mean of data − prediction: adding
`c` to every prediction lowered it by `c`, without bound (any ordered field, non-empty data). -/
theorem C20_pinned_mean_rewards_large_predictions (d : List α) (hne : d ≠ []) (c : α) :
    pinnedMean d (vmap (· + c) d) = -c := by
  have e : vsub d (vmap (· + c) d) = List.replicate d.length (-c) := by
    induction d with
    | nil => simp [vsub, vmap]
    | cons x d ih =>
      by_cases hd : d = []
      · subst hd; simp [vsub, vmap]
      · simp only [vsub, vmap, List.map_cons, List.zipWith_cons_cons, List.length_cons, List.replicate_succ] at *
        rw [ih hd]; congr 1; ring
  have hs : ∀ n : ℕ, vsum (List.replicate n (-c)) = (n : α) * (-c) := by
    intro n
    induction n with
    | zero => simp [vsum_nil]
    | succ n ih => rw [List.replicate_succ, vsum_cons, ih]; push_cast; ring
  unfold pinnedMean vmean
  rw [e, hs, List.length_replicate]
  have : ((d.length : ℕ) : α) ≠ 0 := Nat.cast_ne_zero.mpr (by simpa [List.length_eq_zero_iff] using hne)
  field_simp

/-- errors of opposite sign cancel: data [0, 2], prediction [1, 1] has `mean` 0 -/
theorem C20_mean_cancels [HasAbs α] (habs : ∀ x : α, HasAbs.abs x = |x|) : mean ([0, 2] : List α) [1, 1] = 0 := by
  unfold mean
  rw [habs]
  simp [vmean, vsub, vsum]; norm_num

/-- `mean` is not a zero-based discrepancy measure: it vanishes for predictions that differ from the data -/
theorem C20_mean_not_a_discrepancy [HasAbs α] (habs : ∀ x : α, HasAbs.abs x = |x|) :
    ¬ ∀ d p : List α, d.length = p.length → 0 ≤ mean d p ∧ (mean d p = 0 ↔ p = d) := by
  intro h
  have := (h [0, 2] [1, 1] rfl).2.mp (C20_mean_cancels habs)
  simp at this

/-- generated-table obligation: `_Settings.scale` takes a spread that is not positive as 1 -/
theorem C20_scale_is_guarded : Gen.scaleGuard = true := rfl

/-- STANDARD SCALING keeps the minimiser, for EVERY mean and spread: the scaled mean_squared loss is ≥ 0 and 0
exactly when the prediction reproduces the data (the scaling is the same affine bijection on both sides; a
constant column or a single measurement, whose spread is not positive, is compared unscaled). -/
theorem C20_scaled_loss_zero_iff (m s : α) (d p : List α) (hl : d.length = p.length) :
    0 ≤ settingsLoss mean_squared true m s d p ∧ (settingsLoss mean_squared true m s d p = 0 ↔ p = d) := by
  have hs : effScale Gen.scaleGuard s ≠ 0 := by
    simp only [effScale, C20_scale_is_guarded, if_true, Nat.cast_zero, Nat.cast_one]
    split
    · rename_i h; exact ne_of_gt h
    · exact one_ne_zero
  simp only [settingsLoss, scaledLoss, if_true]
  generalize effScale Gen.scaleGuard s = e at hs
  have hl' : (vmap (fun x => (x - m) / e) d).length = (vmap (fun x => (x - m) / e) p).length := by
    simp [vmap, hl]
  have := C20_mean_squared_nonneg_zero_iff (vmap (fun x => (x - m) / e) d) (vmap (fun x => (x - m) / e) p) hl'
  refine ⟨this.1, this.2.trans ?_⟩
  have inj : Function.Injective (fun x : α => (x - m) / e) := by
    intro a b hab
    have := congrArg (· * e) hab
    simp only [div_mul_cancel₀ _ hs] at this
    linarith
  exact (List.map_injective_iff.mpr inj).eq_iff

/-- the pinned tree divided by the raw `data.std()`: with a zero spread the scaled loss no longer sees the
prediction (0 for every prediction in the model, NaN in Python) — kept as the reason the repair exists -/
theorem C20_unguarded_scale_degenerate :
    ¬ ∀ (m s : α) (d p : List α), d.length = p.length →
        (scaledLoss false mean_squared true m s d p = 0 ↔ p = d) := by
  intro h
  have := (h 0 0 [1] [2] rfl).mp
    (by simp [scaledLoss, effScale, mean_squared, vmap, vmean, vsquare, vsub, vsum])
  simp at this

/-- without scaling the wrapper IS the loss, data first -/
theorem C20_unscaled_loss (L : List α → List α → α) (m s : α) (d p : List α) :
    settingsLoss L false m s d p = L d p := by
  simp [settingsLoss, scaledLoss]

end field

/-! ### the property at full strength over the shipped set -/

/-- FULL STATEMENT (no loss excluded since the repairs of F-C20-1 and F-C20-2): every shipped loss is smallest, on its
domain, when the prediction reproduces the data -/
theorem C20_shipped_losses_minimal_at_data :
    ∀ n ∈ Gen.shipped, MinimalAtData n := by
  intro n hn
  simp only [Gen.shipped, List.mem_cons, List.mem_nil_iff, or_false] at hn
  rcases hn with rfl | rfl | rfl | rfl | rfl | rfl | rfl
  · exact ⟨_, _, _, rfl, fun d p _ hd hp => C20_cosine_similarity_minimal_at_data d p hd hp⟩
  · exact GoodLoss.minimal ⟨_, _, _, rfl, fun d p hl _ _ => C20_mae_nonneg_zero_iff (fun _ => rfl) d p hl⟩
      (fun _ _ _ h => by simp only [lossReal, Option.some.injEq, LossSpec.mk.injEq] at h; obtain ⟨_, _, rfl⟩ := h; intros; trivial)
  · refine ⟨_, _, _, rfl, fun d p _ _ _ => ?_⟩
    have := C20_mean_nonneg_zero_at_data (α := ℝ) (fun _ => rfl) d p
    rw [this.2]
    exact this.1
  · exact GoodLoss.minimal ⟨_, _, _, rfl, fun d p hl hd _ =>
        C20_mean_absolute_percentage_nonneg_zero_iff (fun _ => rfl) d p hl hd⟩
      (fun _ _ _ h => by simp only [lossReal, Option.some.injEq, LossSpec.mk.injEq] at h; obtain ⟨_, _, rfl⟩ := h; intros; trivial)
  · exact GoodLoss.minimal ⟨_, _, _, rfl, fun d p hl _ _ => C20_mean_squared_nonneg_zero_iff d p hl⟩
      (fun _ _ _ h => by simp only [lossReal, Option.some.injEq, LossSpec.mk.injEq] at h; obtain ⟨_, _, rfl⟩ := h; intros; trivial)
  · exact GoodLoss.minimal ⟨_, _, _, rfl, fun d p hl hd hp => C20_mean_squared_logarithmic_nonneg_zero_iff d p hl hd hp⟩
      (fun _ _ _ h => by
        simp only [lossReal, Option.some.injEq, LossSpec.mk.injEq] at h
        obtain ⟨_, rfl, rfl⟩ := h; intro d hd; exact hd)
  · exact GoodLoss.minimal ⟨_, _, _, rfl, fun d p hl _ _ => C20_rmse_nonneg_zero_iff d p hl⟩
      (fun _ _ _ h => by simp only [lossReal, Option.some.injEq, LossSpec.mk.injEq] at h; obtain ⟨_, _, rfl⟩ := h; intros; trivial)

/-- the second clause is a corollary of the first for EVERY loss: a loss that is minimal at the data cannot score
a scaled-up prediction below the data's own score (as long as the scaled prediction stays in the domain) -/
theorem C20_minimal_at_data_not_scale_rewarded (n : String) (h : MinimalAtData n) :
    ∃ L domD domP, lossReal n = some ⟨L, domD, domP⟩ ∧
      ∀ (d p : List ℝ) (lam : ℝ), d.length = p.length → domD d → domP (vmap (lam * ·) p) →
        ¬ L d (vmap (lam * ·) p) < L d d := by
  obtain ⟨L, domD, domP, hL, hmin⟩ := h
  exact ⟨L, domD, domP, hL, fun d p lam hl hd hp =>
    not_lt.mpr (hmin d _ (by simp [vmap, hl]) hd hp)⟩

/-- the five zero-based losses: never negative, zero exactly at the data (cosine_similarity is minimal at −1 on the
whole ray through the data, `mean` is the finding) -/
theorem C20_shipped_losses_good_partial :
    ∀ n ∈ Gen.shipped, n ≠ "cosine_similarity" → n ≠ "mean" → GoodLoss n := by
  intro n hn h1 h2
  simp only [Gen.shipped, List.mem_cons, List.mem_nil_iff, or_false] at hn
  rcases hn with rfl | rfl | rfl | rfl | rfl | rfl | rfl
  · exact absurd rfl h1
  · exact ⟨_, _, _, rfl, fun d p hl _ _ => C20_mae_nonneg_zero_iff (fun _ => rfl) d p hl⟩
  · exact absurd rfl h2
  · exact ⟨_, _, _, rfl, fun d p hl hd _ =>
      C20_mean_absolute_percentage_nonneg_zero_iff (fun _ => rfl) d p hl hd⟩
  · exact ⟨_, _, _, rfl, fun d p hl _ _ => C20_mean_squared_nonneg_zero_iff d p hl⟩
  · exact ⟨_, _, _, rfl, fun d p hl hd hp => C20_mean_squared_logarithmic_nonneg_zero_iff d p hl hd hp⟩
  · exact ⟨_, _, _, rfl, fun d p hl _ _ => C20_rmse_nonneg_zero_iff d p hl⟩

/-- non-vacuity of the partial form: the default loss of all three fit routines satisfies its hypothesis -/
example : "rmse" ∈ Gen.shipped ∧ "rmse" ≠ "cosine_similarity" ∧ "rmse" ≠ "mean" ∧ "cosine_similarity" ≠ "mean" ∧
    Gen.defaultLoss = ["losses.rmse", "losses.rmse", "losses.rmse"] := by
  simp [Gen.shipped, Gen.defaultLoss]

/-- the driver's instances: the same theorems at `Rat` -/
theorem C20_rat_losses (d p : List ℚ) (hl : d.length = p.length) :
    (0 ≤ mean_squared d p ∧ (mean_squared d p = 0 ↔ p = d)) ∧
    (0 ≤ mae d p ∧ (mae d p = 0 ↔ p = d)) ∧
    ((∀ x ∈ d, x ≠ 0) → 0 ≤ mean_absolute_percentage d p ∧ (mean_absolute_percentage d p = 0 ↔ p = d)) :=
  ⟨C20_mean_squared_nonneg_zero_iff d p hl, C20_mae_nonneg_zero_iff ratAbs_eq d p hl,
   fun hd => C20_mean_absolute_percentage_nonneg_zero_iff ratAbs_eq d p hl hd⟩

/-! ### fits are honest and spare the input -/

/-- FIT HONEST: if scipy's minimiser honours its contract, a successful fit reports the residual recomputed at
the reported parameters, it is no worse than the residual at the starting point, and the reported parameters
carry exactly the names of `p0`. -/
theorem C20_fit_honest {α : Type} [LE α]
    (minimize : (List α → α) → List α → Option (List α × α)) (hc : MinimiserContract minimize)
    (residualFn : List (String × α) → α) (p0 : List (String × α)) (fit : Fit α)
    (h : fitWrap (localScipyCall minimize) residualFn p0 = some fit) :
    fit.loss = residualFn fit.bestPars ∧ fit.loss ≤ residualFn p0 ∧
    fit.bestPars.map (·.1) = p0.map (·.1) := by
  unfold fitWrap localScipyCall at h
  cases hm : minimize (fun xs => residualFn (packUpdates (p0.map (·.1)) xs)) (p0.map (·.2)) with
  | none => simp [hm] at h
  | some xf =>
    obtain ⟨x, f⟩ := xf
    simp only [hm, Option.some.injEq] at h
    subst h
    obtain ⟨h1, h2, h3⟩ := hc _ _ _ _ hm
    have hz : packUpdates (p0.map (·.1)) (p0.map (·.2)) = p0 := zip_fst_snd p0
    refine ⟨h1, ?_, ?_⟩
    · simpa [hz] using h2
    · have : x.length = (p0.map (·.1)).length := by simpa using h3
      simp [List.map_fst_zip, this]

/-- BOUNDS FOLLOW p0: the i-th box handed to the optimiser belongs to the i-th name of `p0` — the caller's box
for that name if there is one, the generated default box otherwise — independently of the order in which the
caller listed the bounds. -/
theorem C20_bounds_follow_p0 (bounds : List (String × (Rat × Rat))) (names : List String) :
    (fillBounds Gen.defaultBox bounds names).length = names.length ∧
    ∀ (i : Nat) (h : i < names.length),
      (fillBounds Gen.defaultBox bounds names)[i]? = some ((bounds.lookup names[i]).getD Gen.defaultBox) := by
  refine ⟨by simp [fillBounds], ?_⟩
  intro i h
  simp [fillBounds, h]

/-- generated-table obligation: the local minimiser's default box is applied only to start values inside it (repair of
F-C20-4; on the pinned tree it was applied to every name without bounds) -/
theorem C20_default_box_only_if_inside : Gen.localBoxOnlyIfInside = true := rfl

/-- LOCAL BOXES FOLLOW p0 AND NEVER EXCLUDE THE START BY DEFAULT: the i-th box handed to scipy belongs to the i-th entry of
`p0`; for a name the caller gave no bounds for, the box is the default box if the start value lies in it and NO box
otherwise — so a start value is outside its box only if the caller's own bounds say so -/
theorem C20_local_bounds_follow_p0 (bounds : List (String × (Rat × Rat))) (p0 : List (String × Rat)) :
    (fillBoundsLocal Gen.localBoxOnlyIfInside Gen.defaultBox bounds p0).length = p0.length ∧
    ∀ (i : Nat) (h : i < p0.length),
      (bounds.lookup p0[i].1 = none →
        ∃ lo hi, (fillBoundsLocal Gen.localBoxOnlyIfInside Gen.defaultBox bounds p0)[i]? = some (lo, hi) ∧
          (∀ x, lo = some x → x ≤ p0[i].2) ∧ (∀ x, hi = some x → p0[i].2 ≤ x)) ∧
      (∀ b, bounds.lookup p0[i].1 = some b →
        (fillBoundsLocal Gen.localBoxOnlyIfInside Gen.defaultBox bounds p0)[i]? = some (some b.1, some b.2)) := by
  refine ⟨by simp [fillBoundsLocal], ?_⟩
  intro i h
  constructor
  · intro hb
    simp only [fillBoundsLocal, C20_default_box_only_if_inside, List.getElem?_map, List.getElem?_eq_getElem h,
      Option.map_some, hb, Bool.not_true, Bool.false_or]
    by_cases hin : (decide (Gen.defaultBox.1 ≤ p0[i].2) && decide (p0[i].2 ≤ Gen.defaultBox.2)) = true
    · simp only [hin, if_true]
      simp only [Bool.and_eq_true, decide_eq_true_eq] at hin
      refine ⟨_, _, rfl, ?_, ?_⟩
      · intro x hx; cases hx; exact hin.1
      · intro x hx; cases hx; exact hin.2
    · simp only [hin, Bool.false_eq_true, if_false]
      refine ⟨none, none, rfl, ?_, ?_⟩
      · intro x hx; cases hx
      · intro x hx; cases hx
  · intro b hb
    simp [fillBoundsLocal, List.getElem?_eq_getElem h, hb]

/-- generated-table obligation: the global minimiser hands scipy the same per-name boxes, in the order of `p0`, as the
local one (`fillBounds Gen.defaultBox`, `C20_bounds_follow_p0`) — on the pinned tree it passed the caller's dict on as
it was and every global method except basinhopping raised -/
theorem C20_global_bounds_follow_p0 : Gen.globalUsesBox = true := rfl

/-- generated-table obligation: basinhopping (which takes no bounds itself) hands the caller's boxes to its local steps
(repair of F-C20-9; on the pinned tree the caller's bounds were ignored) -/
theorem C20_basinhopping_keeps_given_bounds : Gen.basinhoppingBounded = true := rfl

/-- a failed minimisation is reported as a failure, never as a fit -/
theorem C20_fit_failure_propagates {α : Type}
    (minimize : (List α → α) → List α → Option (List α × α))
    (residualFn : List (String × α) → α) (p0 : List (String × α))
    (h : minimize (fun xs => residualFn (packUpdates (p0.map (·.1)) xs)) (p0.map (·.2)) = none) :
    fitWrap (localScipyCall minimize) residualFn p0 = none := by
  simp [fitWrap, localScipyCall, h]

/-- INPUT UNTOUCHED: with `as_deepcopy=True` (the generated default) the caller's model is what it was, after
any number of residual evaluations with any updates. -/
theorem C20_input_untouched {M P : Type} (update : M → P → M) (model : M) (ps : List P) :
    ((FitEnv.start Gen.fitCopiesByDefault model).run update ps).caller = model := by
  have : ∀ (e : FitEnv M), e.aliased = false → (e.run update ps).caller = e.caller := by
    induction ps with
    | nil => intro e _; rfl
    | cons p ps ih =>
      intro e he
      simp only [FitEnv.run, List.foldl_cons]
      have := ih (FitEnv.evalResidual update e p) (by simp [FitEnv.evalResidual, he])
      simp only [FitEnv.run] at this
      rw [this]
      simp [FitEnv.evalResidual, he]
  exact this _ (by simp [FitEnv.start, Gen.fitCopiesByDefault])

/-- ... whereas `as_deepcopy=False` hands the caller's object to the residual function: it ends up holding the
last evaluated parameters. -/
theorem C20_input_touched_without_copy :
    ((FitEnv.start false (0 : Nat)).run (fun _ p => p) [1, 2, 7]).caller = 7 := by
  decide

/-! ### the fit drivers end to end (`fitDriver`): name routing, residual evaluations, wrapper, returned model -/

/-- the scripted stand-in minimiser (the one the harness passes to the real drivers and the driver runs) honours the
contract assumed of scipy: `C20_fit_honest`'s hypothesis is satisfiable by a minimiser that is actually run -/
theorem C20_scripted_minimiser_meets_contract (cands : List (List Ext)) :
    MinimiserContract (scriptedMinimise cands) :=
  scriptedMinimise_contract Ext.le_refl' Ext.le_total' Ext.le_trans' cands

/-- FIT DRIVER HONEST, no hypothesis left: with the scripted minimiser a successful fit reports the residual at the
reported parameters, it is never worse than the start's (residuals may be `inf`), names are `p0`'s -/
theorem C20_fit_driver_honest (sb dc : Bool) (y0 : Option (List (String × Ext))) (model : ModelVals Ext)
    (p0 : List (String × Ext)) (cands : List (List Ext)) (residual : List (String × Ext) → Ext) (f : Fit Ext)
    (h : (fitDriver sb dc y0 model p0 cands false residual).fit = some f) :
    f.loss = residual f.bestPars ∧ f.loss ≤ residual p0 ∧ f.bestPars.map (·.1) = p0.map (·.1) := by
  rw [fitDriver_fit] at h
  exact C20_fit_honest _ (C20_scripted_minimiser_meets_contract cands) residual p0 f (by simpa using h)

/-- A FAILED SIMULATION IS NEVER REPORTED AS THE FIT when the start could be simulated: under the contract a finite
residual at `p0` forces a finite reported loss (`inf` is what the residual functions return for a failed run) -/
theorem C20_fit_never_reports_failed_simulation
    (minimize : (List Ext → Ext) → List Ext → Option (List Ext × Ext)) (hc : MinimiserContract minimize)
    (residualFn : List (String × Ext) → Ext) (p0 : List (String × Ext)) (fit : Fit Ext)
    (h : fitWrap (localScipyCall minimize) residualFn p0 = some fit) (x : Rat) (h0 : residualFn p0 = .fin x) :
    ∃ y, fit.loss = .fin y := by
  have := (C20_fit_honest minimize hc residualFn p0 fit h).2.1
  rw [h0] at this
  exact Ext.le_fin_is_fin _ _ this

/-- generated-table obligation: the three fit routines end with `_set_best(model, parameters)` -/
theorem C20_fit_sets_best : Gen.fitSetsBest = true := rfl

/-- DRIVER SPARES THE INPUT: with `as_deepcopy=True` the caller's model is untouched — whatever `y0`, routing,
candidates, failure or success, and including the final `_set_best` -/
theorem C20_driver_input_untouched {α : Type} [LE α] [DecidableLE α] (sb : Bool) (y0 : Option (List (String × α)))
    (model : ModelVals α) (p0 : List (String × α)) (cands : List (List α)) (fail : Bool)
    (residual : List (String × α) → α) :
    (fitDriver sb true y0 model p0 cands fail residual).caller = model := by
  unfold fitDriver
  simp only
  generalize hu : (fun (m : ModelVals α) u => (applyUpdates y0 (routeNames model (p0.map (·.1))).1
    (routeNames model (p0.map (·.1))).2 m u).getD m) = update
  have hrun := FitEnv.run_copy update (scriptedTrace (p0.map (·.1)) cands (p0.map (·.2)))
    (FitEnv.start true model) (by simp [FitEnv.start])
  generalize FitEnv.run update (FitEnv.start true model) (scriptedTrace (p0.map (·.1)) cands (p0.map (·.2))) = E at hrun
  have hc : E.caller = model := hrun.1
  split
  · split
    · simp [FitEnv.evalResidual, hrun.2, hc]
    · exact hc
  · exact hc

/-- ... and with `as_deepcopy=False` the caller's object IS the returned model (same values) -/
theorem C20_driver_no_copy_is_shared {α : Type} [LE α] [DecidableLE α] (sb : Bool) (y0 : Option (List (String × α)))
    (model : ModelVals α) (p0 : List (String × α)) (cands : List (List α)) (fail : Bool)
    (residual : List (String × α) → α) :
    (fitDriver sb false y0 model p0 cands fail residual).caller =
      (fitDriver sb false y0 model p0 cands fail residual).work := by
  unfold fitDriver
  simp only
  generalize hu : (fun (m : ModelVals α) u => (applyUpdates y0 (routeNames model (p0.map (·.1))).1
    (routeNames model (p0.map (·.1))).2 m u).getD m) = update
  have hrun := FitEnv.run_alias update (scriptedTrace (p0.map (·.1)) cands (p0.map (·.2)))
    (FitEnv.start false model) (by simp [FitEnv.start]) (by simp [FitEnv.start])
  generalize FitEnv.run update (FitEnv.start false model) (scriptedTrace (p0.map (·.1)) cands (p0.map (·.2))) = E at hrun
  split
  · split
    · simp [FitEnv.evalResidual, hrun.2]
    · exact hrun.1
  · exact hrun.1

/-- generated-table obligation: every residual function writes `y0` first, then the fitted parameters, then the fitted
variables — the order `applyUpdates` has, which is what makes a candidate for a variable win over `y0` -/
theorem C20_update_order : Gen.updateOrder = ["y0", "pars", "vars"] := rfl

/-- CANDIDATE VALUES REACH THE MODEL: after the first lines of a residual function every fitted parameter the model
has carries the candidate's value, every fitted variable too — EVEN IF `y0` names it (the candidate wins) —, and
parameters that are not fitted keep their values -/
theorem C20_updates_reach_the_model {α : Type} (y0 : Option (List (String × α))) (pN vN : List String)
    (m m' : ModelVals α) (u : List (String × α)) (h : applyUpdates y0 pN vN m u = some m') :
    (∀ n ∈ pN, hasName m.pars n = true → m'.pars.lookup n = u.lookup n) ∧
    (∀ n ∈ vN, hasName m.vars n = true → m'.vars.lookup n = u.lookup n) ∧
    (∀ n, n ∉ pN → m'.pars.lookup n = m.pars.lookup n) := by
  have main : ∀ m1 : ModelVals α, m1.pars = m.pars → (∀ n, hasName m1.vars n = hasName m.vars n) →
      ((setAll u pN m1.pars).bind fun pars => (setAll u vN m1.vars).bind fun vars =>
        some ({ pars := pars, vars := vars } : ModelVals α)) = some m' →
      (∀ n ∈ pN, hasName m.pars n = true → m'.pars.lookup n = u.lookup n) ∧
      (∀ n ∈ vN, hasName m.vars n = true → m'.vars.lookup n = u.lookup n) ∧
      (∀ n, n ∉ pN → m'.pars.lookup n = m.pars.lookup n) := by
    intro m1 hp hv h
    cases h2 : setAll u pN m1.pars with
    | none => simp [h2] at h
    | some pars =>
      simp only [h2, Option.bind_some] at h
      cases h3 : setAll u vN m1.vars with
      | none => simp [h3] at h
      | some vars =>
        simp only [h3, Option.bind_some, Option.some.injEq] at h
        subst h
        refine ⟨fun n hn hl => ?_, fun n hn hl => ?_, fun n hn => ?_⟩
        · exact (setAll_lookup u pN m1.pars pars h2 n).1 hn (by rw [hp]; exact hl)
        · exact (setAll_lookup u vN m1.vars vars h3 n).1 hn (by rw [hv]; exact hl)
        · rw [(setAll_lookup u pN m1.pars pars h2 n).2.1 hn, hp]
  cases y0 with
  | none =>
    simp only [applyUpdates, Option.bind_eq_bind, Option.bind_some] at h
    exact main m rfl (fun _ => rfl) h
  | some y =>
    simp only [applyUpdates, Option.bind_eq_bind] at h
    cases h1 : updateVariables m y with
    | none => simp [h1] at h
    | some m1 =>
      simp only [h1, Option.bind_some] at h
      have := hasName_updateVariables y m m1 h1
      exact main m1 this.1 this.2 h

/-- NAME ROUTING: a name of `p0` is routed to the parameters exactly when the model has such a parameter, to the
variables exactly when it has such a variable; a name that is neither reaches NOTHING (the residual cannot depend on it) -/
theorem C20_name_routing {α : Type} (m : ModelVals α) (names : List String) (n : String) :
    (n ∈ (routeNames m names).1 ↔ n ∈ names ∧ hasName m.pars n = true) ∧
    (n ∈ (routeNames m names).2 ↔ n ∈ names ∧ hasName m.vars n = true) := by
  simp [routeNames, List.mem_filter]

/-- THE RETURNED MODEL IS AT THE REPORTED PARAMETERS: with `_set_best` (the generated shape) `Fit.model` is the working
model after one more assignment of `best_pars` through the same routing (without `y0`); without it the returned model
is wherever the minimiser's LAST evaluation left it -/
theorem C20_returned_model_at_best {α : Type} [LE α] [DecidableLE α] (dc : Bool) (y0 : Option (List (String × α)))
    (model : ModelVals α) (p0 : List (String × α)) (cands : List (List α)) (fail : Bool)
    (residual : List (String × α) → α) (f : Fit α)
    (h : (fitDriver Gen.fitSetsBest dc y0 model p0 cands fail residual).fit = some f) :
    let last := (fitDriver false dc y0 model p0 cands fail residual).work
    (fitDriver Gen.fitSetsBest dc y0 model p0 cands fail residual).work =
      (applyUpdates none (routeNames model (p0.map (·.1))).1 (routeNames model (p0.map (·.1))).2 last f.bestPars).getD last := by
  rw [fitDriver_fit] at h
  simp only [C20_fit_sets_best]
  unfold fitDriver
  simp only [h, FitEnv.evalResidual, Bool.false_eq_true, if_false, if_true]

/-- THE RETURNED MODEL HOLDS THE REPORTED VALUES (value level, no side condition): after a successful fit with the
generated shape (`_set_best`), every fitted name that is a parameter of the model has in `Fit.model` exactly the value
reported in `best_pars`, and every fitted name that is a variable has it as its initial condition — whatever `y0`, the
candidates and the order of evaluation were -/
theorem C20_returned_model_holds_best (dc : Bool) (y0 : Option (List (String × Ext))) (model : ModelVals Ext)
    (p0 : List (String × Ext)) (cands : List (List Ext)) (residual : List (String × Ext) → Ext) (f : Fit Ext)
    (h : (fitDriver Gen.fitSetsBest dc y0 model p0 cands false residual).fit = some f) :
    (∀ n ∈ p0.map (·.1), hasName model.pars n = true →
      (fitDriver Gen.fitSetsBest dc y0 model p0 cands false residual).work.pars.lookup n = f.bestPars.lookup n) ∧
    (∀ n ∈ p0.map (·.1), hasName model.vars n = true →
      (fitDriver Gen.fitSetsBest dc y0 model p0 cands false residual).work.vars.lookup n = f.bestPars.lookup n) := by
  have hnames := (C20_fit_driver_honest Gen.fitSetsBest dc y0 model p0 cands residual f h).2.2
  have hwork := C20_returned_model_at_best dc y0 model p0 cands false residual f h
  simp only at hwork
  rw [hwork, fitDriver_false_work]
  generalize hpN : (routeNames model (p0.map (·.1))).1 = pN
  generalize hvN : (routeNames model (p0.map (·.1))).2 = vN
  generalize hlast : ((FitEnv.start dc model).run (fun m u => (applyUpdates y0 pN vN m u).getD m)
    (scriptedTrace (p0.map (·.1)) cands (p0.map (·.2)))).work = last
  have hlnames : ∀ n, hasName last.pars n = hasName model.pars n ∧ hasName last.vars n = hasName model.vars n := by
    intro n
    have := FitEnv.run_work_names y0 pN vN n (scriptedTrace (p0.map (·.1)) cands (p0.map (·.2))) (FitEnv.start dc model)
    rw [hlast] at this
    simpa [FitEnv.start] using this
  have hroute := fun n => C20_name_routing model (p0.map (·.1)) n
  have hsomeP : ∀ p ∈ pN, (f.bestPars.lookup p).isSome = true := by
    intro p hp
    have : p ∈ p0.map (·.1) := by rw [← hpN] at hp; exact ((hroute p).1.mp hp).1
    exact lookup_isSome_of_mem_keys _ _ (by rw [hnames]; exact this)
  have hsomeV : ∀ p ∈ vN, (f.bestPars.lookup p).isSome = true := by
    intro p hp
    have : p ∈ p0.map (·.1) := by rw [← hvN] at hp; exact ((hroute p).2.mp hp).1
    exact lookup_isSome_of_mem_keys _ _ (by rw [hnames]; exact this)
  obtain ⟨pars, hpars⟩ := Option.isSome_iff_exists.mp (setAll_isSome f.bestPars pN last.pars hsomeP)
  obtain ⟨vars, hvars⟩ := Option.isSome_iff_exists.mp (setAll_isSome f.bestPars vN last.vars hsomeV)
  have happ : applyUpdates none pN vN last f.bestPars = some ⟨pars, vars⟩ := by
    simp [applyUpdates, hpars, hvars]
  have hreach := C20_updates_reach_the_model none pN vN last ⟨pars, vars⟩ f.bestPars happ
  rw [happ]
  simp only [Option.getD_some]
  refine ⟨fun n hn hm => ?_, fun n hn hm => ?_⟩
  · have hin : n ∈ pN := by rw [← hpN]; exact (hroute n).1.mpr ⟨hn, hm⟩
    exact hreach.1 n hin (by rw [(hlnames n).1]; exact hm)
  · have hin : n ∈ vN := by rw [← hvN]; exact (hroute n).2.mpr ⟨hn, hm⟩
    exact hreach.2.1 n hin (by rw [(hlnames n).2]; exact hm)

/-- ENSEMBLE: failed fits are dropped, the others are kept in order -/
theorem C20_ensemble_keeps_successes {α : Type} (fits : List (Option (Fit α))) (f : Fit α) :
    f ∈ ensembleFits fits ↔ some f ∈ fits := by
  simp [ensembleFits, List.mem_filterMap]

/-- BEST FIT IS LEAST: `get_best_fit` returns a member of the ensemble whose loss is below every member's
(`inf` losses included); it fails only on an empty ensemble -/
theorem C20_best_fit_is_least (fits : List (Fit Ext)) :
    (getBestFit fits = none ↔ fits = []) ∧
    ∀ f, getBestFit fits = some f → f ∈ fits ∧ ∀ g ∈ fits, f.loss ≤ g.loss := by
  cases fits with
  | nil => simp [getBestFit]
  | cons f0 rest =>
    refine ⟨by simp [getBestFit], ?_⟩
    intro f hf
    simp only [getBestFit, Option.some.injEq] at hf
    have := bestFit_fold_inv Ext.le_refl' Ext.le_total' Ext.le_trans' rest f0 [f0] (by simp)
      (by intro g hg; simp at hg; subst hg; exact Ext.le_refl' _)
    simp only [hf, List.singleton_append] at this
    exact this

/-- JOINT RESIDUAL: the sum is `inf` exactly when one of the residuals is (a failed simulation in ANY of the
settings fails the candidate), and otherwise the sum of the numbers -/
theorem C20_joint_residual_is_sum (rs : List Ext) :
    (sumResiduals rs = .inf ↔ .inf ∈ rs) ∧
    ∀ xs : List Rat, rs = xs.map .fin → sumResiduals rs = .fin (xs.foldl (· + ·) 0) := by
  have key : ∀ (rs : List Ext) (a : Rat),
      (rs.foldl (· + ·) (Ext.fin a) = .inf ↔ .inf ∈ rs) ∧
      ∀ xs : List Rat, rs = xs.map .fin → rs.foldl (· + ·) (Ext.fin a) = .fin (xs.foldl (· + ·) a) := by
    intro rs
    induction rs with
    | nil => intro a; refine ⟨by simp, ?_⟩; intro xs h; cases xs <;> simp_all
    | cons r rs ih =>
      intro a
      cases r with
      | fin x =>
        have e : (Ext.fin a + Ext.fin x) = Ext.fin (a + x) := rfl
        simp only [List.foldl_cons, e]
        refine ⟨by simpa using (ih (a + x)).1, ?_⟩
        intro xs h
        cases xs with
        | nil => simp at h
        | cons y ys =>
          simp only [List.map_cons, List.cons.injEq, Ext.fin.injEq] at h
          obtain ⟨rfl, h⟩ := h
          simpa using (ih (a + x)).2 ys h
      | inf =>
        have e : (Ext.fin a + Ext.inf) = Ext.inf := rfl
        have hinf : ∀ l : List Ext, l.foldl (· + ·) Ext.inf = .inf := by
          intro l
          induction l with
          | nil => rfl
          | cons z l ihl => simp only [List.foldl_cons]; have : (Ext.inf + z) = Ext.inf := by cases z <;> rfl
                            rw [this]; exact ihl
        simp only [List.foldl_cons, e, hinf]
        refine ⟨by simp, ?_⟩
        intro xs h
        cases xs with
        | nil => simp at h
        | cons y ys => simp at h
  exact key rs 0

end Mxl.C20
