/-
C01 / C02 / C13 — tie of the hand-written model (`Model/Core.lean`, `Model/Queries.lean`) to the
assembly facts regenerated from `model.py` on every run (`translate/c01.py` →
`Generated/C01Cache.lean`): which containers `_create_cache` / `_get_args` unite, in which order,
and the (flag, group) sequence of `get_arg_names`.  A source change there changes the generated
definitions and breaks these obligations.
-/
import MxlVerif.Generated.C01Cache
import MxlVerif.Lemmas.ArgsSel
namespace Mxl.C01
open Mxl Mxl.Generated.C01Cache

/-- the model's `to_sort` is the source's union, operand for operand -/
theorem C01_toSort_as_in_source (c : Content) :
    c.toSort = toSortOf omUnion
      ((omUnion (iaOf c.vars) (iaOf c.pars)).map fun kv => (kv.1, Comp.fn kv.2))
      (c.derived.map fun kv => (kv.1, Comp.fn kv.2))
      (c.rxns.map fun kv => (kv.1, Comp.fn kv.2.rate))
      (c.surs.map fun kv => (kv.1, Comp.sur kv.2)) := rfl

/-- the initially available names are the source's union -/
theorem C01_available_as_in_source (c : Content) :
    c.available = availableOf (· ++ ·) (omKeys (plainOf c.pars)) (omKeys (plainOf c.vars))
      (omKeys c.data) ["time"] := rfl

/-- the time-zero base dict is the source's union (as a lookup list: later operands shadow) -/
theorem C01_dependent_as_in_source (pars vars data : List (Name × Rat)) (t : Rat) :
    baseEnv pars vars data t =
      dependentOf envUnion pars.reverse vars.reverse data.reverse [("time", t)] := by
  simp [baseEnv, dependentOf, envUnion, List.append_assoc]

/-- `_get_args` starts from the source's union with `time` set on top, and evaluates the source's
    `containers` union along `dyn_order` -/
theorem C01_getArgs_as_in_source (c : Content) (cache : Cache) (vars : List (Name × Rat)) (t : Rat) :
    getArgsEnv c cache vars t =
      evalInOrder
        (containersOf omUnion (c.derived.map fun kv => (kv.1, Comp.fn kv.2))
          (c.rxns.map fun kv => (kv.1, Comp.fn kv.2.rate))
          (c.surs.map fun kv => (kv.1, Comp.sur kv.2)))
        cache.dynOrder
        (("time", t) :: argsOf envUnion cache.allPars.reverse vars.reverse c.data.reverse) := by
  unfold getArgsEnv argsOf envUnion
  rw [List.append_assoc]
  rfl

/-- `get_arg_names` consults the flags and appends the groups in the order of the source -/
theorem C01_arg_names_as_in_source (c : Content) (cache : Cache) (f : ArgFlags) :
    getArgNames c cache f = argGroups.flatMap (argGroup c cache f) := by
  have f1 : flagVal f "include_time" = f.time := rfl
  have f2 : flagVal f "include_variables" = f.variables := rfl
  have f3 : flagVal f "include_parameters" = f.parameters := rfl
  have f4 : flagVal f "include_derived_variables" = f.derivedVariables := rfl
  have f5 : flagVal f "include_derived_parameters" = f.derivedParameters := rfl
  have f6 : flagVal f "include_reactions" = f.reactions := rfl
  have f7 : flagVal f "include_surrogate_variables" = f.surrogateVariables := rfl
  have f8 : flagVal f "include_surrogate_fluxes" = f.surrogateFluxes := rfl
  have f9 : flagVal f "include_readouts" = f.readouts := rfl
  have g1 : groupNames c cache "time" = ["time"] := rfl
  have g2 : groupNames c cache "variables" = omKeys c.vars := rfl
  have g3 : groupNames c cache "parameters" = omKeys c.pars := rfl
  have g4 : groupNames c cache "derived_variables" =
      (omKeys c.derived).filter (fun k => !(omKeys cache.allPars).contains k) := rfl
  have g5 : groupNames c cache "derived_parameters" =
      (omKeys c.derived).filter (fun k => (omKeys cache.allPars).contains k) := rfl
  have g6 : groupNames c cache "reactions" = omKeys c.rxns := rfl
  have g7 : groupNames c cache "surrogate_variables" = surrogateOutputNames c false := rfl
  have g8 : groupNames c cache "surrogate_fluxes" = surrogateReactionNames c := rfl
  have g9 : groupNames c cache "readouts" = omKeys c.readouts := rfl
  simp only [argGroups, List.flatMap_cons, List.flatMap_nil, argGroup, f1, f2, f3, f4, f5, f6, f7,
    f8, f9, g1, g2, g3, g4, g5, g6, g7, g8, g9, getArgNames, List.append_assoc, List.append_nil]

/-- the static / dynamic split of `_create_cache` visits a name exactly as the source's if / elif
    chain says (`classifyKind` is regenerated from it), a derived quantity being static — and added
    to the parameter names — iff all its arguments are parameter names -/
theorem C13_split_as_in_source (c : Content) (k : Name) (ks st dy apn : List Name) :
    classify c (k :: ks) st dy apn =
      match classifyKind ((omKeys c.rxns).contains k) ((omKeys c.surs).contains k)
          ((omKeys c.vars).contains k) ((omKeys c.pars).contains k) with
      | .dynamic => classify c ks st (k :: dy) apn
      | .static => classify c ks (k :: st) dy apn
      | .derived =>
        match c.derived.lookup k with
        | none => classify c ks st dy apn
        | some d =>
          if d.args.all (fun a => apn.contains a) then classify c ks (k :: st) dy (k :: apn)
          else classify c ks st (k :: dy) apn := by
  rw [classify]
  unfold classifyKind
  cases (omKeys c.rxns).contains k <;> cases (omKeys c.surs).contains k <;>
    cases (omKeys c.vars).contains k <;> cases (omKeys c.pars).contains k <;> simp <;>
    (cases List.lookup k c.derived <;> rfl)

/-- … starting from the set of ALL parameter names (the translator refuses any other seed of
    `all_parameter_names`), along the order `_sort_dependencies` returned -/
theorem C13_split_seed_as_in_source (c : Content) {cache : Cache} (h : createCache c = .ok cache) :
    cache.dynOrder = (classify c cache.order [] [] (omKeys c.pars)).2.1 := by
  obtain ⟨order, _, _, _, _, _, _, _, _, _, _, hcache⟩ := createCache_ok h
  rw [hcache]

end Mxl.C01
