import MxlVerif.Lemmas.C19
import MxlVerif.Generated.C19Save
/-!
C19 — result caching is transparent and survives interruption.
All theorems are about `Mxl.C19.loadOrRun` / `run` / `crashedRun` (Model/C19.lean), the functions the driver
executes, with the save shape `Gen.saveMode` read from the current `parallel.py` by translate/c19.py.
-/
namespace Mxl.C19
variable {κ α β : Type} [DecidableEq κ]

/-- generated-table obligation: the shipped `_pickle_save` writes to a temporary file and renames -/
theorem C19_save_is_atomic : Gen.saveMode = .atomic := rfl

/-- a complete `_load_or_run` keeps the cache consistent (either save shape) -/
theorem C19_complete_step_consistent (mode : SaveMode) (size : β → Nat) (fn : α → β) (val : κ → α)
    (fs : FS κ β) (k : κ) (h : Consistent size fn val fs) :
    Consistent size fn val (loadOrRun mode size fn fs k (val k) none).1 := by
  intro k'
  unfold loadOrRun
  cases hf : fs (.final k) with
  | data w p => simp only []; split <;> exact h k'
  | absent =>
    simp only []
    by_cases hk : k' = k
    · subst hk; rw [save_complete_final]; exact ⟨rfl, Nat.le_refl _⟩
    · rw [save_complete_other _ _ _ _ _ _ hk]; exact h k'

/-- a `_load_or_run` killed after ANY number of file operations keeps the cache consistent -/
theorem C19_cut_step_consistent (size : β → Nat) (fn : α → β) (val : κ → α)
    (fs : FS κ β) (k : κ) (c : Nat) (h : Consistent size fn val fs) :
    Consistent size fn val (loadOrRun Gen.saveMode size fn fs k (val k) (some c)).1 := by
  rw [C19_save_is_atomic]
  intro k'
  unfold loadOrRun
  cases hf : fs (.final k) with
  | data w p => simp only []; split <;> exact h k'
  | absent =>
    simp only []
    rcases atomic_prefix_final size fs k (fn (val k)) c k' with h1 | ⟨rfl, h1⟩
    · rw [h1]; exact h k'
    · rw [h1]; exact ⟨rfl, Nat.le_refl _⟩

/-- an interrupted run (any per-key progress: not started / cut at any operation / done) keeps the cache
consistent -/
theorem C19_crashed_run_consistent (size : β → Nat) (fn : α → β) (val : κ → α) (prog : κ → Progress)
    (inputs : List (κ × α)) (hr : Respects val inputs) :
    ∀ (fs : FS κ β), Consistent size fn val fs →
      Consistent size fn val (crashedRun Gen.saveMode size fn prog fs inputs) := by
  induction inputs with
  | nil => intro fs h; exact h
  | cons kv rest ih =>
    intro fs h
    have hv : kv.2 = val kv.1 := hr kv (by simp)
    have hr' : Respects val rest := fun x hx => hr x (by simp [hx])
    simp only [crashedRun, List.foldl_cons]
    apply ih hr'
    cases prog kv.1 with
    | notStarted => exact h
    | cut c => simp only []; rw [hv]; exact C19_cut_step_consistent size fn val fs kv.1 c h
    | done => simp only []; rw [hv]; exact C19_complete_step_consistent _ size fn val fs kv.1 h

/-- an interrupted sequential run keeps the cache consistent -/
theorem C19_killed_run_consistent (size : β → Nat) (fn : α → β) (val : κ → α) (victim : κ) (c : Nat)
    (inputs : List (κ × α)) (hr : Respects val inputs) :
    ∀ (fs : FS κ β), Consistent size fn val fs →
      Consistent size fn val (runKilled Gen.saveMode size fn victim c fs inputs) := by
  induction inputs with
  | nil => intro fs h; exact h
  | cons kv rest ih =>
    intro fs h
    obtain ⟨k, v⟩ := kv
    have hv : v = val k := hr (k, v) (by simp)
    have hr' : Respects val rest := fun x hx => hr x (by simp [hx])
    subst hv
    have hstep : Consistent size fn val
        (loadOrRun Gen.saveMode size fn fs k (val k) (if k = victim then some c else none)).1 := by
      split
      · exact C19_cut_step_consistent size fn val fs k c h
      · exact C19_complete_step_consistent _ size fn val fs k h
    simp only [runKilled]
    split
    · rename_i fs' _ _ heq; rw [heq] at hstep; exact ih hr' fs' hstep
    · rename_i fs' _ _ heq; rw [heq] at hstep; exact hstep

/-- what a complete run does on a consistent cache (either save shape): it returns exactly what the
uncached map returns, keeps the cache consistent, keeps existing entries, leaves an entry for every
input key, and calls `fn` only for keys that had no entry. -/
theorem C19_run_spec (mode : SaveMode) (size : β → Nat) (fn : α → β) (val : κ → α)
    (inputs : List (κ × α)) (hr : Respects val inputs) :
    ∀ (fs : FS κ β), Consistent size fn val fs →
      (run mode size fn fs inputs).out = .ok (uncached fn inputs) ∧
      Consistent size fn val (run mode size fn fs inputs).fs ∧
      (∀ k, fs (.final k) ≠ .absent → (run mode size fn fs inputs).fs (.final k) = fs (.final k)) ∧
      (∀ kv ∈ inputs, (run mode size fn fs inputs).fs (.final kv.1) ≠ .absent) ∧
      (∀ k ∈ (run mode size fn fs inputs).calls,
          fs (.final k) = .absent ∧ k ∈ inputs.map (·.1)) := by
  induction inputs with
  | nil => intro fs h; simp [run, uncached, h]
  | cons kv rest ih =>
    intro fs h
    obtain ⟨k, v⟩ := kv
    have hv : v = val k := hr (k, v) (by simp)
    have hr' : Respects val rest := fun x hx => hr x (by simp [hx])
    subst hv
    have hstep := C19_complete_step_consistent mode size fn val fs k h
    have hk := h k
    cases hf : fs (.final k) with
    | data w p =>
      rw [hf] at hk
      obtain ⟨hw, hp⟩ := hk
      have hl : loadOrRun mode size fn fs k (val k) none = (fs, .ret w false) := by
        simp [loadOrRun, hf, hp]
      obtain ⟨i1, i2, i3, i4, i5⟩ := ih hr' fs h
      simp only [run, hl]
      refine ⟨?_, i2, i3, ?_, ?_⟩
      · simp [i1, uncached, hw, Except.map]
      · intro kv' hkv'
        simp at hkv'
        rcases hkv' with rfl | hkv'
        · rw [i3 k (by simp [hf])]; simp [hf]
        · exact i4 kv' hkv'
      · intro k' hk'
        have := i5 k' (by simpa using hk')
        exact ⟨this.1, by simp [this.2]⟩
    | absent =>
      have hl : loadOrRun mode size fn fs k (val k) none
          = (applyOps fs (saveOps mode size k (fn (val k))), .ret (fn (val k)) true) := by
        simp [loadOrRun, hf]
      rw [hl] at hstep
      simp only [] at hstep
      obtain ⟨i1, i2, i3, i4, i5⟩ := ih hr' _ hstep
      have hfin := save_complete_final mode size fs k (fn (val k))
      simp only [run, hl]
      refine ⟨?_, i2, ?_, ?_, ?_⟩
      · simp [i1, uncached, Except.map]
      · intro k' hk'
        have hne : k' ≠ k := by intro e; subst e; exact hk' hf
        rw [i3 k' (by rw [save_complete_other _ _ _ _ _ _ hne]; exact hk')]
        exact save_complete_other _ _ _ _ _ _ hne
      · intro kv' hkv'
        simp at hkv'
        rcases hkv' with rfl | hkv'
        · rw [i3 k (by simp [hfin])]; simp [hfin]
        · exact i4 kv' hkv'
      · intro k' hk'
        simp at hk'
        rcases hk' with rfl | hk'
        · exact ⟨hf, by simp⟩
        · have := i5 k' hk'
          by_cases hne : k' = k
          · subst hne; exact ⟨hf, by simp⟩
          · rw [save_complete_other _ _ _ _ _ _ hne] at this; exact ⟨this.1, by simp [this.2]⟩

/-- TRANSPARENT: with no interruption, a cached run returns what the uncached run returns; a rerun on the
cache it leaves returns the same again and calls `fn` for no key. -/
theorem C19_transparent (mode : SaveMode) (size : β → Nat) (fn : α → β) (val : κ → α)
    (inputs : List (κ × α)) (hr : Respects val inputs) (fs : FS κ β) (h : Consistent size fn val fs) :
    (run mode size fn fs inputs).out = .ok (uncached fn inputs) ∧
    (run mode size fn (run mode size fn fs inputs).fs inputs).out = .ok (uncached fn inputs) ∧
    (run mode size fn (run mode size fn fs inputs).fs inputs).calls = [] := by
  obtain ⟨i1, i2, _, i4, _⟩ := C19_run_spec mode size fn val inputs hr fs h
  obtain ⟨j1, _, _, _, j5⟩ := C19_run_spec mode size fn val inputs hr _ i2
  refine ⟨i1, j1, ?_⟩
  cases hc : (run mode size fn (run mode size fn fs inputs).fs inputs).calls with
  | nil => rfl
  | cons k ks =>
    exfalso
    obtain ⟨hk, hmem⟩ := j5 k (by simp [hc])
    simp only [List.mem_map] at hmem
    obtain ⟨kv, hkv, rfl⟩ := hmem
    exact i4 kv hkv hk

/-- TRANSPARENT THROUGH `name_fn`: keys reach the disk as file names.  If the naming keeps apart every two keys
of the run that stand for different inputs, the cached run over the names returns what the uncached run returns
and the rerun recomputes nothing. -/
theorem C19_transparent_named {ν : Type} [DecidableEq ν] (mode : SaveMode) (size : β → Nat) (fn : α → β)
    (name : κ → ν) (inputs : List (κ × α)) (hsep : NamesSeparate name inputs) :
    (run mode size fn (FS.empty : FS ν β) (named name inputs)).out = .ok (uncached fn (named name inputs)) ∧
    (run mode size fn (run mode size fn (FS.empty : FS ν β) (named name inputs)).fs (named name inputs)).calls = [] := by
  cases hi : inputs with
  | nil => simp [named, run, uncached]
  | cons kv0 rest =>
    rw [← hi]
    have hfun : ∀ a ∈ named name inputs, ∀ b ∈ named name inputs, a.1 = b.1 → a.2 = b.2 := by
      intro a ha b hb hab
      simp only [named, List.mem_map] at ha hb
      obtain ⟨a', ha', rfl⟩ := ha
      obtain ⟨b', hb', rfl⟩ := hb
      exact hsep a' ha' b' hb' hab
    have hr := respects_of_separate (named name inputs) kv0.2 hfun
    have := C19_transparent mode size fn _ (named name inputs) hr FS.empty (fun _ => trivial)
    exact ⟨this.1, this.2.2⟩

/-- generated-table obligations: the shipped default `name_fn` is the percent-encoded `repr`, and `parallelise`
refuses a cache when two inputs share a key -/
theorem C19_naming_facts : Gen.nameScheme = .quotedRepr ∧ Gen.refusesDuplicateKeys = true := ⟨rfl, rfl⟩

/-- DEFAULT NAMES ARE INJECTIVE: two keys with different `repr` never get the same file name (percent-encoding
has a left inverse).  What is trusted is only that Python's `repr` tells the keys apart (1 vs '1'). -/
theorem C19_default_names_injective (str repr : κ → List Nat) (hbytes : ∀ k, ∀ b ∈ repr k, b < 256)
    (hrepr : Function.Injective repr) : Function.Injective (defaultName Gen.nameScheme str repr) := by
  intro a b h
  simp only [C19_naming_facts.1, defaultName] at h
  exact hrepr (pctEncode_injective _ _ (hbytes a) (hbytes b) (List.append_cancel_right h))

/-- DEFAULT NAMES ARE PATH-SAFE: no path separator, no NUL byte, whatever the key's text is -/
theorem C19_default_names_path_safe (str repr : κ → List Nat) (hbytes : ∀ k, ∀ b ∈ repr k, b < 256) (k : κ) :
    47 ∉ defaultName Gen.nameScheme str repr k ∧ 92 ∉ defaultName Gen.nameScheme str repr k ∧
    0 ∉ defaultName Gen.nameScheme str repr k := by
  simp only [C19_naming_facts.1, defaultName, List.mem_append, List.mem_cons, List.mem_nil_iff, not_or]
  have key : ∀ x, x ∈ pctEncode (repr k) → x ≠ 47 ∧ x ≠ 92 ∧ x ≠ 0 := by
    intro x hx
    rcases pctEncode_bytes (repr k) (hbytes k) x hx with h | h | h | h
    · omega
    · omega
    · omega
    · refine ⟨?_, ?_, ?_⟩ <;> (intro e; subst e; simp [safeByte] at h)
  refine ⟨⟨fun h => (key 47 h).1 rfl, by decide⟩, ⟨fun h => (key 92 h).2.1 rfl, by decide⟩,
    ⟨fun h => (key 0 h).2.2 rfl, by decide⟩⟩

/-- WHAT A FILE THAT IS ALREADY THERE DOES (the shipped behaviour, not a promise of the property): `_load_or_run`
trusts whatever is under the key's name.  A complete pickle is served as it is — whatever value it holds — without
calling `fn`; a truncated one (which the shipped save can never leave behind, `C19_cut_step_consistent`, but the
pinned version could, `C19_direct_save_not_crash_safe`) makes the run raise; in both cases the directory is left as
it was: nothing is recomputed or repaired, also not by a rerun. -/
theorem C19_existing_file_is_trusted (mode : SaveMode) (size : β → Nat) (fn : α → β) (fs : FS κ β) (k : κ) (v : α)
    (cut : Option Nat) (w : β) (p : Nat) (h : fs (.final k) = .data w p) :
    loadOrRun mode size fn fs k v cut = (fs, if size w ≤ p then .ret w false else .loadError) := by
  simp only [loadOrRun, h]
  split <;> rfl

/-- generated-table obligation about the temporary sibling `_pickle_save` writes to: its constant suffix does not
end in `.p`, and neither constant part holds a path separator -/
theorem C19_tmp_naming_facts : tmpPartsOk Gen.tmpSep Gen.tmpSuffix = true := by decide

/-- A TEMPORARY NAME IS NEVER A RESULT FILE'S NAME: whatever the keys and the process id, the temporary sibling of
one key's file is not the result file of any key — an interrupted save can leave a stray file, never a file that a
later run would take for a cached result.  (Both naming schemes; the model's `Path.tmp _ ≠ Path.final _`.) -/
theorem C19_tmp_name_is_no_final_name (scheme : NameScheme) (str repr : κ → List Nat) (k k' : κ) (pid : Nat) :
    tmpName Gen.tmpSep Gen.tmpSuffix (defaultName scheme str repr k) pid ≠ defaultName scheme str repr k' := by
  intro h
  have hl : ∀ (x : List Nat), (x ++ [46, 112]).reverse.take 2 = [112, 46] := by intro x; simp
  have hf : (defaultName scheme str repr k').reverse.take 2 = [112, 46] := by
    cases scheme <;> exact hl _
  have ht : ∀ (x : List Nat), (x ++ Gen.tmpSuffix).reverse.take 2 = Gen.tmpSuffix.reverse.take 2 := by
    intro x; simp [Gen.tmpSuffix]
  rw [← h, tmpName, ht] at hf
  revert hf; decide

/-- the temporaries of ONE process are as distinct as the result files: same process, different result file ⇒
different temporary -/
theorem C19_tmp_names_injective_per_process (sep suffix a b : List Nat) (pid : Nat)
    (h : tmpName sep suffix a pid = tmpName sep suffix b pid) : a = b := by
  simp only [tmpName, List.append_assoc] at h
  have h1 : a ++ (sep ++ (decDigits pid ++ suffix)) = b ++ (sep ++ (decDigits pid ++ suffix)) := h
  exact List.append_cancel_right h1

/-- TWO PROCESSES NEVER SHARE A TEMPORARY: for the same result file, different process ids give different temporary
names (whatever the constant parts are) — two runs that use one cache directory at the same time write their own
temporaries even for the same key -/
theorem C19_tmp_names_differ_across_processes (sep suffix f : List Nat) (p1 p2 : Nat)
    (h : tmpName sep suffix f p1 = tmpName sep suffix f p2) : p1 = p2 := by
  simp only [tmpName, List.append_assoc] at h
  have h1 := List.append_cancel_left (List.append_cancel_left h)
  exact decDigits_injective (List.append_cancel_right h1)

/-- TEMPORARY NAMES ARE PATH-SAFE under the shipped naming: no path separator, no NUL byte -/
theorem C19_tmp_names_path_safe (str repr : κ → List Nat) (hbytes : ∀ k, ∀ b ∈ repr k, b < 256) (k : κ) (pid : Nat) :
    pathSafe (tmpName Gen.tmpSep Gen.tmpSuffix (defaultName Gen.nameScheme str repr k) pid) = true := by
  obtain ⟨h47, h92, h0⟩ := C19_default_names_path_safe str repr hbytes k
  have hd : ∀ b ∈ decDigits pid, b ≠ 47 ∧ b ≠ 92 ∧ b ≠ 0 := decDigits_safe pid
  simp only [pathSafe, tmpName, List.all_append, Bool.and_eq_true, List.all_eq_true, bne_iff_ne, ne_eq]
  refine ⟨⟨⟨?_, ?_⟩, ?_⟩, ?_⟩
  · intro b hb
    exact ⟨⟨fun e => h47 (e ▸ hb), fun e => h92 (e ▸ hb)⟩, fun e => h0 (e ▸ hb)⟩
  · intro b hb; revert b; decide
  · intro b hb; exact ⟨⟨(hd b hb).1, (hd b hb).2.1⟩, (hd b hb).2.2⟩
  · intro b hb; revert b; decide

/-- generated-table obligation: `parallelise` refuses a cache when two keys are written to the same FILE NAME (repair of
F-C19-4: two NaN keys are not equal, so the key check let them through, and both were served the first one's result).  This
is the check the model's `parallelise` makes (`Nodup` of the names); the code's additional refusal of keys that are EQUAL
under `==` but written differently (`1` and `1.0`) only refuses more. -/
theorem C19_refuses_shared_names : Gen.refusesSharedNames = true := rfl

/-- TRANSPARENT WITHOUT A NAMING HYPOTHESIS: `parallelise` as shipped (default names, key check) on an empty
cache directory either refuses the cache (repeated keys) or returns exactly what the uncached run returns, and
the rerun recomputes nothing — for EVERY input list. -/
theorem C19_checked_run_transparent (size : β → Nat) (fn : α → β) (str repr : κ → List Nat)
    (inputs : List (κ × α)) :
    let nm := named (defaultName Gen.nameScheme str repr) inputs
    parallelise Gen.refusesDuplicateKeys Gen.saveMode size fn (FS.empty : FS (List Nat) β) nm = none ∨
    ∃ r, parallelise Gen.refusesDuplicateKeys Gen.saveMode size fn (FS.empty : FS (List Nat) β) nm = some r ∧
      r.out = .ok (uncached fn nm) ∧
      (run Gen.saveMode size fn r.fs nm).out = .ok (uncached fn nm) ∧ (run Gen.saveMode size fn r.fs nm).calls = [] := by
  intro nm
  simp only [parallelise, C19_naming_facts.2, Bool.true_and]
  by_cases hnd : (nm.map (·.1)).Nodup
  · right
    simp only [hnd, decide_true, Bool.not_true, Bool.false_eq_true, if_false]
    refine ⟨_, rfl, ?_⟩
    cases hi : nm with
    | nil => simp [run, uncached]
    | cons kv0 rest =>
      rw [← hi]
      have hr := respects_of_separate nm kv0.2 (nodup_keys_separate nm hnd)
      exact C19_transparent Gen.saveMode size fn _ nm hr FS.empty (fun _ => trivial)
  · left
    simp [hnd]

/-- ... and keys that are all different are never refused: the refusal is only about repeated keys -/
theorem C19_distinct_keys_not_refused (size : β → Nat) (fn : α → β) (str repr : κ → List Nat)
    (hbytes : ∀ k, ∀ b ∈ repr k, b < 256) (hrepr : Function.Injective repr) (inputs : List (κ × α))
    (hk : (inputs.map (·.1)).Nodup) (fs : FS (List Nat) β) :
    parallelise Gen.refusesDuplicateKeys Gen.saveMode size fn fs (named (defaultName Gen.nameScheme str repr) inputs)
      = some (run Gen.saveMode size fn fs (named (defaultName Gen.nameScheme str repr) inputs)) := by
  have hinj := C19_default_names_injective str repr hbytes hrepr
  have : ((named (defaultName Gen.nameScheme str repr) inputs).map (·.1)).Nodup := by
    have e : (named (defaultName Gen.nameScheme str repr) inputs).map (·.1)
        = (inputs.map (·.1)).map (defaultName Gen.nameScheme str repr) := by
      simp [named, List.map_map, Function.comp_def]
    rw [e]
    exact nodup_map_of_injective _ hinj _ hk
  simp [parallelise, this]

/-- SAME KEY, TWO WRITERS (two runs that use one cache directory at the same time and compute the same key): each
writes its own temporary (different process ids give different names, `C19_tmp_names_differ_across_processes`; no
temporary is a result file, `C19_tmp_name_is_no_final_name`) and renames it onto the one result file.  For EVERY
interleaving of the two writers' file operations, each possibly cut short anywhere (a kill), the result file is
afterwards what it was before, or one writer's COMPLETE result, or the other's — never a partial file.  Since the cuts
are arbitrary this holds at every instant of every schedule: a reader sees nothing (or the old file) or a complete file. -/
theorem C19_same_key_two_writers (size : β → Nat) (tA tB fin : Path κ) (hAB : tA ≠ tB) (hA : tA ≠ fin) (hB : tB ≠ fin)
    (rA rB : β) (fs : FS κ β) (cA cB : Nat) (l : List (Op κ β))
    (hl : Interleave ((saveOpsAt size tA fin rA).take cA) ((saveOpsAt size tB fin rB).take cB) l) :
    (applyOps fs l) fin = fs fin ∨ (applyOps fs l) fin = .data rA (size rA) ∨
      (applyOps fs l) fin = .data rB (size rB) :=
  two_writers_inv hAB hA hB (fs fin) _ _ l hl fs (pending_take size tA fin rA fs cA)
    (pending_take size tB fin rB fs cB) (.inl rfl)

/-- ... so with a deterministic `fn` (both compute the same value) the shared result file stays GOOD (absent or the
complete right pickle), and a later run loads it or recomputes — it never raises -/
theorem C19_same_key_two_writers_good (size : β → Nat) (tA tB fin : Path κ) (hAB : tA ≠ tB) (hA : tA ≠ fin)
    (hB : tB ≠ fin) (r : β) (fs : FS κ β) (hg : (fs fin).Good size r) (cA cB : Nat) (l : List (Op κ β))
    (hl : Interleave ((saveOpsAt size tA fin r).take cA) ((saveOpsAt size tB fin r).take cB) l) :
    ((applyOps fs l) fin).Good size r := by
  rcases C19_same_key_two_writers size tA tB fin hAB hA hB r r fs cA cB l hl with h | h | h
  · rw [h]; exact hg
  · rw [h]; exact ⟨rfl, Nat.le_refl _⟩
  · rw [h]; exact ⟨rfl, Nat.le_refl _⟩

/-- the shipped save IS this writer with the key's own temporary and result file -/
theorem C19_save_is_writer (size : β → Nat) (k : κ) (res : β) :
    saveOps Gen.saveMode size k res = saveOpsAt size (.tmp k) (.final k) res := rfl

/-- the pinned tree's naming `str(k) + ".p"` is NOT injective over keys of different type: 1 and '1' have the same
`str` (kept as the reason the repair exists) -/
theorem C19_plain_names_collide :
    ∃ (str repr : Bool → List Nat), Function.Injective repr ∧
      defaultName .plainStr str repr true = defaultName .plainStr str repr false :=
  ⟨fun _ => [49], fun b => if b then [49] else [39, 49, 39],
    by intro a b h; cases a <;> cases b <;> simp_all, rfl⟩

/-- ... and a naming that maps two keys with different inputs to ONE file is not transparent: the second key is
served the first key's result (keys 0 and 1 both named 7; fn = +1). -/
theorem C19_colliding_names_not_transparent :
    (run .atomic (fun _ => 3) (fun v : Nat => v + 1) (FS.empty : FS Nat Nat)
        (named (fun _ : Nat => 7) [(0, 10), (1, 20)])).out = .ok [(7, 11), (7, 11)] ∧
    uncached (fun v : Nat => v + 1) (named (fun _ : Nat => 7) [(0, 10), (1, 20)]) = [(7, 11), (7, 21)] := by
  constructor
  · simp [named, run, loadOrRun, FS.empty, saveOps, applyOps, applyOp, FS.set, File.bump, Except.map]
  · simp [named, uncached]

/-- any history of interrupted runs keeps the cache consistent -/
theorem C19_crash_history_consistent (size : β → Nat) (fn : α → β) (val : κ → α)
    (hist : List (Interrupted κ α)) (hh : ∀ h ∈ hist, Respects val h.inputs) :
    ∀ (fs : FS κ β), Consistent size fn val fs →
      Consistent size fn val (crashHistory Gen.saveMode size fn fs hist) := by
  induction hist with
  | nil => intro fs h; exact h
  | cons h0 rest ih =>
    intro fs h
    simp only [crashHistory, List.foldl_cons]
    apply ih (fun x hx => hh x (by simp [hx]))
    have h0r := hh h0 (by simp)
    cases h0 with
    | pool prog inputs => exact C19_crashed_run_consistent size fn val prog inputs h0r fs h
    | seq victim c inputs => exact C19_killed_run_consistent size fn val victim c inputs h0r fs h

/-- CRASH-SAFE: after any number of earlier runs, each killed at any instant — before, between or after
any file operation of any key's save, for any subset of keys at once — a complete run returns `fn v` for
every key, keeps the cache consistent, and the run after that calls `fn` for no key. -/
theorem C19_crash_safe (size : β → Nat) (fn : α → β) (val : κ → α)
    (hist : List (Interrupted κ α)) (hh : ∀ h ∈ hist, Respects val h.inputs)
    (inputs : List (κ × α)) (hr : Respects val inputs)
    (fs0 : FS κ β) (h0 : Consistent size fn val fs0) :
    let fs := crashHistory Gen.saveMode size fn fs0 hist
    (run Gen.saveMode size fn fs inputs).out = .ok (uncached fn inputs) ∧
    (run Gen.saveMode size fn (run Gen.saveMode size fn fs inputs).fs inputs).out
        = .ok (uncached fn inputs) ∧
    (run Gen.saveMode size fn (run Gen.saveMode size fn fs inputs).fs inputs).calls = [] :=
  C19_transparent Gen.saveMode size fn val inputs hr _
    (C19_crash_history_consistent size fn val hist hh fs0 h0)

/-- a killed run followed by a killed run ... started from an EMPTY cache directory: the usual case -/
theorem C19_crash_safe_from_empty (size : β → Nat) (fn : α → β) (val : κ → α)
    (hist : List (Interrupted κ α)) (hh : ∀ h ∈ hist, Respects val h.inputs)
    (inputs : List (κ × α)) (hr : Respects val inputs) :
    (run Gen.saveMode size fn (crashHistory Gen.saveMode size fn (FS.empty : FS κ β) hist) inputs).out
      = .ok (uncached fn inputs) :=
  (C19_crash_safe size fn val hist hh inputs hr FS.empty (fun _ => trivial)).1

/-- KEYS COMMUTE: two workers on different keys (each complete or killed anywhere, either save shape)
leave the same files and get the same outcomes in either order. -/
theorem C19_keys_commute (mode : SaveMode) (size : β → Nat) (fn : α → β) (fs : FS κ β)
    (k k' : κ) (v v' : α) (cut cut' : Option Nat) (hk : k ≠ k') :
    let a := loadOrRun mode size fn fs k v cut
    let ab := loadOrRun mode size fn a.1 k' v' cut'
    let b := loadOrRun mode size fn fs k' v' cut'
    let ba := loadOrRun mode size fn b.1 k v cut
    ab.1 = ba.1 ∧ a.2 = ba.2 ∧ ab.2 = b.2 := by
  intro a ab b ba
  have ha : a = _ := loadOrRun_eq mode size fn fs k v cut
  have hb : b = _ := loadOrRun_eq mode size fn fs k' v' cut'
  have hab : ab = _ := loadOrRun_eq mode size fn a.1 k' v' cut'
  have hba : ba = _ := loadOrRun_eq mode size fn b.1 k v cut
  have e1 : a.1 (.final k') = fs (.final k') := by
    rw [ha]; exact opsOf_frame mode size fn _ k k' v cut fs hk
  have e2 : b.1 (.final k) = fs (.final k) := by
    rw [hb]; exact opsOf_frame mode size fn _ k' k v' cut' fs (Ne.symm hk)
  rw [e1] at hab
  rw [e2] at hba
  rw [hab, hba]
  refine ⟨?_, by rw [ha], by rw [hb]⟩
  simp only []
  rw [ha, hb]
  simp only []
  apply applyOps_comm
  intro x hx y hy
  exact saveOps_disj mode mode size k k' _ _ hk x (opsOf_sub _ _ _ _ _ _ _ x hx) y (opsOf_sub _ _ _ _ _ _ _ y hy)

/-- ANY INTERLEAVING of the file operations of two different keys' saves (two pool workers running at the
same time, each possibly killed: `pre`/`pre'` are arbitrary prefixes) equals running them one after the
other. -/
theorem C19_interleaving (mode : SaveMode) (size : β → Nat) (fs : FS κ β) (k k' : κ) (res res' : β)
    (c c' : Nat) (l : List (Op κ β)) (hk : k ≠ k')
    (hi : Interleave ((saveOps mode size k res).take c) ((saveOps mode size k' res').take c') l) :
    applyOps fs l
      = applyOps (applyOps fs ((saveOps mode size k res).take c)) ((saveOps mode size k' res').take c') := by
  apply interleave_eq _ _ _ hi
  intro x hx y hy
  exact saveOps_disj mode mode size k k' _ _ hk x (List.mem_of_mem_take hx) y (List.mem_of_mem_take hy)

/-- SCHEDULE-INDEPENDENT: a pool that processes the inputs in any order `sched` (a permutation) and
reports in input order returns what the sequential run returns. -/
theorem C19_schedule_independent (mode : SaveMode) (size : β → Nat) (fn : α → β) (val : κ → α)
    (inputs sched : List (κ × α)) (hp : sched.Perm inputs) (hr : Respects val inputs)
    (fs : FS κ β) (h : Consistent size fn val fs) :
    runSched mode size fn fs sched inputs = (run mode size fn fs inputs).out := by
  have hrs : Respects val sched := fun kv hkv => hr kv (hp.mem_iff.mp hkv)
  have h1 := (C19_run_spec mode size fn val sched hrs fs h).1
  have h2 := (C19_run_spec mode size fn val inputs hr fs h).1
  rw [h2]
  simp only [runSched, h1]
  congr 1
  -- every input key is found in the scheduled results with the value fn (val key)
  have look : ∀ kv ∈ inputs, (uncached fn sched).lookup kv.1 = some (fn kv.2) := by
    intro kv hkv
    have hmem : kv ∈ sched := hp.mem_iff.mpr hkv
    have : ∀ (l : List (κ × α)), Respects val l → kv ∈ l → kv.2 = val kv.1 →
        (uncached fn l).lookup kv.1 = some (fn kv.2) := by
      intro l
      induction l with
      | nil => intro _ hm; simp at hm
      | cons x xs ih =>
        intro hrl hm hv
        simp only [uncached, List.map_cons, List.lookup_cons]
        by_cases hx : kv.1 = x.1
        · have : x.2 = kv.2 := by rw [hrl x (by simp), hv, hx]
          simp [hx, this]
        · have hx' : (kv.1 == x.1) = false := by simpa using hx
          rw [hx']
          have hm' : kv ∈ xs := by
            rcases List.mem_cons.mp hm with e | e
            · exact absurd (by rw [e]) hx
            · exact e
          exact ih (fun y hy => hrl y (by simp [hy])) hm' hv
    exact this sched hrs hmem (hr kv hkv)
  have : ∀ (l : List (κ × α)), (∀ kv ∈ l, (uncached fn sched).lookup kv.1 = some (fn kv.2)) →
      l.filterMap (fun kv => ((uncached fn sched).lookup kv.1).map fun w => (kv.1, w)) = uncached fn l := by
    intro l
    induction l with
    | nil => intro _; rfl
    | cons x xs ih =>
      intro hl
      rw [List.filterMap_cons, hl x (by simp)]
      simp only [Option.map_some, uncached, List.map_cons]
      congr 1
      exact ih (fun y hy => hl y (by simp [hy]))
  exact this inputs look

/-- the pinned tree's save shape (write straight into the final path) is NOT crash-safe: killed right
after `open('wb')`, the rerun's load raises.  (Kept as the reason the repair exists.) -/
theorem C19_direct_save_not_crash_safe :
    ∃ (prog : Nat → Progress) (inputs : List (Nat × Nat)),
      Respects (fun k => k) inputs ∧
      (run .direct (fun _ => 5) (fun v => v + 1)
        (crashedRun .direct (fun _ => 5) (fun v => v + 1) prog (FS.empty : FS Nat Nat) inputs) inputs).out
        = .error () :=
  ⟨fun _ => .cut 1, [(0, 0)], by simp [Respects], by
    simp [crashedRun, run, loadOrRun, FS.empty, saveOps, applyOps, applyOp, FS.set]⟩

/-- non-vacuity: the empty cache is consistent, and a history with a cut in the middle of the temporary
file, a cut just before the rename and a completed key is covered by `C19_crash_safe`. -/
example : Consistent (fun (_ : Nat) => 5) (fun (v : Nat) => v + 1) (fun (k : Nat) => k) FS.empty :=
  fun _ => trivial
example :
    (run Gen.saveMode (fun _ => 5) (fun v => v + 1)
      (crashHistory Gen.saveMode (fun _ => 5) (fun v => v + 1) (FS.empty : FS Nat Nat)
        [.pool (fun k => if k = 0 then .cut 3 else if k = 1 then .cut 6 else .done) [(0, 0), (1, 1), (2, 2)],
         .seq 2 4 [(0, 0), (1, 1), (2, 2)]])
      [(0, 0), (1, 1), (2, 2)]).out = .ok [(0, 1), (1, 2), (2, 3)] := by
  rw [C19_save_is_atomic]
  simp [crashHistory, Interrupted.apply, crashedRun, runKilled, run, loadOrRun, FS.empty, saveOps, applyOps, applyOp, FS.set, File.bump, Except.map]

end Mxl.C19
