/-
C13 — headline statements under the single hypothesis `WFnames`.
-/
import MxlVerif.Lemmas.NamesFinal
import MxlVerif.Lemmas.Total
import MxlVerif.Lemmas.ClassifyComplete
import MxlVerif.Lemmas.ClassesExact
namespace Mxl.C13
open Mxl

/-- **Initial assignments are computed once, at time zero, after everything they name.**
    (`C13_init_resolved` with the well-formedness hypotheses discharged from distinct names.) -/
theorem C13_init_resolved_names {c : Content} (hn : WFnames c) {cache : Cache}
    (h : createCache c = .ok cache) :
    ∃ dep : Env,
      (∀ k comp, c.toSort.lookup k = some comp → comp.Holds k dep) ∧
      (∀ n, n ∉ (omKeys c.toSort).flatMap (providedOf c.toSort) →
        dep.lookup n = (baseEnv (plainOf c.pars) (plainOf c.vars) c.data 0).lookup n) ∧
      cache.init.map (·.1) = omKeys c.vars ∧
      (∀ kv ∈ cache.init, dep.lookup kv.1 = some kv.2) := by
  obtain ⟨dep, h1, h2, h3, h4, _⟩ := createCache_consistent (WFc_of_names c hn) h
  exact ⟨dep, h1, h2, h3, h4⟩

/-- **Derived parameters and assignment-defined parameters keep their value for every state and
    time.**  Every entry `(n, v)` of the cache's parameter table (plain parameters, parameters
    defined by initial assignment, derived quantities classified as parameters) is bound to `v` in
    the argument table of *every* supplied state and time, and `v` is the value `n` had in the
    time-zero environment `dep`, in which every component holds. -/
theorem C13_parameters_frozen {c : Content} (hn : WFnames c) {cache : Cache}
    (hc : createCache c = .ok cache) (vars : List (Name × Rat))
    (hv : vars.map (·.1) = omKeys c.vars) (t : Rat) {env : Env}
    (h : getArgsEnv c cache vars t = .ok env) :
    ∃ dep : Env,
      evalInOrder c.toSort cache.order
        (baseEnv (plainOf c.pars) (plainOf c.vars) c.data 0) = .ok dep ∧
      (∀ k comp, c.toSort.lookup k = some comp → comp.Holds k dep) ∧
      (∀ n, n ∈ omKeys cache.allPars ↔ n ∈ omKeys (plainOf c.pars) ∨
        (n ∈ cache.order ∧ n ∉ cache.dynOrder ∧ n ∉ omKeys c.vars)) ∧
      (∀ n v, (n, v) ∈ cache.allPars → env.lookup n = some v ∧ dep.lookup n = some v) := by
  obtain ⟨dep, h1, h2, _, h4, h5⟩ := allPars_frozen hn hc vars hv t h
  exact ⟨dep, h1, h2, h4, h5⟩

/-- **Every other derived quantity, flux and surrogate is recomputed from the state supplied**,
    and derived parameters agree with their own function of the (frozen) argument values too. -/
theorem C13_recomputed {c : Content} (hn : WFnames c) {cache : Cache}
    (hc : createCache c = .ok cache) (vars : List (Name × Rat))
    (hv : vars.map (·.1) = omKeys c.vars) (t : Rat) {env : Env}
    (h : getArgsEnv c cache vars t = .ok env) :
    (∀ k dq, c.derived.lookup k = some dq → (Comp.fn dq).Holds k env) ∧
    (∀ k ∈ cache.dynOrder, ∀ comp, c.containers.lookup k = some comp → comp.Holds k env) ∧
    -- … from THE SUPPLIED state: everything no dynamic component provides — `time`, the state
    -- variables, the parameter table — has the supplied / cached value
    (∀ n, n ∉ cache.dynOrder.flatMap (providedOf c.containers) →
      env.lookup n = (baseEnv cache.allPars vars c.data t).lookup n) :=
  ⟨fun k dq hk => derived_holds hn hc vars hv t h k dq hk,
   (getArgs_consistent (WFd_of_names c hn) hc vars hv t h).1,
   (getArgs_consistent (WFd_of_names c hn) hc vars hv t h).2⟩

/-- **Exact classification**: a sorted name is in the parameter closure iff it is a parameter or
    depends, through any chain, only on parameters. -/
theorem C13_static_iff_names {c : Content} (hn : WFnames c)
    {cache : Cache} (h : createCache c = .ok cache) {k : Name} (hk : k ∈ cache.order) :
    k ∈ (classify c cache.order [] [] (omKeys c.pars)).2.2 ↔
      k ∈ omKeys c.pars ∨ OnlyParams c k :=
  createCache_classify_exact (WFd_of_names c hn) (DerivedDistinct_of_names hn) h hk

/-- **A derived quantity is reported as a derived parameter exactly when it depends, through any
    chain, only on parameters.**  About `getClasses` = (`get_derived_parameter_names`,
    `get_derived_variable_names`), the function the driver runs: whenever it answers (any
    declaration order), the first list holds exactly the derived quantities satisfying `OnlyParams`
    (every argument is a parameter — plain or assignment-defined — or again such a derived
    quantity), the second list exactly the others; both keep declaration order and together they
    are all derived quantities, each once. -/
theorem C13_derived_parameters_exact {c : Content} (hn : WFnames c) {dp dv : List Name}
    (h : getClasses c = .ok (dp, dv)) :
    (∀ k, k ∈ dp ↔ k ∈ omKeys c.derived ∧ OnlyParams c k) ∧
    (∀ k, k ∈ dv ↔ k ∈ omKeys c.derived ∧ ¬ OnlyParams c k) ∧
    dp.Sublist (omKeys c.derived) ∧ dv.Sublist (omKeys c.derived) ∧
    (∀ k, dp.count k + dv.count k = (omKeys c.derived).count k) :=
  getClasses_exact hn h

/-- **What is frozen**: the cache's parameter table (the values that do not change with state or
    time, `C13_parameters_frozen`) holds exactly the parameters — plain or assignment-defined —
    and the derived quantities that depend, through any chain, only on parameters. -/
theorem C13_parameter_table_exact {c : Content} (hn : WFnames c) {cache : Cache}
    (hc : createCache c = .ok cache) (n : Name) :
    n ∈ omKeys cache.allPars ↔ n ∈ omKeys c.pars ∨ (n ∈ omKeys c.derived ∧ OnlyParams c n) :=
  allPars_keys_exact hn hc n

/-- **What is recomputed**: per state and time `_get_args` re-evaluates exactly the reactions, the
    surrogates and the derived quantities that do *not* depend on parameters only. -/
theorem C13_dynamic_exact {c : Content} (hn : WFnames c) {cache : Cache}
    (hc : createCache c = .ok cache) {k : Name} (hk : k ∈ cache.order) :
    k ∈ cache.dynOrder ↔ (isRS c k = true ∨ (k ∈ omKeys c.derived ∧ ¬ OnlyParams c k)) :=
  dynOrder_spec hn hc hk

/-- the classification is a property of the graph alone: two contents with the same parameters
    names and the same derived quantities (as a lookup table) have the same `OnlyParams` — so
    neither declaration order, nor values, nor the state can change what is a derived parameter -/
theorem C13_onlyParams_congr {c c' : Content}
    (hp : ∀ n, n ∈ omKeys c'.pars ↔ n ∈ omKeys c.pars)
    (hd : ∀ k, c'.derived.lookup k = c.derived.lookup k) {k : Name} (h : OnlyParams c k) :
    OnlyParams c' k := by
  induction h with
  | mk k d hk _ ih =>
    exact OnlyParams.mk k d (by rw [hd]; exact hk)
      (fun a ha hna => ih a ha (fun hm => hna ((hp a).mpr hm)))

/-- **No spurious failure**: distinct names and a complete acyclic graph suffice for
    `_create_cache` to return. -/
theorem C13_cache_total (c : Content) (hn : WFnames c) (hs : Sortable c.available c.deps) :
    ∃ cache, createCache c = .ok cache :=
  createCache_total c hn hs

/-! ### non-vacuity of "computed once at time zero … even reaction rates" -/

/-- an initial assignment on a variable that names a reaction rate, and a parameter assigned from
    that variable: `r = 2·x = 4` at the declared state, `y(0) = 3·r = 12`, `q = y + 1 = 13` -/
def exRate : Content :=
  { vars := [("y", .ia ⟨["r"], fun v => 3 * v.getD 0 0⟩), ("x", .plain 2)],
    pars := [("q", .ia ⟨["y"], fun v => v.getD 0 0 + 1⟩)],
    rxns := [("r", ⟨⟨["x"], fun v => 2 * v.getD 0 0⟩, [("x", .num (-1))]⟩)] }

example : WFnames exRate := ⟨by decide +kernel, by intro kv h; cases h⟩
example : (createCache exRate).toOption.map (·.init) = some [("y", 12), ("x", 2)] := by
  decide +kernel
example : (createCache exRate).toOption.map (·.allPars) = some [("q", 13)] := by decide +kernel

end Mxl.C13
