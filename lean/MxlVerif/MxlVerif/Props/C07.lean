import MxlVerif.Model.C07
import MxlVerif.Lemmas.C07MainV
import MxlVerif.Lemmas.C07Witness
import MxlVerif.Lemmas.C07Expr
import MxlVerif.Lemmas.C07Free
namespace Mxl.C07

/-! ### facts about the language templates as they stand in the repository (re-checked every run) -/

theorem C07_templates_mention_key : ∀ L, L ≠ .jl → (templateOf L).assignsKey = true := by
  intro L h; cases L <;> first | (exact absurd rfl h) | decide

/-- every template except Julia's assigns to the name it is given -/
theorem C07_templates_assign_key (L : Lang) (h : L ≠ .jl) (k : Name) : (templateOf L).target k = k :=
  target_id h k

/-- every assignment template writes the value (`{v}` occurs) -/
theorem C07_templates_mention_value : ∀ L, (templateOf L).assignsVal = true := by
  intro L; cases L <;> decide

/-- Python / TypeScript / Rust destructure the state vector for every length (also length 1) and return an
    array literal -/
theorem C07_templates_unpack : ∀ L, L ≠ .jl → (templateOf L).unpack L = .bracket ∧ (templateOf L).retBracket = true :=
  fun _ h => tmpl_facts h

/-- only Rust fixes the returned length in the function header -/
theorem C07_templates_sized : ∀ L, (templateOf L).sizedRet = (L == .rs) := by
  intro L; cases L <;> decide

/-- F-C07-4 (on the generated table): Julia's assignment template binds the literal name `k` whatever the
    key, and its unpack line is not Julia -/
theorem C07_julia_assigns_literal_k : ∀ k, (templateOf .jl).target k = "k" := by
  intro k
  have h1 : (templateOf .jl).assignsKey = false := by decide
  have h2 : (templateOf .jl).literalTarget = "k" := by decide
  simp [Template.target, h1, h2]

theorem C07_julia_unpack_invalid : (templateOf .jl).unpack .jl = .invalid := by decide

/-! ### the generated program equals the model -/

/-- **Equivalence (partial).**  For Python, TypeScript and Rust: running the generated straight-line program
    at any time and state returns exactly what `Model.__call__` returns — including when the model's cache
    cannot be built (same error) — for every content satisfying the decidable hypothesis `okC`:
    no surrogates / data, at least one differential equation (excludes F-C07-3 as it is now: `return ()`) and
    stoichiometries mention variables only, names are distinct (what `Model` enforces) and not of the form
    `d<x>dt`.  A variable that no reaction changes is inside the hypothesis since `fix: a variable that no
    reaction changes gets the derivative zero in generated model code` (the conjunct "every variable has an
    equation" is gone): the program assigns `d<x>dt = 0` for it and returns one entry per variable.  Variables and
    parameters may be defined by initial assignments (parameters since `fix: generated model code assigns
    parameters that are defined by an initial assignment`; the hypothesis "parameters are plain" is gone).
    One further restriction is a limit of this proof, not a finding class, and is covered by the correspondence
    harness only: stoichiometric coefficients are numbers. -/
theorem C07_equiv_partial (c : Content) (L : Lang) (t : Rat) (xs : List Rat)
    (hL : L ≠ .jl) (hok : okC c = true) (hxs : xs.length = c.vars.length) :
    genRun [] c L [] t xs [] = callRhs c t xs :=
  equiv_mainV c L t xs hL (OkV.of_okC hok) hxs

/-- **Free parameters.**  Requested free parameters become extra inputs: calling the generated function with
    values `ps` for them returns what the model returns after those parameters are set to `ps`
    (`update_parameters`), for every content in `okC` whose parameters are all plain and every list of distinct
    parameters. -/
theorem C07_equiv_free_partial (c : Content) (L : Lang) (free : List Name) (t : Rat) (xs ps : List Rat)
    (hL : L ≠ .jl) (hok : okC c = true) (hia : noIA c.pars = true) (hf : freeOkB c free ps = true)
    (hxs : xs.length = c.vars.length) :
    genRun [] c L free t xs ps = callRhs (setPars c free ps) t xs :=
  equiv_free c L free t xs ps hL (OkV.of_okC hok) hia (FreeOk.of_B hf) hxs

/-- … and when some parameter is defined by an initial assignment, free parameters are refused: the constants
    written for such parameters are only valid for the model's own parameter values -/
theorem C07_free_with_ia_parameter_refused (c : Content) (L : Lang) (free : List Name) (cache : Cache)
    (hcc : createCache c = .ok cache) (hfree : free ≠ []) (hia : noIA c.pars = false) :
    genModel [] c L free = .error (.other "NotImplementedError") :=
  genModel_free_refused c L free hcc hfree hia

/-- … in particular whenever a parameter `q` defined by an initial assignment depends on a requested free parameter —
    directly, or through any chain of derived values and other initial assignments, or not at all: the refusal does
    not look at what `q` reads (a guard that only looks at the direct arguments of `q` would emit a function that
    ignores the free parameter's value inside `q`; seeded change C07-r4-1). -/
theorem C07_free_refused_for_any_ia_parameter (c : Content) (L : Lang) (free : List Name) (cache : Cache)
    (hcc : createCache c = .ok cache) (hfree : free ≠ []) (q : Name) (f : Fn) (hq : (q, Val.ia f) ∈ c.pars) :
    genModel [] c L free = .error (.other "NotImplementedError") := by
  apply genModel_free_refused c L free hcc hfree
  cases hn : noIA c.pars with
  | false => rfl
  | true =>
    simp only [noIA, List.all_eq_true] at hn
    have := hn _ hq
    simp at this

/-- **Free parameters are inputs, not constants** (`for key in free_parameters: parameters.pop(key)`, every
    parameter table with distinct names, every list of free parameters): after the loop no requested name is left
    among the parameters that are written as constants, every other parameter is still there with its value, and
    nothing is added; together with `C07_return_order` (`p.extra = free`): the requested names are the extra inputs,
    in the requested order, after `time` and the state vector (`runSLP`). -/
theorem C07_free_parameters_popped (free : List Name) (m m' : List (Name × Rat)) (h : popAll m free = .ok m') :
    (∀ k ∈ free, k ∉ omKeys m') ∧ (∀ kv ∈ m', kv ∈ m) ∧ (∀ kv ∈ m, kv.1 ∉ free → kv ∈ m') :=
  popAll_spec free m m' h

/-- a requested free parameter that is not a (plain or initial-assignment) parameter of the model: KeyError, no code -/
theorem C07_free_parameter_unknown (free : List Name) (m : List (Name × Rat)) (h : ∃ k ∈ free, k ∉ omKeys m) :
    ∃ k, popAll m free = .error (.keyError k) :=
  popAll_missing free m h

example : freeOkB wOk ["k"] [5] = true
    ∧ resEq (genRun [] wOk .ts ["k"] 1 [3, 5] [5]) (callRhs (setPars wOk ["k"] [5]) 1 [3, 5]) = true
    ∧ resEq (genRun [] wOk .ts ["k"] 1 [3, 5] [5]) (callRhs wOk 1 [3, 5]) = false := by decide +kernel

/-- the hypothesis is satisfiable by a non-trivial model: static derived parameter, derived values declared
    out of order, a derived value reading a reaction rate -/
example : okC wOk = true := by decide +kernel

example : resEq (genRun [] wOk .rs [] 1 [3, 5] []) (callRhs wOk 1 [3, 5]) = true := by decide +kernel

/-- … and by one whose second variable is defined by an initial assignment -/
example : okC wOkIA = true ∧ resEq (genRun [] wOkIA .py [] 1 [3, 5] []) (callRhs wOkIA 1 [3, 5]) = true := by
  decide +kernel

/-- **Variable order = return order, every model, every language, with or without free parameters.**  Whenever
    generation succeeds, the emitted function takes the requested free parameters as its extra inputs in the
    requested order, destructures the state into the model's variables in `get_initial_conditions()` order, and
    returns `d<x>dt` for exactly those names in exactly that order — or `()` when no reaction changes any
    variable (F-C07-3).  No hypothesis on the model. -/
theorem C07_return_order (bad : List Name) (c : Content) (L : Lang) (free : List Name) (p : SLP)
    (h : genModel bad c L free = .ok p) :
    p.lang = L ∧ p.extra = free ∧ p.ret = retNames p.inputs (diffEqs c.rxns)
      ∧ p.retUnit = (diffEqs c.rxns).isEmpty
      ∧ ∃ cache, createCache c = .ok cache ∧ p.inputs = omKeys cache.init :=
  genModel_shape bad c L free p h

/-- **Every returned name is assigned, every model** (Python / TypeScript / Rust; after `fix: a variable that no
    reaction changes gets the derivative zero in generated model code`): the return line never mentions a
    `d<x>dt` that no line of the function defines. -/
theorem C07_returned_names_assigned (bad : List Name) (c : Content) (L : Lang) (free : List Name) (p : SLP)
    (hL : L ≠ .jl) (h : genModel bad c L free = .ok p) :
    ∀ n ∈ p.ret, n ∈ p.assigns.map (·.1) :=
  genModel_ret_assigned bad c L free p hL h

example : (match genModel [] wNoEq .rs [] with
    | .ok p => p.ret == ["dxdt", "dzdt"] && p.inputs == ["x", "z"] && p.assigns.map (·.1) == ["k", "r", "dxdt", "dzdt"]
    | .error _ => false) = true := by decide +kernel

/-- **The full statement is false of the unchanged code.**  F-C07-3: when no reaction changes any variable the
    generated function returns `()` / `[()]` instead of one zero per variable (Python: a list holding an empty
    tuple; TypeScript: not an expression; Rust: the return type does not match). -/
theorem C07_equiv_full_false :
    ¬ (∀ (c : Content) (L : Lang) (t : Rat) (xs : List Rat), L ≠ .jl → xs.length = c.vars.length →
        genRun [] c L [] t xs [] = callRhs c t xs) := by
  intro h
  have h1 := h wNoEqAtAll .py 0 [3, 1] (by decide) rfl
  have h2 : resEq (genRun [] wNoEqAtAll .py [] 0 [3, 1] []) (callRhs wNoEqAtAll 0 [3, 1]) = true := by
    rw [h1]; cases callRhs wNoEqAtAll 0 [3, 1] <;> simp [resEq]
  revert h2
  decide +kernel

theorem C07_missing_equation_witness :
    resEq (callRhs wNoEqAtAll 0 [3, 1]) (.ok [0, 0]) = true
    ∧ isErrOther "ReturnNotNumeric" (genRun [] wNoEqAtAll .py [] 0 [3, 1] []) = true
    ∧ isErrOther "SyntaxError" (genRun [] wNoEqAtAll .ts [] 0 [3, 1] []) = true
    ∧ isErrOther "ReturnTypeMismatch" (genRun [] wNoEqAtAll .rs [] 0 [3, 1] []) = true
    ∧ okC wNoEqAtAll = false := by decide +kernel

/-- former F-C07-3 witness (repaired by `fix: a variable that no reaction changes gets the derivative zero in
    generated model code`): `z` occurs in no reaction while `x` does; the generated function assigns `dzdt = 0`
    and returns one entry per variable, in the order of the variables, in Python, TypeScript and Rust.  The witness
    is now inside `okC`, so `C07_equiv_partial` applies to it. -/
theorem C07_constant_variable_witness :
    resEq (callRhs wNoEq 0 [3, 1]) (.ok [-6, 0]) = true
    ∧ resEq (genRun [] wNoEq .py [] 0 [3, 1] []) (.ok [-6, 0]) = true
    ∧ resEq (genRun [] wNoEq .ts [] 0 [3, 1] []) (.ok [-6, 0]) = true
    ∧ resEq (genRun [] wNoEq .rs [] 0 [3, 1] []) (.ok [-6, 0]) = true
    ∧ okC wNoEq = true := by decide +kernel

example : genRun [] wNoEq .rs [] 0 [3, 1] [] = callRhs wNoEq 0 [3, 1] :=
  C07_equiv_partial wNoEq .rs 0 [3, 1] (by decide) (by decide +kernel) rfl

/-- former F-C07-5 witness (repaired): a parameter defined by an initial assignment is written as a constant
    with the value the model resolved for it; the witness is now inside the hypothesis and the outputs agree.
    Second model: the parameter reads a variable's initial value, a derived parameter and a variable's initial
    assignment read the parameter. -/
theorem C07_ia_parameter_witness :
    resEq (callRhs wIAPar 0 [3, 1]) (.ok [-12, 12]) = true
    ∧ resEq (genRun [] wIAPar .py [] 0 [3, 1] []) (.ok [-12, 12]) = true
    ∧ okC wIAPar = true ∧ okC wIAPar2 = true
    ∧ resEq (genRun [] wIAPar2 .rs [] 1 [3, 5] []) (callRhs wIAPar2 1 [3, 5]) = true
    ∧ isErrOther "NotImplementedError" (genRun [] wIAPar .py ["k"] 0 [3, 1] [5]) = true := by decide +kernel

example : genRun [] wIAPar2 .ts [] 1 [3, 5] [] = callRhs wIAPar2 1 [3, 5] :=
  C07_equiv_partial wIAPar2 .ts 1 [3, 5] (by decide) (by decide +kernel) rfl

/-- F-C07-4: every Julia text with a variable is rejected before it runs -/
theorem C07_julia_witness : isErrOther "SyntaxError" (genRun [] wOk .jl [] 1 [3, 5] []) = true := by
  decide +kernel

/-- **Untranslatable functions.**  If the function of a derived quantity or reaction that the model
    evaluates cannot be translated, generation raises `ValueError` and emits nothing, in every language. -/
theorem C07_raises_on_untranslatable (bad : List Name) (c : Content) (L : Lang) (cache : Cache)
    (hcc : createCache c = .ok cache) (n : Name) (hn : n ∈ cache.order) (hb : bad.contains n = true)
    (hdef : (c.derived.lookup n).isSome = true ∨ (c.rxns.lookup n).isSome = true) :
    ∃ m, genModel bad c L [] = .error (.valueError m) :=
  genModel_raises bad c L hcc hn hb hdef

example : isValueError (genModel ["d1"] wOk .ts []) = true := by decide +kernel

/-! ### the expression layer: text written by precedence is read back with the same value -/

open Mxl.C07Expr in
/-- **Printed text has the expression's value — every expression, every environment** (numbers, names, unary minus,
    `+ - * /`, and Python's `%` written by the repository's `_print_Mod` / `_mod_operands`: `(a % b)` with every operand
    that is not a single name or number in parentheses of its own): the tokens a printer writes that parenthesises an operand iff it binds less tightly than its position
    requires (the policy of sympy's code printers; right operands strictly) are read by a left-associative
    recursive-descent reader (sums of products of signed atoms; unary minus binds tighter than `*` `/`) as exactly the
    value of the expression — also when there is none (unknown name, division by zero). -/
theorem C07_expr_text_value (env : C07Expr.Env) (e : C07Expr.E) : evalToks env e.print = e.eval env :=
  evalToks_print_eq env e

open Mxl.C07Expr in
/-- **Printed text is unambiguous**: the reader that builds the tree returns exactly the printed expression -/
theorem C07_expr_text_unambiguous (e : C07Expr.E) : parseToks e.print = some e :=
  parseToks_print e

open Mxl.C07Expr in
/-- the value reader is the tree reader followed by evaluation, on *every* token stream (also ill-formed ones and ones
    with redundant parentheses, as the Rust printer writes them) -/
theorem C07_expr_reader_is_parser (env : C07Expr.Env) (ts : List C07Expr.Tok) :
    evalToks env ts = (parseToks ts).bind (C07Expr.E.eval env) :=
  evalToks_eq_parse env ts

open Mxl.C07Expr in
/-- the policy on small trees: `(x + y)*z`, `x - (y - z)`, `x/(y*z)`, `-(x + y)`, `-x*y`, `x*-y`, `x - y - z`, and with
    a remainder: `((x + y) % z)`, `y*((x % z))` (sympy adds the outer pair around a factor), `y + (x % z)` -/
example :
    (C07Expr.E.mul (.add (.var "x") (.var "y")) (.var "z")).print = [.lp, .id "x", .plus, .id "y", .rp, .star, .id "z"]
    ∧ (C07Expr.E.sub (.var "x") (.sub (.var "y") (.var "z"))).print = [.id "x", .minus, .lp, .id "y", .minus, .id "z", .rp]
    ∧ (C07Expr.E.div (.var "x") (.mul (.var "y") (.var "z"))).print = [.id "x", .slash, .lp, .id "y", .star, .id "z", .rp]
    ∧ (C07Expr.E.neg (.add (.var "x") (.var "y"))).print = [.minus, .lp, .id "x", .plus, .id "y", .rp]
    ∧ (C07Expr.E.mul (.neg (.var "x")) (.var "y")).print = [.minus, .id "x", .star, .id "y"]
    ∧ (C07Expr.E.mul (.var "x") (.neg (.var "y"))).print = [.id "x", .star, .minus, .id "y"]
    ∧ (C07Expr.E.sub (.sub (.var "x") (.var "y")) (.var "z")).print = [.id "x", .minus, .id "y", .minus, .id "z"]
    ∧ (C07Expr.E.mod (.add (.var "x") (.var "y")) (.var "z")).print
        = [.lp, .lp, .id "x", .plus, .id "y", .rp, .pct, .id "z", .rp]
    ∧ (C07Expr.E.mul (.var "y") (.mod (.var "x") (.var "z"))).print
        = [.id "y", .star, .lp, .lp, .id "x", .pct, .id "z", .rp, .rp]
    ∧ (C07Expr.E.add (.var "y") (.mod (.var "x") (.var "z"))).print
        = [.id "y", .plus, .lp, .id "x", .pct, .id "z", .rp] := by
  simp [C07Expr.E.print, C07Expr.pp_def, C07Expr.E.prec]

end Mxl.C07
