import MxlVerif.Model.C07
import MxlVerif.Lemmas.C07Sort
namespace Mxl.C07

/-! ### facts about the language templates as they stand in the repository (re-checked every run) -/

theorem C07_templates_mention_key : ∀ L, L ≠ .jl → (templateOf L).assignsKey = true := by
  intro L h; cases L <;> first | (exact absurd rfl h) | decide

/-- every template except Julia's assigns to the name it is given -/
theorem C07_templates_assign_key (L : Lang) (h : L ≠ .jl) (k : Name) : (templateOf L).target k = k := by
  simp [Template.target, C07_templates_mention_key L h]

/-- every assignment template writes the value (`{v}` occurs) -/
theorem C07_templates_mention_value : ∀ L, (templateOf L).assignsVal = true := by
  intro L; cases L <;> decide

/-- Python / TypeScript / Rust destructure the state vector for every length, return an array literal,
    and only Rust fixes the returned length in the header -/
theorem C07_templates_unpack : ∀ L, L ≠ .jl → (templateOf L).unpack L = .bracket ∧ (templateOf L).retBracket = true := by
  intro L h; cases L <;> first | (exact absurd rfl h) | decide

theorem C07_templates_sized : ∀ L, (templateOf L).sizedRet = (L == .rs) := by
  intro L; cases L <;> decide

/-- F-C07-4 (negation witnesses on the generated table): Julia's assignment template binds the literal
    name `k` whatever the key, and its unpack line is not Julia -/
theorem C07_julia_assigns_literal_k : ∀ k, (templateOf .jl).target k = "k" := by
  intro k
  have h1 : (templateOf .jl).assignsKey = false := by decide
  have h2 : (templateOf .jl).literalTarget = "k" := by decide
  simp [Template.target, h1, h2]

theorem C07_julia_unpack_invalid : (templateOf .jl).unpack .jl = .invalid := by decide

end Mxl.C07
