import MxlVerif.Model.C07
namespace Mxl.C07

/-! ### facts about the language templates as they stand in the repository (re-checked every run) -/

theorem C07_templates_mention_key : ∀ L, L ≠ .jl → (templateOf L).assignsKey = true := by
  intro L h; cases L <;> first | (exact absurd rfl h) | decide

/-- every template except Julia's assigns to the name it is given -/
theorem C07_templates_assign_key (L : Lang) (h : L ≠ .jl) (k : Name) : (templateOf L).target k = k := by
  simp [Template.target, C07_templates_mention_key L h]

end Mxl.C07
