import MxlVerif.Model.C11
namespace Mxl.C11

theorem C11_placeholder_hasDup_nil : hasDup [] = false := rfl

end Mxl.C11
