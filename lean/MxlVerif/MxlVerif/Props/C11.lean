import MxlVerif.Lemmas.C11
import MxlVerif.Lemmas.C11Witness
import MxlVerif.Lemmas.C11Keys
import MxlVerif.Lemmas.C11Struct
import MxlVerif.Model.Queries
namespace Mxl.C11
open Mxl.C07 (resEq)

/-- **Round trip (partial).**  If every builder reference of the generated program resolves to the
    definition generated from its own function object and every definition has distinct parameters
    (`refsResolve`, a decidable function of the input that excludes exactly F-C11-1 and repeated arguments), then
    executing the generated source rebuilds *the same model*: same names, kinds, argument lists, plain
    values and the same functions.  `Canonical` is the representation invariant of `List Rat → Rat`
    standing for a Python function of fixed arity. -/
theorem C11_roundtrip_partial (c : NContent) (hc : Canonical c) (h : refsResolve c = true) :
    roundTrip [] c = .ok c.toContent :=
  roundTrip_ok c hc h

/-- **Round trip, hypothesis on the input alone.**  If no `__name__` is shared by two different function objects
    of derived quantities / reactions (`keysInjective`; the names generated for initial assignments and computed
    coefficients need no condition, `_free_name` keeps them apart from every other key), and no component passes
    the same model name twice, the rebuilt model equals the original. -/
theorem C11_roundtrip_input (c : NContent) (hc : Canonical c)
    (hk : keysInjective c = true) (ha : argsNoDup c = true) :
    roundTrip [] c = .ok c.toContent :=
  roundTrip_ok c hc (refsResolve_of_input c hk ha)

/-- **Round trip: the model is rebuilt, or generation fails** (the form of the claim; repeated arguments
    allowed since `fix: refuse to generate a Python function whose parameter list repeats a name`).  If every
    builder reference resolves to the definition generated from its own function object (`refsSrcOk`, excludes
    exactly F-C11-1), executing the generated source rebuilds the same model, or no source is produced because
    generation raised ValueError. -/
theorem C11_roundtrip_or_raises (c : NContent) (hc : Canonical c) (h : refsSrcOk c = true) :
    roundTrip [] c = .ok c.toContent ∨ ∃ m, roundTrip [] c = .error (.valueError m) :=
  roundTrip_or_raises c hc h

/-- **Round trip, every model, no hypothesis on names or arguments** (after `fix: refuse to generate MxlPy source
    for two different functions with the same name`): executing the generated source rebuilds *the same model*, or
    no source is produced because generation raised ValueError (two different functions of derived quantities /
    reactions with one name, or a definition that would repeat a parameter). -/
theorem C11_roundtrip_or_raises_all (c : NContent) (hc : Canonical c) :
    roundTrip [] c = .ok c.toContent ∨ ∃ m, roundTrip [] c = .error (.valueError m) :=
  roundTrip_or_raises_all c hc

/-- … in terms of behaviour: whenever the round trip produces a model at all, it is the original — every model -/
theorem C11_roundtrip_model_is_original (c : NContent) (hc : Canonical c)
    (c' : Content) (h : roundTrip [] c = .ok c') : c' = c.toContent := by
  rcases roundTrip_or_raises_all c hc with h1 | ⟨m, h1⟩
  · rw [h1] at h; cases h; rfl
  · rw [h1] at h; cases h

/-- … with the hypothesis on the input alone: no `__name__` shared by two different derived / reaction function
    objects -/
theorem C11_roundtrip_or_raises_input (c : NContent) (hc : Canonical c) (hk : keysInjective c = true) :
    roundTrip [] c = .ok c.toContent ∨ ∃ m, roundTrip [] c = .error (.valueError m) :=
  roundTrip_or_raises c hc (refsSrcOk_of_input c hk)

/-- … and in terms of behaviour: whenever the round trip produces a model at all, it is the original -/
theorem C11_roundtrip_behaviour_or_raises (c : NContent) (hc : Canonical c) (hk : keysInjective c = true)
    (c' : Content) (h : roundTrip [] c = .ok c') : c' = c.toContent := by
  rcases roundTrip_or_raises c hc (refsSrcOk_of_input c hk) with h1 | ⟨m, h1⟩
  · rw [h1] at h; cases h; rfl
  · rw [h1] at h; cases h

/-- **`_free_name` is fresh**: the name it returns is not in `taken` — for every set and every name; in particular the
    loop of the executable model never runs out of its fuel `taken.length + 1`. -/
theorem C11_free_name_fresh (taken : List String) (name : String) : freeName taken name ∉ taken :=
  freeName_not_mem taken name

/-- **Generated definitions are never confused — every model, no hypothesis.**  Whatever the functions are called,
    a builder reference whose key is not the `__name__` of a derived quantity's / reaction's function (that is: the
    reference of an initial assignment or of a computed stoichiometric coefficient) finds the definition generated
    from its own function object.  (After `fix: a function name generated … is taken from then on`; before it two
    generated names could coincide.) -/
theorem C11_generated_definitions_own (c : NContent) (s : SymRepr) (hs : toSymbolicRepr [] c = .ok s) :
    ∀ call ∈ (genProgram s).build, ∀ r ∈ call.refs, r.key ∉ takenOf s → refOk (genProgram s).defs r = true := by
  rw [toSymbolicRepr_nil] at hs
  cases hs
  exact generated_refs_ok c

/-- **Names, kinds, order and wiring survive — every model, no hypothesis** (also when function names collide):
    the builder chain of the generated program declares the model's variables, parameters, derived quantities and
    reactions with the same names and kinds in the same order, each function with the same model arguments, each
    reaction with the same compounds in its stoichiometry (and the same arguments for computed coefficients). -/
theorem C11_build_structure (c : NContent) (s : SymRepr) (hs : toSymbolicRepr [] c = .ok s) :
    (genProgram s).build.map Call.head = heads c := by
  rw [toSymbolicRepr_nil] at hs
  cases hs
  exact build_heads c

example : keysInjective wShared = true ∧ argsNoDup wShared = true
    ∧ keysInjective wFresh = true ∧ argsNoDup wFresh = true
    ∧ keysInjective wCross = true ∧ argsNoDup wCross = true
    ∧ keysInjective wCollide = false ∧ argsNoDup wDimer = false := by decide +kernel

/-- hence every observable agrees at every state: derivatives … -/
theorem C11_roundtrip_behaviour (c : NContent) (hc : Canonical c) (h : refsResolve c = true)
    (t : Rat) (xs : List Rat) :
    rtCall [] c t xs = callRhs c.toContent t xs := by
  simp [rtCall, roundTrip_ok c hc h, Except.bind]

/-- … initial values, parameter values, derived values and fluxes -/
theorem C11_roundtrip_queries (c : NContent) (hc : Canonical c) (h : refsResolve c = true) :
    ∃ c', roundTrip [] c = .ok c' ∧ getInit c' = getInit c.toContent
      ∧ getParameterValues c' = getParameterValues c.toContent
      ∧ (∀ vars t, getArgs c' vars t = getArgs c.toContent vars t)
      ∧ (∀ vars t, getFluxes c' vars t = getFluxes c.toContent vars t)
      ∧ (∀ vars t, getRhsQ c' vars t = getRhsQ c.toContent vars t) :=
  ⟨_, roundTrip_ok c hc h, rfl, rfl, fun _ _ => rfl, fun _ _ => rfl, fun _ _ => rfl⟩

/-- **"Preserves behaviour" without "or fails" is false.**  Two different functions named `f` (former F-C11-1):
    generation refuses, so there is no rebuilt model whose derivative could equal the original's. -/
theorem C11_roundtrip_full_false :
    ¬ (∀ c : NContent, Canonical c → ∀ t xs, rtCall [] c t xs = callRhs c.toContent t xs) := by
  intro h
  have h1 := h wCollide wCollide_canonical 0 [1]
  have h2 : resEq (rtCall [] wCollide 0 [1]) (callRhs wCollide.toContent 0 [1]) = true := by
    rw [h1]; cases callRhs wCollide.toContent 0 [1] <;> simp [resEq]
  revert h2
  decide +kernel

/-- former F-C11-1 witness, concretely: the original gives dx/dt = -(1*2)*(1+2) = -6; generation now raises
    ValueError (it used to emit one `def f` for both functions: the rebuilt model gave -4 or -9) -/
theorem C11_collision_witness :
    resEq (callRhs wCollide.toContent 0 [1]) (.ok [-6]) = true
    ∧ isValueError (roundTrip [] wCollide) = true
    ∧ refsResolve wCollide = false ∧ keysInjective wCollide = false := by decide +kernel

/-- former F-C11-2 witness (repaired): `mass_action_2s(A, A, k)` would be emitted as
    `def mass_action_2s(A, A, k)`; generation now raises ValueError instead of emitting a module that is not
    Python.  The witness satisfies the hypothesis of `C11_roundtrip_or_raises`, not that of the exact theorem. -/
theorem C11_repeated_argument_witness :
    isValueError (roundTrip [] wDimer) = true ∧ refsSrcOk wDimer = true ∧ keysInjective wDimer = true
    ∧ refsResolve wDimer = false := by decide +kernel

/-- **Sharing is harmless.**  One function object serving three components with different and swapped
    argument lists, plus an initial assignment and a computed coefficient (keys `init_add`,
    `r_stoich_add`): the hypothesis holds … -/
theorem C11_shared_fn_ok : refsResolve wShared = true := by decide +kernel

/-- … so the partial theorem applies to it (non-vacuity of the hypothesis on a non-trivial input) -/
example : roundTrip [] wShared = .ok wShared.toContent :=
  C11_roundtrip_partial wShared wShared_canonical C11_shared_fn_ok

/-- The repaired cross-key class: a derived function named `init_f` next to an initial assignment with `f`
    now gets the keys `init_f` (derived) and `init_f_` (assignment); the hypothesis holds and the model is
    rebuilt exactly. -/
theorem C11_cross_key_ok : refsResolve wCross = true ∧ freeName ["init_f", "g"] "init_f" = "init_f_" := by
  decide +kernel

example : roundTrip [] wCross = .ok wCross.toContent :=
  C11_roundtrip_partial wCross wCross_canonical C11_cross_key_ok.1

/-- The class repaired by `fix: a function name generated … is taken from then on`: initial assignments with `a` and
    `a_` next to a derived function `init_a`, and two different coefficient functions both called `f2` in one
    reaction — every use gets its own definition, the hypothesis holds, the model is rebuilt exactly. -/
theorem C11_fresh_keys_ok : refsResolve wFresh = true
    ∧ defKeys wFresh = ["init_a_", "init_a__", "init_a", "g", "r_stoich_f2", "r_stoich_f2_"] := by
  decide +kernel

example : roundTrip [] wFresh = .ok wFresh.toContent :=
  C11_roundtrip_partial wFresh wFresh_canonical C11_fresh_keys_ok.1

/-- **Untranslatable functions.**  If a function used by any component cannot be translated, generation
    raises `ValueError` (no source is emitted). -/
theorem C11_raises_on_untranslatable (bad : List String) (c : NContent)
    (h : ∃ u ∈ Use.all c, bad.contains (c.pyfn u.fid).name = true) :
    ∃ m, roundTrip bad c = .error (.valueError m) :=
  roundTrip_raises h

end Mxl.C11
