/-
C18 — control coefficients equal analytic sensitivities; the model is left untouched.

About the defs the driver executes (`Model/C18.lean`): `coef` (every entry of every elasticity
table is `coef normalized d old upper lower base`), `parElasticities`, `responseWorker`,
`responseSeq`, `responsePar`.  Arithmetic is exact (`Rat`); float rounding is not modelled.

Runtime hypotheses: `WorkerOK w` — the steady-state worker does not modify the model and its
result carries the model's own parameter values as snapshot (proved for the executed `ssWorker`,
`C18_worker_contract`); unique parameter names (`Model` guarantees it); pool processes work
on value copies (as in C09).
-/
import MxlVerif.Lemmas.C18
namespace Mxl.C18
open Mxl.C09

/-! ### the difference quotient -/

/-- Power-law rate `v = A · x^n` (`A` = rate constant times the other factors): the SCALED
    elasticity the code computes — fluxes at `x(1+d)` and `x(1-d)`, divided by `2·d·x`, times
    `x / v(x)` — is `((1+d)^n − (1−d)^n) / (2d)`, whatever `A` and `x` are. -/
theorem C18_central_diff_monomial (A x d : Rat) (n : Nat) (hA : A ≠ 0) (hx : x ≠ 0) (hd : d ≠ 0) :
    coef true d x (A * (x * (1 + d)) ^ n) (A * (x * (1 - d)) ^ n) (A * x ^ n) = some (scaledCD d n) := by
  have hxn := rat_pow_ne_zero x n hx
  have h1 : (2 * d * x) ≠ 0 := by grind
  have h2 : (A * x ^ n) ≠ 0 := by grind
  simp only [coef, quot, h1, h2, if_false, if_true, Option.map_some, scaledCD]
  rw [rat_mul_pow, rat_mul_pow]
  generalize x ^ n = X at *
  generalize (1 + d) ^ n = P
  generalize (1 - d) ^ n = Q
  congr 1
  grind

/-- … and the UNSCALED one is that number times `v(x) / x` (for `n ≤ 2` exactly `∂v/∂x = n·A·x^(n−1)`). -/
theorem C18_central_diff_monomial_unscaled (A x d : Rat) (n : Nat) (hx : x ≠ 0) (hd : d ≠ 0) (base : Rat) :
    coef false d x (A * (x * (1 + d)) ^ n) (A * (x * (1 - d)) ^ n) base
      = some (scaledCD d n * (A * x ^ n / x)) := by
  have h1 : (2 * d * x) ≠ 0 := by grind
  simp only [coef, quot, h1, if_false, scaledCD, Bool.false_eq_true]
  rw [rat_mul_pow, rat_mul_pow]
  generalize x ^ n = X
  generalize (1 + d) ^ n = P
  generalize (1 - d) ^ n = Q
  congr 1
  grind

/-- kinetic orders 0, 1, 2 are reproduced EXACTLY for every displacement; order 3 carries the bias `d²` -/
theorem C18_scaled_exact_small_orders (d : Rat) (hd : d ≠ 0) :
    scaledCD d 0 = 0 ∧ scaledCD d 1 = 1 ∧ scaledCD d 2 = 2 ∧ scaledCD d 3 = 3 + d ^ 2 := by
  refine ⟨?_, ?_, ?_, ?_⟩ <;> (simp only [scaledCD]; grind)

/-- GENERAL ORDER: the scaled central difference never underestimates the kinetic order and
    exceeds it by at most the factor `Π_{k<n} (1 + k·d²)` — a bias of order `d²` for every fixed `n`
    (`prodUp d 3 = 1 + 3d² + 2d⁴`; the true value for `n = 3` is `3 + d²`).  Holds for every
    displacement `d ≠ 0`, of either sign. -/
theorem C18_scaled_error_bound (d : Rat) (hd : d ≠ 0) (n : Nat) :
    (n : Rat) ≤ scaledCD d n ∧ scaledCD d n ≤ (n : Rat) * prodUp d n := by
  obtain ⟨h1, h2⟩ := cd_upper d hd n
  refine ⟨(cd_lower d hd n).1, Rat.le_trans h1 ?_⟩
  exact Rat.mul_le_mul_of_nonneg_left h2 (by exact_mod_cast Nat.zero_le n)

/-- every entry of a `variable_elasticities` column IS such a quotient of three flux evaluations
    (links `coef` to the executed routine) -/
theorem C18_variable_elasticity_entries (c : Content) (vars : Row) (t : Rat) (normalized : Bool) (d : Rat)
    (var : Name) (col : Column) (h : varElasticityOf c vars t normalized d var = .ok col) :
    ∃ old up lo base, vars.lookup var = some old ∧
      getFluxes c (some (setState vars var (old * (1 + d)))) t = .ok up ∧
      getFluxes c (some (setState vars var (old * (1 - d)))) t = .ok lo ∧
      (normalized = true → getFluxes c (some vars) t = .ok base) ∧
      col = zip3 up lo base (coef normalized d old) := by
  unfold varElasticityOf at h
  obtain ⟨old, hold, h⟩ := bind_ok h
  obtain ⟨up, hup, h⟩ := bind_ok h
  obtain ⟨lo, hlo, h⟩ := bind_ok h
  obtain ⟨base, hbase, h⟩ := bind_ok h
  simp only [pure, Except.pure, Except.ok.injEq] at h
  refine ⟨old, up, lo, base, getKey_ok hold, hup, hlo, ?_, h.symm⟩
  intro hn
  simpa [baseFlux, hn] using hbase

/-- a parameter elasticity is the same quotient with the parameter in the role of `x` -/
theorem C18_parameter_elasticity_linear (B k d : Rat) (hB : B ≠ 0) (hk : k ≠ 0) (hd : d ≠ 0) :
    coef true d k (k * (1 + d) * B) (k * (1 - d) * B) (k * B) = some 1 := by
  have h1 : (2 * d * k) ≠ 0 := by grind
  have h2 : (k * B) ≠ 0 := by grind
  simp only [coef, quot, h1, h2, if_false, if_true, Option.map_some]
  congr 1
  grind

/-- a zero flux or a zero state gives a non-finite entry (inf / nan in floats), never a number -/
theorem C18_no_number_from_zero_division (normalized : Bool) (d up lo base : Rat) :
    coef normalized d 0 up lo base = none ∧ coef true d 1 up lo 0 = none := by
  constructor
  · simp [coef, quot]
  · simp only [coef, quot]
    split <;> simp

/-! ### the model is left as it was found -/

/-- `parameter_elasticities`: parameters after = parameters before (indeed the whole model) -/
theorem C18_params_restored (c c' : Content) (toScan : Option (List Name)) (vars : Option Row) (t : Rat)
    (normalized : Bool) (d : Rat) (tbl : List (Name × Column)) (hnd : (omKeys c.pars).Nodup)
    (h : parElasticities c toScan vars t normalized d = .ok (c', tbl)) : c' = c := by
  unfold parElasticities at h
  obtain ⟨vs, _, h⟩ := bind_ok h
  exact foldCols_restores _ (fun c => (omKeys c.pars).Nodup)
    (fun c p c' col hP hf => parElasticityOf_restores vs t normalized d c c' p col hP hf) _ c c' tbl hnd h

/-- the executed steady-state worker satisfies the contract the next theorems assume -/
theorem C18_worker_contract (cfg : EulerCfg) : WorkerOK (ssWorker cfg) := ssWorker_ok cfg

/-- `_response_coefficient_worker`: parameters AND initial values after = before (full statement,
    after the fix), with or without custom variables, normalised or not, whether the steady-state
    runs succeed or yield NaN placeholders. -/
theorem C18_inits_restored (w : Worker) (hw : WorkerOK w) (y0 : Option Row) (normalized : Bool) (d : Rat)
    (c c' : Content) (par : Name) (col : Column) (hnd : (omKeys c.pars).Nodup)
    (h : responseWorker w y0 normalized d c par = .ok (c', col)) : c' = c :=
  responseWorker_restores w hw y0 normalized d c c' par col hnd h

/-- `response_coefficients(parallel=False)`: the caller's model is untouched after the whole loop -/
theorem C18_response_seq_restores (w : Worker) (hw : WorkerOK w) (y0 : Option Row) (normalized : Bool) (d : Rat)
    (c c' : Content) (toScan : Option (List Name)) (tbl : List (Name × Column)) (hnd : (omKeys c.pars).Nodup)
    (h : responseSeq w y0 normalized d c toScan = .ok (c', tbl)) : c' = c :=
  foldCols_restores _ (fun c => (omKeys c.pars).Nodup)
    (fun c p c' col hP hf => responseWorker_restores w hw y0 normalized d c c' p col hP hf) _ c c' tbl hnd h

/-- sequential = parallel, for every worker count and schedule: same coefficients, same error if a
    parameter fails, same (untouched) model. -/
theorem C18_seq_eq_par (assign : List Nat) (n : Nat) (hn : 0 < n) (w : Worker) (hw : WorkerOK w)
    (y0 : Option Row) (normalized : Bool) (d : Rat) (c : Content) (toScan : Option (List Name))
    (hnd : (omKeys c.pars).Nodup) :
    responseSeq w y0 normalized d c toScan = responsePar assign n w y0 normalized d c toScan := by
  unfold responseSeq responsePar
  rw [schedMap_eq_map assign n hn]
  rw [foldCols_eq_mapM _ c (fun p c' col hf => responseWorker_restores w hw y0 normalized d c c' p col hnd hf)]
  rw [List.mapM_map]
  rfl

/-! ### Monte-Carlo wrappers -/

/-- `mc.variable_elasticities(variables=None)`: every sample is evaluated at ITS OWN initial state — the
    initial conditions of the model after the sample's values were written in — not at the base model's -/
theorem C18_mc_default_state_is_per_sample (c : Content) (sample : Row) (toScan : Option (List Name)) (t : Rat)
    (normalized : Bool) (d : Rat) (tbl : List (Name × Column))
    (h : mcVarSample c sample toScan none t normalized d = .ok tbl) :
    ∃ c1 vs, applyRow c sample = .ok c1 ∧ getInit c1 = .ok vs ∧
      varElasticities c1 toScan (some vs) t normalized d = .ok tbl := by
  unfold mcVarSample at h
  obtain ⟨c1, h1, h⟩ := bind_ok h
  have h' := h
  unfold varElasticities at h
  obtain ⟨vs, hvs, h⟩ := bind_ok h
  refine ⟨c1, vs, h1, by simpa [resolveState] using hvs, ?_⟩
  unfold varElasticities
  simp only [resolveState, bind, Except.bind]
  exact h

/-- `mc.response_coefficients` leaves every sample's copy as it found it (the copy after the sample was
    written in), and — after the repair of F-C18-2, the override being applied to a copy — the CALLER's model
    exactly as it was -/
theorem C18_mc_response_caller (w : Worker) (c c0 : Content) (sample : Row) (toScan : Option (List Name))
    (vars : Option Row) (normalized : Bool) (d : Rat) (tbl : List (Name × Column))
    (h : mcRespSample w c sample toScan vars normalized d = .ok (c0, tbl)) : c0 = c := by
  unfold mcRespSample at h
  obtain ⟨c0', _, h⟩ := bind_ok h
  obtain ⟨c1, _, h⟩ := bind_ok h
  obtain ⟨r, _, h⟩ := bind_ok h
  simp only [pure, Except.pure, Except.ok.injEq, Prod.mk.injEq] at h
  exact h.1.symm

end Mxl.C18
