/-
C18 — control coefficients equal analytic sensitivities; the model is left untouched.

About the defs the driver executes (`Model/C18.lean`): `coef` (every entry of every elasticity
table is `coef normalized d old upper lower base`), `parElasticities`, `responseWorker`,
`responseSeq`, `responsePar`.  Arithmetic is exact (`Rat`); float rounding is not modelled.

Runtime hypotheses: `WorkerOK w` — the steady-state worker does not modify the model and its
result carries the model's own parameter values as snapshot (proved for the executed `ssWorker`,
`C18_worker_contract`); unique parameter names (`Model` guarantees it); pool processes work
on value copies (as in C09).
-/
import MxlVerif.Lemmas.C18
namespace Mxl.C18
open Mxl.C09

/-! ### the difference quotient -/

/-- Power-law rate `v = A · x^n` (`A` = rate constant times the other factors): the SCALED
    elasticity the code computes — fluxes at `x(1+d)` and `x(1-d)`, divided by `2·d·x`, times
    `x / v(x)` — is `((1+d)^n − (1−d)^n) / (2d)`, whatever `A` and `x` are. -/
theorem C18_central_diff_monomial (A x d : Rat) (n : Nat) (hA : A ≠ 0) (hx : x ≠ 0) (hd : d ≠ 0) :
    coef true d x (A * (x * (1 + d)) ^ n) (A * (x * (1 - d)) ^ n) (A * x ^ n) = some (scaledCD d n) := by
  have hxn := rat_pow_ne_zero x n hx
  have h1 : (2 * d * x) ≠ 0 := by grind
  have h2 : (A * x ^ n) ≠ 0 := by grind
  simp only [coef, quot, h1, h2, if_false, if_true, Option.map_some, scaledCD]
  rw [rat_mul_pow, rat_mul_pow]
  generalize x ^ n = X at *
  generalize (1 + d) ^ n = P
  generalize (1 - d) ^ n = Q
  congr 1
  grind

/-- … and the UNSCALED one is that number times `v(x) / x` (for `n ≤ 2` exactly `∂v/∂x = n·A·x^(n−1)`). -/
theorem C18_central_diff_monomial_unscaled (A x d : Rat) (n : Nat) (hx : x ≠ 0) (hd : d ≠ 0) (base : Rat) :
    coef false d x (A * (x * (1 + d)) ^ n) (A * (x * (1 - d)) ^ n) base
      = some (scaledCD d n * (A * x ^ n / x)) := by
  have h1 : (2 * d * x) ≠ 0 := by grind
  simp only [coef, quot, h1, if_false, scaledCD, Bool.false_eq_true]
  rw [rat_mul_pow, rat_mul_pow]
  generalize x ^ n = X
  generalize (1 + d) ^ n = P
  generalize (1 - d) ^ n = Q
  congr 1
  grind

/-- kinetic orders 0, 1, 2 are reproduced EXACTLY by the entry the code computes, for every displacement, rate
    constant and state; order 3 carries the bias `d²` -/
theorem C18_scaled_exact_small_orders (A x d : Rat) (hA : A ≠ 0) (hx : x ≠ 0) (hd : d ≠ 0) :
    coef true d x (A * (x * (1 + d)) ^ 0) (A * (x * (1 - d)) ^ 0) (A * x ^ 0) = some 0 ∧
    coef true d x (A * (x * (1 + d)) ^ 1) (A * (x * (1 - d)) ^ 1) (A * x ^ 1) = some 1 ∧
    coef true d x (A * (x * (1 + d)) ^ 2) (A * (x * (1 - d)) ^ 2) (A * x ^ 2) = some 2 ∧
    coef true d x (A * (x * (1 + d)) ^ 3) (A * (x * (1 - d)) ^ 3) (A * x ^ 3) = some (3 + d ^ 2) := by
  have e0 : scaledCD d 0 = 0 := by simp only [scaledCD]; grind
  have e1 : scaledCD d 1 = 1 := by simp only [scaledCD]; grind
  have e2 : scaledCD d 2 = 2 := by simp only [scaledCD]; grind
  have e3 : scaledCD d 3 = 3 + d ^ 2 := by simp only [scaledCD]; grind
  refine ⟨?_, ?_, ?_, ?_⟩
  · rw [C18_central_diff_monomial A x d 0 hA hx hd, e0]
  · rw [C18_central_diff_monomial A x d 1 hA hx hd, e1]
  · rw [C18_central_diff_monomial A x d 2 hA hx hd, e2]
  · rw [C18_central_diff_monomial A x d 3 hA hx hd, e3]

/-- GENERAL ORDER: the scaled elasticity the code computes for `v = A·xⁿ` never underestimates the kinetic order
    `n` and exceeds it by at most the factor `Π_{k<n} (1 + k·d²)` — a bias of order `d²` for every fixed `n`
    (`prodUp d 3 = 1 + 3d² + 2d⁴`; the true value for `n = 3` is `3 + d²`).  Holds for every displacement
    `d ≠ 0`, of either sign, every rate constant and every state. -/
theorem C18_scaled_error_bound (A x d : Rat) (n : Nat) (hA : A ≠ 0) (hx : x ≠ 0) (hd : d ≠ 0) :
    ∃ s, coef true d x (A * (x * (1 + d)) ^ n) (A * (x * (1 - d)) ^ n) (A * x ^ n) = some s ∧
      (n : Rat) ≤ s ∧ s ≤ (n : Rat) * prodUp d n := by
  refine ⟨scaledCD d n, C18_central_diff_monomial A x d n hA hx hd, ?_⟩
  obtain ⟨h1, h2⟩ := cd_upper d hd n
  refine ⟨(cd_lower d hd n).1, Rat.le_trans h1 ?_⟩
  exact Rat.mul_le_mul_of_nonneg_left h2 (by exact_mod_cast Nat.zero_le n)

/-- every entry of a `variable_elasticities` column IS such a quotient of three flux evaluations
    (links `coef` to the executed routine) -/
theorem C18_variable_elasticity_entries (c : Content) (vars : Row) (t : Rat) (normalized : Bool) (d : Rat)
    (var : Name) (col : Column) (h : varElasticityOf c vars t normalized d var = .ok col) :
    ∃ old up lo base, vars.lookup var = some old ∧
      getFluxes c (some (setState vars var (old * (1 + d)))) t = .ok up ∧
      getFluxes c (some (setState vars var (old * (1 - d)))) t = .ok lo ∧
      (normalized = true → getFluxes c (some vars) t = .ok base) ∧
      col = zip3 up lo base (coef normalized d old) := by
  unfold varElasticityOf at h
  obtain ⟨old, hold, h⟩ := bind_ok h
  obtain ⟨up, hup, h⟩ := bind_ok h
  obtain ⟨lo, hlo, h⟩ := bind_ok h
  obtain ⟨base, hbase, h⟩ := bind_ok h
  simp only [pure, Except.pure, Except.ok.injEq] at h
  refine ⟨old, up, lo, base, getKey_ok hold, hup, hlo, ?_, h.symm⟩
  intro hn
  simpa [baseFlux, hn] using hbase

/-- a parameter elasticity is the same quotient with the parameter in the role of `x` -/
theorem C18_parameter_elasticity_linear (B k d : Rat) (hB : B ≠ 0) (hk : k ≠ 0) (hd : d ≠ 0) :
    coef true d k (k * (1 + d) * B) (k * (1 - d) * B) (k * B) = some 1 := by
  have h1 : (2 * d * k) ≠ 0 := by grind
  have h2 : (k * B) ≠ 0 := by grind
  simp only [coef, quot, h1, h2, if_false, if_true, Option.map_some]
  congr 1
  grind

/-- a zero flux or a zero state gives a non-finite entry (inf / nan in floats), never a number -/
theorem C18_no_number_from_zero_division (normalized : Bool) (d up lo base : Rat) :
    coef normalized d 0 up lo base = none ∧ coef true d 1 up lo 0 = none := by
  constructor
  · simp [coef, quot]
  · simp only [coef, quot]
    split <;> simp

/-- … and EXACTLY then: an entry has no finite value iff the displacement times the scanned value is 0, or the
    coefficient is scaled and the unperturbed flux is 0 (what pandas reports there is `inf` / `nan`, never an exception) -/
theorem C18_entry_undefined_iff (normalized : Bool) (d old up lo base : Rat) :
    coef normalized d old up lo base = none ↔ (2 * d * old = 0 ∨ (normalized = true ∧ base = 0)) := by
  simp only [coef, quot]
  by_cases h1 : 2 * d * old = 0
  · simp [h1]
  · cases normalized with
    | false => simp [h1]
    | true =>
      by_cases h2 : base = 0
      · simp [h1, h2]
      · simp [h1, h2]

/-! ### response coefficients are the same quotient -/

/-- every entry of a response-coefficient column is the SAME quotient `coef` the elasticities use: of the last rows of
    the upper / lower steady state, scaled with the last row of the unperturbed steady state when normalised -/
theorem C18_response_entries (d old : Rat) (u l nv : List (Name × Rat)) :
    diffCol d old (some u) (some l)
      = u.map (fun kv => (kv.1, (l.lookup kv.1).bind fun lv => coef false d old kv.2 lv 0)) ∧
    normCol old (diffCol d old (some u) (some l)) (some nv)
      = u.map (fun kv => (kv.1, (l.lookup kv.1).bind fun lv => (nv.lookup kv.1).bind fun n => coef true d old kv.2 lv n)) := by
  constructor
  · simp only [diffCol]
    apply List.map_congr_left
    intro kv _
    cases l.lookup kv.1 with
    | none => rfl
    | some lv => simp [coef_false_eq]
  · simp only [diffCol, normCol, List.map_map]
    apply List.map_congr_left
    intro kv _
    simp only [Function.comp]
    cases l.lookup kv.1 with
    | none => simp
    | some lv =>
      simp only [Option.bind]
      cases hn : nv.lookup kv.1 with
      | none => cases quot (kv.2 - lv) (2 * d * old) <;> simp
      | some n =>
        simp only [coef]
        cases quot (kv.2 - lv) (2 * d * old) <;> simp

/-- a steady-state quantity that is INVERSELY proportional to the parameter (`x* = A / k`, e.g. the pool size of a
    linear chain in its efflux constant): the normalised response coefficient the code computes is `-1 / (1 - d²)` -/
theorem C18_response_inverse_order (A k d : Rat) (hA : A ≠ 0) (hk : k ≠ 0) (hd : d ≠ 0) (h1 : 1 + d ≠ 0) (h2 : 1 - d ≠ 0) :
    coef true d k (A / (k * (1 + d))) (A / (k * (1 - d))) (A / k) = some (-1 / (1 - d ^ 2)) := by
  have e1 : (2 * d * k) ≠ 0 := by grind
  have e2 : (A / k) ≠ 0 := by
    intro h
    have : A = 0 := by
      have := congrArg (· * k) h
      simp at this
      grind
    exact hA this
  simp only [coef, quot, e1, e2, if_false, if_true, Option.map_some]
  congr 1
  have hk1 : k * (1 + d) ≠ 0 := by grind
  have hk2 : k * (1 - d) ≠ 0 := by grind
  have hd2 : (1 - d ^ 2) ≠ 0 := by
    have : 1 - d ^ 2 = (1 + d) * (1 - d) := by grind
    rw [this]; grind
  grind

/-- the same closed form read as an ELASTICITY: a rate inversely proportional to a variable or parameter (`v = A / x`, an
    inhibition term of order −1) has the scaled elasticity `−1/(1−d²)` — order −1 up to the `d²` bias; negative and
    fractional orders beyond this one are outside the modelled (polynomial) fragment -/
theorem C18_elasticity_inverse_order (A x d : Rat) (hA : A ≠ 0) (hx : x ≠ 0) (hd : d ≠ 0) (h1 : 1 + d ≠ 0) (h2 : 1 - d ≠ 0) :
    coef true d x (A / (x * (1 + d))) (A / (x * (1 - d))) (A / x) = some (-1 / (1 - d ^ 2)) :=
  C18_response_inverse_order A x d hA hx hd h1 h2

/-! ### the formulas and the structure of the CURRENT source (`translate/c18.py` → `Generated/C18Expr.lean`) -/

open Mxl.Generated.C18 in
/-- every table entry the model computes IS the source's expression: `coef` is the regenerated difference quotient
    `(upper - lower) / (2 * displacement * old)`, times the regenerated factor `old / base` when normalised (and `none`
    exactly where the float division has no finite value); the three routines use the same quotient and factor -/
theorem C18_source_formulas (normalized : Bool) (d old up lo base : Rat) :
    coef normalized d old up lo base =
      (if 2 * d * old = 0 then none
       else if normalized then (if base = 0 then none else some (varQuot up lo d old * varScale old base))
       else some (varQuot up lo d old)) ∧
    parQuot up lo d old = varQuot up lo d old ∧ respQuot up lo d old = varQuot up lo d old ∧
    respFluxQuot up lo d old = varQuot up lo d old ∧ parScale old base = varScale old base ∧
    respScale old base = varScale old base ∧ respFluxScale old base = varScale old base := by
  refine ⟨?_, rfl, rfl, rfl, rfl, rfl, rfl⟩
  simp only [coef, quot, varQuot, varScale]
  by_cases h1 : 2 * d * old = 0
  · simp [h1]
  · simp only [h1, if_false]
    cases normalized with
    | false => simp
    | true =>
      by_cases h2 : base = 0
      · simp [h2]
      · simp [h2]

open Mxl.Generated.C18 in
/-- the perturbed values of the source are the ones the model evaluates at: `old·(1+d)` and `old·(1−d)` in all three
    routines (`varElasticityOf`, `parTry`, `respTry` are written with exactly these terms) -/
theorem C18_source_perturbations (old d : Rat) :
    varUp old d = old * (1 + d) ∧ varLo old d = old * (1 - d) ∧ parUp old d = old * (1 + d) ∧
    parLo old d = old * (1 - d) ∧ respUp old d = old * (1 + d) ∧ respLo old d = old * (1 - d) := by
  refine ⟨?_, ?_, ?_, ?_, ?_, ?_⟩ <;> simp only [varUp, varLo, parUp, parLo, respUp, respLo]

open Mxl.Generated.C18 in
/-- structure of the source: both model-writing routines reset in a `finally:` (the models above branch on these
    flags, the frame theorems need them to be `true`), and `parameter_elasticities` resolves `variables` once, before
    the first perturbation, handing it to every flux evaluation; `Model.update_variables` / `update_parameters` check every
    name before the first write (the `wr` steps: a failing update leaves the model as it was) -/
theorem C18_source_structure :
    parFinallyResets = true ∧ respFinallyRestores = true ∧ parStateResolvedOnce = true ∧
    updatesCheckNamesFirst = true := by decide

/-! ### the model is left as it was found -/

/-- `parameter_elasticities`, ALL PATHS: whatever happens — a table is returned, an unknown parameter, a flux
    evaluation that raises half-way through the perturbations — the model afterwards is the model before
    (parameters, initial values, everything).  After the `try ... finally` repair. -/
theorem C18_params_restored_always (c : Content) (toScan : Option (List Name)) (vars : Option Row) (t : Rat)
    (normalized : Bool) (d : Rat) (hnd : (omKeys c.pars).Nodup) :
    (parElasticitiesT c toScan vars t normalized d).1 = c := by
  unfold parElasticitiesT rd
  cases hr : resolveState c vars with
  | error e => rfl
  | ok vs =>
    simp only [Run.bind]
    exact foldColsT_frame _ (fun c => (omKeys c.pars).Nodup)
      (fun c p hP => parElasticityOfT_frame vs t normalized d c p hP) _ c hnd

/-- `parameter_elasticities`: parameters after = parameters before (the returning path, as a corollary) -/
theorem C18_params_restored (c c' : Content) (toScan : Option (List Name)) (vars : Option Row) (t : Rat)
    (normalized : Bool) (d : Rat) (tbl : List (Name × Column)) (hnd : (omKeys c.pars).Nodup)
    (h : parElasticities c toScan vars t normalized d = .ok (c', tbl)) : c' = c := by
  unfold parElasticities at h
  rw [← toExcept_ok h]
  exact C18_params_restored_always c toScan vars t normalized d hnd

/-! why the `finally` is needed (a witness, evaluated by the kernel) -/

def wContent : Content :=
  { vars := [("x", .plain 1)], pars := [("k", .plain 2)],
    rxns := [("v", { rate := { args := ["k", "x"], fn := fun xs => xs.getD 0 0 * xs.getD 1 0 }, stoich := [("x", .num (-1))] })] }

def plainPar (c : Content) (k : Name) : Option Rat :=
  match c.pars.lookup k with
  | some (.plain v) => some v
  | _ => none

def raised {α : Type} (r : Run α) : Bool := match r.2 with | .error _ => true | .ok _ => false

/-- custom variables `{}` for a rate that reads `x`: the flux evaluation after the upward perturbation raises.
    The `try` block alone (the code before the repair) leaves `k = 2·(1 + 1/2) = 3` behind; the routine with
    its `finally` raises too and leaves `k = 2`. -/
theorem C18_finally_needed :
    raised (parTry [] 0 (1/2) 2 wContent "k") = true ∧ plainPar (parTry [] 0 (1/2) 2 wContent "k").1 "k" = some 3 ∧
    raised (parElasticityOfT [] 0 true (1/2) wContent "k") = true ∧
    plainPar (parElasticityOfT [] 0 true (1/2) wContent "k").1 "k" = some 2 := by
  refine ⟨?_, ?_, ?_, ?_⟩ <;> decide +kernel

/-- the executed steady-state worker satisfies the contract the next theorems assume -/
theorem C18_worker_contract (cfg : EulerCfg) : WorkerOK (ssWorker cfg) := ssWorker_ok cfg

/-- `_response_coefficient_worker`, ALL PATHS: parameters AND initial values after = before — with or without custom
    variables, normalised or not, whether the steady-state runs succeed, yield NaN placeholders or RAISE, whether a
    view or an update raises.  After the `try ... finally` repair. -/
theorem C18_inits_restored_always (w : Worker) (hw : WorkerOK w) (y0 : Option Row) (normalized : Bool) (d : Rat)
    (c : Content) (par : Name) (hnd : (omKeys c.pars).Nodup) :
    (responseWorkerT w y0 normalized d c par).1 = c :=
  responseWorkerT_frame w hw y0 normalized d c par hnd

/-- … the returning path as a corollary -/
theorem C18_inits_restored (w : Worker) (hw : WorkerOK w) (y0 : Option Row) (normalized : Bool) (d : Rat)
    (c c' : Content) (par : Name) (col : Column) (hnd : (omKeys c.pars).Nodup)
    (h : responseWorker w y0 normalized d c par = .ok (c', col)) : c' = c :=
  responseWorker_restores w hw y0 normalized d c c' par col hnd h

/-- `response_coefficients(parallel=False)`, ALL PATHS: the caller's model is untouched after the whole loop, also
    when it ends with an exception at some parameter -/
theorem C18_response_seq_restores_always (w : Worker) (hw : WorkerOK w) (y0 : Option Row) (normalized : Bool) (d : Rat)
    (c : Content) (toScan : Option (List Name)) (hnd : (omKeys c.pars).Nodup) :
    (responseSeqT w y0 normalized d c toScan).1 = c :=
  foldColsT_frame _ (fun c => (omKeys c.pars).Nodup)
    (fun c p hP => responseWorkerT_frame w hw y0 normalized d c p hP) _ c hnd

theorem C18_response_seq_restores (w : Worker) (hw : WorkerOK w) (y0 : Option Row) (normalized : Bool) (d : Rat)
    (c c' : Content) (toScan : Option (List Name)) (tbl : List (Name × Column)) (hnd : (omKeys c.pars).Nodup)
    (h : responseSeq w y0 normalized d c toScan = .ok (c', tbl)) : c' = c := by
  unfold responseSeq at h
  rw [← toExcept_ok h]
  exact C18_response_seq_restores_always w hw y0 normalized d c toScan hnd

/-- sequential = parallel, for every worker count and schedule: same coefficients, same error if a
    parameter fails, same (untouched) model. -/
theorem C18_seq_eq_par (assign : List Nat) (n : Nat) (hn : 0 < n) (w : Worker) (hw : WorkerOK w)
    (y0 : Option Row) (normalized : Bool) (d : Rat) (c : Content) (toScan : Option (List Name))
    (hnd : (omKeys c.pars).Nodup) :
    responseSeq w y0 normalized d c toScan = responsePar assign n w y0 normalized d c toScan := by
  unfold responseSeq responseSeqT responsePar
  rw [foldColsT_toExcept]
  rw [schedMap_eq_map assign n hn]
  show foldCols (responseWorker w y0 normalized d) c _ = _
  rw [foldCols_eq_mapM _ c (fun p c' col hf => responseWorker_restores w hw y0 normalized d c c' p col hnd hf)]
  rw [List.mapM_map]
  rfl

/-! ### Monte-Carlo wrappers -/

/-- `mc.variable_elasticities(variables=None)`: every sample is evaluated at ITS OWN initial state — the
    initial conditions of the model after the sample's values were written in — not at the base model's -/
theorem C18_mc_default_state_is_per_sample (c : Content) (sample : Row) (toScan : Option (List Name)) (t : Rat)
    (normalized : Bool) (d : Rat) (tbl : List (Name × Column))
    (h : mcVarSample c sample toScan none t normalized d = .ok tbl) :
    ∃ c1 vs, applyRow c sample = .ok c1 ∧ getInit c1 = .ok vs ∧
      varElasticities c1 toScan (some vs) t normalized d = .ok tbl := by
  unfold mcVarSample at h
  obtain ⟨c1, h1, h⟩ := bind_ok h
  have h' := h
  unfold varElasticities at h
  obtain ⟨vs, hvs, h⟩ := bind_ok h
  refine ⟨c1, vs, h1, by simpa [resolveState] using hvs, ?_⟩
  unfold varElasticities
  simp only [resolveState, bind, Except.bind]
  exact h

/-- `mc.response_coefficients` leaves every sample's copy as it found it (the copy after the sample was
    written in), and — after the repair of F-C18-2, the override being applied to a copy — the CALLER's model
    exactly as it was -/
theorem C18_mc_response_caller (w : Worker) (c c0 : Content) (sample : Row) (toScan : Option (List Name))
    (vars : Option Row) (normalized : Bool) (d : Rat) (tbl : List (Name × Column))
    (h : mcRespSample w c sample toScan vars normalized d = .ok (c0, tbl)) : c0 = c := by
  unfold mcRespSample at h
  obtain ⟨c0', _, h⟩ := bind_ok h
  obtain ⟨c1, _, h⟩ := bind_ok h
  obtain ⟨r, _, h⟩ := bind_ok h
  simp only [pure, Except.pure, Except.ok.injEq, Prod.mk.injEq] at h
  exact h.1.symm

end Mxl.C18
