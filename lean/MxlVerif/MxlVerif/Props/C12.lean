import MxlVerif.Lemmas.C12Closure2
import MxlVerif.Lemmas.C12Deriv
import MxlVerif.Lemmas.C12SimHist
import MxlVerif.Generated.C12Glue
import MxlVerif.Model.C12Witness
namespace Mxl.C12

/-- substitution lemma (positional): evaluating a library body after `fn_to_sympy` has put
    the model expressions `es` in = evaluating the body at the values of `es` -/
theorem C12_subst_args (ρ : Name → Rat) (es : List SExpr) (b : BExpr) :
    evalS ρ (substArgs es b) = evalB (es.map (evalS ρ)) b :=
  evalS_substArgs ρ es b

/-- substitution lemma (symbols): `evalS (subst σ e) env = evalS e (env ∘ σ)` -/
theorem C12_subst_syms (ρ : Name → Rat) (σ : Name → SExpr) (e : SExpr) :
    evalS ρ (substSym σ e) = evalS (fun n => evalS ρ (σ n)) e :=
  evalS_substSym ρ σ e

/-- **symbolic equations = numeric derivatives.**  For every well-formed surrogate-free
    model whose functions translate (`SContent`), every time and every state: if
    `to_symbolic_model` succeeds with equations `es` and `Model.__call__` returns `ds`, then
    evaluating `es` — each variable symbol at its state value, each parameter symbol at its
    value — gives exactly `ds`, in `var_names` order.  (Declaration order, initial
    assignments, parameter-only derived quantities baked into the cache, numeric /
    computed / state-dependent coefficients are all covered: `callRhs` is the shared numeric
    core.) -/
theorem C12_eqs_sound (sc : SContent) (hwf : sc.wf = true) (t : Rat) (xs : List Rat)
    (es : List SExpr) (ds : List Rat)
    (hs : toSymbolic sc = .ok es) (hn : callRhs sc.toContent t xs = .ok ds) :
    ∃ cache, createCache sc.toContent = .ok cache ∧ es.map (evalS (symEnv sc cache xs)) = ds :=
  eqs_sound sc hwf t xs es ds hs hn

/-- **formal derivative, second-order expansion.**  Along any symbol `x` and for every step
    `h` for which no denominator vanishes at either point,
    `e(x+h) = e(x) + h·(D x e)(x) + h²·remV(h)` where `remV` is an explicit rational function
    of `h` (polynomial when `e` is).  This is the difference-quotient characterisation of the
    derivative: `(e(x+h) − e(x))/h − (D x e)(x) = h·remV(h)`. -/
theorem C12_formal_deriv_correct (ρ : Name → Rat) (x : Name) (h : Rat) (e : SExpr)
    (h0 : DenOK ρ e) (h1 : DenOK (upd ρ x (ρ x + h)) e) :
    evalS (upd ρ x (ρ x + h)) e = evalS ρ e + h * evalS ρ (D x e) + h * h * remV ρ x h e :=
  taylor2 ρ x h e h0 h1

/-- **the symbolic Jacobian is the derivative of the numeric right-hand side.**  `jacobianOf es vn`
    has `D vn[j] es[i]` in row `i`, column `j`.  Displace the `j`-th state value by any `h`: component
    `i` of `Model.__call__` moves from `f` to `f + h·J[i][j] + h²·remV(h)` with the explicit rational
    remainder of `C12_formal_deriv_correct` — for every well-formed model that converts, every time,
    state, coordinate and step at which no denominator vanishes. -/
theorem C12_jacobian_is_derivative_of_rhs (sc : SContent) (hwf : sc.wf = true) (t : Rat)
    (xs : List Rat) (j : Nat) (h : Rat) (es : List SExpr) (ds0 dsh : List Rat) (hj : j < xs.length)
    (hs : toSymbolic sc = .ok es)
    (h0 : callRhs sc.toContent t xs = .ok ds0)
    (hh : callRhs sc.toContent t (xs.set j (xs[j] + h)) = .ok dsh) :
    ∃ cache x, createCache sc.toContent = .ok cache ∧ cache.varNames[j]? = some x ∧
      ∀ (i : Nat) (e : SExpr), es[i]? = some e →
        DenOK (symEnv sc cache xs) e → DenOK (upd (symEnv sc cache xs) x (xs[j] + h)) e →
        ds0[i]? = some (evalS (symEnv sc cache xs) e) ∧
        dsh[i]? = some (evalS (symEnv sc cache xs) e + h * evalS (symEnv sc cache xs) (D x e)
                          + h * h * remV (symEnv sc cache xs) x h e) :=
  jac_of_rhs sc hwf t xs j h es ds0 dsh hj hs h0 hh

/-- **the formal derivative IS the derivative** (Mathlib's `HasDerivAt` over the normed field ℚ, the model's own
    evaluator): for every expression of the rate-law fragment (`+ − × ÷`, unary minus, natural powers), every
    symbol `x` and every environment at which no denominator vanishes, `v ↦ e[x := v]` is differentiable at
    `ρ x` with derivative the value of `D x e`.  (`C12_formal_deriv_correct` above is the explicit second-order
    expansion; this is the limit statement.) -/
theorem C12_formal_deriv_hasDerivAt (ρ : Name → Rat) (x : Name) (e : SExpr) (hd : DenOK ρ e) :
    HasDerivAt (fun v : ℚ => evalS (upd ρ x v) e) (evalS ρ (D x e)) (ρ x) :=
  hasDerivAt_evalS_self ρ x e hd

/-- … at any base value `a` of the symbol, not only the environment's own -/
theorem C12_formal_deriv_hasDerivAt_at (ρ : Name → Rat) (x : Name) (a : Rat) (e : SExpr)
    (hd : DenOK (upd ρ x a) e) :
    HasDerivAt (fun v : ℚ => evalS (upd ρ x v) e) (evalS (upd ρ x a) (D x e)) a :=
  hasDerivAt_evalS ρ x a e hd

/-- **the symbolic Jacobian is the derivative of the numeric right-hand side** (`HasDerivAt`).  For every
    well-formed model that converts, every time, state and coordinate `j`: let `F v` be what `Model.__call__`
    returns when the `j`-th state value is `v` (the others as in `xs`).  Then component `i` of `F` is
    differentiable at `xs[j]` and its derivative is entry `(i, j)` of `jacobianOf es var_names` evaluated at the
    state and the model's parameter values — at every state at which no denominator of equation `i` vanishes. -/
theorem C12_jacobian_hasDerivAt (sc : SContent) (hwf : sc.wf = true) (t : Rat) (xs : List Rat) (j : Nat)
    (es : List SExpr) (hj : j < xs.length) (hs : toSymbolic sc = .ok es)
    (F : Rat → List Rat) (hF : ∀ v, callRhs sc.toContent t (xs.set j v) = .ok (F v)) :
    ∃ cache x, createCache sc.toContent = .ok cache ∧ cache.varNames[j]? = some x ∧
      ∀ (i : Nat) (e : SExpr), es[i]? = some e → DenOK (symEnv sc cache xs) e →
        ((jacobianOf es cache.varNames)[i]?.bind (·[j]?)) = some (D x e) ∧
        HasDerivAt (fun v : ℚ => (F v).getD i 0) (evalS (symEnv sc cache xs) (D x e)) xs[j] := by
  obtain ⟨cache, x, hc, hx, h⟩ := jac_hasDerivAt sc hwf t xs j es hj hs F hF
  refine ⟨cache, x, hc, hx, fun i e hie hd => ⟨?_, h i e hie hd⟩⟩
  simp only [jacobianOf, List.getElem?_map, hie, Option.map_some, Option.bind_some, hx]

/-- **whether `Model.__call__` returns or raises depends on names only**: for a well-formed surrogate-free model, if the
    numeric right-hand side is defined at one state it is defined at every state of the same length (every raising path
    of the shared numeric core is a failed name lookup; rate functions are total in the model, division by zero being
    outside it). -/
theorem C12_rhs_defined_by_names (sc : SContent) (hwf : sc.wf = true) (t : Rat) (xs xs' ds : List Rat)
    (hlen : xs'.length = xs.length) (h : callRhs sc.toContent t xs = .ok ds) :
    ∃ ds', callRhs sc.toContent t xs' = .ok ds' :=
  callRhs_total sc.toContent (allFn_of_wf sc hwf) t xs xs' ds hlen h

/-- **the symbolic Jacobian is the derivative of the numeric right-hand side — no assumption about other states.**
    If the model converts and `Model.__call__` returns at `xs`, then for every coordinate `j` and component `i`, the
    function `v ↦ Model.__call__(t, xs[j := v])[i]` (`rhsAlong`: the shared numeric core itself) is differentiable at
    `xs[j]` with derivative entry `(i, j)` of the symbolic Jacobian evaluated at the state and the model's parameter
    values — wherever no denominator of equation `i` vanishes.  (`C12_jacobian_hasDerivAt` had the definedness along the
    coordinate as a hypothesis; `C12_rhs_defined_by_names` discharges it.) -/
theorem C12_jacobian_hasDerivAt_total (sc : SContent) (hwf : sc.wf = true) (t : Rat) (xs ds : List Rat) (j : Nat)
    (es : List SExpr) (hj : j < xs.length) (hs : toSymbolic sc = .ok es) (h0 : callRhs sc.toContent t xs = .ok ds) :
    ∃ cache x, createCache sc.toContent = .ok cache ∧ cache.varNames[j]? = some x ∧
      ∀ (i : Nat) (e : SExpr), es[i]? = some e → DenOK (symEnv sc cache xs) e →
        HasDerivAt (fun v : ℚ => (rhsAlong sc t xs j v).getD i 0) (evalS (symEnv sc cache xs) (D x e)) xs[j] :=
  jac_hasDerivAt_total sc hwf t xs ds j es hj hs h0

/-- **order independence (full statement).**  Take a well-formed model built from functions
    that translate, whose derived quantities and reactions mention only variables, plain
    parameters, data and derived quantities, with numeric coefficients and every variable in
    some reaction (`convertible`: membership tests only).  Declare the same things in ANY other
    order (`SameDecls`: each container permuted).  If the numeric model accepts that order
    (`createCache` succeeds — C02's subject), `to_symbolic_model` converts it.
    (On the pinned tree this was false: `toSymbolicDeclOrder` below, F-C12-2.) -/
theorem C12_order_independent (sc sc' : SContent) (hsame : sc.SameDecls sc')
    (hwf : sc.wf = true) (hconv : sc.convertible = true)
    (cache' : Cache) (hc : createCache sc'.toContent = .ok cache') :
    ∃ es, toSymbolic sc' = .ok es :=
  convert_succeeds sc' (wf_perm sc sc' hsame hwf) (convertible_perm sc sc' hsame hconv) cache' hc

/-- … and the equations obtained in the other order are again the numeric derivatives of the
    model declared in that order -/
theorem C12_order_independent_sound (sc sc' : SContent) (hsame : sc.SameDecls sc')
    (hwf : sc.wf = true) (hconv : sc.convertible = true)
    (t : Rat) (xs ds : List Rat) (hn : callRhs sc'.toContent t xs = .ok ds) :
    ∃ es cache, toSymbolic sc' = .ok es ∧ createCache sc'.toContent = .ok cache ∧
      es.map (evalS (symEnv sc' cache xs)) = ds := by
  have hwf' := wf_perm sc sc' hsame hwf
  cases hc : createCache sc'.toContent with
  | error err => simp [callRhs, hc, bind, Except.bind] at hn
  | ok cache' =>
    obtain ⟨es, hes⟩ := convert_succeeds sc' hwf' (convertible_perm sc sc' hsame hconv) cache' hc
    obtain ⟨cache, hcache, hval⟩ := eqs_sound sc' hwf' t xs es ds hes hn
    exact ⟨es, cache, hes, by rw [hc] at hcache; exact hcache, hval⟩

/-- **the compiled Jacobian gets parameter values, aligned with the parameter symbols.**
    What `_initialise_integrator` builds (`jacArgs`): the names the function is compiled with
    and the values the closure passes zip to exactly the parameter dict of the cache
    (`get_parameter_values()`), i.e. name ↦ VALUE for every plain parameter, in dict order. -/
theorem C12_jac_args_aligned (sc : SContent) (vn pn : List Name) (pv : List Rat)
    (h : jacArgs sc = .ok (vn, pn, pv)) :
    ∃ cache, createCache sc.toContent = .ok cache ∧ vn = cache.varNames ∧
      pn.zip pv = cache.basePars ∧ pn.length = pv.length := by
  obtain ⟨cache, hc, hvn, hpn, hpv⟩ := jacArgs_inv sc vn pn pv h
  refine ⟨cache, hc, hvn, ?_, ?_⟩
  · rw [hpn, hpv]; exact zip_keys_vals _
  · rw [hpn, hpv]; simp [omKeys]

/-- … so the compiled function reads every variable symbol at the state it is called with and
    every parameter symbol at the parameter's value: on those names its environment IS the
    environment `symEnv` of `C12_eqs_sound`. -/
theorem C12_jac_env_aligned (sc : SContent) (hwf : sc.wf = true) (vn pn : List Name) (pv : List Rat)
    (h : jacArgs sc = .ok (vn, pn, pv)) (J : List (List SExpr)) (t : Rat) (xs : List Rat) :
    ∃ cache, createCache sc.toContent = .ok cache ∧
      ∀ n ∈ vn ++ pn,
        lamEnv { varNames := vn, parNames := pn, jac := J } t xs pv n = symEnv sc cache xs n := by
  obtain ⟨cache, hc, hvn, hpn, hpv⟩ := jacArgs_inv sc vn pn pv h
  subst hvn hpn hpv
  exact ⟨cache, hc, fun n hn => lamEnv_aligned sc hwf cache hc J t xs n hn⟩

/-- **the closure handed to the integrator is right.**  Whenever `jac_fn(t, x)` returns a matrix
    (`callJac`), the model converted, and the matrix is `D` of exactly its equations, read at the
    state `x` the integrator passes and at the model's parameter values (the environment of
    `C12_eqs_sound`), whatever `t`.  (On the pinned tree the call raised `TypeError`, F-C12-1.) -/
theorem C12_jacfn_sound (sc : SContent) (hwf : sc.wf = true) (t : Rat) (xs : List Rat)
    (J : List (List Rat)) (h : callJac sc t xs = .ok (some J)) :
    ∃ cache es, createCache sc.toContent = .ok cache ∧ toSymbolic sc = .ok es ∧
      J = (jacobianOf es cache.varNames).map fun row => row.map (evalS (symEnv sc cache xs)) :=
  jacfn_sound sc hwf t xs J h

/-- **the installed closure follows later parameter updates** (after `fix: recompile the Jacobian when
    parameter values have changed …`, F-C12-4).  Install the closure on `c`; let the model's content be
    `now` when the integrator calls it.  If `now` is still `c`, or the tuple of parameter values differs
    from the one compiled for (every `update_parameter` / `scale_parameter` that changes a value), the
    call returns what a closure freshly installed on `now` returns — hence, by `C12_jacfn_sound`, `D` of
    `now`'s equations at `now`'s parameter values, including parameter-only derived quantities and
    computed coefficients that are baked into the compiled matrix.  (A structural edit of the model
    that leaves every parameter value unchanged is outside: the closure does not notice it.) -/
theorem C12_closure_follows_parameters (c now : SContent) (hwf : now.wf = true) (cl cl' : JacClosure)
    (t : Rat) (xs : List Rat) (J : List (List Rat)) (hi : installJac c = some cl)
    (hcase : now = c ∨ ∀ vn pn values, jacArgs now = .ok (vn, pn, values) → values ≠ cl.vals)
    (hcall : cl.call now t xs = .ok (cl', J)) :
    callJac now t xs = .ok (some J) ∧
    ∃ cache es, createCache now.toContent = .ok cache ∧ toSymbolic now = .ok es ∧
      J = (jacobianOf es cache.varNames).map fun row => row.map (evalS (symEnv now cache xs)) := by
  have h := closure_follows c now cl cl' t xs J hi hcase hcall
  exact ⟨h, jacfn_sound now hwf t xs J h⟩

/-! ### the `use_jacobian` glue of the Simulator, with the facts read from the current source -/

/-- **the glue of the current source is the glue the model was written after**: `translate/c12.py` reads
    `Simulator._initialise_integrator` (argument order of `lambdify`, where the closure takes the current
    parameter values from, recompile-on-change, which values are remembered and passed, what the `except`
    clause catches and does, what the integrator receives, which methods re-initialise) into `Generated.glue`;
    every fact the state machine depends on is as `GlueOk` requires.  (`decide` on the generated record.) -/
theorem C12_glue_generated : GlueOk Generated.glue = true := by decide

/-- `solve_ivp` gets `jac=self.jacobian` for every method of `Scipy.method`'s `Literal`; the three implicit
    ones (the only ones of scipy that use a Jacobian) are among them, so the harness's trajectory stratum
    (which takes its method list from this generated definition) covers every Jacobian-using method. -/
theorem C12_scipy_methods_generated :
    ["Radau", "BDF", "LSODA"].all (Generated.scipyMethods.contains ·) = true := by decide

/-- **every history of the Simulator.**  Build `Simulator(model, use_jacobian=True)` on `c` and apply ANY
    sequence of `update_parameter(s)` / `scale_parameter(s)` / protocol steps (`setPar`), any other edit of the model
    the Simulator holds (`edit c'`: `sim.model.update_reaction(...)`, `update_derived`, `add_*`, `remove_*` — afterwards
    the content is `c'`), `clear_results` / `update_variable(s)` (`reinit`) and Jacobian calls by the integrator
    (`call t x`), with the glue as it is in the current source.  Then (`GoodOuts`) every matrix the integrator
    receives is exactly what `jac_fn(t, x)` of a Simulator freshly built on the model's content AT THAT MOMENT returns —
    for a well-formed model: `D` of its current equations at the state passed and at its current parameter values
    (derived parameters and computed coefficients included) — and the integrator runs without a Jacobian only if a
    conversion failed when the integrator was built.  Generalises `C12_closure_follows_parameters` from one step to
    all histories and from parameter updates to all edits (after `fix: recompile the Jacobian when the model was
    edited`, F-C12-5: the closure watches the model's cache object, which every editing method invalidates). -/
theorem C12_sim_history (c : SContent) (ops : List SimOp) (s0 s : SimState) (outs : List SimOut)
    (h0 : simInitG Generated.glue c = .ok s0) (hr : runG Generated.glue s0 ops = .ok (s, outs)) :
    GoodOuts c ops outs :=
  sim_history Generated.glue C12_glue_generated c ops s0 s outs h0 hr

/-- **no needless compilation.**  After any history, if the closure the integrator holds remembers the model's current
    cache object (nothing was edited since it was compiled), the next Jacobian call does not compile again: the
    conversion and `lambdify` run once per change of the model, not once per call. -/
theorem C12_no_needless_recompile (c : SContent) (ops : List SimOp) (s0 s : SimState) (outs : List SimOut)
    (h0 : simInitG Generated.glue c = .ok s0) (hr : runG Generated.glue s0 ops = .ok (s, outs))
    (cl : JacClosure) (ver : Nat) (hj : s.jac = some (cl, ver)) (hver : ver = s.version) :
    s.recompilesG Generated.glue = false :=
  no_needless_recompile Generated.glue s (sim_history_inv Generated.glue C12_glue_generated c ops s0 s outs h0 hr) cl ver hj hver

/-- **without a Jacobian only after a failed build.**  In every history, whenever the integrator calls for the Jacobian
    and has none (`noJac`), the model did not convert at the moment the integrator was last built — construction or the
    last `clear_results` / `update_variable(s)` (`NoJacJustified` threads that content along the history); it then stays
    without one, whatever the model becomes, until it is built again.  (Sharpens the `noJac` clause of `GoodOuts`.) -/
theorem C12_no_jacobian_only_after_failed_build (c : SContent) (ops : List SimOp) (s0 s : SimState)
    (outs : List SimOut) (h0 : simInitG Generated.glue c = .ok s0) (hr : runG Generated.glue s0 ops = .ok (s, outs)) :
    NoJacJustified c c ops outs :=
  sim_history_noJac Generated.glue C12_glue_generated c ops s0 s outs h0 hr

/-- why watching the parameter VALUES alone (the closure before the repair of F-C12-5) was enough for the Simulator's
    own methods: after parameter updates only (`ParUpd`: same declarations, a parameter keeps its value, gets another
    one, or — if it was given by an initial assignment — gets a plain one), an equal tuple of plain-parameter values
    means the very same content, so an unchanged tuple never hides a change. -/
theorem C12_values_determine_content (c now : SContent) (h : ParUpd c now) (vn pn vn' pn' : List Name)
    (vals : List Rat) (hc : jacArgs c = .ok (vn, pn, vals)) (hn : jacArgs now = .ok (vn', pn', vals)) : now = c :=
  ParUpd.same c now h vn pn vn' pn' vals hc hn

/-- … and `ParUpd` is what `update_parameter` histories produce -/
theorem C12_setPar_is_parUpd (c : SContent) (kvs : List (Name × Rat)) :
    ParUpd c (kvs.foldl (fun c kv => c.setPar kv.1 kv.2) c) := by
  suffices h : ∀ now, ParUpd c now → ParUpd c (kvs.foldl (fun c kv => c.setPar kv.1 kv.2) now) from h c (ParUpd.refl c)
  induction kvs with
  | nil => intro now h; exact h
  | cons kv kvs ih => intro now h; exact ih _ (ParUpd.step c now kv.1 kv.2 h)

/-- with the facts of the current source the constructor never raises because of the conversion: it installs the
    closure or falls back; without `use_jacobian` nothing is compiled -/
theorem C12_glue_refines (c : SContent) :
    installG Generated.glue true c = .ok (installJac c) ∧ installG Generated.glue false c = .ok none :=
  ⟨installG_eq _ C12_glue_generated c, by
    unfold installG; simp [(glueOk_facts _ C12_glue_generated).2.2.2.2.2.2.2.2.2.2.2.2.2]⟩

/-- each repair of the glue is needed: without recompiling, without remembering the new values, with the
    remembered instead of the current values passed, with a narrower `except`, with names from another source, or
    without watching the model's cache object, the facts are rejected -/
theorem C12_glue_repairs_needed :
    GlueOk { expectedGlue with recompileOnChange := false } = false ∧
    GlueOk { expectedGlue with storesValues := false } = false ∧
    GlueOk { expectedGlue with callArgs := ["t", "x", "list(compiled)"] } = false ∧
    GlueOk { expectedGlue with catchesAll := false } = false ∧
    GlueOk { expectedGlue with lambdifyArgs := ["'time'", "model.get_variable_names()", "model.get_parameter_names()"] } = false ∧
    GlueOk glueBeforeWatch = false := by
  decide

/-- F-C12-5, the witness: with the glue as it was before the repair (parameter values watched, the model not), replace
    the rate law of the Michaelis–Menten witness's second reaction (`sim.model.update_reaction`) and let the integrator
    call the Jacobian: it gets the matrix of the OLD model, which is not the Jacobian of the current one; with the
    repaired glue it gets the current one. -/
theorem C12_edit_needs_watch :
    histOuts glueBeforeWatch witnessMM [.edit witnessMMEdited, .call 0 [1, 2]] = some [.upd, outOf (jacAt witnessMM [1, 2])] ∧
    histOuts expectedGlue witnessMM [.edit witnessMMEdited, .call 0 [1, 2]] = some [.upd, outOf (jacAt witnessMMEdited [1, 2])] ∧
    jacAt witnessMM [1, 2] ≠ jacAt witnessMMEdited [1, 2] ∧ (jacAt witnessMMEdited [1, 2]).isSome = true :=
  ⟨by decide +kernel, by decide +kernel, by decide +kernel, by decide +kernel⟩

/-- **the conversion replaces the model's cache object** (`to_symbolic_model` starts with `model._create_cache()`), so the
    object to remember is the one in place AFTER compiling, and it has to be stored after `_compile_jac()` has returned.
    With the glue of the current source the history `call; update_parameter; call; call; call` compiles exactly once, at
    the first call after the update.  With the cache object read before compiling (`glueReadBefore`), or with the stores
    placed before the compilation (`glueStoreFirst`, seed C12-r4-1's order), every call after the update compiles again —
    the matrices stay right (`C12_sim_history` does not need these two facts for correctness of the matrices; `GlueOk`
    demands them for this theorem and for `C12_no_needless_recompile`). -/
theorem C12_cache_object_replaced_by_conversion :
    let ops : List SimOp := [.call 0 [1, 2], .setPar "c2" 7, .call 0 [1, 2], .call 0 [1, 2], .call 0 [1, 2]]
    histCompiles expectedGlue witnessMM ops = some [false, false, true, false, false] ∧
    histCompiles glueReadBefore witnessMM ops = some [true, false, true, true, true] ∧
    histCompiles glueStoreFirst witnessMM ops = some [false, false, true, true, true] ∧
    GlueOk glueReadBefore = false ∧ GlueOk glueStoreFirst = false :=
  ⟨by decide +kernel, by decide +kernel, by decide +kernel, by decide, by decide⟩

/-- **a recompilation that fails leaves nothing behind**: the model is edited into one that does not convert (a rate law
    that takes `time`), the integrator calls the Jacobian — the compilation raises, the exception escapes — and calls it
    again (the next `simulate`): the second call compiles again and raises again; a fresh Simulator on that model has no
    Jacobian at all. -/
theorem C12_failed_recompile_not_remembered :
    histOuts expectedGlue witnessMM [.edit witnessMMTime, .call 0 [1, 2], .call 0 [1, 2]] = some [.upd, .raised, .raised] ∧
    histCompiles expectedGlue witnessMM [.edit witnessMMTime, .call 0 [1, 2], .call 0 [1, 2]] = some [false, true, true] ∧
    jacAt witnessMMTime [1, 2] = none :=
  ⟨by decide +kernel, by decide +kernel, by decide +kernel⟩

/-- **after a call that returned a matrix the closure is in step with the model**: it remembers the cache object that
    is in place now (the one the compilation left there, if it compiled) — so, by `C12_no_needless_recompile`, the next
    call does not compile again unless the model is edited in between. -/
theorem C12_call_leaves_closure_in_step (s s' : SimState) (t : Rat) (xs : List Rat) (J : List (List Rat))
    (h : s.stepG Generated.glue (.call t xs) = .ok (s', .mat J)) : ∃ cl, s'.jac = some (cl, s'.version) :=
  mat_in_step Generated.glue C12_glue_generated s s' t xs J h

/-- the equations mention only variable symbols, plain-parameter symbols and data symbols (never
    `time`, a reaction, a derived quantity or a library function's own argument name) -/
theorem C12_eqs_symbols (sc : SContent) (es : List SExpr) (h : toSymbolic sc = .ok es) :
    ∃ cache, createCache sc.toContent = .ok cache ∧
      ∀ e ∈ es, ∀ n ∈ freeSyms e,
        n ∈ omKeys cache.init ∨ n ∈ omKeys cache.basePars ∨ n ∈ omKeys sc.data :=
  toSymbolic_syms sc es h

/-- **never wrong equations in the simulator**: a Jacobian is handed to the integrator only when
    the conversion succeeded, and then it is `D` of exactly those equations; otherwise the
    integrator runs without one (the `except Exception` fallback). -/
theorem C12_fallback (sc : SContent) :
    (∀ f, simJacobian sc = some f → ∃ es, toSymbolic sc = .ok es ∧ f.jac = jacobianOf es f.varNames) ∧
    (∀ err, toSymbolic sc = .error err → simJacobian sc = none) := by
  constructor
  · intro f hf
    unfold simJacobian at hf
    split at hf
    · rename_i es vn pn _ hs _
      simp at hf; subst hf
      exact ⟨es, hs, rfl⟩
    · simp at hf
  · intro err he
    unfold simJacobian
    simp [he]

/-! ### non-vacuity, and what the pinned tree did (F-C12-2) -/

-- the witness is well-formed and convertible, the fixed code converts it …
example : witnessDeclOrder.wf = true := by decide +kernel
example : witnessDeclOrder.convertible = true := by decide +kernel
example : isOk (toSymbolic witnessDeclOrder) = true := by decide +kernel
-- … while visiting the derived quantities in declaration order (pinned tree) raised KeyError 'd0'
example : isKeyError "d0" (toSymbolicDeclOrder witnessDeclOrder) = true := by decide +kernel
-- although the same declarations in another order converted: declaration order mattered
example : isOk (toSymbolicDeclOrder witnessSorted) = true := by decide +kernel
-- `C12_eqs_sound` is not vacuous: a Michaelis–Menten model with a state-dependent coefficient and a
-- parameter-only derived quantity is well-formed, converts, and has a numeric right-hand side
example : witnessMM.wf = true := by decide +kernel
example : isOk (toSymbolic witnessMM) = true := by decide +kernel
example : isOk (callRhs witnessMM.toContent 0 [1, 2]) = true := by decide +kernel
example : (simJacobian witnessMM).isSome = true := by decide +kernel

-- `C12_formal_deriv_hasDerivAt` is not vacuous: Michaelis–Menten `vmax·s/(km+s)` at `s = vmax = km = 2` has no
-- vanishing denominator, and its derivative there is `(2·4 − 4·1)/16 = 1/4`
example : DenOK (fun _ => 2) (.div (.mul (.sym "vmax") (.sym "s")) (.add (.sym "km") (.sym "s"))) := by
  refine ⟨⟨trivial, trivial⟩, ⟨trivial, trivial⟩, ?_⟩
  show (2 : Rat) + 2 ≠ 0
  decide +kernel
example : evalS (fun _ => 2) (D "s" (.div (.mul (.sym "vmax") (.sym "s")) (.add (.sym "km") (.sym "s")))) = 1 / 4 := by
  decide +kernel

-- `C12_sim_history` is not vacuous: on the Michaelis–Menten witness the history
-- call, update a parameter, call, update it back, call, re-initialise, call  runs through and hands over four matrices,
-- and without recompiling (the unrepaired closure) the second matrix is the stale one
example : (do let s0 ← simInitG Generated.glue witnessMM
              let r ← runG Generated.glue s0 [.call 0 [1, 2], .setPar "c2" 7, .call 0 [1, 2], .setPar "c2" 5,
                                              .call 0 [1, 2], .reinit, .call 0 [1, 2], .edit witnessMMEdited, .call 0 [1, 2]]
              pure (r.2.map fun (o : SimOut) => match o with | .mat _ => true | _ => false) : Except Err (List Bool)) =
            .ok [true, false, true, false, true, false, true, false, true] := by
  decide +kernel

end Mxl.C12
