import MxlVerif.Lemmas.C12Main
namespace Mxl.C12

/-- substitution lemma (positional): evaluating a library body after `fn_to_sympy` has put
    the model expressions `es` in = evaluating the body at the values of `es` -/
theorem C12_subst_args (ρ : Name → Rat) (es : List SExpr) (b : BExpr) :
    evalS ρ (substArgs es b) = evalB (es.map (evalS ρ)) b :=
  evalS_substArgs ρ es b

/-- substitution lemma (symbols): `evalS (subst σ e) env = evalS e (env ∘ σ)` -/
theorem C12_subst_syms (ρ : Name → Rat) (σ : Name → SExpr) (e : SExpr) :
    evalS ρ (substSym σ e) = evalS (fun n => evalS ρ (σ n)) e :=
  evalS_substSym ρ σ e

/-- **symbolic equations = numeric derivatives.**  For every well-formed surrogate-free
    model whose functions translate (`SContent`), every time and every state: if
    `to_symbolic_model` succeeds with equations `es` and `Model.__call__` returns `ds`, then
    evaluating `es` — each variable symbol at its state value, each parameter symbol at its
    value — gives exactly `ds`, in `var_names` order.  (Declaration order, initial
    assignments, parameter-only derived quantities baked into the cache, numeric /
    computed / state-dependent coefficients are all covered: `callRhs` is the shared numeric
    core.) -/
theorem C12_eqs_sound (sc : SContent) (hwf : sc.wf = true) (t : Rat) (xs : List Rat)
    (es : List SExpr) (ds : List Rat)
    (hs : toSymbolic sc = .ok es) (hn : callRhs sc.toContent t xs = .ok ds) :
    ∃ cache, createCache sc.toContent = .ok cache ∧ es.map (evalS (symEnv sc cache xs)) = ds :=
  eqs_sound sc hwf t xs es ds hs hn

/-- **formal derivative, second-order expansion.**  Along any symbol `x` and for every step
    `h` for which no denominator vanishes at either point,
    `e(x+h) = e(x) + h·(D x e)(x) + h²·remV(h)` where `remV` is an explicit rational function
    of `h` (polynomial when `e` is).  This is the difference-quotient characterisation of the
    derivative: `(e(x+h) − e(x))/h − (D x e)(x) = h·remV(h)`. -/
theorem C12_formal_deriv_correct (ρ : Name → Rat) (x : Name) (h : Rat) (e : SExpr)
    (h0 : DenOK ρ e) (h1 : DenOK (upd ρ x (ρ x + h)) e) :
    evalS (upd ρ x (ρ x + h)) e = evalS ρ e + h * evalS ρ (D x e) + h * h * remV ρ x h e :=
  taylor2 ρ x h e h0 h1

end Mxl.C12
