import MxlVerif.Lemmas.C12Sym
import MxlVerif.Model.C12
namespace Mxl.C12

/-- substitution lemma (positional): evaluating a library body after `fn_to_sympy` has put
    the model expressions `es` in = evaluating the body at the values of `es` -/
theorem C12_subst_args (ρ : Name → Rat) (xs : List Rat) (es : List SExpr) (e : SExpr) :
    evalS ρ xs (substArgs es e) = evalS ρ (es.map (evalS ρ xs)) e :=
  evalS_substArgs ρ xs es e

/-- substitution lemma (symbols): `evalS (subst σ e) env = evalS e (env ∘ σ)` -/
theorem C12_subst_syms (ρ : Name → Rat) (xs : List Rat) (σ : Name → SExpr) (e : SExpr) :
    evalS ρ xs (substSym σ e) = evalS (fun n => evalS ρ xs (σ n)) xs e :=
  evalS_substSym ρ xs σ e

end Mxl.C12
