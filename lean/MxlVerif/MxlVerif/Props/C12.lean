import MxlVerif.Lemmas.C12Sym
import MxlVerif.Model.C12
namespace Mxl.C12

/-- substitution lemma (positional): evaluating a library body after `fn_to_sympy` has put
    the model expressions `es` in = evaluating the body at the values of `es` -/
theorem C12_subst_args (ρ : Name → Rat) (es : List SExpr) (b : BExpr) :
    evalS ρ (substArgs es b) = evalB (es.map (evalS ρ)) b :=
  evalS_substArgs ρ es b

/-- substitution lemma (symbols): `evalS (subst σ e) env = evalS e (env ∘ σ)` -/
theorem C12_subst_syms (ρ : Name → Rat) (σ : Name → SExpr) (e : SExpr) :
    evalS ρ (substSym σ e) = evalS (fun n => evalS ρ (σ n)) e :=
  evalS_substSym ρ σ e

end Mxl.C12
