/-
C09 — scans equal independent runs, row-aligned, under any scheduling.

Everything is about the defs the driver executes (`Model/C09.lean`, `Model/C09Workers.lean`):
`seqScan`, `parScan` (pool schedule `assign`, `n` processes), `readViews` (lazy, memoised views
that write the model they refer to), `dictOf` / `ssContainer`, the four workers' time grids.
The specification side is `rowPure` / `viewPure`: one separate run on a fresh copy of the
caller's model with exactly that row's values — no heap, no schedule.

Hypotheses that stand for the runtime (trusted, exercised by the tie): a pool process works on
pickled VALUE copies and shares nothing with its siblings (so a schedule is fully described by
which process runs which task: `schedMap`), and a worker is a function of the model's content
(`Worker.run`), i.e. the integrator is deterministic.
-/
import MxlVerif.Lemmas.C09
import MxlVerif.Lemmas.C09Par
namespace Mxl.C09

/-- the result of a whole scan as the specification sees it: every row run independently on the
    caller's content `c`, the i-th result on its own fresh model object, nothing else touched -/
def independentRuns (w : Worker) (h : Heap) (c : Content) (rows : List (Label × Row)) :
    Except Err (Heap × List (Label × Sim)) :=
  match pureRows w c rows with
  | .error e => .error e
  | .ok ps => .ok (placeAll h ps)

/-- PARALLEL: for every number of pool processes and every assignment of tasks to processes the
    scan is exactly the independent runs (same results, same order, same labels, same error if a
    row raises). -/
theorem C09_parallel_is_independent (assign : List Nat) (n : Nat) (hn : 0 < n) (w : Worker)
    (h : Heap) (cell : Nat) (c : Content) (rows : List (Label × Row)) (hc : h.read cell = .ok c) :
    parScan assign n w h cell rows = independentRuns w h c rows := by
  unfold parScan
  rw [shippedCopyFirst_eq]
  unfold parScanWith independentRuns
  rw [hc]
  simp only
  rw [schedMap_eq_map assign n hn]
  have : (fun lr : Label × Row => (lr.1, childTask true w c lr.2)) = fun lr => (lr.1, rowPure w c lr.2) := by
    funext lr; rw [childTask_copy]
  rw [this, collect_char rows (rowPure w c) h, pureRows_mapM]
  rfl

/-- SEQUENTIAL: one process, one model object handed to every row — still the independent runs,
    because each row works on its own copy. -/
theorem C09_sequential_is_independent (w : Worker) (h : Heap) (cell : Nat) (c : Content)
    (rows : List (Label × Row)) (hc : h.read cell = .ok c) :
    seqScan w h cell rows = independentRuns w h c rows :=
  seqScan_char w c cell rows h hc

/-- sequential = parallel, for every worker count and schedule (full statement) -/
theorem C09_sequential_eq_parallel (assign : List Nat) (n : Nat) (hn : 0 < n) (w : Worker)
    (h : Heap) (cell : Nat) (c : Content) (rows : List (Label × Row)) (hc : h.read cell = .ok c) :
    seqScan w h cell rows = parScan assign n w h cell rows := by
  rw [C09_sequential_is_independent w h cell c rows hc, C09_parallel_is_independent assign n hn w h cell c rows hc]

/-- What the caller finally SEES.  After a scan (by the two theorems above: sequential or under
    any schedule) the lazily evaluated results are read in an arbitrary order, with repeats.
    Then (1) every view read is the view of the independent run of ITS row, (2) every requested
    result has been read, (3) results carry the input rows' labels in the input order,
    (4) the caller's own model object is what it was. -/
theorem C09_rows_equal_independent_runs (w : Worker) (h : Heap) (cell : Nat) (c : Content)
    (rows : List (Label × Row)) (order : List Nat)
    (h1 : Heap) (res : List (Label × Sim)) (h2 : Heap) (memo : List (Nat × View))
    (hc : h.read cell = .ok c)
    (hs : independentRuns w h c rows = .ok (h1, res))
    (hr : readViews (res.map (·.2)) h1 [] order = .ok (h2, memo)) :
    (∀ i v, (i, v) ∈ memo →
        ∃ lr p, rows[i]? = some lr ∧ rowPure w c lr.2 = .ok p ∧ viewPure p = .ok v)
    ∧ (∀ i, i ∈ order → ∃ v, memo.lookup i = some v)
    ∧ res.map (·.1) = rows.map (·.1)
    ∧ h2.read cell = .ok c := by
  unfold independentRuns at hs
  cases hp : pureRows w c rows with
  | error e => rw [hp] at hs; cases hs
  | ok ps =>
    rw [hp] at hs
    simp only [placeAll] at hs
    cases hs
    have hcells : ((placeFrom h.length ps).map (·.2)).map (·.cell) = List.range' h.length ps.length := by
      rw [List.map_map]; exact placeFrom_cells ps h.length
    refine ⟨?_, readViews_complete _ order _ [] h2 memo hr, ?_, ?_⟩
    · intro i v hiv
      have hnd : (((placeFrom h.length ps).map (·.2)).map (·.cell)).Nodup := by
        rw [hcells]; exact List.nodup_range'
      obtain ⟨s, c0, hs1, hs2, hs3⟩ :=
        readViews_spec _ hnd (h ++ ps.map (·.2.content)) order _ [] h2 memo
          (fun _ _ _ _ => rfl) (fun _ _ hm => by cases hm) hr i v hiv
      rw [List.getElem?_map, placeFrom_getElem?] at hs1
      cases hpi : ps[i]? with
      | none => rw [hpi] at hs1; simp at hs1
      | some lp =>
        rw [hpi] at hs1
        simp at hs1
        subst hs1
        obtain ⟨lr, hl1, _, hl3⟩ := pureRows_getElem? w c rows ps hp i lp hpi
        refine ⟨lr, lp.2, hl1, hl3, ?_⟩
        simp only at hs2 hs3
        have hlt : i < ps.length := (List.getElem?_eq_some_iff.mp hpi).1
        rw [List.getElem?_append_right (by omega)] at hs2
        simp only [Nat.add_sub_cancel_left, List.getElem?_map, hpi, Option.map_some, Option.some.injEq] at hs2
        subst hs2
        exact hs3
    · rw [placeFrom_labels]; exact pureRows_labels w c rows ps hp
    · obtain ⟨hlt, hget⟩ := read_ok_lt hc
      have hframe := readViews_frame ((placeFrom h.length ps).map (·.2)) cell (by
          intro s hs
          have : s.cell ∈ List.range' h.length ps.length := by
            rw [← hcells]; exact List.mem_map_of_mem hs
          have := (List.mem_range'_1.mp this).1
          omega) order _ [] h2 memo hr
      unfold Heap.read
      rw [hframe, List.getElem?_append_left hlt, hget]

/-- ALIGNMENT, dict containers (`TimeCourseScan` / `ProtocolScan`: `raw_results = dict(res)`):
    with pairwise distinct row labels nothing is lost or reordered … -/
theorem C09_aligned_dict {β : Type} (res : List (Label × β)) (hnd : (res.map (·.1)).Nodup) :
    dictOf res = res := by
  unfold dictOf
  simpa using dictOf_go res [] (by simpa using hnd)

/-- … and the hypothesis is needed: two rows under one label collapse into one entry
    (the later row's result at the earlier position). -/
theorem C09_aligned_dict_needs_distinct_labels :
    dictOf [((7 : Label), "row0"), (7, "row1"), (8, "row2")] = [(7, "row1"), (8, "row2")] := by
  decide

/-- ALIGNMENT, `SteadyStateScan`: the i-th row of the table is joined with the i-th result,
    whatever the labels are. -/
theorem C09_aligned_steady_state {β : Type} (rows : List (Label × Row)) (res : List (Label × β))
    (hl : res.map (·.1) = rows.map (·.1)) :
    ∃ out, ssContainer rows res = .ok out ∧ out.length = rows.length ∧
      ∀ (i : Nat) (lr : Label × Row), rows[i]? = some lr →
        ∃ r : Label × β, res[i]? = some r ∧ out[i]? = some (lr.2.map (·.2), r.2) := by
  have hlen : rows.length = res.length := by
    have := congrArg List.length hl
    simpa using this.symm
  refine ⟨(rows.map fun lr => lr.2.map (·.2)).zip (res.map (·.2)), ?_, ?_, ?_⟩
  · simp [ssContainer, hlen]
  · simp [hlen]
  · intro i lr hi
    have hlt : i < res.length := by
      have := (List.getElem?_eq_some_iff.mp hi).1; omega
    refine ⟨res[i], by simp [hlt], ?_⟩
    rw [List.getElem?_zip_eq_some]
    simp [hi, hlt]


/-! ### `parallelise` itself: cache look-up, pool with timeout, iteration order, sequential fallback -/

/-- ANY SCHEDULE.  When no task times out, pool mode — for every number of processes and every assignment of tasks
    to processes — returns exactly what sequential mode returns: the same list in the same order under the same keys,
    or the same exception (a `ValueError` for repeated keys with a cache; else the first raising input's).  And both
    are the specification: input by input, the stored result if the cache directory had one, else `fn`'s. -/
theorem C09_parallelise_any_schedule {α β : Type} (fn : α → Except Err β) (inputs : List (Label × α))
    (cache : Option (Store β)) (s : Sched) (hn : 0 < s.n) (hT : s.timedOut = []) :
    (parallelise fn inputs cache true s).1 = (parallelise fn inputs cache false s).1 ∧
    ((cache.isSome = false ∨ distinctKeys (inputs.map (·.1)) = true) →
      (parallelise fn inputs cache true s).1 = mapE (specRow fn cache) inputs) := by
  unfold parallelise
  by_cases hg : (cache.isSome && !distinctKeys (inputs.map (·.1))) = true
  · simp only [hg, if_true]
    refine ⟨trivial, ?_⟩
    intro h
    rcases h with h | h
    · simp [h] at hg
    · simp [h] at hg
  · simp only [hg, Bool.false_eq_true, if_false, if_true]
    have hp : drain ((poolOutcomes s fn cache inputs).map (·.1)) = mapE (specRow fn cache) inputs := by
      rw [pool_spec s hn fn cache inputs, hT, keepFrom_nil]
    have hs : (seqMap fn cache inputs).1 = mapE (specRow fn cache) inputs := by
      cases cache with
      | none => exact seqMap_spec_nocache fn inputs
      | some st =>
        have hd : distinctKeys (inputs.map (·.1)) = true := by simpa using hg
        exact seqMap_spec fn (some st) inputs (some st) hd (fun _ _ => rfl)
    exact ⟨by rw [hp, hs], fun _ => hp⟩

/-- ROW ALIGNMENT of what `parallelise` returns (either mode, any schedule, nothing timed out): as many results as
    inputs, the i-th result under the i-th input's key, and it is that input's own result -/
theorem C09_parallelise_row_aligned {α β : Type} (fn : α → Except Err β) (inputs : List (Label × α))
    (cache : Option (Store β)) (par : Bool) (s : Sched) (hn : 0 < s.n) (hT : s.timedOut = [])
    (res : List (Label × β)) (h : (parallelise fn inputs cache par s).1 = .ok res) :
    res.map (·.1) = inputs.map (·.1) ∧
    ∀ (i : Nat) (kv : Label × α), inputs[i]? = some kv → ∃ r, res[i]? = some r ∧ specRow fn cache kv = .ok r := by
  obtain ⟨h1, h2⟩ := C09_parallelise_any_schedule fn inputs cache s hn hT
  have hpar : (parallelise fn inputs cache true s).1 = .ok res := by
    cases par with
    | true => exact h
    | false => rw [h1]; exact h
  have hg : cache.isSome = false ∨ distinctKeys (inputs.map (·.1)) = true := by
    by_cases hg : (cache.isSome && !distinctKeys (inputs.map (·.1))) = true
    · unfold parallelise at hpar
      simp [hg] at hpar
    · cases hc : cache.isSome with
      | false => exact Or.inl rfl
      | true => simp [hc] at hg; exact Or.inr hg
  rw [h2 hg] at hpar
  exact ⟨mapE_labels _ (specRow_label fn cache) inputs res hpar, (mapE_getElem _ inputs res hpar).2⟩

/-- TIMEOUT: a task that exceeds `timeout` is DROPPED from the returned list — no placeholder.  What comes back is
    the specification over the remaining inputs, which are a sub-sequence of the inputs (order and keys kept). -/
theorem C09_parallelise_timeout_drops_rows {α β : Type} (fn : α → Except Err β) (inputs : List (Label × α))
    (s : Sched) (hn : 0 < s.n) :
    (parallelise fn inputs none true s).1 = mapE (specRow fn none) (keepFrom s.timedOut 0 inputs) ∧
    (keepFrom s.timedOut 0 inputs).Sublist inputs := by
  refine ⟨?_, keepFrom_sublist _ _ _⟩
  unfold parallelise
  simp only [Option.isSome_none, Bool.false_and, Bool.false_eq_true, if_false, if_true]
  exact pool_spec s hn fn none inputs

/-- … which the positional join of `SteadyStateScan` cannot absorb: fewer results than table rows is an error.
    (The scan drivers never pass a `timeout` — `Generated/C09Facts.lean`, `C09_drivers_pass_no_timeout`.) -/
theorem C09_dropped_row_breaks_positional_join {β : Type} (rows : List (Label × Row)) (res : List (Label × β))
    (h : res.length < rows.length) : ssContainer rows res = .error (.valueError "Length mismatch") := by
  unfold ssContainer
  have : (rows.length == res.length) = false := by simp; omega
  simp [this]

/-- CACHE: a directory whose entries are what `fn` itself yields for the inputs filed under those keys (it was
    filled by an earlier run of the same scan) changes nothing — the call returns what it returns without a cache. -/
theorem C09_cache_coherent {α β : Type} (fn : α → Except Err β) (inputs : List (Label × α)) (cache : Option (Store β))
    (hco : ∀ kv r, kv ∈ inputs → cache.bind (·.lookup kv.1) = some r → fn kv.2 = .ok r) :
    mapE (specRow fn cache) inputs = mapE (specRow fn none) inputs := by
  apply mapE_congr
  intro kv hkv
  unfold specRow
  cases hl : cache.bind (·.lookup kv.1) with
  | none => rfl
  | some r => simp only [Option.bind]; rw [hco kv r hkv hl]

/-- WARM CACHE: once a sequential call over these inputs (distinct keys) has returned, the directory it leaves behind
    answers ANY later call over the same inputs — sequential or pool mode under any schedule, with ANY function, which
    is never called — with exactly the first call's results, in the same order under the same keys -/
theorem C09_cache_second_call_loads {α β : Type} (fn fn' : α → Except Err β) (inputs : List (Label × α)) (st : Store β)
    (res : List (Label × β)) (st' : Option (Store β)) (hd : distinctKeys (inputs.map (·.1)) = true)
    (h : parallelise fn inputs (some st) false {} = (.ok res, st'))
    (par : Bool) (s : Sched) (hn : 0 < s.n) (hT : s.timedOut = []) :
    (parallelise fn' inputs st' par s).1 = .ok res := by
  have hseq : seqMap fn (some st) inputs = (.ok res, st') := by
    unfold parallelise at h
    simpa [hd] using h
  have hw := warm_cache_loads fn fn' inputs st res st' hd hseq
  obtain ⟨h1, h2⟩ := C09_parallelise_any_schedule fn' inputs st' s hn hT
  cases par with
  | true => rw [h2 (Or.inr hd)]; exact hw
  | false => rw [← h1, h2 (Or.inr hd)]; exact hw

/-- … and the hypothesis is needed: the directory is keyed by the ROW LABEL alone, so a directory filled by a
    different scan (other values under the same labels — the default labels are 0, 1, 2, … for every table) is
    served as this scan's result, and `fn` is never called (it may even be a function that always raises). -/
theorem C09_cache_keyed_by_label_only :
    (parallelise (fun (_ : Nat) => (Except.error (.other "never called") : Except Err Nat)) [(0, 5), (1, 6)]
        (some [(0, 99), (1, 98)]) false {}).1.toOption = some [(0, 99), (1, 98)] ∧
    (parallelise (fun (_ : Nat) => (Except.error (.other "never called") : Except Err Nat)) [(0, 5), (1, 6)]
        (some [(0, 99), (1, 98)]) true { assign := [1, 0], n := 2 }).1.toOption = some [(0, 99), (1, 98)] := by
  constructor <;> decide


/-- the scan drivers go THROUGH `parallelise`: without a cache, `scanWith` (the rows handed to the `parallelise` model, results
    unpickled in the parent) is the sequential scan resp. the pool scan the theorems above talk about — for either
    variant of the row task, every schedule -/
theorem C09_scan_through_parallelise (cf : Bool) (s : Sched) (hn : 0 < s.n) (hT : s.timedOut = []) (w : Worker) (h : Heap)
    (cell : Nat) (rows : List (Label × Row)) :
    (scanWith cf false s w h cell rows none).1 = seqScanWith cf w h cell rows ∧
    (scanWith cf true s w h cell rows none).1 = parScanWith cf s.assign s.n w h cell rows := by
  unfold scanWith
  simp only [Option.isSome_none, Bool.false_and, Bool.false_eq_true, if_false, if_true]
  exact ⟨by rw [seqScanCache_nocache], scanPar_nocache cf s hn hT w h cell rows⟩

/-- SCANS WITH A RESULT CACHE (`scan.*(…, cache=Cache(dir))`, shipped row task).  Row labels pairwise distinct, and every
    stored entry is what the independent run of the row filed under that label yields (the directory is empty, or was
    filled by this very scan): then the scan — sequential, or pool mode under ANY schedule — is exactly the independent
    runs: stored rows are unpickled, the others computed, each into its own fresh cell, in input order. -/
theorem C09_scan_with_cache (par : Bool) (s : Sched) (hn : 0 < s.n) (hT : s.timedOut = []) (w : Worker) (h : Heap)
    (cell : Nat) (c : Content) (rows : List (Label × Row)) (st0 : Store Pickled) (hc : h.read cell = .ok c)
    (hd : distinctKeys (rows.map (·.1)) = true)
    (hco : ∀ (lr : Label × Row) (p : Pickled), lr ∈ rows → st0.lookup lr.1 = some p → rowPure w c lr.2 = .ok p) :
    (scanWith true par s w h cell rows (some st0)).1 = independentRuns w h c rows := by
  have hspec : mapE (specRow (rowPure w c) (some st0)) rows = pureRows w c rows := by
    rw [pureRows_mapE]
    exact C09_cache_coherent (rowPure w c) rows (some st0) (fun kv r hkv hl => hco kv r hkv (by simpa [Option.bind] using hl))
  unfold scanWith independentRuns
  simp only [hd, Option.isSome_some, Bool.not_true, Bool.and_false, Bool.false_eq_true, if_false]
  cases par with
  | true =>
    simp only [if_true]; rw [scanPar_spec s hn hT w h cell c hc rows st0 hd, hspec]
    cases pureRows w c rows <;> rfl
  | false =>
    simp only [Bool.false_eq_true, if_false]
    rw [seqScanCache_spec w c cell st0 rows h st0 hc hd (fun _ _ => rfl), hspec]
    cases pureRows w c rows <;> rfl

/-- … and with repeated row labels a cache is REFUSED before anything runs (results are stored per label) -/
theorem C09_scan_cache_refuses_repeated_labels (cf par : Bool) (s : Sched) (w : Worker) (h : Heap) (cell : Nat)
    (rows : List (Label × Row)) (st0 : Store Pickled) (hd : distinctKeys (rows.map (·.1)) = false) :
    (scanWith cf par s w h cell rows (some st0)).1 =
      .error (.valueError "Caching needs unique keys, but some keys occur more than once") := by
  unfold scanWith
  simp [hd]

/-- `mc.scan_steady_state`: what a pool task computes for ONE Monte-Carlo row — copy the model, write the sample in,
    run the sequential inner scan on that one object — is the NESTED independent runs: every inner row run separately
    on a fresh copy of the sample's model `c1`, each result on its own cell of the task's heap, in inner-row order.
    (The task's heap then travels to the parent, `transplant`; reading the views there is `C09_rows_equal_independent_runs`
    for the heap `[c, c1]`.) -/
theorem C09_mc_scan_rows_are_nested_independent_runs (w : Worker) (inner : List (Label × Row)) (c : Content)
    (sample : Row) :
    mcScanChild shippedCopyFirst w inner c sample =
      match applyRow c sample with
      | .error e => .error e
      | .ok c1 => independentRuns w [c, c1] c1 inner := by
  rw [shippedCopyFirst_eq, mcScanChild_char]
  cases applyRow c sample with
  | error e => rfl
  | ok c1 => rfl

/-- `mc.scan_steady_state` under ANY schedule of the pool (worker count, assignment of samples to processes) returns what
    a single process working through the samples in order returns — same rows, same order, same labels, same exception -/
theorem C09_mc_scan_any_schedule (cf : Bool) (assign : List Nat) (n : Nat) (hn : 0 < n) (w : Worker)
    (inner : List (Label × Row)) (c : Content) (samples : List (Label × Row)) :
    mcScan cf assign n w inner c samples = mcScan cf [] 1 w inner c samples := by
  unfold mcScan
  rw [schedMap_eq_map assign n hn, schedMap_eq_map [] 1 (by omega)]

/-- `mc.scan_steady_state`, parent side: the task's answer, unpickled next to the caller's model, IS the independent runs
    of the inner rows on the sample's model `c1` (in a heap that also holds the caller's model and the task's copy of
    it) — so `C09_rows_equal_independent_runs` applies verbatim to the views the parent reads: each equals the view of a
    separate run of that inner row on a fresh copy of `c1`, and the caller's model (cell 0) is untouched -/
theorem C09_mc_scan_answer_is_independent_runs (w : Worker) (inner : List (Label × Row)) (c c1 : Content) (sample : Row)
    (ha : applyRow c sample = .ok c1) :
    (mcScanChild shippedCopyFirst w inner c sample).map (transplant [c]) = independentRuns w [c, c, c1] c1 inner := by
  rw [C09_mc_scan_rows_are_nested_independent_runs, ha]
  simp only [independentRuns]
  cases pureRows w c1 inner with
  | error e => rfl
  | ok ps =>
    simp only [Except.map, transplant, placeAll]
    congr 1
    rw [placeFrom_shift]
    simp

/-! ### facts regenerated from scan.py / mc.py / parallel.py on every run (`translate/c09.py` → `Generated/C09Facts.lean`) -/

open Mxl.Generated.C09 in
/-- the row task: the model is copied BEFORE anything is written to it, both kinds of values are written, the worker is
    called last (the order of the two writes does not matter: a name is a variable or a parameter, never both) -/
theorem C09_source_row_task :
    shippedCopyFirst = true ∧ rowSteps.getLast? = some RowStep.call ∧
    rowSteps.count RowStep.copy = 1 ∧ rowSteps.count RowStep.updVars = 1 ∧ rowSteps.count RowStep.updPars = 1 ∧
    rowSteps.count RowStep.call = 1 := by decide

open Mxl.Generated.C09 in
/-- `parallelise`: what `Model/C09Par.lean` models is what the source does — the key check guards the cache,
    `_load_or_run` loads before it runs, the pool's results are appended in iteration order, a `TimeoutError` skips the
    row, the sequential branch is `list(map(worker, inputs))` -/
theorem C09_source_parallelise :
    cacheChecksKeys = true ∧ loadBeforeRun = true ∧ seqIsMap = true ∧ appendInOrder = true ∧ timeoutSkipsRow = true := by
  decide

open Mxl.Generated.C09 in
/-- failing rows: all four scan workers catch `ZeroDivisionError` (the model's `guardZeroDiv` branches on it), and
    `Simulation.default` replaces a model that cannot be evaluated at its initial state by its NaN-valued copy instead of
    raising again (after the repair of F-C09-3) -/
theorem C09_source_failing_rows : workersCatchZeroDivision = true ∧ placeholderSurvivesZeroDivision = true := by decide

open Mxl.Generated.C09 in
/-- EVERY scan driver (scan.* ×4, mc.* ×5, the three mc.* MCA wrappers): rows come from `list(<table>.iterrows())` of the
    driver's own table argument, the worker is handed `y0=None` (custom initial values are written into the model first,
    so that a row's own initial values win), no driver passes a `timeout` (so no row is ever dropped:
    `C09_parallelise_timeout_drops_rows`), every driver passes its cache on -/
theorem C09_source_drivers :
    drivers.length = 12 ∧
    (∀ d ∈ drivers, d.passesTimeout = false ∧ d.workerY0None = true ∧ d.y0OnModel = true ∧ d.passesCache = true) ∧
    (∀ d ∈ drivers, d.module = "scan" → d.table = "to_scan" ∧ d.passesParallel = true ∧ d.passesMaxWorkers = false) ∧
    (∀ d ∈ drivers, d.module = "mc" → d.table = "mc_to_scan" ∧ d.passesParallel = false ∧ d.passesMaxWorkers = true) := by
  decide

open Mxl.Generated.C09 in
/-- which container joins results with the index: the two `steady_state` drivers positionally (an index built from the
    same table, `C09_aligned_steady_state`), every other driver by row label (`C09_aligned_dict`) -/
theorem C09_source_containers :
    (drivers.filter fun d => d.container == Container.positional).map (fun d => (d.module, d.name))
      = [("scan", "steady_state"), ("mc", "steady_state")] := by decide

/-! ### the placeholder grids of the CURRENT source are the grids of successful runs -/

section
open Mxl.Generated.C09

/-- the placeholder grid of the time-course worker, as the source computes it, IS the time index of a successful run -/
theorem C09_source_placeholder_time_course (tps : List Rat) : tcPlaceholder tps = tcIndex tps := by
  unfold tcPlaceholder tcIndex tcGrid
  have hf : tps.filter tcKeeps = tps.filter (fun t => decide (0 ≤ t)) := by
    apply List.filter_congr
    intro t _
    simp [tcKeeps, GE.ge]
  simp only [hf, tcStart]
  cases tps.filter (fun t => decide (0 ≤ t)) with
  | nil => simp
  | cons a r =>
    by_cases h : a = 0
    · simp [h]
    · simp [h]

/-- … and so is the protocol worker's (`time_points_per_step > 0`, a protocol with at least one step) -/
theorem C09_source_placeholder_protocol (proto : Protocol) (steps : Nat) (hs : 0 < steps) (hp : proto ≠ []) :
    protoPlaceholder linspace steps (proto.map (·.1)) = protoIndex steps 0 true proto := by
  cases proto with
  | nil => exact absurd rfl hp
  | cons s rest =>
    simp only [protoPlaceholder, protoStart, List.map_cons, protoSteps, protoIndex, protoPoints, protoDrop,
      protoSteps_eq steps rest s.1, if_true]
    have hh := linspace_succ_head 0 s.1 steps hs
    cases hg : linspace 0 s.1 (steps + 1) with
    | nil => rw [hg] at hh; simp at hh
    | cons a r =>
      rw [hg] at hh
      simp at hh
      subst hh
      simp

/-- … and the protocol + time points worker's: the start, then the union of protocol ends and requested points that lies
    in `(0, T_end]` (`joinOuter` = `np.union1d`) -/
theorem C09_source_placeholder_ptc (proto : Protocol) (tps : List Rat) :
    ptcIndex proto tps =
      ptcStart :: (joinOuter (proto.map (·.1)) tps).filter fun t => ptcKeeps t ((proto.getLast?.map (·.1)).getD 0) := by
  simp only [ptcIndex, ptcStart, ptcKeeps, GT.gt]

end

/-! ### why the per-row copy is needed (the code before the fix) -/

def wContent : Content :=
  { vars := [("x", .plain 1)],
    pars := [("k", .ia { args := ["x"], fn := fun xs => 2 * xs.getD 0 0 })],
    rxns := [("v", { rate := { args := ["k", "x"], fn := fun xs => xs.getD 0 0 * xs.getD 1 0 }, stoich := [("x", .num (-1))] })] }

def wWorker : Worker := ssWorker { nss := 0, h := 0, failKeys := [] }
def wRows : List (Label × Row) := [(0, [("x", 1)]), (1, [("x", 2)])]

/-- flux `v` of every result, read in the order given -/
def fluxesSeen (copyFirst : Bool) (order : List Nat) : Option (List (Nat × Option Rat)) :=
  match seqScanWith copyFirst wWorker [wContent] 0 wRows with
  | .error _ => none
  | .ok (h1, res) =>
    match readViews (res.map (·.2)) h1 [] order with
    | .error _ => none
    | .ok (_, memo) => some (memo.map fun iv => (iv.1, ((iv.2.segs.head?.bind (·.head?)).bind fun r => r.2.lookup "v")))


/-- BEFORE the fix (`rowTask false`: every row handed the same model object) the flux reported
    for row 0 (x = 1, parameter k := 2·x computed from the initial value, v = k·x) is 4: it is
    evaluated with the LAST row's initial value.  The independent run gives 2. -/
theorem C09_shared_model_reports_last_rows_values :
    fluxesSeen false [0, 1] = some [(0, some 4), (1, some 8)] := by decide +kernel

/-- the shipped code on the same input, read in two different orders -/
theorem C09_witness_after_fix :
    fluxesSeen true [0, 1] = some [(0, some 2), (1, some 8)] ∧
    fluxesSeen true [1, 0, 1] = some [(1, some 8), (0, some 2)] := by
  constructor <;> decide +kernel

/-! ### NaN placeholders: shape of a failing row vs shape of a successful row -/

/-- A ROW THAT RAISES `ZeroDivisionError` WHILE ITS SIMULATOR IS BUILT (every scan worker's `except ZeroDivisionError`):
    for each of the four workers the independent run of such a row IS the NaN placeholder over the worker's success
    grid, built on the row's own model — no exception escapes; by `C09_parallel_is_independent` /
    `C09_sequential_is_independent` it then sits at its own position under its own label in every mode -/
theorem C09_zero_division_row_is_placeholder (cfg : EulerCfg) (run : Content → Except Err (Content × Option (List Seg)))
    (idx : List Rat) (c c1 : Content) (row : Row) (ig : Integ) (ha : applyRow c row = .ok c1)
    (hi : simInit cfg c1 = .ok ig) (hz : zeroDivAt cfg c1 = .ok true) :
    rowPure { run := guardZeroDiv cfg run, dfltIndex := idx } c row = mkDefault c1 idx := by
  simp only [rowPure, ha, guardZeroDiv, hi, hz, show Generated.C09.workersCatchZeroDivision = true from by decide, if_true]

/-- steady-state worker (full): a successful result has exactly one row and so has the
    placeholder (`SteadyStateScan` takes `.iloc[-1]` of either); the worker leaves the model alone. -/
theorem C09_nan_shape_steady_state (cfg : EulerCfg) (c c' : Content) (segs : List Seg)
    (h : (ssWorker cfg).run c = .ok (c', some segs)) :
    (segs.flatMap (·.rows)).length = (ssWorker cfg).dfltIndex.length ∧ c' = c := by
  have := ssRun_shape cfg c c' segs (guardZeroDiv_some h)
  simpa [ssWorker] using this

/-- time-course worker (full, after "fix: NaN placeholders of failed scan rows have the time points of a
    successful run"): for EVERY requested grid the placeholder's time index is the time index of every
    successful row: the start 0, then the requested non-negative points. -/
theorem C09_nan_shape_time_course (cfg : EulerCfg) (tps : List Rat) (c c' : Content) (segs : List Seg)
    (h : (tcWorker cfg tps).run c = .ok (c', some segs)) :
    (segs.flatMap (·.rows)).map (·.1) = (tcWorker cfg tps).dfltIndex :=
  (tcRun_index cfg tps c c' segs (guardZeroDiv_some h)).1

/-- protocol worker (full): for every protocol and every `time_points_per_step > 0` a successful row has the
    placeholder's time index — `steps + 1` points for the first step, `steps` for every later one. -/
theorem C09_nan_shape_protocol (cfg : EulerCfg) (proto : Protocol) (steps : Nat) (hs : 0 < steps)
    (c c' : Content) (segs : List Seg) (h : (protoWorker cfg proto steps).run c = .ok (c', some segs)) :
    (segs.flatMap (·.rows)).map (·.1) = (protoWorker cfg proto steps).dfltIndex :=
  protoRun_index cfg proto steps hs c c' segs (guardZeroDiv_some h)

/-- the row count the placeholder had before the fix (`len(protocol) * time_points_per_step`) was one short -/
theorem C09_protocol_row_count (cfg : EulerCfg) (proto : Protocol) (steps : Nat) (hp : proto ≠ []) :
    (protoWorker cfg proto steps).dfltIndex.length = proto.length * steps + 1 := by
  have he : proto.isEmpty = false := by cases proto with | nil => exact absurd rfl hp | cons _ _ => rfl
  simp [protoWorker, protoIndex_length, he]

/-- protocol + time points worker: the placeholder's index is, by construction, `ptcIndex` — the start, every
    protocol end and every requested point inside the protocol.  That a successful `ptcRun` produces this
    index is checked by the driver on every tied input (`grid_ok`) and here on a closed instance in which
    the request neither contains the start nor the protocol end and reaches beyond the protocol. -/
theorem C09_nan_shape_protocol_time_course (cfg : EulerCfg) (proto : Protocol) (tps : List Rat) :
    (ptcWorker cfg proto tps).dfltIndex = ptcIndex proto tps := rfl

theorem C09_nan_shape_protocol_time_course_instance :
    (match (ptcWorker { nss := 0, h := 0, failKeys := [] } [(1, []), (2, [])] [1/2, 3/2, 5/2]).run wContent with
     | .ok (_, some segs) => some ((segs.flatMap (·.rows)).map (·.1))
     | _ => none)
      = some (ptcWorker { nss := 0, h := 0, failKeys := [] } [(1, []), (2, [])] [1/2, 3/2, 5/2]).dfltIndex
    ∧ ptcIndex [(1, []), (2, [])] [1/2, 3/2, 5/2] = [0, 1/2, 1, 3/2, 2] := by
  constructor <;> decide +kernel

end Mxl.C09
