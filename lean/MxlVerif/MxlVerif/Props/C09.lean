import MxlVerif.Model.C09Workers
namespace Mxl.C09
theorem placeholder : True := trivial
end Mxl.C09
