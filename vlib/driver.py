"""Line-protocol client for the Lean model driver (lean/MxlVerif/.lake/build/bin/driver)."""
from __future__ import annotations

import json
import subprocess
from pathlib import Path

LEAN_DIR = Path(__file__).resolve().parent.parent / "lean" / "MxlVerif"
DRIVER = LEAN_DIR / ".lake" / "build" / "bin" / "driver"


class DriverError(RuntimeError):
    pass


def call_batch(requests: list[dict], timeout: float = 600.0) -> list:
    """Send every request (one JSON line each), return the list of `r` payloads.

    A request the driver cannot parse yields DriverError: the wire format is part
    of the harness, not of the system under test.
    """
    if not requests:
        return []
    data = "\n".join(json.dumps(r, separators=(",", ":")) for r in requests) + "\n"
    p = subprocess.run(
        [str(DRIVER)], input=data.encode(), capture_output=True, timeout=timeout, check=False
    )
    if p.returncode != 0:
        raise DriverError(f"driver exit {p.returncode}: {p.stderr.decode()[:2000]}")
    lines = p.stdout.decode().splitlines()
    if len(lines) != len(requests):
        raise DriverError(f"driver answered {len(lines)} lines for {len(requests)} requests")
    out = []
    for req, line in zip(requests, lines):
        j = json.loads(line)
        if "fatal" in j:
            raise DriverError(f"driver rejected request {json.dumps(req)[:500]}: {j['fatal']}")
        out.append(j["r"])
    return out
