"""Shared check machinery: build + audit of the Lean side, verdict rule, evidence, replays.

Verdict rule per explored input (DESIGN.md §4):
  R = real code, M = impl-faithful Lean model (driver), S = the property's oracle
  (Lean spec function where executable, else an independent Python restatement).
    R == S                      -> holds here (R != M additionally counts as model drift)
    R != S, listed finding, R==M-> KNOWN-FINDING (once per finding id)
    R != S otherwise            -> VIOLATION with the shrunk input as replay
  broken proof / drift and no failing input -> VIOLATION ... no-failing-input-found
"""
from __future__ import annotations

import fcntl
import hashlib
import json
import os
import random
import re
import subprocess
import sys
import time
import traceback
from pathlib import Path

ROOT = Path(__file__).resolve().parent.parent
LEAN_DIR = ROOT / "lean" / "MxlVerif"
WORK = ROOT / ".work"
REPO = Path(os.environ.get("MXLPY_REPO", "/repo"))
ALLOWED_AXIOMS = {"propext", "Classical.choice", "Quot.sound"}
FORBIDDEN = re.compile(
    r"\bsorry\b|\badmit\b|^\s*axiom\s|native_decide|bv_decide|implemented_by|\bunsafe\s|maxHeartbeats\s+0"
)

TRUSTED_BASE_COMMON = [
    "Lean 4.33.0 kernel (thorough tier re-checks the Props modules with leanchecker)",
    "axioms permitted in property theorems: propext, Classical.choice, Quot.sound (audited by #print axioms every run)",
    "the correspondence harness (generators, canonicalisation, line protocol) and the Lean driver's JSON decoding",
    "IEEE-754 rounding is not modelled: correspondence inputs are integers/dyadics under + - * so float arithmetic is exact",
]


def _sh(cmd, cwd=None, timeout=3600, env=None):
    p = subprocess.run(cmd, cwd=cwd, capture_output=True, text=True, timeout=timeout, env=env, check=False)
    return p.returncode, p.stdout + p.stderr


def _load_findings() -> dict:
    """known_findings.json is the committed list; known_findings.d/*.json are its per-property sources"""
    d = ROOT / "known_findings.d"
    if d.is_dir() and any(d.glob("*.json")):
        out = []
        for f in sorted(d.glob("*.json")):
            out += json.loads(f.read_text())
        return {"findings": out}
    return json.loads((ROOT / "known_findings.json").read_text())


class LakeLock:
    def __enter__(self):
        WORK.mkdir(exist_ok=True)
        self.f = open(WORK / "lake.lock", "w")
        fcntl.flock(self.f, fcntl.LOCK_EX)
        return self

    def __exit__(self, *a):
        fcntl.flock(self.f, fcntl.LOCK_UN)
        self.f.close()


def strip_comments(src: str) -> str:
    src = re.sub(r"/-.*?-/", "", src, flags=re.S)
    return re.sub(r"--.*", "", src)


def canon(obj) -> str:
    return json.dumps(obj, sort_keys=True, separators=(",", ":"), default=str)


class Ctx:
    def __init__(self, prop: str, tier: str, seed: int):
        self.prop, self.tier, self.seed = prop, tier, seed
        self.rng = random.Random(f"{prop}-{seed}")
        self.t0 = time.time()
        self.evaluations = 0
        self.distinct: set[str] = set()
        self.hist: dict[str, int] = {}
        self.samples: list = []
        self.violations: list[dict] = []
        self.findings_seen: dict[str, dict] = {}
        self.findings_fixed_seen: set[str] = set()
        self.drift: list[dict] = []
        self.notes: list[str] = []
        self.rule = ""
        self.assumptions: list[str] = []
        self.trusted_base = list(TRUSTED_BASE_COMMON)
        self.extra_cov: dict = {}
        self.exhaustive = False
        self.proof_ok = True
        self.proof_log = ""
        self.broken_obligations: list[str] = []
        self.obligations = 0
        self.discharged = 0
        self.theorems: list[str] = []
        self.axioms: dict[str, list[str]] = {}
        self.checker_cmd = ""
        self.driver_ok = True
        self.translator_failures: dict[str, tuple[str, str]] = {}
        self.shrinker = None
        kf = _load_findings()
        self.known = {e["id"]: e for e in kf["findings"] if e["property"] == prop and e.get("status") == "known"}
        self.fixed = {e["id"]: e for e in kf["findings"] if e["property"] == prop and e.get("status") == "fixed"}
        WORK.mkdir(exist_ok=True)

    # ------------------------------------------------------------------ scale
    def n(self, quick: int, thorough: int) -> int:
        return thorough if self.tier == "thorough" else quick

    # ------------------------------------------------------------------ Lean side
    def translate(self, fn) -> None:
        """Run a translator (Python source -> Generated/*.lean).  A translator that
        raises leaves the proof side broken, never silently stale."""
        try:
            fn(REPO, LEAN_DIR / "MxlVerif" / "Generated")
        except Exception as e:  # noqa: BLE001
            # decided in build(): a translator that fails leaves its Generated/ file stale, which breaks exactly the
            # properties whose theorems or driver handler import that file -- not the other properties' checks
            self.translator_failures[getattr(fn, "__module__", "?")] = (repr(e), traceback.format_exc())

    def _translate_all(self) -> None:
        import importlib
        import pkgutil

        import translate

        with LakeLock():
            for m in pkgutil.iter_modules(translate.__path__):
                if m.name in ("common", "run_all"):
                    continue
                mod = importlib.import_module(f"translate.{m.name}")
                if hasattr(mod, "generate"):
                    self.translate(mod.generate)

    def _import_closure(self, roots: list[str]) -> set[str]:
        """project-local modules reachable from `roots` through `import` lines"""
        seen: set[str] = set()
        todo = list(roots)
        while todo:
            m = todo.pop()
            if m in seen:
                continue
            path = LEAN_DIR / (m.replace(".", "/") + ".lean")
            if not path.exists():
                continue
            seen.add(m)
            for line in strip_comments(path.read_text()).splitlines():
                mm = re.match(r"\s*(?:public\s+)?import\s+(\S+)", line)
                if mm and (mm.group(1).startswith("MxlVerif.") or mm.group(1).startswith("Driver.")):
                    todo.append(mm.group(1))
        return seen

    def _judge_translator_failures(self, props_modules: list[str]) -> None:
        """A failed translator `translate.cNN` leaves `Generated/CNN*.lean` as it was (stale).  That breaks this property's
        proof side iff its theorem modules or its driver handler import such a file; otherwise it is only noted."""
        if not self.translator_failures:
            return
        handler = f"Driver.H_{self.prop.lower()}"
        if not (LEAN_DIR / (handler.replace(".", "/") + ".lean")).exists():
            handler = "Driver.H_core"
        closure = self._import_closure([*props_modules, handler])
        for mod, (err, tb) in sorted(self.translator_failures.items()):
            tag = mod.rsplit(".", 1)[-1].upper()  # translate.c09 -> C09
            used = sorted(m for m in closure if m.startswith("MxlVerif.Generated." + tag))
            if used or not re.fullmatch(r"C\d\d", tag):
                self.proof_ok = False
                self.broken_obligations.append(f"translator {mod}: {err} (stale: {used})")
                self.proof_log += tb
            else:
                self.notes.append(f"translator {mod} failed ({err[:160]}); no module of this property imports Generated.{tag}*: "
                                  "it does not bear on this property and is reported by the checks that do")

    def build(self, props_modules: list[str], need_driver: bool = True) -> None:
        """regenerate Generated/*.lean from /repo, lake build the driver and the property's theorem
        modules; audit them."""
        self._translate_all()
        self._judge_translator_failures(props_modules)
        with LakeLock():
            if need_driver:
                rc, out = _sh(["lake", "build", "driver"], cwd=LEAN_DIR)
                if rc != 0:
                    self.driver_ok = False
                    self.proof_ok = False
                    self.proof_log += out[-4000:]
                    self.broken_obligations.append("lake build driver (executable model) failed")
            for m in props_modules:
                rc, out = _sh(["lake", "build", m], cwd=LEAN_DIR)
                if rc != 0:
                    self.proof_ok = False
                    self.proof_log += out[-6000:]
                    bad = re.findall(r"error: (\S+\.lean:\d+:\d+)", out)
                    self.broken_obligations.append(f"lake build {m} failed at {bad[:5]}")
        self.checker_cmd = (
            f"cd lean/MxlVerif && lake build driver {' '.join(props_modules)} && lake env lean <generated #print axioms file>"
        )
        self._audit(props_modules)

    def _audit(self, props_modules: list[str]) -> None:
        # 1. forbidden tokens anywhere in the Lean sources
        hits = []
        for p in list((LEAN_DIR / "MxlVerif").rglob("*.lean")) + list((LEAN_DIR / "Driver").rglob("*.lean")):
            for i, line in enumerate(strip_comments(p.read_text()).splitlines(), 1):
                if FORBIDDEN.search(line):
                    hits.append(f"{p.relative_to(LEAN_DIR)}:{i}: {line.strip()[:80]}")
        if hits:
            self.proof_ok = False
            self.broken_obligations.append(f"forbidden tokens in Lean sources: {hits[:5]}")
        # 2. theorem inventory + #print axioms
        thms: list[tuple[str, str]] = []
        for m in props_modules:
            path = LEAN_DIR / (m.replace(".", "/") + ".lean")
            if not path.exists():
                self.proof_ok = False
                self.broken_obligations.append(f"missing {path}")
                continue
            src = strip_comments(path.read_text())
            ns = None
            for line in src.splitlines():
                mm = re.match(r"\s*namespace\s+(\S+)", line)
                if mm:
                    ns = mm.group(1)
                mm = re.match(r"\s*(?:protected\s+|private\s+)?theorem\s+(\S+)", line)
                if mm:
                    thms.append((m, f"{ns}.{mm.group(1)}" if ns else mm.group(1)))
        self.theorems = [t for _, t in thms]
        self.obligations = len(thms)
        if not self.proof_ok and not self.driver_ok:
            return
        if not thms:
            return
        audit = WORK / f"Audit_{self.prop}_{os.getpid()}.lean"
        body = "".join(f"import {m}\n" for m in dict.fromkeys(m for m, _ in thms))
        body += "".join(f"#print axioms {t}\n" for _, t in thms)
        audit.write_text(body)
        with LakeLock():
            rc, out = _sh(["lake", "env", "lean", str(audit)], cwd=LEAN_DIR)
        audit.unlink(missing_ok=True)
        if rc != 0:
            self.proof_ok = False
            self.proof_log += out[-4000:]
            self.broken_obligations.append("#print axioms audit failed to elaborate")
            return
        # parse "'name' depends on axioms: [a, b]" / "'name' does not depend on any axioms"
        flat = re.sub(r"\s+", " ", out)
        ok = 0
        for _, t in thms:
            m1 = re.search(r"'" + re.escape(t) + r"' depends on axioms: \[([^\]]*)\]", flat)
            m2 = re.search(r"'" + re.escape(t) + r"' does not depend on any axioms", flat)
            if m2:
                self.axioms[t] = []
                ok += 1
            elif m1:
                ax = [a.strip() for a in m1.group(1).split(",") if a.strip()]
                self.axioms[t] = ax
                if set(ax) <= ALLOWED_AXIOMS:
                    ok += 1
                else:
                    self.proof_ok = False
                    self.broken_obligations.append(f"{t} depends on non-permitted axioms {ax}")
            else:
                self.proof_ok = False
                self.broken_obligations.append(f"no axiom report for {t}")
        self.discharged = ok if self.proof_ok else min(ok, self.obligations - 1)
        if self.proof_ok and os.environ.get("VERIF_SKIP_LINKAGE") != "1":
            self._linkage(thms)
        if self.tier == "thorough" and self.proof_ok and os.environ.get("VERIF_SKIP_LEANCHECKER") != "1":
            with LakeLock():
                rc, out = _sh(["lake", "env", "leanchecker", *props_modules], cwd=LEAN_DIR, timeout=1800)
            self.extra_cov["leanchecker"] = "ok" if rc == 0 else f"exit {rc}: {out[-500:]}"
            if rc != 0:
                self.proof_ok = False
                self.broken_obligations.append("leanchecker rejected a Props module")

    def _linkage(self, thms: list[tuple[str, str]]) -> None:
        """Linkage audit: a theorem counts as an obligation of the check only when its STATEMENT mentions a definition the
        compiled driver runs (the executable model the correspondence compares with the real code) or one regenerated from
        /repo's source by a translator.  A theorem about definitions that neither the driver nor a translator reaches says
        nothing about the code: it is listed in the evidence (`untied_theorems`) and NOT counted."""
        tpl = (Path(__file__).resolve().parent / "linkage_template.lean").read_text()
        roots = [f"Driver.{p.stem}.handle" for p in sorted((LEAN_DIR / "Driver").glob("H_*.lean"))]
        body = tpl.replace("--IMPORTS--", "".join(f"import {m}\n" for m in dict.fromkeys(m for m, _ in thms)))
        body = body.replace("--ROOTS--", ", ".join("`" + r for r in roots)).replace("--THMS--", ", ".join("`" + t for _, t in thms))
        f = WORK / f"Linkage_{self.prop}_{os.getpid()}.lean"
        f.write_text(body)
        with LakeLock():
            rc, out = _sh(["lake", "env", "lean", str(f)], cwd=LEAN_DIR)
        f.unlink(missing_ok=True)
        rows = []
        for line in out.splitlines():
            if line.startswith("LINKAGE {"):
                try:
                    rows.append(json.loads(line[len("LINKAGE "):]))
                except ValueError:
                    pass
        if rc != 0 or len(rows) != len(thms):
            self.notes.append(f"linkage audit did not run (exit {rc}): {out[-300:]}")
            return
        untied = [r["theorem"] for r in rows if not r.get("found") or (r["tied"] == 0 and r["generated"] == 0)]
        self.extra_cov["linkage"] = {
            "rule": "per theorem: project-local definitions reachable from its statement (not through proofs); tied = run by a "
                    "driver handler, generated = regenerated from /repo's source this run, spec = specification-only vocabulary",
            "driver_handlers": roots,
            "theorems": {r["theorem"]: {"tied": r.get("tied", 0), "generated": r.get("generated", 0), "spec_only": r.get("spec", [])}
                         for r in rows},
        }
        self.extra_cov["untied_theorems"] = untied
        if untied:
            self.notes.append(f"{len(untied)} theorem(s) mention no definition the driver runs or a translator regenerates; "
                              f"they are not counted as obligations: {untied}")
            self.theorems = [t for t in self.theorems if t not in untied]
            self.obligations -= len(untied)
            self.discharged = max(0, self.discharged - len(untied))

    # ------------------------------------------------------------------ counting
    def count(self, case, shape: str = "", nontrivial: bool = True) -> None:
        self.evaluations += 1
        if shape:
            self.hist[shape] = self.hist.get(shape, 0) + 1
        if nontrivial:
            self.distinct.add(hashlib.sha1(canon(case).encode()).hexdigest())
        if len(self.samples) < 3 or (self.evaluations in (10, 100, 1000) and len(self.samples) < 6):
            self.samples.append(case)

    # ------------------------------------------------------------------ verdicts
    def judge(self, case, R, S, M=None, finding: str | None = None, what: str = "") -> str:
        """Apply the verdict rule to one observation; returns 'ok'|'finding'|'violation'."""
        if canon(R) == canon(S):
            if finding and finding in self.known:
                self.findings_fixed_seen.add(finding)
            if M is not None and canon(R) != canon(M):
                self.add_drift(case, R, M, what)
            return "ok"
        if finding and finding in self.known and (M is None or canon(R) == canon(M)):
            self.findings_seen.setdefault(finding, {"case": case, "R": R, "S": S, "what": what})
            return "finding"
        self.violations.append({"case": case, "R": R, "S": S, "M": M, "what": what, "finding_class": finding})
        return "violation"

    def add_drift(self, case, R, M, what: str = "") -> None:
        if len(self.drift) < 50:
            self.drift.append({"case": case, "R": R, "M": M, "what": what})
        else:
            self.drift.append({})

    def violation(self, case, detail, what: str = "") -> None:
        self.violations.append({"case": case, "detail": detail, "what": what})

    def finding(self, fid: str, case, detail="") -> bool:
        """Record an occurrence of a listed finding; False if it is not listed (caller must raise a violation)."""
        if fid in self.known:
            self.findings_seen.setdefault(fid, {"case": case, "what": detail})
            return True
        return False

    # ------------------------------------------------------------------ finish
    def _write_replay(self, payload: dict) -> Path:
        d = ROOT / "replays"
        d.mkdir(exist_ok=True)
        h = hashlib.sha1(canon(payload).encode()).hexdigest()[:12]
        p = d / f"{self.prop}-{h}.json"
        payload = dict(payload, property=self.prop, seed=self.seed, tier=self.tier,
                       replay_cmd=f"python3 run.py --prop {self.prop} --replay {p.relative_to(ROOT)}")
        p.write_text(json.dumps(payload, indent=1, default=str))
        return p

    def finish(self) -> int:
        lines = []
        for fid, w in sorted(self.findings_seen.items()):
            e = self.known[fid]
            lines.append(f"KNOWN-FINDING: property={self.prop} {fid} {e['what']} [witness: {canon(w.get('case'))[:200]}]")
        for fid in sorted(self.findings_fixed_seen - set(self.findings_seen)):
            lines.append(f"note: listed finding {fid} no longer reproduces on the inputs explored (treated as repaired, not as drift)")
        rc = 0
        replay = None
        if self.violations:
            v = min(self.violations, key=lambda v: len(canon(v)))
            if self.shrinker is not None and "case" in v:
                try:
                    small = self.shrinker(v["case"])
                    if small is not None and len(canon(small)) < len(canon(v["case"])):
                        v = dict(v, case=small, shrunk_from=v["case"])
                except Exception as e:  # noqa: BLE001
                    self.notes.append(f"shrinker failed: {e!r}")
            replay = self._write_replay({"kind": "failing-input", **v})
            lines.append(f"VIOLATION property={self.prop} replay={replay}")
            rc = 1
        elif not self.proof_ok or self.drift:
            payload = {
                "kind": "no-failing-input-found",
                "broken_obligations": self.broken_obligations,
                "model_drift_count": len(self.drift),
                "first_drift": next((d for d in self.drift if d), None),
                "proof_log_tail": self.proof_log[-3000:],
                "explored": self.evaluations,
            }
            replay = self._write_replay(payload)
            lines.append(f"VIOLATION property={self.prop} replay={replay} no-failing-input-found")
            rc = 1
        wall = time.time() - self.t0
        cov = {
            "obligations": max(self.obligations, 1) if self.proof_ok else self.obligations,
            "discharged": self.discharged if self.proof_ok else 0,
            "checker_cmd": self.checker_cmd or "lake build",
            "trusted_base": self.trusted_base,
            "theorems": self.theorems,
            "axioms": self.axioms,
            "evaluations": self.evaluations,
            "distinct_nontrivial": len(self.distinct),
            "rule": self.rule,
            "samples": self.samples[:6] or ["(none)"],
            "input_shapes": dict(sorted(self.hist.items())),
            "exhaustive": self.exhaustive,
            "known_findings_reproduced": sorted(self.findings_seen),
            "model_drift": len(self.drift),
            "broken_obligations": self.broken_obligations,
            "notes": self.notes,
            **self.extra_cov,
        }
        if self.obligations == 0 or not self.proof_ok:
            cov["obligations"] = max(self.obligations, 1)
        ev = {
            "property_id": self.prop,
            "tier": self.tier,
            "seed": self.seed,
            "level": "proof",
            "coverage": cov,
            "assumptions": self.assumptions,
            "wall_s": round(wall, 2),
            "violations": len(self.violations) if self.violations else (1 if rc else 0),
        }
        (ROOT / "evidence").mkdir(exist_ok=True)
        (ROOT / "evidence" / f"{self.prop}.json").write_text(json.dumps(ev, indent=1, default=str))
        for l in lines:
            print(l)
        print(
            f"[{self.prop}] tier={self.tier} seed={self.seed} theorems={self.discharged}/{self.obligations} "
            f"evaluations={self.evaluations} distinct={len(self.distinct)} findings={sorted(self.findings_seen)} "
            f"drift={len(self.drift)} violations={len(self.violations)} wall={wall:.1f}s exit={rc}"
        )
        sys.stdout.flush()
        return rc
