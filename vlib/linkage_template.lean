/- Linkage audit (generated per run by vlib/framework.py): which definitions do the property theorems talk about, and does
   the compiled driver — the executable model the correspondence harness compares with the real code — run them?
   For every theorem: the project-local definitions reachable from its STATEMENT (through definitions, never through
   proofs), split into those reachable from a driver handler (`tied`), those defined in a `Generated` module (regenerated
   from /repo's source each run: tied by the translator) and the rest (`spec`: specification-only vocabulary). -/
import Lean
import Driver.Main
--IMPORTS--
open Lean

namespace LinkageAudit

def localMod (env : Environment) (n : Name) : Option Name :=
  match env.getModuleIdxFor? n with
  | some idx =>
    let m := env.header.moduleNames[idx.toNat]!
    if (`MxlVerif).isPrefixOf m || (`Driver).isPrefixOf m then some m else none
  | none => none

partial def reach (env : Environment) (todo : List Name) (seen : NameSet) : NameSet :=
  match todo with
  | [] => seen
  | n :: rest =>
    if seen.contains n then reach env rest seen else
    let seen := seen.insert n
    match env.find? n with
    | none => reach env rest seen
    | some ci =>
      let (es, extra) : List Expr × List Name := match ci with
        | .defnInfo d => ([d.type, d.value], [])
        | .thmInfo t => ([t.type], [])
        | .inductInfo i => ([i.type], i.ctors)
        | .opaqueInfo o => ([o.type, o.value], [])
        | _ => ([ci.type], [])
      let new := es.foldl (fun acc e => e.getUsedConstants.foldl
        (fun acc c => if (localMod env c).isSome then c :: acc else acc) acc) extra
      reach env (new ++ rest) seen

def userFacing (env : Environment) (n : Name) : Bool :=
  !n.isInternalDetail && (match env.find? n with
    | some (.defnInfo _) => true | some (.inductInfo _) => true | some (.opaqueInfo _) => true | _ => false)
  && (n.toString.splitOn "match_").length == 1

def jsonStrs (l : List String) : String := "[" ++ ", ".intercalate (l.map (fun s => "\"" ++ s ++ "\"")) ++ "]"

def report (roots thms : List Name) : MetaM Unit := do
  let env ← getEnv
  let drv := reach env (roots.filter (fun r => (env.find? r).isSome)) {}
  IO.println s!"LINKAGE-DRIVER {drv.size}"
  for t in thms do
    let some ci := env.find? t | IO.println ("LINKAGE {\"theorem\": \"" ++ toString t ++ "\", \"found\": false}")
    let start := ci.type.getUsedConstants.toList.filter (fun c => (localMod env c).isSome)
    let defs := (reach env start {}).toList.filter (userFacing env)
    let isGen (c : Name) : Bool := match localMod env c with
      | some m => (`MxlVerif.Generated).isPrefixOf m | none => false
    let tied := defs.filter (fun c => drv.contains c)
    let gen := defs.filter (fun c => isGen c && !drv.contains c)
    let spec := defs.filter (fun c => !drv.contains c && !isGen c)
    IO.println ("LINKAGE {\"theorem\": \"" ++ toString t ++ "\", \"found\": true, \"tied\": " ++ toString tied.length
      ++ ", \"generated\": " ++ toString gen.length ++ ", \"spec\": " ++ jsonStrs (spec.map toString) ++ "}")

end LinkageAudit

#eval LinkageAudit.report [--ROOTS--] [--THMS--]
